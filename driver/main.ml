(* Correspondence driver: reads one s-expression per line "(<property> <op> args...)", evaluates the
   extracted Coq model, prints one s-expression per line. *)
open Sexp

let dispatch (v : t) : t =
  match v with
  | L (A "c18" :: args) -> Glue_c18.handle args
  | L (A "c16" :: args) -> Glue_c16.handle args
  | L (A "c02" :: args) -> Glue_c02.handle args
  | L (A "c01" :: args) -> Glue_c01.handle args
  | L (A "c03" :: args) -> Glue_c03.handle args
  | L (A "c11" :: args) -> Glue_c11.handle args
  | L (A "c13" :: args) -> Glue_c13.handle args
  | L (A "c07" :: args) -> Glue_c07.handle args
  | L (A "c05" :: args) -> Glue_c05.handle args
  | L (A "c15" :: args) -> Glue_c15.handle args
  | L (A "c14" :: args) -> Glue_c14.handle args
  | L (A "c10" :: args) -> Glue_c10.handle args
  | L (A "compile" :: args) -> Glue_c99_compile.handle args
  | L (A "report" :: args) -> Glue_c99_report.handle args
  | _ -> raise (Parse_error "unknown property")

let () =
  try
    while true do
      let line = input_line stdin in
      if String.length line > 0 then begin
        let out =
          try to_string (dispatch (parse line))
          with
          | Parse_error m -> to_string (L [A "error"; S m])
          | Not_found -> to_string (L [A "error"; S "not_found"])
          | Failure m -> to_string (L [A "error"; S m])
          | Stack_overflow -> to_string (L [A "error"; S "stack_overflow"])
        in
        print_string out; print_newline ()
      end
    done
  with End_of_file -> ()
