open Sexp
open Model
open Glue_sem

let ob = function Some true -> A "1" | Some false -> A "0" | None -> A "x"

(* (eval <graph> <form> ("node" ...)) -> per node (reported lsat csat compl_ok) ; reported = x when dispatch ran out of fuel *)
let handle (args : t list) : t =
  match args with
  | [A "eval"; g; f; L ns] ->
      let g = graph g and f = form f in
      let fuel = disp_fuel f in
      L (List.map (fun n ->
        let n = sl n in
        L [ ob (model_reported g fuel f n); of_bool (lsat g true f n); of_bool (csat g f n); of_bool (compl_ok g true f n) ]) ns)
  | [A "wf"; f] -> of_bool (wf_form (form f))
  | _ -> raise (Parse_error "c01 op")
