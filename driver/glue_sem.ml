(* conversions shared by the C01 / C02 / ... glue: graphs, paths, atoms, formulas *)
open Sexp
open Model

let rec nat_of_int i = if i <= 0 then O else S (nat_of_int (i - 1))
let rec int_of_nat = function O -> 0 | S n -> 1 + int_of_nat n
let rec pos_of_int i = if i <= 1 then XH else if i land 1 = 0 then XO (pos_of_int (i lsr 1)) else XI (pos_of_int (i lsr 1))
let z_of_int i = if i = 0 then Z0 else if i > 0 then Zpos (pos_of_int i) else Zneg (pos_of_int (- i))
let cl s = chars_of_string s
let sl v = cl (str v)
let of_cl c = Sexp.S (string_of_chars c)

let value = function
  | L [A "s"; x] -> VStr (sl x)
  | L [A "i"; x] -> VInt (z_of_int (int x))
  | L [A "b"; x] -> VBool (bool x)
  | L [A "r"; x] -> VRef (sl x)
  | _ -> raise (Parse_error "value")

let node = function
  | L [A "node"; id; L ps] ->
      { nid = sl id; nprops = List.map (function L [k; L vs] -> (sl k, List.map value vs) | _ -> raise (Parse_error "prop")) ps }
  | _ -> raise (Parse_error "node")

let graph = function
  | L (A "graph" :: ns) -> List.map node ns
  | _ -> raise (Parse_error "graph")

let rec path = function
  | L [A "pred"; iri; inv; tr] -> Pred (sl iri, bool inv, bool tr)
  | L (A "and" :: l) -> And (List.map path l)
  | L (A "or" :: l) -> Or (List.map path l)
  | _ -> raise (Parse_error "path")

let cq = function A "min" -> CMin | A "max" -> CMax | A "exact" -> CExact | _ -> raise (Parse_error "cq")
let nop = function A "ge" -> OGe | A "gt" -> OGt | A "lt" -> OLt | A "le" -> OLe | _ -> raise (Parse_error "nop")
let cop = function A "lt" -> PLt | A "le" -> PLe | A "eq" -> PEq | A "ne" -> PNe | _ -> raise (Parse_error "cop")
let pat = function
  | L [A "exact"; s] -> PatExact (sl s) | L [A "prefix"; s] -> PatPrefix (sl s)
  | L [A "suffix"; s] -> PatSuffix (sl s) | L [A "contains"; s] -> PatContains (sl s)
  | _ -> raise (Parse_error "pat")
let strs = function L l -> List.map sl l | _ -> raise (Parse_error "strs")

let atom = function
  | L [A "count"; q; p; k] -> ACount (cq q, path p, nat_of_int (int k))
  | L [A "length"; q; p; k] -> ALength (cq q, path p, nat_of_int (int k))
  | L [A "in"; p; l] -> AIn (path p, strs l)
  | L [A "containsAll"; p; l] -> AContainsAll (path p, strs l)
  | L [A "containsSome"; p; l] -> AContainsSome (path p, strs l)
  | L [A "num"; o; p; k] -> ANum (nop o, path p, z_of_int (int k))
  | L [A "pattern"; p; r] -> APattern (path p, pat r)
  | L [A "cmp"; o; p; q] -> ACmp (cop o, path p, path q)
  | L [A "datatype"; p; dt] -> ADatatype (path p, sl dt)
  | _ -> raise (Parse_error "atom")

let rec form = function
  | L [A "atom"; a] -> FAtom (atom a)
  | L (A "and" :: l) -> FAnd (List.map form l)
  | L (A "or" :: l) -> FOr (List.map form l)
  | L [A "not"; f] -> FNot (form f)
  | L [A "if"; i; t] -> FIf (form i, form t, None)
  | L [A "if"; i; t; e] -> FIf (form i, form t, Some (form e))
  | L [A "nested"; p; f] -> FNested (QAll, path p, form f)
  | L [A "atLeast"; k; p; f] -> FNested (QAtLeast (nat_of_int (int k)), path p, form f)
  | L [A "atMost"; k; p; f] -> FNested (QAtMost (nat_of_int (int k)), path p, form f)
  | _ -> raise (Parse_error "form")

let sorted_strs (l : char list list) : t =
  L (List.map (fun s -> Sexp.S s) (List.sort compare (List.map string_of_chars l)))
