(* C05: (c05 flatten <doc>) -> canonical indexed graph: ((id ((prop (val ...)) ...)) ...) sorted *)
open Sexp
open Model
open Glue_sem

let sid = function
  | L [A "abs"; i] -> IAbs (sl i)
  | L [A "compact"; p; l] -> ICompact (sl p, sl l)
  | L [A "rel"; s] -> IRel (sl s)
  | L [A "vocab"; s] -> IVocab (sl s)
  | _ -> raise (Parse_error "sid")
let rec sval = function
  | L [A "s"; x] -> SStr (sl x)
  | L [A "i"; x] -> SInt (z_of_int (int x))
  | L [A "b"; x] -> SBool (bool x)
  | L [A "ref"; i] -> SRef (sid i)
  | L [A "embed"; n] -> SEmbed (snode n)
  | _ -> raise (Parse_error "sval")
and snode = function
  | L [A "node"; i; L (A "types" :: ts); L (A "props" :: ps)] ->
      SNode (sid i, List.map sid ts, List.map (function L [p; L (A "vals" :: vs)] -> (sid p, List.map sval vs) | _ -> raise (Parse_error "prop")) ps)
  | _ -> raise (Parse_error "snode")
let doc = function
  | L [A "doc"; L (A "ctx" :: c); b; L (A "nodes" :: ns)] ->
      { d_ctx = List.map (function L [p; n] -> (sl p, sl n) | _ -> raise (Parse_error "ctx")) c; d_base = sl b; d_nodes = List.map snode ns }
  | _ -> raise (Parse_error "doc")

let rec int_of_pos = function XH -> 1 | XO p -> 2 * int_of_pos p | XI p -> 2 * int_of_pos p + 1
let int_of_z = function Z0 -> 0 | Zpos p -> int_of_pos p | Zneg p -> - (int_of_pos p)
let value_canon = function
  | VStr s -> "s:" ^ string_of_chars s
  | VInt z -> "i:" ^ string_of_int (int_of_z z)
  | VBool b -> "b:" ^ (if b then "true" else "false")
  | VRef x -> "r:" ^ string_of_chars x

let handle (args : t list) : t =
  match args with
  | [A "flatten"; d] ->
      let g = flatten (doc d) in
      let nodes = List.map (fun n ->
        let props = List.map (fun (p, vs) -> (string_of_chars p, List.sort compare (List.map value_canon vs))) n.nprops in
        (string_of_chars n.nid, List.sort compare props)) g in
      L (List.map (fun (id, props) -> L [Sexp.S id; L (List.map (fun (p, vs) -> L [Sexp.S p; L (List.map (fun v -> Sexp.S v) vs)]) props)]) (List.sort compare nodes))
  | _ -> raise (Parse_error "c05 op")
