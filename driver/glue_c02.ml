open Sexp
open Model
open Glue_sem

(* (eval <graph> <path> ("node" ...)) -> per node ((model strings count nodes mixed) (spec strings count nodes)) *)
let handle (args : t list) : t =
  match args with
  | [A "eval"; g; p; L ns] ->
      let g = graph g and p = path p in
      L (List.map (fun n ->
        let n = sl n in
        let vals = model_values g p false n in
        L [ L [sorted_strs (model_strings g p n); of_int (int_of_nat (model_count g p n)); sorted_strs (model_nodes g p n); of_bool (mixed_final vals)];
            L [sorted_strs (spec_strings g p n); of_int (int_of_nat (spec_count g p n)); sorted_strs (spec_nodes g p n)] ]) ns)
  (* (rule-lines <path> "v") -> (clauses-of-the-values-rule clauses-of-the-nodes-rule), a clause = ("line" ...)   PathGen.path_rule_lines *)
  | [A "rule-lines"; p; v] ->
      let p = path p and v = sl v in
      let enc cls = L (List.map (fun c -> L (List.map of_cl c)) cls) in
      L [enc (path_rule_lines p false v); enc (path_rule_lines p true v)]
  | _ -> raise (Parse_error "c02 op")
