open Sexp
open Model
open Glue_sem

(* (eval <graph> <path> ("node" ...)) -> per node ((model strings count nodes mixed) (spec strings count nodes)) *)
let handle (args : t list) : t =
  match args with
  | [A "eval"; g; p; L ns] ->
      let g = graph g and p = path p in
      L (List.map (fun n ->
        let n = sl n in
        let vals = model_values g p false n in
        L [ L [sorted_strs (model_strings g p n); of_int (int_of_nat (model_count g p n)); sorted_strs (model_nodes g p n); of_bool (mixed_final vals)];
            L [sorted_strs (spec_strings g p n); of_int (int_of_nat (spec_count g p n)); sorted_strs (spec_nodes g p n)] ]) ns)
  | _ -> raise (Parse_error "c02 op")
