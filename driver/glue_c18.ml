open Sexp
open Model

let rec nat_of_int i = if i <= 0 then O else S (nat_of_int (i - 1))

let command = function
  | "validate" -> CValidate | "generate" -> CGenerate | "normalize" -> CNormalize
  | "compile" -> CCompile | "help" -> CHelp | _ -> COther

let lib = function
  | L [A "ok"; t] -> LibOk (chars_of_string (str t))
  | _ -> LibErr

let cell = function
  | A "absent" -> Absent
  | A "dir" -> Dir
  | L [A "file"; w; c] -> File (bool w, chars_of_string (str c))
  | _ -> raise (Parse_error "cell")

let of_cell = function
  | Absent -> A "absent"
  | Dir -> A "dir"
  | File (w, c) -> L [A "file"; of_bool w; S (string_of_chars c)]

let of_exit = function Exit0 -> A "0" | Exit1 -> A "1" | Exit2 -> A "2"
let exit_of = function A "0" -> Exit0 | A "1" -> Exit1 | _ -> Exit2
let outcome = function
  | L [A "out"; so; ex; c] -> { o_stdout = chars_of_string (str so); o_exit = exit_of ex; o_cell = cell c }
  | _ -> raise (Parse_error "outcome")

let handle (args : t list) : t =
  match args with
  | [A "run"; trunc; cmd; nargs; readable; l; c; impl] ->
      (* answer: the model's outcome, and the verdict of the executable spec on the implementation's outcome *)
      let cm = command (str cmd) and na = nat_of_int (int nargs) in
      let o = run (bool trunc) cm na (bool readable) (lib l) (cell c) in
      let ok = spec_run cm na (bool readable) (lib l) (cell c) (outcome impl) in
      L [L [A "out"; S (string_of_chars o.o_stdout); of_exit o.o_exit; of_cell o.o_cell]; of_bool ok]
  | [A "history"; trunc; c; L libs; impl_final] ->
      let libs = List.map lib libs in
      let c0 = cell c in
      let final = run_history (bool trunc) c0 libs in
      let ok = spec_history c0 libs (cell impl_final) in
      L [of_cell final; of_bool ok]
  | _ -> raise (Parse_error "c18 op")
