(* The whole code generator: (compile text (("prefix" "ns") ...) "preamble" <ynode> c0) -> (ok "module text" c1) | error | unsupported
   Elab.compile: the profile parser that keeps what the generator reads, then Compile.module_text; c0 / c1 = value of the
   process-wide name counter before / after. *)
open Sexp
open Model
open Glue_sem

let handle (args : t list) : t =
  match args with
  | [A "text"; L c; pre; y; c0] ->
      (match compile (Glue_c15.ctx c) (sl pre) (Glue_c15.ynode y) (nat_of_int (int c0)) with
       | POk (text, c1) -> L [A "ok"; of_cl text; A (string_of_int (int_of_nat c1))]
       | PError -> A "error"
       | PUnsupported -> A "unsupported")
  (* (compile declarative (ctx) <ynode>) -> 1 | 0 | error | unsupported : no hand-written Rego and every constraint about the variable in
     scope (Compile.profile_scoped, the premise of C07_declarative_profile_bodies_are_safe) *)
  | [A "declarative"; L c; y] ->
      (match declarative (Glue_c15.ctx c) (Glue_c15.ynode y) with
       | POk true -> A "1" | POk false -> A "0" | PError -> A "error" | PUnsupported -> A "unsupported")
  | _ -> raise (Parse_error "compile op")
