(* C07: (c07 names n) -> (("var" "plural") ...) for indices 0..n ; (c07 declared k m) -> ("name" ...)
        (c07 pattern-literal "regex") -> "literal"   Escape.pattern_literal ; (c07 set-literal ("v" ...)) -> "literal"   Escape.string_set_literal *)
open Sexp
open Model
open Glue_sem

let handle (args : t list) : t =
  match args with
  | [A "names"; n] ->
      let n = int n in
      L (List.init (n + 1) (fun i -> let v = var_name (nat_of_int i) in L [of_cl v; of_cl (plural v)]))
  | [A "declared"; k; m] ->
      L (List.map of_cl (declared (nat_of_int (int k)) (nat_of_int (int m)) (cl "matches")))
  | [A "pattern-literal"; p] -> of_cl (pattern_literal (sl p))
  | [A "set-literal"; L vs] -> of_cl (string_set_literal (List.map sl vs))
  (* (rule-lines level x class name (snippet ...) ("iri" ...) "message as written") -> ("line" ...)      RuleGen.rule_lines
     snippet = (count src rule n per-value negated cond k cid tpath) | (pattern src rule n negated "pattern" "shown" tpath)
             | (datatype src rule n negated dt tpath) | (numeric src rule n negated cid op "k" tpath) | (in src rule n1 n2 negated ("v" ...) tpath) | (contains all src rule n1 n2 negated ("v" ...) tpath) | (cmp srcA ruleA srcB ruleB negated cid op tpath) *)
  | [A "rule-lines"; level; x; cls; name; L snips; L iris; msg] ->
      let x' = sl x in
      let b v = (match v with A "1" -> true | A "true" -> true | _ -> false) in
      let snip = function
        | L [A "count"; src; rule; n; pv; neg; cond; k; cid; tp] ->
            count_snippet x' (sl src) (sl rule) (nat_of_int (int n)) (b pv) (b neg) (sl cond) (nat_of_int (int k)) (sl cid) (sl tp)
        | L [A "pattern"; src; rule; n; neg; pat; shown; tp] ->
            pattern_snippet x' (sl src) (sl rule) (nat_of_int (int n)) (b neg) (pattern_literal (sl pat)) (sl shown) (sl tp)
        | L [A "datatype"; src; rule; n; neg; dt; tp] ->
            datatype_snippet x' (sl src) (sl rule) (nat_of_int (int n)) (b neg) (sl dt) (sl tp)
        | L [A "numeric"; src; rule; n; neg; cid; op; kt; tp] ->
            numeric_snippet x' (sl src) (sl rule) (nat_of_int (int n)) (b neg) (sl cid) (sl op) (sl kt) (sl tp)
        | L [A "in"; src; rule; n1; n2; neg; L vals; tp] ->
            in_snippet x' (sl src) (sl rule) (nat_of_int (int n1)) (nat_of_int (int n2)) (b neg) (List.map sl vals) (sl tp)
        | L [A "contains"; all; src; rule; n1; n2; neg; L vals; tp] ->
            contains_snippet (b all) x' (sl src) (sl rule) (nat_of_int (int n1)) (nat_of_int (int n2)) (b neg) (List.map sl vals) (sl tp)
        | L [A "cmp"; sa; ra; sb; rb; neg; cid; op; tp] ->
            cmp_snippet x' (sl sa) (sl ra) (sl sb) (sl rb) (b neg) (sl cid) (sl op) (sl tp)
        | _ -> raise (Parse_error "c07 snippet") in
      L (List.map of_cl (rule_lines (sl level) x' (sl cls) (paste_name (sl name)) (List.map snip snips) (List.map sl iris) (paste_message (sl msg))))
  | _ -> raise (Parse_error "c07 op")
