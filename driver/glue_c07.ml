(* C07: (c07 names n) -> (("var" "plural") ...) for indices 0..n ; (c07 declared k m) -> ("name" ...)
        (c07 pattern-literal "regex") -> "literal"   Escape.pattern_literal ; (c07 set-literal ("v" ...)) -> "literal"   Escape.string_set_literal *)
open Sexp
open Model
open Glue_sem

let handle (args : t list) : t =
  match args with
  | [A "names"; n] ->
      let n = int n in
      L (List.init (n + 1) (fun i -> let v = var_name (nat_of_int i) in L [of_cl v; of_cl (plural v)]))
  | [A "declared"; k; m] ->
      L (List.map of_cl (declared (nat_of_int (int k)) (nat_of_int (int m)) (cl "matches")))
  | [A "pattern-literal"; p] -> of_cl (pattern_literal (sl p))
  | [A "set-literal"; L vs] -> of_cl (string_set_literal (List.map sl vs))
  | _ -> raise (Parse_error "c07 op")
