(* C15: (c15 expand (("prefix" "ns") ...) "iri") -> ("expanded") | ()
        (c15 verdict (("prefix" "ns") ...) <ynode> <graph>) -> (ok ("level|name|focus" ...)) | error | unsupported *)
open Sexp
open Model
open Glue_sem

let rec ynode = function
  | L [A "scalar"; t; v] -> YScalar (sl t, sl v)
  | L (A "map" :: es) -> YMap (List.map (function L [k; v] -> (sl k, ynode v) | _ -> raise (Parse_error "entry")) es)
  | L (A "seq" :: is) -> YSeq (List.map ynode is)
  | _ -> raise (Parse_error "ynode")
let ctx l = List.map (function L [p; n] -> (sl p, sl n) | _ -> raise (Parse_error "ctx")) l
let level_name = function Violation -> "violation" | Warning -> "warning" | Info -> "info"

let handle (args : t list) : t =
  match args with
  | [A "expand"; L c; iri] ->
      (match expand_compact (ctx c) (sl iri) with Some s -> L [of_cl s] | None -> L [])
  | [A "verdict"; L c; y; g] ->
      (match verdict (ctx c) (ynode y) (graph g) with
       | POk l -> L [A "ok"; L (List.map (fun s -> Sexp.S s) (List.sort_uniq compare (List.map (fun ((lv, n), f) -> level_name lv ^ "|" ^ string_of_chars n ^ "|" ^ string_of_chars f) l)))]
       | PError -> A "error"
       | PUnsupported -> A "unsupported")
  | _ -> raise (Parse_error "c15 op")
