(* C15: (c15 expand (("prefix" "ns") ...) "iri") -> ("expanded") | () *)
open Sexp
open Model
open Glue_sem

let handle (args : t list) : t =
  match args with
  | [A "expand"; L ctx; iri] ->
      let ctx = List.map (function L [p; n] -> (sl p, sl n) | _ -> raise (Parse_error "ctx")) ctx in
      (match expand_compact ctx (sl iri) with Some s -> L [of_cl s] | None -> L [])
  | _ -> raise (Parse_error "c15 op")
