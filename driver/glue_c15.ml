(* C15: (c15 expand (("prefix" "ns") ...) "iri") -> ("expanded") | ()
        (c15 verdict (("prefix" "ns") ...) <ynode> <graph>) -> (ok (("level" "name" "focus" "message template") ...)) | error | unsupported
        (c15 respelled (("prefix" "ns") ...) <ynode> <ynode>) -> 1 | 0   YamlRespell.respell_doc_b: same shape, compact IRIs spelled differently but expanding alike
        (c15 related <ynode> <ynode>) -> 1 | 0      YamlRewrite.related: the second tree is a key / free-list reordering of the first *)
open Sexp
open Model
open Glue_sem

let rec ynode = function
  | L [A "scalar"; t; v] -> YScalar (sl t, sl v)
  | L (A "map" :: es) -> YMap (List.map (function L [k; v] -> (sl k, ynode v) | _ -> raise (Parse_error "entry")) es)
  | L (A "seq" :: is) -> YSeq (List.map ynode is)
  | _ -> raise (Parse_error "ynode")
let ctx l = List.map (function L [p; n] -> (sl p, sl n) | _ -> raise (Parse_error "ctx")) l
let level_name = function Violation -> "violation" | Warning -> "warning" | Info -> "info"

let handle (args : t list) : t =
  match args with
  | [A "expand"; L c; iri] ->
      (match expand_compact (ctx c) (sl iri) with Some s -> L [of_cl s] | None -> L [])
  | [A "verdict"; L c; y; g] ->
      (match verdict (ctx c) (ynode y) (graph g) with
       | POk l -> L [A "ok"; L (List.map (fun (a, b, c, d) -> L [Sexp.S a; Sexp.S b; Sexp.S c; Sexp.S d])
                               (List.sort_uniq compare (List.map (fun (((lv, n), f), m) -> (level_name lv, string_of_chars n, string_of_chars f, string_of_chars m)) l)))]
       | PError -> A "error"
       | PUnsupported -> A "unsupported")
  | [A "respelled"; L c; y; y'] -> if respell_doc_b (ctx c) (ynode y) (ynode y') then A "1" else A "0"
  | [A "related"; y; y'] -> if related (ynode y) (ynode y') then A "1" else A "0"
  | _ -> raise (Parse_error "c15 op")
