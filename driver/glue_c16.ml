open Sexp
open Model

let rec of_path = function
  | Pred (iri, inv, tr) -> L [A "pred"; S (string_of_chars iri); of_bool inv; of_bool tr]
  | And l -> L (A "and" :: List.map of_path l)
  | Or l -> L (A "or" :: List.map of_path l)

let of_parsed = function
  | Null -> L [A "null"]
  | Accept p -> L [A "accept"; of_path p]
  | Reject -> L [A "reject"]
  | Exhausted -> L [A "exhausted"]

(* (parse <anchored> "string") -> (<model with the flag of the source> <specification: anchored>) *)
let handle (args : t list) : t =
  match args with
  | [A "parse"; anchored; s] ->
      let cs = chars_of_string (str s) in
      let fuel = default_fuel cs in
      let spec = parse_path_with true fuel cs in
      let model = if bool anchored then spec else parse_path_with false fuel cs in
      L [of_parsed model; of_parsed spec]
  | _ -> raise (Parse_error "c16 op")
