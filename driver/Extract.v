(* Extraction of the executable models to OCaml for the correspondence driver.
   Only the standard directive files ExtrOcamlBasic and ExtrOcamlString are loaded; nat/N/Z/positive
   stay the extracted inductive datatypes; no Extract Constant / Extract Inductive of our own.
   Run in this directory:  coqc -Q ../coq ACV Extract.v   (writes model.ml / model.mli here). *)
From Coq Require Extraction.
From Coq Require Import ExtrOcamlBasic ExtrOcamlString.
From ACV Require Import Model.Cli Model.Peg Model.PathGrammar Model.Graph Model.PathSem Model.Dnf Model.Rules Model.Report Model.Pipeline Model.Escape Model.Lexical Model.Names Model.JsonLd Model.Yaml Model.ProfileParser Model.YamlRewrite Model.YamlRespell Model.Interleave Model.PathGen Model.RuleGen Model.Compile Model.Elab Model.ReportJson.
Extraction Language OCaml.
Extraction "model.ml" Cli.run Cli.run_history Cli.last_ok Cli.spec_run Cli.spec_history
  PathGrammar.parse_path_with PathGrammar.default_fuel
  PathSem.model_strings PathSem.model_count PathSem.model_nodes PathSem.model_values PathSem.mixed_final
  PathSem.spec_strings PathSem.spec_count PathSem.spec_nodes
  Rules.model_reported Rules.lsat Rules.csat Rules.compl_ok Rules.disp_fuel Rules.wf_form Graph.targets
  Report.build_report Report.spec_report Report.ids Report.wf_et Report.report_ids
  Pipeline.run_entry Pipeline.as_coded Pipeline.spec_trace
  Escape.display Escape.rendered Escape.paste_message Escape.message_variables Escape.paste_name Escape.package_name Escape.pattern_literal Escape.string_set_literal
  Lexical.result_location Lexical.dec_n
  Names.var_name Names.plural Names.declared
  JsonLd.flatten JsonLd.denote
  Yaml.expand_compact Yaml.yget
  ProfileParser.verdict ProfileParser.parse_profile YamlRewrite.related YamlRespell.respell_doc_b YamlRespell.verdict_keys
  Interleave.handed PathGen.path_rule_lines RuleGen.rule_lines RuleGen.count_snippet RuleGen.pattern_snippet RuleGen.datatype_snippet RuleGen.numeric_snippet RuleGen.in_snippet RuleGen.contains_snippet RuleGen.cmp_snippet Elab.compile Elab.declarative ReportJson.build_report_text.
