(* C14: (c14 locate <lex_input> ("id" ...)) -> per id (none | (uri l1 c1 l2 c2)) with numbers as decimal strings *)
open Sexp
open Model
open Glue_sem

let entry = function L [e; v] -> { le_element = sl e; le_value = sl v } | _ -> raise (Parse_error "entry")
let locnode = function L [l; L es] -> { ln_location = sl l; ln_elements = List.map sl es } | _ -> raise (Parse_error "locnode")
let input = function
  | L [A "lex"; L ids; L sms; root; L adds] ->
      { li_ids = List.map sl ids;
        li_source_maps = List.map (function L es -> List.map entry es | _ -> raise (Parse_error "sm")) sms;
        li_root = (match root with A "none" -> None | r -> Some (sl r));
        li_additional = List.map locnode adds }
  | _ -> raise (Parse_error "lex input")

let handle (args : t list) : t =
  match args with
  | [A "locate"; inp; L ids] ->
      let inp = input inp in
      L (List.map (fun id ->
        match result_location inp (sl id) with
        | None -> A "none"
        | Some (uri, (((a, b), c), d)) -> L [of_cl uri; of_cl (dec_n a); of_cl (dec_n b); of_cl (dec_n c); of_cl (dec_n d)]) ids)
  | _ -> raise (Parse_error "c14 op")
