(* C10: (c10 handed c t ((tid gen|local) ...)) -> (n ...)   Interleave.handed: the numbers thread t is handed by the schedule
   when the counter starts at c (private states are unit: only the hand-out order matters) *)
open Sexp
open Model
open Glue_sem

let handle (args : t list) : t =
  match args with
  | [A "handed"; c; t; L steps] ->
      let sched = List.map (fun st -> match st with
        | L [tid; A "gen"] -> (nat_of_int (int tid), OGen (fun _ p -> p))
        | L [tid; A "local"] -> (nat_of_int (int tid), OLocal (fun p -> p))
        | _ -> raise (Parse_error "c10 step")) steps in
      L (List.map (fun n -> A (string_of_int (int_of_nat n))) (handed (nat_of_int (int c)) (nat_of_int (int t)) sched))
  | _ -> raise (Parse_error "c10 op")
