(* C04 / C09 / C11 / C17: the pipeline model.
   (c11 run <entry> (<7 outcomes>) (<impl trace>) <impl kind>) -> ((<model trace>) <model kind> spec_ok_on_impl) *)
open Sexp
open Model

let oc = function A "ok" -> OOk | A "err" -> OErr | A "panic" -> OPanic | _ -> raise (Parse_error "oc")
let entry = function
  | A "validate" -> EValidate | A "validateCompiled" -> EValidateCompiled
  | A "compileProfile" -> ECompileProfile | A "compileThenValidate" -> ECompileThenValidate
  | _ -> raise (Parse_error "entry")
let stage = function
  | "ProfileParsing" -> ProfileParsing | "RegoGeneration" -> RegoGeneration | "RegoCompilation" -> RegoCompilation
  | "InputDataParsing" -> InputDataParsing | "InputDataNormalization" -> InputDataNormalization
  | "OpaValidation" -> OpaValidation | "BuildReport" -> BuildReport | _ -> raise (Parse_error "stage")
let stage_name = function
  | ProfileParsing -> "ProfileParsing" | RegoGeneration -> "RegoGeneration" | RegoCompilation -> "RegoCompilation"
  | InputDataParsing -> "InputDataParsing" | InputDataNormalization -> "InputDataNormalization"
  | OpaValidation -> "OpaValidation" | BuildReport -> "BuildReport"
let suffix s suf = let n = String.length s and m = String.length suf in n >= m && String.sub s (n - m) m = suf
let act = function
  | A "close" -> Close
  | A s when suffix s "Start" -> Send (Start (stage (String.sub s 0 (String.length s - 5))))
  | A s when suffix s "Done" -> Send (Done (stage (String.sub s 0 (String.length s - 4))))
  | _ -> raise (Parse_error "act")
let of_act = function
  | Close -> A "close"
  | Send (Start s) -> A (stage_name s ^ "Start")
  | Send (Done s) -> A (stage_name s ^ "Done")
let kind = function A "value" -> KValue | A "error" -> KError | A "escaped" -> KEscaped | _ -> raise (Parse_error "kind")
let of_kind = function KValue -> A "value" | KError -> A "error" | KEscaped -> A "escaped"

let handle (args : t list) : t =
  match args with
  | [A "run"; e; L [a; b; c; d; e5; g; h]; L impl; k] ->
      let f = { f_parse = oc a; f_generate = oc b; f_compile = oc c; f_decode = oc d; f_normalize = oc e5; f_eval = oc g; f_build = oc h } in
      let (t, mk) = run_entry as_coded (entry e) f in
      L [L (List.map of_act t); of_kind mk; of_bool (spec_trace (entry e) (List.map act impl) (kind k))]
  | _ -> raise (Parse_error "c11 op")
