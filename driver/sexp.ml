(* minimal s-expressions: atoms, quoted strings with backslash escapes, lists *)
type t = A of string | S of string | L of t list

exception Parse_error of string

let parse (s : string) : t =
  let n = String.length s in
  let pos = ref 0 in
  let peek () = if !pos < n then Some s.[!pos] else None in
  let rec skip () = match peek () with Some (' ' | '\t' | '\n' | '\r') -> incr pos; skip () | _ -> () in
  let hex c = match c with
    | '0'..'9' -> Char.code c - 48 | 'a'..'f' -> Char.code c - 87 | 'A'..'F' -> Char.code c - 55
    | _ -> raise (Parse_error "hex") in
  let rec value () =
    skip ();
    match peek () with
    | None -> raise (Parse_error "eof")
    | Some '(' -> incr pos; let items = ref [] in
        let rec loop () = skip (); match peek () with
          | Some ')' -> incr pos
          | None -> raise (Parse_error "unclosed")
          | _ -> items := value () :: !items; loop () in
        loop (); L (List.rev !items)
    | Some '"' -> incr pos; let b = Buffer.create 16 in
        let rec loop () = match peek () with
          | None -> raise (Parse_error "unclosed string")
          | Some '"' -> incr pos
          | Some '\\' ->
              incr pos;
              (match peek () with
               | Some 'n' -> Buffer.add_char b '\n'; incr pos
               | Some 'r' -> Buffer.add_char b '\r'; incr pos
               | Some 't' -> Buffer.add_char b '\t'; incr pos
               | Some 'x' -> let h = hex s.[!pos+1] * 16 + hex s.[!pos+2] in Buffer.add_char b (Char.chr h); pos := !pos + 3
               | Some c -> Buffer.add_char b c; incr pos
               | None -> raise (Parse_error "escape"));
              loop ()
          | Some c -> Buffer.add_char b c; incr pos; loop () in
        loop (); S (Buffer.contents b)
    | Some _ ->
        let st = !pos in
        let rec loop () = match peek () with
          | Some (' ' | '\t' | '\n' | '\r' | '(' | ')' | '"') | None -> ()
          | _ -> incr pos; loop () in
        loop (); A (String.sub s st (!pos - st))
  in
  let v = value () in v

let escape (s : string) : string =
  let b = Buffer.create (String.length s + 2) in
  Buffer.add_char b '"';
  String.iter (fun c ->
    match c with
    | '"' -> Buffer.add_string b "\\\""
    | '\\' -> Buffer.add_string b "\\\\"
    | '\n' -> Buffer.add_string b "\\n"
    | '\r' -> Buffer.add_string b "\\r"
    | '\t' -> Buffer.add_string b "\\t"
    | c when Char.code c < 32 || Char.code c >= 127 -> Buffer.add_string b (Printf.sprintf "\\x%02x" (Char.code c))
    | c -> Buffer.add_char b c) s;
  Buffer.add_char b '"'; Buffer.contents b

let rec to_string (v : t) : string =
  match v with
  | A a -> a
  | S s -> escape s
  | L l -> "(" ^ String.concat " " (List.map to_string l) ^ ")"

(* conversions shared by the per-property glue *)
let chars_of_string (s : string) : char list = List.init (String.length s) (String.get s)
let string_of_chars (l : char list) : string = let b = Buffer.create 16 in List.iter (Buffer.add_char b) l; Buffer.contents b
let str v = match v with S s | A s -> s | L _ -> raise (Parse_error "expected string")
let int v = match v with A a -> int_of_string a | _ -> raise (Parse_error "expected int")
let bool v = match v with A "1" | A "true" -> true | A "0" | A "false" -> false | _ -> raise (Parse_error "expected bool")
let list v = match v with L l -> l | _ -> raise (Parse_error "expected list")
let of_bool b = A (if b then "1" else "0")
let of_int i = A (string_of_int i)
