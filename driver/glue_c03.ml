(* C03 / C12: BuildReport.  (c03 report <m> <cfg> <impl>) -> (<model canonical> <impl canonical> spec_ok wf_all ids_equal) *)
open Sexp
open Model
open Glue_sem

let tok = function
  | L [A "k"; s] -> TKey (sl s)
  | L [A "i"; n] -> TIdx (nat_of_int (int n))
  | _ -> raise (Parse_error "tok")
let rec et = function
  | L (A "et" :: kids) -> ET (List.map (function L [t; c] -> (tok t, et c) | _ -> raise (Parse_error "et kid")) kids)
  | _ -> raise (Parse_error "et")
let res = function
  | L [A "res"; n; f; m; t] -> { r_name = sl n; r_focus = sl f; r_msg = sl m; r_tree = et t }
  | _ -> raise (Parse_error "res")
let reslist = function L (A _ :: l) -> List.map res l | _ -> raise (Parse_error "reslist")
let engine = function
  | L [A "m"; p; v; w; i] -> { e_profile = sl p; e_violation = reslist v; e_warning = reslist w; e_info = reslist i }
  | _ -> raise (Parse_error "engine")
let cfg = function
  | L [A "cfg"; inc; t; r; l] -> { include_time = bool inc; time_text = sl t; report_iri = sl r; lexical_iri = sl l }
  | _ -> raise (Parse_error "cfg")
let opt_s = function A "none" -> None | s -> Some (sl s)
let out_result = function
  | L [A "o"; sev; id; n; f; m; L ids] ->
      { o_severity = sl sev; o_id = sl id; o_res = { r_name = sl n; r_focus = sl f; r_msg = sl m; r_tree = ET [] }; o_ids = List.map sl ids }
  | _ -> raise (Parse_error "out_result")
let report = function
  | L [A "impl"; cc; rs; ls; pn; conf; date; results] ->
      { rp_conforms_context = bool cc; rp_report_schema = sl rs; rp_lexical_schema = opt_s ls; rp_profile_name = sl pn;
        rp_conforms = bool conf; rp_date_created = opt_s date;
        rp_result = (match results with A "none" -> None | L (A "results" :: l) -> Some (List.map out_result l) | _ -> raise (Parse_error "results")) }
  | _ -> raise (Parse_error "report")

let os = function None -> A "none" | Some c -> of_cl c
let canon (r : report) : t =
  let results = match r.rp_result with None -> A "none" | Some l ->
    L (A "results" :: List.map (fun o -> L [of_cl o.o_severity; of_cl o.o_id; of_cl o.o_res.r_name; of_cl o.o_res.r_focus; of_cl o.o_res.r_msg;
                                         sorted_strs o.o_ids]) l) in
  L [of_bool r.rp_conforms_context; of_cl r.rp_report_schema; os r.rp_lexical_schema; of_cl r.rp_profile_name;
     of_bool r.rp_conforms; os r.rp_date_created; results]

let handle (args : t list) : t =
  match args with
  | [A "report"; m; c; impl] ->
      let m = engine m and c = cfg c and impl = report impl in
      let model = build_report m c in
      let wf = List.for_all (fun r -> wf_et r.r_tree) (m.e_violation @ m.e_warning @ m.e_info) in
      L [canon model; canon impl; of_bool (spec_report m c impl); of_bool wf]
  | _ -> raise (Parse_error "c03 op")
