(* C13: (c13 message "m" (("var" "value") ...)) -> ("display" "pasted" ("vars"...)) ; (c13 name "s") -> ("pasted" "package") *)
open Sexp
open Model
open Glue_sem

let handle (args : t list) : t =
  match args with
  | [A "message"; m; L vals] ->
      let tbl = List.map (function L [k; v] -> (str k, sl v) | _ -> raise (Parse_error "val")) vals in
      let value_of v = try List.assoc (string_of_chars v) tbl with Not_found -> cl "null" in
      let m = sl m in
      let ok = match rendered m value_of with Some r -> r = display m value_of | None -> false in
      L [of_cl (display m value_of); of_cl (paste_message m); L (List.map of_cl (message_variables m)); of_bool ok]
  | [A "name"; s] -> L [of_cl (paste_name (sl s)); of_cl (package_name (sl s))]
  | _ -> raise (Parse_error "c13 op")
