#!/bin/bash
# builds the OCaml correspondence driver from the extracted model; output: /verif/.build/driver
set -e
cd "$(dirname "$0")"
mkdir -p ../.build
coqc -Q ../coq ACV Extract.v > ../.build/extract.log 2>&1 || { cat ../.build/extract.log; exit 1; }
ocamlfind ocamlopt -O2 -w -a -package str -linkpkg model.mli model.ml sexp.ml glue_sem.ml glue_c*.ml main.ml -o ../.build/driver 2> ../.build/ocaml.log \
 || ocamlfind ocamlopt -w -a -package str -linkpkg model.mli model.ml sexp.ml glue_sem.ml glue_c*.ml main.ml -o ../.build/driver
rm -f *.cmi *.cmx *.o *.cmo
