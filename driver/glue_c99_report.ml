(* BuildReport down to the bytes: (report text <json> include "time text" "report iri" "lexical iri") -> (ok "report") | panic
   <json> = (null) | (bool 0|1) | (num "text") | (str "s") | (arr <json> ...) | (obj ("key" <json>) ...)       ReportJson.build_report_text *)
open Sexp
open Model
open Glue_sem

let rec json = function
  | L [A "null"] -> JNull
  | L [A "bool"; b] -> JBool (match b with A "1" -> true | _ -> false)
  | L [A "num"; t] -> JNum (sl t)
  | L [A "str"; s] -> JStr (sl s)
  | L (A "arr" :: items) -> JArr (List.map json items)
  | L (A "obj" :: fields) -> JObj (List.map (function L [k; v] -> (sl k, json v) | _ -> raise (Parse_error "field")) fields)
  | _ -> raise (Parse_error "json")

let handle (args : t list) : t =
  match args with
  | [A "text"; m; inc; tt; ri; li] ->
      let c = { include_time = (match inc with A "1" -> true | _ -> false); time_text = sl tt; report_iri = sl ri; lexical_iri = sl li } in
      (match build_report_text (json m) c with
       | Some text -> L [A "ok"; of_cl text]
       | None -> A "panic")
  | _ -> raise (Parse_error "report op")
