#!/bin/bash
# Builds the framework offline from files on disk: Go translator+harness (against /repo), the Coq
# development (full .vo), the extracted OCaml driver.
set -e
cd "$(dirname "$0")/.."
export GOFLAGS=-mod=mod GOPROXY=off GOSUMDB=off GOTOOLCHAIN=local
mkdir -p .build evidence replays
cp /repo/go.sum harness/go.sum
(cd harness && go build -o ../.build/verifh ./cmd/verifh)
.build/verifh facts -repo /repo -out coq/Extracted -json .build/facts.json -for all
(cd coq && coq_makefile -f _CoqProject -o Makefile > /dev/null && make -j16 > ../.build/coq-setup.log 2>&1 || { tail -40 ../.build/coq-setup.log; exit 1; })
driver/build.sh
echo "setup ok"
