#!/bin/bash
# gen/seedconfirm.sh <ID> <mK> <demo-dir-in-repo> "<go test args>" : confirms a seeded change in its scratch
# worktree (/tmp/seed_<ID>): suite green with it, demo fails with it, demo passes without it; then files it
# under /verif/seeded/<ID>_<mK>/.
ID=$1; M=$2; DDIR=$3; ARGS=$4
WT=/tmp/seed_$ID; OUT=/tmp/seed_${ID}_out/$M
export GOFLAGS=-mod=mod GOPROXY=off GOSUMDB=off GOTOOLCHAIN=local
cd $WT || exit 2
git checkout -q -- . && git clean -fdq
git apply $OUT/patch.diff || { echo "patch does not apply"; exit 2; }
go build ./... || { echo "BUILD FAILS with change"; git checkout -q -- .; git clean -fdq; exit 1; }
SUITE=$(go test -vet=off -count=1 ./... 2>&1 | grep -v "no test files" | grep -vc "^ok")
echo "suite_nonok_lines_with_change=$SUITE"
cp $OUT/*_test.go $WT/$DDIR/ 2>/dev/null
go test -vet=off -count=1 $ARGS > /tmp/seedconfirm_with.log 2>&1; WITH=$?
echo "demo_exit_with_change=$WITH"
git apply -R $OUT/patch.diff
go test -vet=off -count=1 $ARGS > /tmp/seedconfirm_without.log 2>&1; WITHOUT=$?
echo "demo_exit_without_change=$WITHOUT"
git checkout -q -- . && git clean -fdq
if [ "$SUITE" = "0" ] && [ "$WITH" != "0" ] && [ "$WITHOUT" = "0" ]; then
  D=/verif/seeded/${ID}_$M; mkdir -p $D; cp $OUT/patch.diff $OUT/*_test.go $OUT/README.md $D/ 2>/dev/null
  echo "CONFIRMED -> $D"
else
  echo "NOT CONFIRMED"; tail -5 /tmp/seedconfirm_with.log; tail -5 /tmp/seedconfirm_without.log
fi
