#!/usr/bin/env python3
"""Runs every seeded change in /verif/seeded/<ID>_m<k>/ against its check (quick tier) and writes meta.json there:
which property it breaks, what it needs in order to manifest (from its README), how it was confirmed, and how the
check reacts (concrete failing input vs broken tie only)."""
import json, os, re, subprocess, sys
V = os.path.dirname(os.path.dirname(os.path.abspath(__file__)))
props = {json.loads(l)["id"]: json.loads(l) for l in open(os.path.join(V, "properties.jsonl"))}
only = sys.argv[1:]
for d in sorted(os.listdir(os.path.join(V, "seeded"))):
    m = re.match(r"^(C\d\d)_(m\d+)$", d)
    if not m or (only and d not in only):
        continue
    pid, mk = m.groups()
    sd = os.path.join(V, "seeded", d)
    readme = open(os.path.join(sd, "README.md"), errors="replace").read() if os.path.exists(os.path.join(sd, "README.md")) else ""
    title = next((l.strip("# ").strip() for l in readme.split("\n") if l.startswith("#")), d)
    needs = ""
    sec = re.split(r"\n##+ ", readme)
    for s in sec:
        head = s.split("\n", 1)[0].lower()
        if "need" in head or "manifest" in head or "trigger" in head:
            needs = s.split("\n", 1)[1].strip() if "\n" in s else ""
            break
    if not needs:
        mm = re.search(r"\*\*Trigger[^*]*\*\*:?(.*?)(\n- \*\*|\n\n)", readme, re.S)
        needs = mm.group(1).strip() if mm else ""
    p = subprocess.run([os.path.join(V, "gen", "seedtest.sh"), pid, os.path.join(sd, "patch.diff")], stdout=subprocess.PIPE, stderr=subprocess.STDOUT, timeout=3000)
    out = p.stdout.decode()
    vl = re.search(r"violation_lines=(\d+)", out)
    lines = [l for l in out.split("\n") if l.startswith("VIOLATION")]
    concrete = [l for l in lines if "no-failing-input-found" not in l]
    summaries = []
    for l in concrete[:2]:
        mm = re.search(r"replay=(\S+)", l)
        if mm and os.path.exists(mm.group(1)):
            try:
                summaries.append(json.load(open(mm.group(1))).get("summary", "")[:300])
            except Exception:
                pass
    demos = [f for f in os.listdir(sd) if f.endswith("_test.go") or f.endswith(".go")]
    meta = {
        "property": pid,
        "property_title": props[pid]["title"],
        "change": title,
        "needs_in_order_to_manifest": needs[:2500],
        "files": {"patch": "patch.diff", "demonstration": demos, "description": "README.md"},
        "confirmed_by": "gen/seedconfirm.sh in a scratch worktree of /repo (outside /repo and /verif): `go build ./...` and the full suite `go test -vet=off -count=1 ./...` are green with the change, the demonstration fails with the change and passes without it",
        "ran": "gen/seedtest.sh %s seeded/%s/patch.diff  (git -C /repo apply; bin/check %s quick; git -C /repo checkout -- .)" % (pid, d, pid),
        "check_reaction": {
            "violation_lines": int(vl.group(1)) if vl else None,
            "with_concrete_failing_input": len(concrete),
            "no_failing_input_found_only": bool(lines) and not concrete,
            "detected": bool(lines),
            "first_summaries": summaries,
            "last_line": [l for l in out.strip().split("\n") if l.startswith(pid)][-1:] ,
        },
    }
    if "does not apply" in out:
        meta["check_reaction"]["note"] = "the patch no longer applies to the repaired tree"
    json.dump(meta, open(os.path.join(sd, "meta.json"), "w"), indent=1)
    print(d, meta["check_reaction"]["detected"], len(concrete), "concrete", flush=True)
