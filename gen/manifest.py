#!/usr/bin/env python3
"""Regenerates MANIFEST.json from the table below (kept in one place so that it stays valid)."""
import json, os
VERIF = os.path.dirname(os.path.dirname(os.path.abspath(__file__)))
props = [json.loads(l) for l in open(os.path.join(VERIF, "properties.jsonl"))]
ids = [p["id"] for p in props]

# id -> (technique, level text, level note, design ref)
CLAIMED = {
 "C18": ("Coq proof over a model of cmd/ (Model.Cli.run meets the executable spec Cli.spec_run for every command, argument count, library result, prior file state and run history) + regenerated facts (OpenFile flags, argument counts) + differential run of the built acv binary against the extracted model",
         "Machine-checked theorems C18_model_meets_spec / C18_history_meets_spec / C18_file / C18_fail quantify over all library outputs, all prior contents of the output path and all finite run histories; the O_TRUNC flag and the accepted argument counts are re-read from cmd/ on every run (tie lemmas C18_tie_*), and the built binary is run on profile x data x prior-state x history cases whose outcomes must satisfy the same executable spec and equal the model's.",
         "Trusted: Coq kernel; OS semantics of open/O_TRUNC/write as modelled by Cli.open_write; library results enter as an oracle value (LibOk text | LibErr); go/ast translator; OCaml extraction (ExtrOcamlBasic, ExtrOcamlString) and glue. dateCreated is normalised before comparison (the CLI uses the wall clock).",
         "DESIGN.md section 5 C18"),
 "C16": ("Coq proof: generic PEG interpreter proved sound and complete for the relational PEG semantics; ParsePath model accepts exactly the whole-string sentences of the grammar literal re-read from peg.go on every run (tie by reflexivity) + exhaustive small-scope differential run of path.ParsePath against the extracted model on sentences, layouts and every single-edit mutant",
         "Theorems C16_accept_is_sentence / C16_sentence_is_accepted / C16_reject_is_not_sentence / C16_no_truncation / C16_structure_unique hold for every string and every fuel; interp_sound / interp_complete hold for every grammar. The grammar, the end-of-input check, the error return and the trim cutset are regenerated from peg.go / parser.go (C16_tie_*). path.ParsePath is run on >100k strings (all sentences <=3 leaves, random layouts, every single-edit mutant of a sample) and must equal the model in outcome and structure; a sample goes through pkg.CompileProfile.",
         "Trusted: Coq kernel; the hand transcription of the .peg actions and parser.go build() as PathGrammar.build (validated by the structure comparison); pigeon's runtime implementing PEG semantics for the node kinds used; fuel adequacy of default_fuel is measured (an Exhausted answer is reported), not proved; translator; extraction.",
         "DESIGN.md section 5 C16"),
 "C02": ("Coq proof by induction over property paths (any nesting of / | ^ ( ), any graph): the clauses the generator emits (model of path.go traverse*/aggregate) compute exactly the denotation composition/union/converse, as a set; counting equals the size of the denotation outside the recorded defect class + regenerated Rego step templates and preamble digest (tie) + differential run of enumerated paths x graphs through pkg.Validate, observed via in/maxCount/nested traces, against the extracted model and the executable denotation",
         "Theorems C02_values / C02_set / C02_strings / C02_nested_nodes / C02_nodes hold for every path, graph and focus node; C02_count_partial holds whenever no node is reached both by a forward and by an inverse final step and C02_count_refuted exhibits the recorded defect (known finding mixed-final-step-dup); C02_precedence is computed through the proved-correct ParsePath model of C16. Every enumerated path with <= 2 leaves (sampled to 5) x hand-made and random graphs is validated by the real library and the three observables must equal both the model and the denotation.",
         "Trusted: Coq kernel; the reading of the Rego step templates and of the preamble helpers nodes_array / nested_nodes / find / search_subjects as PathSem.step_from (measured by the differential run; their text is tied by C02_tie_*); OPA evaluating partial set rules as unions; translator; extraction. Transitive (*) paths and custom (apiExt) properties are not modelled.",
         "DESIGN.md section 5 C02"),
 "C01": ("Coq proof by induction over rules/formulas of any depth and width and any graph: the generator's failure DNF (model of Dispatch / GenerateAnd / GenerateOr / expandBranches / GenerateConditional / nested, through the parser's Negate()) reports a node iff the formula's two-polarity reading fails (C01_literal), which is the classical reading wherever negated atoms are complementary (C01_classical, C01_iff), invariant under logically equivalent rewritings (C01_spelling, C01_rewritings); Dispatch's recursion through Negate is proved terminating (C01_dispatch_terminates) + regenerated snippet templates / preamble digest (tie) + differential run of enumerated skeletons x all truth assignments, wide and/or, quantifier, per-atom and random streams through pkg.Validate against the extracted model and the classical semantics",
         "Theorems C01_literal / C01_classical / C01_iff / C01_results / C01_spelling / C01_rewritings / C01_dispatch_terminates hold for every formula, graph and node; the classical statement carries the boolean hypothesis compl_ok (every atom met under negation has complementary snippets at the nodes where it is evaluated; counts and the quantifiers always do) and C01_classical_refuted_D2 shows it cannot be dropped for the code as it is (known finding neg-value-atom-nonuniform). All formulas with <= 1 connective and a sample with 2 over 3 atoms (two flavours) x 8 assignments, wide and/or over multi-branch operands x 64 assignments, nested/atLeast/atMost k=0..3 over 50 parent/child configurations, every documented atom kind x 74 value configurations x both polarities, and random formulas are validated by the real library; every verdict must equal the extracted model and, where the hypothesis holds, the classical semantics.",
         "Trusted: Coq kernel; the reading of each Rego snippet as Rules.Fpos/Fneg and of the preamble (measured by the atom stream: OPA hoists calls out of `not`, cross-type ordering, regex subset ^lit$ | ^lit | lit$ | lit); integers only (no floats); uniqueValues, rego/regoModule, exactly, moreThan* are not in the formula language of the model; translator; extraction.",
         "DESIGN.md section 5 C01"),
 "C03": ("Coq proof over a model of BuildReport / ValidationReportNode / buildContext for arbitrary result lists and configurations (conforms iff no Violation-severity result, severities by list, result key and context variant iff non-empty, header, configuration changes nothing else) and over the model of parseValidationLevel + rule heads (every result traced to a level its validation is listed under) + regenerated facts from report.go / report_nodes.go (conforms expression, loops, guards, date format) + differential run: every distribution of 3 validations over the levels x graphs x 8 configurations x 3 clocks (UTC and zoned) through pkg.ValidateCompiledWithConfiguration against expected results by construction, the extracted model and the executable report specification",
         "Theorems C03_conforms_iff / C03_severities / C03_warnings_infos_never_change_conforms / C03_result_key_iff / C03_header / C03_config_changes_nothing_else hold for all result lists and configurations; C03_severity_of_level for all profiles, graphs and configurations; C03_model_meets_spec shows the executable specification evaluated on the implementation's reports is met by the model. The harness enumerates 7^3 listings (sample of 70 in the quick tier) x 3 graphs x 8 configurations.",
         "Trusted: Coq kernel; OPA returning each rule head's set as the corresponding list; encoding/json; time.Format(RFC3339) (measured: dateCreated must parse to the configured instant); translator; extraction. The JSON encoder and key order are below the model.",
         "DESIGN.md section 5 C03"),
 "C12": ("Coq proof: the positional @id scheme of defineIdRecursively gives pairwise different ids to all typed nodes of a result tree of any depth and width (injectivity of the key/index token join, by induction over trees), and to the whole document (three fixed nodes + all results of all levels); results are traced to profile and graph + regenerated id formats / document strings (tie) + differential run: reports with several traces, sub-results to depth 7, dangling links, locations are parsed; every typed node's @id must be unique and equal the model's, focus nodes must be graph nodes, names profile validations, messages and traces non-empty",
         "Theorems C12_ids_unique_in_result / C12_ids_unique / C12_positional_ids_injective hold for every result tree and result lists of any size under the stated shape condition wf_et (keys without underscore that are not numerals, sibling tokens distinct i.e. at most one array-valued field with typed elements), C12_ids_refuted_two_arrays shows the condition is needed; C12_focus_grounded / C12_validate_ids_unique hold for every profile and graph of the model. The harness checks the same predicates on real reports and the id lists against the extracted model.",
         "Trusted: Coq kernel; the shape of the objects error()/trace() build (measured: the harness derives the typed tree from the real report and checks wf_et on it); non-emptiness of messages and traces is checked on real reports only (no theorem); translator; extraction.",
         "DESIGN.md section 5 C12"),
 "C04": ("Coq proof over the pipeline model (control flow of validate.go / process_input.go with stage oracles): for every fault assignment (3^7, enumerated and checked inside Coq) and, at the function level, for all oracles, texts, compiled profiles, documents and configurations, data that cannot be decoded or that JSON-LD processing rejects (error or panic) never yields a report from a validating entry point + regenerated control-flow skeletons (tie) + differential run: not-JSON texts, encodings, truncations of valid documents, JSON-LD-rejected documents x four entry points and the acv binary, alone and in histories after a readable document",
         "Theorems C04_no_report (all entry points x all fault assignments), C04_validate_compiled and C04_validate (all stage oracles, inputs, configurations).",
         "Trusted: Coq kernel; `no complete JSON value can be read` is json.Decoder.Decode failing and `JSON-LD rejects` is json-gold's Flatten or Index panicking/erroring (oracles; which inputs they reject is measured, not proved); translator; extraction.",
         "DESIGN.md section 5 C04"),
 "C09": ("Coq proof over the pipeline model with stage oracles as functions: ValidateWithConfiguration is CompileProfile followed by ValidateCompiledWithConfiguration (same result, events = profile stages ++ data stages), and for every history of documents through one compiled profile each result equals the fresh validation from the profile text (induction-free map equality; position irrelevance) + regenerated skeletons (tie) + differential run: random histories through one compiled profile with other compilations interleaved, byte-compared with fresh validations made before and after",
         "Theorems C09_equiv / C09_events / C09_reusable / C09_position_irrelevant hold for all oracles, texts, documents, configurations and histories. The part of the property that lives in the Go heap (in-place mutation of result maps, shared default context, engine caches, the Genvar counter) cannot be exhibited by a model whose stages are pure functions; it is decided by the histories run against the real library.",
         "PARTIAL: the theorems cover the control-flow skeleton with pure stage oracles; heap aliasing / shared package state are runtime behaviour covered only by the correspondence run. Trusted: Coq kernel; OPA's PreparedEvalQuery.Eval being a function of (query, input); translator; extraction.",
         "DESIGN.md section 5 C09"),
 "C11": ("Coq proof over the pipeline model: for every entry point (Validate*, ValidateCompiled*, CompileProfile, CompileProfile-then-ValidateCompiled) and every fault assignment (3^7 enumerated inside Coq), the events sent are a prefix of the stage order, well-bracketed, the channel is closed exactly once at the end on success and on every failure, CompileProfile closes iff it fails; milestones of a bracketed sequence are one per completed stage with non-negative duration (induction over stage lists) + regenerated control-flow skeletons of all 19 functions involved (tie) + exhaustive differential run over every input-reachable failure point x entry point with a recording consumer",
         "Theorems C11_trace_meets_spec / C11_prefix / C11_bracketed / C11_close_once / C11_compile / C11_sends_are_stage_pairs for all entry points and fault assignments with the explicit premise engine_total (the two engine calls that run without recover do not panic); C11_milestones / C11_milestone_durations for stage lists of any length; C11_refuted_without_recover for the repaired defect.",
         "Trusted: Coq kernel; Go channel semantics (send blocks until received, close once); the premise engine_total (OPA's PrepareForEval and Eval do not panic) is an explicit hypothesis; translator; extraction.",
         "DESIGN.md section 5 C11"),
 "C17": ("Coq proof over the pipeline model with a Panic outcome at every stage: with the recover at the three stage functions no entry point lets a panic escape and the channel is always closed (all entry points x 3^7 fault assignments), the only escape being a panic of the two engine calls (C17_escapes_only_from_engine); ParsePath model total + regenerated skeletons incl. recoverAsError and `defer` sites (tie) + fuzz-style differential run under recover with a wall-clock bound: failure-point pools, node-less documents must conform, structured mutations and raw bytes through all entry points",
         "Theorems C17_total / C17_escapes_only_from_engine / C17_never_blocks_consumer for all entry points and fault assignments; C17_refuted_without_recover. Termination and panic-freedom of yaml.v3, encoding/json, json-gold and OPA are not provable here: the theorem takes their behaviour as stage outcomes (value / error / panic) and the run observes it.",
         "PARTIAL: library termination, stack exhaustion, OOM and blocking inside libraries are runtime behaviour observed under a wall-clock bound, not proved. Trusted: Coq kernel; Go's recover semantics (a deferred function calling recover directly); translator; extraction.",
         "DESIGN.md section 5 C17"),
}
WIP = "check not built yet in this session (work in progress; see DESIGN.md section 9 for the order of work)"

checks = []
for i in ids:
    if i in CLAIMED:
        tech, text, note, ref = CLAIMED[i]
        checks.append({
            "property_id": i,
            "quick_cmd": "bin/check %s quick" % i,
            "thorough_cmd": "bin/check %s thorough" % i,
            "evidence_file": "evidence/%s.json" % i,
            "replay_cmd_template": "bin/check %s quick --replay {path}" % i,
            "engine": "coq-proof+correspondence",
            "level_claimed": {"category": "proof", "text": text, "design_ref": ref},
            "level_note": note,
            "technique": tech,
        })
manifest = {
 "version": 1,
 "setup_cmd": "bin/setup.sh",
 "hooks": {
  "guard": "verif",
  "enable": "no source hooks are needed: the harness module is named github.com/aml-org/amf-custom-validator/verifh with `replace => /repo`, which lets it import /repo's internal packages; checks rebuild it against /repo's working tree on every run",
  "baseline_off_cmd": "cd /repo && GOFLAGS=-mod=mod GOPROXY=off GOSUMDB=off GOTOOLCHAIN=local go test -vet=off -count=1 ./...",
  "source_commits": [],
  "add_only": True,
 },
 "engines": [
  {"name": "coq-proof+correspondence", "path": "bin/check", "serves_properties": sorted(CLAIMED),
   "kind_free_text": "Coq 8.16.1 development (coq/) whose property theorems are re-checked on every run together with tie lemmas over facts regenerated from /repo by a go/ast translator (harness/facts); the executable model is extracted to OCaml (driver/) and run against the real code by a Go harness (harness/props) that compares projected observables and evaluates the executable specification on the implementation's outputs"},
 ],
 "checks": checks,
 "not_applicable": [{"property_id": i, "reason": WIP} for i in ids if i not in CLAIMED],
 "notes": "All 18 properties are meant to be claimed; entries under not_applicable are only those whose check has not been built yet. Genuine defects repaired in /repo are `fix:` commits listed in known_findings.json (status fixed); unrepaired ones are status finding.",
}
json.dump(manifest, open(os.path.join(VERIF, "MANIFEST.json"), "w"), indent=1)
print("claimed:", sorted(CLAIMED), "unclaimed:", [i for i in ids if i not in CLAIMED])
