#!/bin/bash
# re-runs every claimed check (quick tier) on the unchanged tree so that the committed evidence is current
cd /verif
if [ -n "$(git -C /repo status --porcelain)" ]; then echo "/repo not clean"; exit 2; fi
for id in $(python3 -c "import json;print(' '.join(c['property_id'] for c in json.load(open('MANIFEST.json'))['checks']))"); do
  bin/check $id quick | tail -1
done
