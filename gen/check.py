#!/usr/bin/env python3
"""bin/check <ID> <quick|thorough> [--replay FILE]

One run = (1) rebuild the Go translator+harness against /repo's working tree, (2) regenerate
coq/Extracted/*.v from the sources, (3) re-check Properties/<ID>.v and everything it depends on with
coqc (full .vo), collecting Print Assumptions, (4) run the correspondence harness for <ID> against the
extracted Coq model, (5) write evidence/<ID>.json, print KNOWN-FINDING / VIOLATION lines, exit 0/1.
"""
import fcntl
import json
import os
import re
import subprocess
import sys
import time

VERIF = os.path.dirname(os.path.dirname(os.path.abspath(__file__)))
REPO = os.environ.get("VERIF_REPO", "/repo")
BUILD = os.path.join(VERIF, ".build")
COQ = os.path.join(VERIF, "coq")

GOENV = dict(os.environ, GOFLAGS="-mod=mod", GOPROXY="off", GOSUMDB="off", GOTOOLCHAIN="local")

FORBIDDEN = re.compile(r"\b(Admitted|admit|Axiom|Axioms|Parameter|Parameters|Conjecture|Conjectures|Hypothesis|Hypotheses|Variable|Variables)\b|Unset\s+Guard|bypass_check|Admit\s+Obligations|-type-in-type|-impredicative-set|Unset\s+Universe\s+Checking|Unset\s+Positivity")

# axioms that the Coq standard library itself declares and that a theorem may depend on (each one is
# named in the evidence when it occurs)
STDLIB_AXIOMS = {"functional_extensionality_dep", "proof_irrelevance", "JMeq_eq", "Eq_rect_eq.eq_rect_eq",
                 "eq_rect_eq", "classic", "propositional_extensionality", "ClassicalDedekindReals.sig_forall_dec",
                 "ClassicalDedekindReals.sig_not_dec", "constructive_indefinite_description",
                 "constructive_definite_description", "excluded_middle_informative", "epsilon_statement"}


def run(cmd, cwd=None, env=None, timeout=None):
    p = subprocess.run(cmd, cwd=cwd, env=env, stdout=subprocess.PIPE, stderr=subprocess.STDOUT, timeout=timeout)
    return p.returncode, p.stdout.decode("utf-8", "replace")


def scan_forbidden():
    """Section variables/hypotheses are allowed only inside a Section; everything else in FORBIDDEN never."""
    bad = []
    files = []
    for root, _, names in os.walk(COQ):
        for n in names:
            if n.endswith(".v"):
                files.append(os.path.join(root, n))
    files.append(os.path.join(VERIF, "driver", "Extract.v"))
    for f in files:
        depth = 0
        text = open(f, encoding="utf-8", errors="replace").read()
        text = re.sub(r"\(\*.*?\*\)", lambda m: "\n" * m.group(0).count("\n"), text, flags=re.S)
        for i, line in enumerate(text.split("\n"), 1):
            if re.match(r"\s*Section\s+\w+", line):
                depth += 1
            if re.match(r"\s*End\s+\w+\s*\.", line) and depth > 0:
                depth -= 1
            m = FORBIDDEN.search(line)
            if m:
                word = m.group(0)
                if word in ("Variable", "Variables", "Hypothesis", "Hypotheses") and depth > 0:
                    continue
                bad.append("%s:%d: %s" % (os.path.relpath(f, VERIF), i, word))
    return bad


def theorems_of(vfile):
    text = open(vfile, encoding="utf-8").read()
    text = re.sub(r"\(\*.*?\*\)", "", text, flags=re.S)
    names = re.findall(r"^\s*(?:Theorem|Lemma|Corollary)\s+([A-Za-z0-9_']+)", text, flags=re.M)
    printed = re.findall(r"^\s*Print Assumptions\s+([A-Za-z0-9_'.]+)\s*\.", text, flags=re.M)
    return names, printed


def parse_assumptions(log, printed):
    """Splits coqc output into one block per Print Assumptions, in order."""
    blocks = []
    cur = None
    for line in log.split("\n"):
        if line.startswith("Closed under the global context"):
            blocks.append([])
            cur = None
        elif line.startswith("Axioms:"):
            cur = []
            blocks.append(cur)
        elif cur is not None:
            m = re.match(r"^([A-Za-z0-9_'.]+)\s*:", line)
            if m:
                cur.append(m.group(1))
            elif line.strip() == "" or not line.startswith(" "):
                if line.startswith("COQC") or line.startswith("File "):
                    cur = None
    out = {}
    for i, name in enumerate(printed):
        out[name] = blocks[i] if i < len(blocks) else None
    return out


def main():
    t0 = time.time()
    if len(sys.argv) < 3:
        print("usage: check <ID> <quick|thorough> [--replay FILE]")
        return 2
    pid, tier = sys.argv[1], sys.argv[2]
    tier = os.environ.get("VERIF_TIER", tier) if tier not in ("quick", "thorough") else tier
    if "--replay" in sys.argv:
        path = sys.argv[sys.argv.index("--replay") + 1]
        print(open(path).read())
        print("# replay: re-run `bin/check %s %s` with VERIF_SEED set to the seed in the file name; the file above holds the concrete input, the implementation's output and the model's output" % (pid, tier))
        return 0
    seed = int(os.environ.get("VERIF_SEED", "1") or "1")
    os.makedirs(BUILD, exist_ok=True)
    os.makedirs(os.path.join(VERIF, "evidence"), exist_ok=True)
    os.makedirs(os.path.join(VERIF, "replays", pid), exist_ok=True)
    import glob
    for old in glob.glob(os.path.join(VERIF, "replays", pid, "%s_%s_%d_*" % (pid, tier, seed))):
        try:
            os.remove(old)
        except OSError:
            pass
    lock = open(os.path.join(BUILD, "lock"), "w")
    fcntl.flock(lock, fcntl.LOCK_EX)

    broken = []          # (what, detail) proof obligations / ties that no longer check
    notes = []
    prop_v = os.path.join(COQ, "Properties", pid + ".v")
    names, printed = theorems_of(prop_v)

    # 1. harness + translator, built against the current /repo
    subprocess.run(["cp", os.path.join(REPO, "go.sum"), os.path.join(VERIF, "harness", "go.sum")])
    rc, out = run(["go", "build", "-o", os.path.join(BUILD, "verifh"), "./cmd/verifh"], cwd=os.path.join(VERIF, "harness"), env=GOENV, timeout=1200)
    harness_ok = rc == 0
    if not harness_ok:
        broken.append(("harness", "the correspondence harness no longer builds against /repo:\n" + out[-3000:]))

    # 2. regenerate facts
    facts = {}
    if harness_ok:
        rc, out = run([os.path.join(BUILD, "verifh"), "facts", "-repo", REPO, "-out", os.path.join(COQ, "Extracted"),
                       "-json", os.path.join(BUILD, "facts.json"), "-for", pid], env=GOENV, timeout=900)
        if rc != 0:
            broken.append(("translator", out[-3000:]))
        else:
            facts = json.load(open(os.path.join(BUILD, "facts.json")))
            for e in facts.get("errors") or []:
                broken.append(("translator", "fact could not be read from the source: " + e))

    # 3. Coq: rebuild this property's file and what it depends on
    if not os.path.exists(os.path.join(COQ, "Makefile")):
        run(["coq_makefile", "-f", "_CoqProject", "-o", "Makefile"], cwd=COQ)
    for ext in (".vo", ".vos", ".vok", ".glob"):
        try:
            os.remove(os.path.join(COQ, "Properties", pid + ext))
        except OSError:
            pass
    target = "Properties/%s.vo" % pid
    rc, coqlog = run(["make", "-j16", "-k", target], cwd=COQ, timeout=3000)
    open(os.path.join(BUILD, pid + ".coq.log"), "w").write(coqlog)
    coq_ok = rc == 0 and os.path.exists(os.path.join(COQ, target))
    assumptions = parse_assumptions(coqlog, printed) if coq_ok else {}
    if not coq_ok:
        errs = re.findall(r'File "\./([^"]+)", line (\d+)[^\n]*\n((?:.*\n){0,12}?)(?=make|COQC|$)', coqlog)
        detail = coqlog[-4000:]
        files = sorted(set(e[0] for e in errs)) or ["Properties/%s.v" % pid]
        broken.append(("proof", "coqc no longer accepts %s (needed by the theorems of %s):\n%s" % (", ".join(files), pid, detail)))
    obligations = len(names)
    discharged = 0
    axioms_used = {}
    if coq_ok:
        for n in names:
            ax = assumptions.get(n)
            if n not in printed:
                notes.append("theorem %s has no Print Assumptions line" % n)
                continue
            if ax is None:
                notes.append("no Print Assumptions output found for %s" % n)
                continue
            foreign = [a for a in ax if a.split(".")[-1] not in STDLIB_AXIOMS and a not in STDLIB_AXIOMS]
            axioms_used[n] = ax
            if foreign:
                broken.append(("axiom", "theorem %s depends on assumptions outside the standard library's axioms: %s" % (n, ", ".join(foreign))))
            else:
                discharged += 1
    # thorough tier: the independent checker re-checks the compiled property file and everything it depends on
    coqchk_report = None
    if coq_ok and tier == "thorough":
        try:
            rc2, chk = run(["coqchk", "-silent", "-o", "-Q", ".", "ACV", "ACV.Properties.%s" % pid], cwd=COQ, timeout=3000)
        except subprocess.TimeoutExpired:
            rc2, chk = 124, "coqchk timed out"
        open(os.path.join(BUILD, pid + ".coqchk.log"), "w").write(chk)
        summary = chk[chk.find("CONTEXT SUMMARY"):] if "CONTEXT SUMMARY" in chk else chk[-1500:]
        coqchk_report = " ".join(summary.split())
        if rc2 != 0:
            broken.append(("coqchk", "the independent checker does not accept Properties/%s.vo: %s" % (pid, chk[-1500:])))
        elif "* Axioms: <none>" not in chk:
            m = re.search(r"\* Axioms:(.*?)\* Constants", chk, flags=re.S)
            listed = [a.strip() for a in (m.group(1).split("\n") if m else []) if a.strip()]
            foreign = [a for a in listed if a.split(".")[-1] not in STDLIB_AXIOMS]
            if foreign:
                broken.append(("coqchk", "coqchk lists axioms outside the standard library's: " + ", ".join(foreign)))
    bad = scan_forbidden()
    if bad:
        broken.append(("scan", "forbidden declarations in the development: " + "; ".join(bad[:10])))
        discharged = 0

    # 4. driver (extracted model); rebuilt when a model file is newer
    driver = os.path.join(BUILD, "driver")
    need = not os.path.exists(driver)
    if not need:
        dm = os.path.getmtime(driver)
        for root, _, fs in list(os.walk(os.path.join(COQ, "Model"))) + list(os.walk(os.path.join(VERIF, "driver"))):
            for f in fs:
                if f.endswith((".v", ".ml")) and f not in ("model.ml",) and os.path.getmtime(os.path.join(root, f)) > dm:
                    need = True
    if need:
        run(["make", "-j16", "-k"] + ["Model/" + f[:-2] + ".vo" for f in sorted(os.listdir(os.path.join(COQ, "Model"))) if f.endswith(".v")], cwd=COQ, timeout=3000)
        rc, out = run([os.path.join(VERIF, "driver", "build.sh")], timeout=1200)
        if rc != 0:
            broken.append(("driver", "extraction / OCaml build failed:\n" + out[-3000:]))

    # 5. correspondence harness
    result = None
    if harness_ok and os.path.exists(driver):
        rpath = os.path.join(BUILD, pid + ".result.json")
        try:
            os.remove(rpath)
        except OSError:
            pass
        fcntl.flock(lock, fcntl.LOCK_UN)
        limit = 1500 if tier == "quick" else 5400
        try:
            rc, out = run([os.path.join(BUILD, "verifh"), "check", "-id", pid, "-tier", tier, "-seed", str(seed), "-repo", REPO,
                           "-verif", VERIF, "-driver", driver, "-facts", os.path.join(BUILD, "facts.json"), "-out", rpath],
                          env=GOENV, timeout=limit)
        except subprocess.TimeoutExpired:
            rc, out = 124, "harness timed out after %d s" % limit
        open(os.path.join(BUILD, pid + ".harness.log"), "w").write(out)
        if os.path.exists(rpath):
            result = json.load(open(rpath))
        else:
            # the harness did not finish (a fatal runtime error of the code under test - e.g. concurrent map writes - takes the
            # process down, a hang is cut off): the replays it wrote before that are still concrete failing inputs
            broken.append(("harness", "the correspondence harness did not finish (exit %d):\n%s" % (rc, out[-3000:])))
            salvaged = []
            rdir = os.path.join(VERIF, "replays", pid)
            if os.path.isdir(rdir):
                for fn in sorted(os.listdir(rdir)):
                    if fn.startswith("%s_%s_%d_" % (pid, tier, seed)) and not fn.endswith("_broken.json"):
                        try:
                            rj = json.load(open(os.path.join(rdir, fn)))
                        except Exception:
                            continue
                        salvaged.append({"kind": rj.get("kind"), "summary": rj.get("summary", ""), "replay": os.path.join(rdir, fn),
                                         "no_failing_input_found": bool(rj.get("no_failing_input_found"))})
            if salvaged:
                result = {"violations": salvaged, "evaluations": 0, "distinct_nontrivial": 0, "known_findings_seen": [],
                          "notes": ["the harness did not finish; the violations listed were recorded before it stopped"]}
    else:
        fcntl.flock(lock, fcntl.LOCK_UN)

    # 6. verdict
    lines = []
    violations = 0
    found_input = False
    if result:
        for k in result.get("known_findings_seen", []):
            lines.append("KNOWN-FINDING: property=%s %s" % (pid, k))
        for v in sorted(result.get("violations", []), key=lambda v: bool(v.get("no_failing_input_found"))):
            violations += 1
            if v.get("no_failing_input_found"):
                lines.append("VIOLATION property=%s replay=%s no-failing-input-found" % (pid, v["replay"]))
            else:
                found_input = True
                lines.append("VIOLATION property=%s replay=%s" % (pid, v["replay"]))
    if broken and not found_input:
        rp = os.path.join(VERIF, "replays", pid, "%s_%s_%d_broken.json" % (pid, tier, seed))
        json.dump({"property": pid, "no_failing_input_found": True,
                   "broken": [{"what": w, "detail": d} for w, d in broken],
                   "theorems": names,
                   "searched": (result or {}).get("evaluations", 0),
                   "note": "a proof obligation, a tie lemma or the correspondence harness no longer checks against /repo; the harness searched %d cases and found no input on which the property fails" % ((result or {}).get("evaluations", 0))},
                  open(rp, "w"), indent=1)
        violations += 1
        lines.append("VIOLATION property=%s replay=%s no-failing-input-found" % (pid, rp))
    elif broken:
        for w, d in broken:
            notes.append("also broken: %s: %s" % (w, d[:300]))

    wall = time.time() - t0
    tb = [
        "Coq 8.16.1 kernel (coqc, full .vo build; vm_compute used for finite checks and tie lemmas; no native_compute)",
        "axioms per theorem (Print Assumptions): " + ("; ".join("%s: %s" % (n, ", ".join(a) if a else "closed under the global context") for n, a in sorted(axioms_used.items())) or "n/a"),
        "translator: harness/facts (go/ast readers regenerating coq/Extracted/*.v from /repo on this run)",
        "extraction: ExtrOcamlBasic + ExtrOcamlString only (bool, option, unit, list, prod, sumbool, sumor; string => char list, ascii/byte => char); nat/N/Z/positive kept as extracted inductives; OCaml glue driver/*.ml",
        "correspondence harness: harness/props (Go) drives the real code and compares projected observables with the extracted model",
    ]
    cov = {
        "obligations": max(obligations, 1),
        "discharged": discharged,
        "checker_cmd": "make -C coq -j16 Properties/%s.vo  (coqc 8.16.1, from /verif/coq/_CoqProject)" % pid,
        "trusted_base": tb,
        "theorems": names,
        "evaluations": (result or {}).get("evaluations", 0),
        "distinct_nontrivial": (result or {}).get("distinct_nontrivial", 0),
        "rule": (result or {}).get("rule", ""),
        "samples": (result or {}).get("samples", []) or [{"theorems": names}],
        "input_distribution": (result or {}).get("distribution", {}),
        "exhaustive": bool((result or {}).get("exhaustive", False)),
        "known_findings_seen": (result or {}).get("known_findings_seen", []),
        "broken": [w + ": " + d[:500] for w, d in broken],
        "notes": notes + ((result or {}).get("notes") or []),
    }
    if coqchk_report:
        cov["coqchk"] = coqchk_report
        tb.append("coqchk -silent -o (independent checker, thorough tier): " + coqchk_report[:400])
    if (result or {}).get("unmodelled"):
        cov["unmodelled"] = result["unmodelled"]
    meta_path = os.path.join(VERIF, "gen", "meta", pid + ".json")
    assumptions_txt = []
    if os.path.exists(meta_path):
        meta = json.load(open(meta_path))
        assumptions_txt = meta.get("assumptions", [])
        if meta.get("modelled"):
            cov["modelled_not_verified"] = meta["modelled"]
        if meta.get("oracles"):
            tb.append("oracles (Section variables / explicit premises): " + "; ".join(meta["oracles"]))
    ev = {"property_id": pid, "tier": tier, "seed": seed, "level": "proof", "coverage": cov,
          "assumptions": assumptions_txt, "wall_s": round(wall, 2), "violations": violations}
    tmp = os.path.join(VERIF, "evidence", pid + ".json.tmp")
    json.dump(ev, open(tmp, "w"), indent=1)
    os.replace(tmp, os.path.join(VERIF, "evidence", pid + ".json"))
    for l in lines:
        print(l)
    print("%s %s: obligations=%d discharged=%d evaluations=%d nontrivial=%d violations=%d wall=%.1fs" %
          (pid, tier, obligations, discharged, cov["evaluations"], cov["distinct_nontrivial"], violations, wall))
    return 1 if violations else 0


if __name__ == "__main__":
    sys.exit(main())
