#!/usr/bin/env python3
"""Fills the <!-- SEEDED-TABLE --> marker of DESIGN.md from seeded/*/meta.json."""
import json, os, re
V = os.path.dirname(os.path.dirname(os.path.abspath(__file__)))
rows = ["| change | property | what it is | caught by `bin/check <ID> quick` |", "|---|---|---|---|"]
for d in sorted(os.listdir(os.path.join(V, "seeded"))):
    mp = os.path.join(V, "seeded", d, "meta.json")
    if not os.path.exists(mp):
        continue
    m = json.load(open(mp))
    cr = m["check_reaction"]
    if not cr["detected"]:
        how = "**not detected**" + (" (" + cr.get("note", "") + ")" if cr.get("note") else "")
    elif cr["with_concrete_failing_input"]:
        how = "yes, with a concrete failing input (%d VIOLATION lines)" % cr["violation_lines"]
    else:
        how = "yes, as a broken tie/proof only (`no-failing-input-found`)"
    title = re.sub(r"\s+", " ", m["change"]).replace("|", "/")[:150]
    rows.append("| `seeded/%s` | %s | %s | %s |" % (d, m["property"], title, how))
table = "\n".join(rows)
p = os.path.join(V, "DESIGN.md")
s = open(p).read()
s = re.sub(r"<!-- SEEDED-TABLE -->.*?<!-- /SEEDED-TABLE -->", lambda m: "<!-- SEEDED-TABLE -->\n" + table + "\n<!-- /SEEDED-TABLE -->", s, flags=re.S) if "<!-- /SEEDED-TABLE -->" in s else s.replace("<!-- SEEDED-TABLE -->", "<!-- SEEDED-TABLE -->\n" + table + "\n<!-- /SEEDED-TABLE -->")
open(p, "w").write(s)
print(len(rows) - 2, "rows")
