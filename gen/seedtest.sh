#!/bin/bash
# gen/seedtest.sh <ID> <patch.diff> [tier]: applies a seeded change to /repo, runs the check, restores /repo.
ID=$1; PATCH=$2; TIER=${3:-quick}
cd /repo || exit 2
if [ -n "$(git status --porcelain)" ]; then echo "/repo not clean"; exit 2; fi
git apply "$PATCH" || { echo "patch does not apply"; exit 2; }
cd /verif && bin/check $ID $TIER > /tmp/seedtest_$ID.out 2>&1; RC=$?
cd /repo && git checkout -- . && git clean -fdq
grep -c '^VIOLATION' /tmp/seedtest_$ID.out | sed "s/^/violation_lines=/"
grep '^VIOLATION' /tmp/seedtest_$ID.out | head -3
tail -1 /tmp/seedtest_$ID.out
echo "exit=$RC"
