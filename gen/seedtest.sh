#!/bin/bash
# gen/seedtest.sh <ID> <patch.diff> [tier]: applies a seeded change to /repo, runs the check, restores /repo
# (and the evidence file, which must only ever hold a run on the unchanged tree).
ID=$1; PATCH=$2; TIER=${3:-quick}
cd /repo || exit 2
if [ -n "$(git status --porcelain)" ]; then echo "/repo not clean"; exit 2; fi
git apply "$PATCH" || { echo "patch does not apply"; exit 2; }
cp /verif/evidence/$ID.json /tmp/seedtest_$ID.evidence 2>/dev/null
cd /verif && bin/check $ID $TIER > /tmp/seedtest_$ID.out 2>&1; RC=$?
cp /verif/evidence/$ID.json /tmp/seedtest_$ID.mutant_evidence.json 2>/dev/null
[ -f /tmp/seedtest_$ID.evidence ] && cp /tmp/seedtest_$ID.evidence /verif/evidence/$ID.json
cd /repo && git checkout -- . && git clean -fdq
git -C /verif checkout -- coq/Extracted 2>/dev/null   # the facts regenerated from the changed tree
grep -c '^VIOLATION' /tmp/seedtest_$ID.out | sed "s/^/violation_lines=/"
grep '^VIOLATION' /tmp/seedtest_$ID.out | head -8
tail -1 /tmp/seedtest_$ID.out
echo "exit=$RC"
