#!/usr/bin/env python3
"""Rewrites coq/Model/TemplatesRef.v from the current coq/Extracted/Templates.v (tpl_x -> ref_x).
Run by hand, after reading the diff of the templates against the models that transcribe their meaning;
never run by a check."""
import os, re
V = os.path.dirname(os.path.dirname(os.path.abspath(__file__)))
src = open(os.path.join(V, "coq/Extracted/Templates.v")).read()
body = src.split("Open Scope string_scope.\n", 1)[1]
body = re.sub(r"Definition tpl_", "Definition ref_", body)
body = body.replace("Definition preamble_sha256", "Definition ref_preamble_sha256")
head = """(* The Rego text fragments (string literals, in source order per function or file) that the models of the
   generator were transcribed from, frozen by gen/freeze_templates.py when the models were last read
   against them.  Extracted/Templates.v is regenerated from /repo on every run; the property files prove
   extracted = reference, so an edit to a template whose meaning a model transcribes breaks a tie
   lemma and sends the check into its search for a failing input. *)
From Coq Require Import List String.
Import ListNotations.
Open Scope string_scope.
"""
open(os.path.join(V, "coq/Model/TemplatesRef.v"), "w").write(head + body)

# same for the pipeline skeletons
src = open(os.path.join(V, "coq/Extracted/PipelineFacts.v")).read()
body = src.split("Open Scope string_scope.\n", 1)[1]
body = re.sub(r"Definition sk_", "Definition ref_sk_", body).replace("Definition event_names", "Definition ref_event_names")
head = """(* Control-flow skeletons of the pipeline functions (event sends, calls, error checks, defers, returns, in
   source order) that Model/Pipeline.v was transcribed from, frozen by gen/freeze_templates.py.
   Extracted/PipelineFacts.v is regenerated from /repo on every run; the property files prove
   extracted = reference. *)
From Coq Require Import List String.
Import ListNotations.
Open Scope string_scope.
"""
open(os.path.join(V, "coq/Model/PipelineRef.v"), "w").write(head + body)
