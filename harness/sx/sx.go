// Package sx prints and parses the minimal s-expressions spoken with the OCaml driver.
package sx

import (
	"fmt"
	"strconv"
	"strings"
)

type V struct {
	Atom string
	Str  *string
	List []V
	IsL  bool
}

func A(a string) V { return V{Atom: a} }
func I(i int) V    { return V{Atom: strconv.Itoa(i)} }
func B(b bool) V {
	if b {
		return V{Atom: "1"}
	}
	return V{Atom: "0"}
}
func S(s string) V       { return V{Str: &s} }
func L(items ...V) V     { return V{List: items, IsL: true} }
func (v V) IsAtom() bool { return !v.IsL && v.Str == nil }
func (v V) Text() string {
	if v.Str != nil {
		return *v.Str
	}
	return v.Atom
}

func quote(s string) string {
	var b strings.Builder
	b.WriteByte('"')
	for i := 0; i < len(s); i++ {
		c := s[i]
		switch {
		case c == '"':
			b.WriteString("\\\"")
		case c == '\\':
			b.WriteString("\\\\")
		case c == '\n':
			b.WriteString("\\n")
		case c == '\r':
			b.WriteString("\\r")
		case c == '\t':
			b.WriteString("\\t")
		case c < 32 || c >= 127:
			fmt.Fprintf(&b, "\\x%02x", c)
		default:
			b.WriteByte(c)
		}
	}
	b.WriteByte('"')
	return b.String()
}

func (v V) String() string {
	if v.IsL {
		parts := make([]string, len(v.List))
		for i, x := range v.List {
			parts[i] = x.String()
		}
		return "(" + strings.Join(parts, " ") + ")"
	}
	if v.Str != nil {
		return quote(*v.Str)
	}
	return v.Atom
}

func Parse(s string) (V, error) {
	p := &parser{s: s}
	v, err := p.value()
	return v, err
}

type parser struct {
	s   string
	pos int
}

func (p *parser) skip() {
	for p.pos < len(p.s) && strings.ContainsRune(" \t\r\n", rune(p.s[p.pos])) {
		p.pos++
	}
}

func hexv(c byte) int {
	switch {
	case c >= '0' && c <= '9':
		return int(c - '0')
	case c >= 'a' && c <= 'f':
		return int(c-'a') + 10
	case c >= 'A' && c <= 'F':
		return int(c-'A') + 10
	}
	return 0
}

func (p *parser) value() (V, error) {
	p.skip()
	if p.pos >= len(p.s) {
		return V{}, fmt.Errorf("eof")
	}
	switch c := p.s[p.pos]; c {
	case '(':
		p.pos++
		items := []V{}
		for {
			p.skip()
			if p.pos >= len(p.s) {
				return V{}, fmt.Errorf("unclosed list")
			}
			if p.s[p.pos] == ')' {
				p.pos++
				return V{List: items, IsL: true}, nil
			}
			v, err := p.value()
			if err != nil {
				return V{}, err
			}
			items = append(items, v)
		}
	case '"':
		p.pos++
		var b strings.Builder
		for {
			if p.pos >= len(p.s) {
				return V{}, fmt.Errorf("unclosed string")
			}
			c := p.s[p.pos]
			if c == '"' {
				p.pos++
				s := b.String()
				return V{Str: &s}, nil
			}
			if c == '\\' {
				p.pos++
				e := p.s[p.pos]
				switch e {
				case 'n':
					b.WriteByte('\n')
				case 'r':
					b.WriteByte('\r')
				case 't':
					b.WriteByte('\t')
				case 'x':
					b.WriteByte(byte(hexv(p.s[p.pos+1])*16 + hexv(p.s[p.pos+2])))
					p.pos += 2
				default:
					b.WriteByte(e)
				}
				p.pos++
				continue
			}
			b.WriteByte(c)
			p.pos++
		}
	default:
		st := p.pos
		for p.pos < len(p.s) && !strings.ContainsRune(" \t\r\n()\"", rune(p.s[p.pos])) {
			p.pos++
		}
		return V{Atom: p.s[st:p.pos]}, nil
	}
}
