module github.com/aml-org/amf-custom-validator/verifh

go 1.19

require (
	github.com/aml-org/amf-custom-validator v0.0.0
	github.com/open-policy-agent/opa v0.47.0
	gopkg.in/yaml.v3 v3.0.1
)

require (
	github.com/OneOfOne/xxhash v1.2.8 // indirect
	github.com/agnivade/levenshtein v1.1.1 // indirect
	github.com/ghodss/yaml v1.0.0 // indirect
	github.com/gobwas/glob v0.2.3 // indirect
	github.com/piprate/json-gold v0.4.0 // indirect
	github.com/pkg/errors v0.9.1 // indirect
	github.com/pquerna/cachecontrol v0.0.0-20180517163645-1555304b9b35 // indirect
	github.com/rcrowley/go-metrics v0.0.0-20201227073835-cf1acfcdf475 // indirect
	github.com/tchap/go-patricia/v2 v2.3.1 // indirect
	github.com/xeipuuv/gojsonpointer v0.0.0-20190905194746-02993c407bfb // indirect
	github.com/xeipuuv/gojsonreference v0.0.0-20180127040603-bd5ef7bd5415 // indirect
	github.com/yashtewari/glob-intersection v0.1.0 // indirect
	gopkg.in/yaml.v2 v2.4.0 // indirect
)

replace github.com/aml-org/amf-custom-validator => /repo
