package facts

import (
	"fmt"
	"go/ast"
	"go/importer"
	"go/parser"
	"go/token"
	"go/types"
	"os"
	"path/filepath"
	"sort"
	"strconv"
	"strings"
)

func (g *gen) sourceDirs() []string {
	dirs := []string{}
	for _, top := range []string{"internal", "pkg", "cmd"} {
		filepath.Walk(filepath.Join(g.repo, top), func(p string, info os.FileInfo, err error) error {
			if err == nil && info.IsDir() {
				dirs = append(dirs, p)
			}
			return nil
		})
	}
	sort.Strings(dirs)
	return dirs
}

func notTest(fi os.FileInfo) bool { return !strings.HasSuffix(fi.Name(), "_test.go") }

// shared: F-globals - every package-level variable of the non-test code; the call sites of GenReset; and
// (expensive, on request) F-ranges - every `range` over a map-typed expression, found with go/types.
func (g *gen) shared(withRanges bool) {
	globals := []string{}
	resets := []string{}
	fset := token.NewFileSet()
	for _, d := range g.sourceDirs() {
		pkgs, err := parser.ParseDir(fset, d, notTest, 0)
		if err != nil {
			continue
		}
		for _, pkg := range pkgs {
			names := []string{}
			for n := range pkg.Files {
				names = append(names, n)
			}
			sort.Strings(names)
			for _, n := range names {
				f := pkg.Files[n]
				rel, _ := filepath.Rel(g.repo, n)
				for _, decl := range f.Decls {
					if gd, ok := decl.(*ast.GenDecl); ok && gd.Tok == token.VAR {
						for _, sp := range gd.Specs {
							if vs, ok := sp.(*ast.ValueSpec); ok {
								for _, nm := range vs.Names {
									if !strings.HasSuffix(rel, "peg.go") {
										globals = append(globals, rel+":"+nm.Name)
									}
								}
							}
						}
					}
				}
				ast.Inspect(f, func(x ast.Node) bool {
					if c, ok := x.(*ast.CallExpr); ok && selName(c.Fun) == "GenReset" {
						resets = append(resets, rel)
					}
					return true
				})
			}
		}
	}
	body := "Definition package_level_vars : list string := " + CoqStringList(globals) + ".\n" +
		"Definition genreset_call_sites : list string := " + CoqStringList(resets) + ".\n"
	if sk := g.funcDecl(g.parse("internal/parser/profile/vargenerator.go"), "Genvar"); sk != nil {
		body += "Definition sk_genvar : string := " + CoqString(g.skeleton(sk.Body.List)) + ".\n"
	} else {
		g.errs = append(g.errs, "Genvar not found")
	}
	if sk := g.funcDecl(g.parse("internal/parser/yaml/parser.go"), "GetMapKeys"); sk != nil {
		body += "Definition sk_get_map_keys : string := " + CoqString(g.skeleton(sk.Body.List)) + ".\n"
	} else {
		g.errs = append(g.errs, "GetMapKeys not found")
	}
	if sk := g.funcDecl(g.parse("internal/parser/yaml/parser.go"), "Get"); sk != nil {
		body += "Definition sk_yaml_get : string := " + CoqString(g.skeleton(sk.Body.List)) + ".\n"
	} else {
		g.errs = append(g.errs, "Yaml.Get not found")
	}
	// the order in which the profile parser looks keys up (string literals passed to Get, in source order): the Coq
	// transcription ProfileParser.expr_body / parse_pc / pc_qualified / parse_profile follows exactly this order
	getOrder := func(file, fn string) []string {
		out := []string{}
		fd := g.funcDecl(g.parse(file), fn)
		if fd == nil {
			g.errs = append(g.errs, fn+" not found")
			return out
		}
		ast.Inspect(fd, func(x ast.Node) bool {
			if c, ok := x.(*ast.CallExpr); ok && selName(c.Fun) == "Get" && len(c.Args) == 1 {
				if bl, ok := c.Args[0].(*ast.BasicLit); ok && bl.Kind == token.STRING {
					if v, err := strconv.Unquote(bl.Value); err == nil {
						out = append(out, v)
					}
				}
			}
			return true
		})
		return out
	}
	body += "Definition parser_expression_key_order : list string := " + CoqStringList(getOrder("internal/parser/profile/expressionparser.go", "parseExpressionValue")) + ".\n"
	body += "Definition parser_validation_key_order : list string := " + CoqStringList(getOrder("internal/parser/profile/expressionparser.go", "ParseExpression")) + ".\n"
	body += "Definition parser_constraint_key_order : list string := " + CoqStringList(getOrder("internal/parser/profile/constraintsparser.go", "ParseConstraint")) + ".\n"
	body += "Definition parser_qualified_key_order : list string := " + CoqStringList(getOrder("internal/parser/profile/constraintsparser.go", "parseQualifiedNestedExpression")) + ".\n"
	body += "Definition parser_profile_key_order : list string := " + CoqStringList(getOrder("internal/parser/profile/parser.go", "Parse")) + ".\n"
	// the level names Parse hands to parseValidationLevel, in source order
	levels := []string{}
	if fd := g.funcDecl(g.parse("internal/parser/profile/parser.go"), "Parse"); fd != nil {
		ast.Inspect(fd, func(x ast.Node) bool {
			if c, ok := x.(*ast.CallExpr); ok && selName(c.Fun) == "parseValidationLevel" && len(c.Args) > 0 {
				if bl, ok := c.Args[0].(*ast.BasicLit); ok && bl.Kind == token.STRING {
					if v, err := strconv.Unquote(bl.Value); err == nil {
						levels = append(levels, v)
					}
				}
			}
			return true
		})
	}
	body += "Definition parser_level_order : list string := " + CoqStringList(levels) + ".\n"
	if sk := g.funcDecl(g.parse("internal/generator/generator.go"), "IriExpanderFrom"); sk != nil {
		body += "Definition sk_iri_expander_from : string := " + CoqString(g.skeleton(sk.Body.List)) + ".\n"
	} else {
		g.errs = append(g.errs, "IriExpanderFrom not found")
	}
	// options set on the JSON-LD processor in Normalize (field assignments such as options.ProcessingMode = ...)
	optAssign := []string{}
	if nf := g.parse("internal/validator/normalizer.go"); nf != nil {
		if fd := g.funcDecl(nf, "Normalize"); fd != nil {
			ast.Inspect(fd, func(x ast.Node) bool {
				if as, ok := x.(*ast.AssignStmt); ok {
					for i, l := range as.Lhs {
						if _, isSel := l.(*ast.SelectorExpr); isSel && i < len(as.Rhs) {
							optAssign = append(optAssign, g.exprString(l)+" = "+g.exprString(as.Rhs[i]))
						}
					}
				}
				if c, ok := x.(*ast.CallExpr); ok && (selName(c.Fun) == "NewJsonLdOptions" || selName(c.Fun) == "Flatten") {
					args := []string{}
					for _, a := range c.Args {
						args = append(args, g.exprString(a))
					}
					optAssign = append(optAssign, selName(c.Fun)+"("+strings.Join(args, ", ")+")")
				}
				return true
			})
		}
	}
	body += "Definition normalize_options : list string := " + CoqStringList(optAssign) + ".\n"
	g.write("SharedFacts.v", body)
	g.facts["globals"] = globals

	if !withRanges {
		return
	}
	ranges := []string{}
	cwd, _ := os.Getwd()
	os.Chdir(g.repo)
	defer os.Chdir(cwd)
	tfset := token.NewFileSet()
	imp := importer.ForCompiler(tfset, "source", nil)
	for _, d := range g.sourceDirs() {
		pkgs, err := parser.ParseDir(tfset, d, notTest, 0)
		if err != nil {
			continue
		}
		for _, pkg := range pkgs {
			files := []*ast.File{}
			names := []string{}
			for n := range pkg.Files {
				names = append(names, n)
			}
			sort.Strings(names)
			for _, n := range names {
				files = append(files, pkg.Files[n])
			}
			info := &types.Info{Types: map[ast.Expr]types.TypeAndValue{}}
			conf := types.Config{Importer: imp, Error: func(err error) {}}
			conf.Check(d, tfset, files, info)
			for _, f := range files {
				var fn string
				ast.Inspect(f, func(n ast.Node) bool {
					if fd, ok := n.(*ast.FuncDecl); ok {
						fn = fd.Name.Name
					}
					if rs, ok := n.(*ast.RangeStmt); ok {
						if tv, ok := info.Types[rs.X]; ok && tv.Type != nil {
							if _, isMap := tv.Type.Underlying().(*types.Map); isMap {
								pos := tfset.Position(rs.Pos())
								rel, _ := filepath.Rel(g.repo, pos.Filename)
								ranges = append(ranges, fmt.Sprintf("%s:%s", rel, fn))
							}
						}
					}
					return true
				})
			}
		}
	}
	sort.Strings(ranges)
	g.write("RangeFacts.v", "Definition map_range_sites : list string := "+CoqStringList(ranges)+".\n")
	g.facts["map_range_sites"] = ranges
}
