package facts

import (
	"bytes"
	"go/ast"
	"go/printer"
)

func (g *gen) exprString(e ast.Expr) string {
	var b bytes.Buffer
	printer.Fprint(&b, g.fset, e)
	return b.String()
}

// report: F-report - how BuildReport computes conforms, the severity IRI, the positional id formats, and the
// condition under which dateCreated / result are added to the report node.
func (g *gen) report() {
	f := g.parse("internal/validator/report.go")
	conforms := ""
	if fd := g.funcDecl(f, "BuildReport"); fd != nil {
		ast.Inspect(fd, func(n ast.Node) bool {
			if as, ok := n.(*ast.AssignStmt); ok && len(as.Lhs) == 1 && len(as.Rhs) == 1 {
				if id, ok := as.Lhs[0].(*ast.Ident); ok && id.Name == "conforms" {
					conforms = g.exprString(as.Rhs[0])
				}
			}
			return true
		})
	} else {
		g.errs = append(g.errs, "BuildReport not found")
	}
	results := []string{}
	if fd := g.funcDecl(f, "buildResults"); fd != nil {
		// the (list, level, id prefix) triples of the three loops, in order
		ast.Inspect(fd, func(n ast.Node) bool {
			if rs, ok := n.(*ast.RangeStmt); ok {
				results = append(results, g.exprString(rs.X))
				results = append(results, stringLits(rs.Body)...)
			}
			return true
		})
	}
	nodes := g.parse("internal/validator/report_nodes.go")
	conds := []string{}
	if fd := g.funcDecl(nodes, "ValidationReportNode"); fd != nil {
		ast.Inspect(fd, func(n ast.Node) bool {
			if is, ok := n.(*ast.IfStmt); ok {
				conds = append(conds, g.exprString(is.Cond))
				conds = append(conds, stringLits(is.Body)...)
			}
			return true
		})
	}
	dateFmt := ""
	if fd := g.funcDecl(nodes, "ValidationReportNode"); fd != nil {
		ast.Inspect(fd, func(n ast.Node) bool {
			if as, ok := n.(*ast.AssignStmt); ok && len(as.Rhs) == 1 {
				if ix, ok := as.Lhs[0].(*ast.IndexExpr); ok && strLit(ix.Index) == "dateCreated" {
					dateFmt = g.exprString(as.Rhs[0])
				}
			}
			return true
		})
	}
	ctx := ""
	if fd := g.funcDecl(f, "buildContext"); fd != nil {
		ast.Inspect(fd, func(n ast.Node) bool {
			if is, ok := n.(*ast.IfStmt); ok {
				ctx = g.exprString(is.Cond)
			}
			return true
		})
	}
	g.facts["report_conforms_expr"] = conforms
	body := "Definition conforms_expr : string := " + CoqString(conforms) + ".\n" +
		"Definition build_results_loops : list string := " + CoqStringList(results) + ".\n" +
		"Definition build_validation_strings : list string := " + CoqStringList(stringLitsOf(g, f, "buildValidation")) + ".\n" +
		"Definition define_id_formats : list string := " + CoqStringList(stringLitsOf(g, f, "defineIdRecursively")) + ".\n" +
		"Definition report_node_conditions : list string := " + CoqStringList(conds) + ".\n" +
		"Definition date_created_expr : string := " + CoqString(dateFmt) + ".\n" +
		"Definition context_condition : string := " + CoqString(ctx) + ".\n" +
		"Definition report_node_strings : list string := " + CoqStringList(stringLitsOf(g, nodes, "ValidationReportNode")) + ".\n" +
		"Definition dialect_instance_strings : list string := " + CoqStringList(stringLitsOf(g, nodes, "DialectInstance")) + ".\n"
	g.write("ReportFacts.v", body)
}

func stringLitsOf(g *gen, f *ast.File, fn string) []string {
	fd := g.funcDecl(f, fn)
	if fd == nil {
		g.errs = append(g.errs, fn+" not found")
		return []string{}
	}
	return stringLits(fd)
}
