package facts

import (
	"go/ast"
	"os/exec"
	"path/filepath"
	"sort"
	"strings"

	opaast "github.com/open-policy-agent/opa/ast"
)

// security: F-deny (keys of unsafeBuiltinsMap resolved through the linked OPA's ast/builtins.go), F-builtins
// (every built-in of the linked engine, with OPA's own nondeterminism flag), and the shape of the one
// compile call (rego.New(query, module, unsafeBuiltins).PrepareForEval).
func (g *gen) security() {
	f := g.parse("internal/validator/process_profile.go")
	idents := []string{}
	if f != nil {
		ast.Inspect(f, func(n ast.Node) bool {
			if vs, ok := n.(*ast.ValueSpec); ok && len(vs.Names) == 1 && vs.Names[0].Name == "unsafeBuiltinsMap" && len(vs.Values) == 1 {
				if cl, ok := vs.Values[0].(*ast.CompositeLit); ok {
					for _, el := range cl.Elts {
						if kv, ok := el.(*ast.KeyValueExpr); ok {
							idents = append(idents, g.exprString(kv.Key))
						}
					}
				}
			}
			return true
		})
	}
	// Go identifier -> built-in name, read from the source of the OPA version /repo links
	table := map[string]string{}
	cmd := exec.Command("go", "list", "-m", "-f", "{{.Dir}}", "github.com/open-policy-agent/opa")
	cmd.Dir = g.repo
	if out, err := cmd.Output(); err == nil {
		dir := strings.TrimSpace(string(out))
		if bf := g.parseAbs(filepath.Join(dir, "ast", "builtins.go")); bf != nil {
			ast.Inspect(bf, func(n ast.Node) bool {
				if vs, ok := n.(*ast.ValueSpec); ok && len(vs.Names) == 1 && len(vs.Values) == 1 {
					if ue, ok := vs.Values[0].(*ast.UnaryExpr); ok {
						if cl, ok := ue.X.(*ast.CompositeLit); ok {
							if name, ok := kv(cl)["Name"]; ok {
								table[vs.Names[0].Name] = strLit(name)
							}
						}
					}
				}
				return true
			})
		}
	} else {
		g.errs = append(g.errs, "go list -m opa: "+err.Error())
	}
	deny := []string{}
	for _, id := range idents {
		key := strings.TrimSuffix(strings.TrimPrefix(id, "ast."), ".Name")
		if strings.HasPrefix(id, "\"") {
			deny = append(deny, strings.Trim(id, "\""))
		} else if name, ok := table[key]; ok && name != "" {
			deny = append(deny, name)
		} else {
			g.errs = append(g.errs, "cannot resolve deny-list key "+id)
		}
	}
	sort.Strings(deny)
	builtins := []string{}
	nondet := []string{}
	for _, b := range opaast.Builtins {
		builtins = append(builtins, b.Name)
		if b.Nondeterministic {
			nondet = append(nondet, b.Name)
		}
	}
	sort.Strings(builtins)
	sort.Strings(nondet)
	// the compile call
	newArgs, moduleExpr, unsafeExpr, queryExpr := []string{}, "", "", ""
	if fd := g.funcDecl(f, "CompileRego"); fd != nil {
		ast.Inspect(fd, func(n ast.Node) bool {
			if as, ok := n.(*ast.AssignStmt); ok && len(as.Lhs) >= 1 && len(as.Rhs) == 1 {
				if id, ok := as.Lhs[0].(*ast.Ident); ok {
					switch id.Name {
					case "module":
						moduleExpr = g.exprString(as.Rhs[0])
					case "unsafeBuiltins":
						unsafeExpr = g.exprString(as.Rhs[0])
					case "query":
						queryExpr = g.exprString(as.Rhs[0])
					}
				}
			}
			if c, ok := n.(*ast.CallExpr); ok && g.exprString(c.Fun) == "rego.New" {
				for _, a := range c.Args {
					newArgs = append(newArgs, g.exprString(a))
				}
			}
			return true
		})
	}
	// F-keywords: the engine's reserved words plus the future keywords the preamble imports
	keywords := append([]string{}, opaast.Keywords[:]...)
	if gf := g.parse("internal/generator/generator.go"); gf != nil {
		ast.Inspect(gf, func(n ast.Node) bool {
			if vs, ok := n.(*ast.ValueSpec); ok && len(vs.Names) == 1 && vs.Names[0].Name == "preambleRaw" && len(vs.Values) == 1 {
				for _, l := range strings.Split(strLit(vs.Values[0]), "\n") {
					l = strings.TrimSpace(l)
					if strings.HasPrefix(l, "import future.keywords.") {
						keywords = append(keywords, strings.TrimPrefix(l, "import future.keywords."))
					}
				}
			}
			return true
		})
	}
	sort.Strings(keywords)
	// F-vars: the letters of NewVarGenerator and the format strings of the generated names
	letters, varFormats := []string{}, []string{}
	if vf := g.parse("internal/parser/profile/vargenerator.go"); vf != nil {
		if fd := g.funcDecl(vf, "NewVarGenerator"); fd != nil {
			letters = stringLits(fd)
		}
		for _, fn := range []string{"Genvar", "GenExpressionVar"} {
			if fd := g.funcDecl(vf, fn); fd != nil {
				varFormats = append(varFormats, stringLits(fd)...)
			}
		}
	}
	g.write("NameFacts.v",
		"Definition extracted_keywords : list string := "+CoqStringList(keywords)+".\n"+
			"Definition extracted_letters : list string := "+CoqStringList(letters)+".\n"+
			"Definition extracted_var_formats : list string := "+CoqStringList(varFormats)+".\n")
	g.facts["keywords"] = keywords
	g.facts["deny"] = deny
	g.facts["builtins"] = builtins
	g.write("SecurityFacts.v",
		"Definition extracted_deny : list string := "+CoqStringList(deny)+".\n"+
			"Definition extracted_builtins : list string := "+CoqStringList(builtins)+".\n"+
			"Definition extracted_nondeterministic : list string := "+CoqStringList(nondet)+".\n"+
			"Definition rego_new_args : list string := "+CoqStringList(newArgs)+".\n"+
			"Definition module_expr : string := "+CoqString(moduleExpr)+".\n"+
			"Definition unsafe_expr : string := "+CoqString(unsafeExpr)+".\n"+
			"Definition query_expr : string := "+CoqString(queryExpr)+".\n")
}
