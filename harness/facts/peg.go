package facts

import (
	"fmt"
	"go/ast"
	"go/token"
	"strconv"
	"strings"
)

func coqChar(r rune) string {
	if r == '"' {
		return "\"\"\"\"%char"
	}
	if r >= 32 && r < 127 {
		return "\"" + string(r) + "\"%char"
	}
	if r < 256 {
		return fmt.Sprintf("\"%03d\"%%char", r)
	}
	return "UNSUPPORTED_RUNE"
}

func runeLits(e ast.Expr) []rune {
	out := []rune{}
	cl, ok := e.(*ast.CompositeLit)
	if !ok {
		return out
	}
	for _, el := range cl.Elts {
		if bl, ok := el.(*ast.BasicLit); ok && bl.Kind == token.CHAR {
			s, err := strconv.Unquote(bl.Value)
			if err == nil {
				for _, r := range s {
					out = append(out, r)
					break
				}
			}
		}
	}
	return out
}

func kv(cl *ast.CompositeLit) map[string]ast.Expr {
	m := map[string]ast.Expr{}
	for _, el := range cl.Elts {
		if k, ok := el.(*ast.KeyValueExpr); ok {
			if id, ok := k.Key.(*ast.Ident); ok {
				m[id.Name] = k.Value
			}
		}
	}
	return m
}

func strLit(e ast.Expr) string {
	if bl, ok := e.(*ast.BasicLit); ok && bl.Kind == token.STRING {
		s, _ := strconv.Unquote(bl.Value)
		return s
	}
	return ""
}

func (g *gen) pegExpr(e ast.Expr) string {
	if u, ok := e.(*ast.UnaryExpr); ok && u.Op == token.AND {
		e = u.X
	}
	cl, ok := e.(*ast.CompositeLit)
	if !ok {
		g.errs = append(g.errs, "peg.go: unexpected grammar node")
		return "PUNSUPPORTED"
	}
	m := kv(cl)
	list := func(x ast.Expr) string {
		parts := []string{}
		if l, ok := x.(*ast.CompositeLit); ok {
			for _, el := range l.Elts {
				parts = append(parts, g.pegExpr(el))
			}
		}
		return "[" + strings.Join(parts, "; ") + "]"
	}
	boolFalse := func(k string) bool {
		if v, ok := m[k]; ok {
			if id, ok := v.(*ast.Ident); ok && id.Name == "true" {
				return false
			}
		}
		return true
	}
	switch selName(cl.Type) {
	case "actionExpr":
		tag := strings.TrimPrefix(selName(m["run"]), "callon")
		return "(PAct " + CoqString(tag) + " " + g.pegExpr(m["expr"]) + ")"
	case "seqExpr":
		return "(PSeq " + list(m["exprs"]) + ")"
	case "choiceExpr":
		return "(PChoice " + list(m["alternatives"]) + ")"
	case "labeledExpr":
		return g.pegExpr(m["expr"])
	case "ruleRefExpr":
		return "(PRef " + CoqString(strLit(m["name"])) + ")"
	case "litMatcher":
		if !boolFalse("ignoreCase") {
			g.errs = append(g.errs, "peg.go: case-insensitive literal is not modelled")
		}
		return "(PLit " + CoqString(strLit(m["val"])) + ")"
	case "zeroOrMoreExpr":
		return "(PStar " + g.pegExpr(m["expr"]) + ")"
	case "oneOrMoreExpr":
		return "(PPlus " + g.pegExpr(m["expr"]) + ")"
	case "zeroOrOneExpr":
		return "(POpt " + g.pegExpr(m["expr"]) + ")"
	case "charClassMatcher":
		if !boolFalse("ignoreCase") || !boolFalse("inverted") || m["classes"] != nil {
			g.errs = append(g.errs, "peg.go: inverted / case-insensitive / unicode character class is not modelled")
		}
		chars := []string{}
		for _, r := range runeLits(m["chars"]) {
			chars = append(chars, coqChar(r))
		}
		rs := runeLits(m["ranges"])
		ranges := []string{}
		for i := 0; i+1 < len(rs); i += 2 {
			ranges = append(ranges, "("+coqChar(rs[i])+", "+coqChar(rs[i+1])+")")
		}
		return "(PClass [" + strings.Join(chars, "; ") + "] [" + strings.Join(ranges, "; ") + "])"
	}
	g.errs = append(g.errs, "peg.go: grammar node kind "+selName(cl.Type)+" is not modelled")
	return "PUNSUPPORTED"
}

// peg: F-peg - the grammar literal of peg.go, and how ParsePath treats leftovers and parse errors.
func (g *gen) peg() {
	f := g.parse("internal/parser/path/peg.go")
	rules := []string{}
	if f != nil {
		for _, d := range f.Decls {
			gd, ok := d.(*ast.GenDecl)
			if !ok || gd.Tok != token.VAR {
				continue
			}
			for _, sp := range gd.Specs {
				vs := sp.(*ast.ValueSpec)
				if len(vs.Names) != 1 || vs.Names[0].Name != "g" || len(vs.Values) != 1 {
					continue
				}
				u, ok := vs.Values[0].(*ast.UnaryExpr)
				if !ok {
					continue
				}
				gl, ok := u.X.(*ast.CompositeLit)
				if !ok {
					continue
				}
				rl, ok := kv(gl)["rules"].(*ast.CompositeLit)
				if !ok {
					continue
				}
				for _, r := range rl.Elts {
					rc, ok := r.(*ast.CompositeLit)
					if !ok {
						continue
					}
					m := kv(rc)
					rules = append(rules, "("+CoqString(strLit(m["name"]))+", "+g.pegExpr(m["expr"])+")")
				}
			}
		}
	}
	if len(rules) == 0 {
		g.errs = append(g.errs, "peg.go: grammar literal `g` not found")
	}
	// ParsePath: end-of-input check, error instead of panic, trim cutset
	anchored, returnsErr, panics := false, false, false
	cutset := ""
	if fd := g.funcDecl(g.parse("internal/parser/path/parser.go"), "ParsePath"); fd != nil {
		ast.Inspect(fd, func(n ast.Node) bool {
			switch x := n.(type) {
			case *ast.IfStmt:
				mentionsOffset, mentionsErr := false, false
				ast.Inspect(x.Cond, func(c ast.Node) bool {
					if s, ok := c.(*ast.SelectorExpr); ok && s.Sel.Name == "offset" {
						mentionsOffset = true
					}
					if id, ok := c.(*ast.Ident); ok && id.Name == "err" {
						mentionsErr = true
					}
					return true
				})
				rejects := false
				for _, st := range x.Body.List {
					if r, ok := st.(*ast.ReturnStmt); ok && len(r.Results) == 2 {
						if id, ok := r.Results[1].(*ast.Ident); !ok || id.Name != "nil" {
							rejects = true
						}
					}
				}
				if mentionsOffset && rejects {
					anchored = true
				}
				if mentionsErr && rejects {
					returnsErr = true
				}
			case *ast.CallExpr:
				if id, ok := x.Fun.(*ast.Ident); ok && id.Name == "panic" {
					panics = true
				}
				if selName(x.Fun) == "Trim" && len(x.Args) == 2 {
					cutset = strLit(x.Args[1])
				}
			}
			return true
		})
	} else {
		g.errs = append(g.errs, "ParsePath not found")
	}
	cs := []string{}
	for _, r := range cutset {
		cs = append(cs, coqChar(r))
	}
	g.facts["peg_anchored"] = anchored
	g.facts["peg_returns_error"] = returnsErr && !panics
	g.write("PegGrammar.v",
		"From ACV Require Import Model.Peg.\n"+
			"Definition extracted_grammar : grammar :=\n  [ "+strings.Join(rules, ";\n    ")+" ].\n"+
			"Definition parse_path_anchored : bool := "+fmt.Sprint(anchored)+".\n"+
			"Definition parse_path_returns_error : bool := "+fmt.Sprint(returnsErr && !panics)+".\n"+
			"Definition trim_cutset : list Ascii.ascii := ["+strings.Join(cs, "; ")+"].\n")
}
