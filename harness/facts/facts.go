// Package facts is the translator half of the tie between /repo and the Coq development: it reads
// the current sources (go/ast) and the linked OPA tables and regenerates coq/Extracted/*.v.
package facts

import (
	"fmt"
	"go/ast"
	"go/parser"
	"go/token"
	"os"
	"path/filepath"
	"sort"
	"strings"
)

type Facts map[string]any

type gen struct {
	repo  string
	out   string
	facts Facts
	fset  *token.FileSet
	errs  []string
}

func (g *gen) parse(rel string) *ast.File {
	f, err := parser.ParseFile(g.fset, filepath.Join(g.repo, rel), nil, parser.ParseComments)
	if err != nil {
		g.errs = append(g.errs, fmt.Sprintf("%s: %v", rel, err))
		return nil
	}
	return f
}

func (g *gen) parseAbs(path string) *ast.File {
	f, err := parser.ParseFile(g.fset, path, nil, 0)
	if err != nil {
		g.errs = append(g.errs, fmt.Sprintf("%s: %v", path, err))
		return nil
	}
	return f
}

func (g *gen) funcDecl(f *ast.File, name string) *ast.FuncDecl {
	if f == nil {
		return nil
	}
	for _, d := range f.Decls {
		if fd, ok := d.(*ast.FuncDecl); ok && fd.Name.Name == name {
			return fd
		}
	}
	return nil
}

const header = "(* GENERATED on every check run by `verifh facts` from the current /repo sources - do not edit. *)\nFrom Coq Require Import List String Ascii ZArith.\nImport ListNotations.\nOpen Scope string_scope.\n"

// CoqString renders a Go string as a Coq string literal (bytes; `"` doubled).
func CoqString(s string) string {
	return "\"" + strings.ReplaceAll(s, "\"", "\"\"") + "\""
}

func CoqStringList(l []string) string {
	parts := make([]string, len(l))
	for i, s := range l {
		parts[i] = CoqString(s)
	}
	return "[" + strings.Join(parts, "; ") + "]"
}

func CoqNatList(l []int) string {
	parts := make([]string, len(l))
	for i, s := range l {
		parts[i] = fmt.Sprintf("%d", s)
	}
	return "[" + strings.Join(parts, "; ") + "]"
}

func (g *gen) write(name, body string) {
	path := filepath.Join(g.out, name)
	content := header + body
	old, err := os.ReadFile(path)
	if err == nil && string(old) == content {
		return
	}
	if err := os.WriteFile(path, []byte(content), 0o644); err != nil {
		g.errs = append(g.errs, err.Error())
	}
}

// Run regenerates every Extracted/*.v and returns the facts for the harness.
func Run(repo, out string, forID string) (Facts, []string) {
	if abs, err := filepath.Abs(out); err == nil {
		out = abs
	}
	if abs, err := filepath.Abs(repo); err == nil {
		repo = abs
	}
	g := &gen{repo: repo, out: out, facts: Facts{}, fset: token.NewFileSet()}
	os.MkdirAll(out, 0o755)
	g.cli()
	g.peg()
	g.templates()
	g.report()
	g.pipeline()
	g.security()
	g.shared(forID == "C06" || forID == "all")
	keys := make([]string, 0, len(g.facts))
	for k := range g.facts {
		keys = append(keys, k)
	}
	sort.Strings(keys)
	return g.facts, g.errs
}

func selName(e ast.Expr) string {
	switch x := e.(type) {
	case *ast.SelectorExpr:
		return x.Sel.Name
	case *ast.Ident:
		return x.Name
	}
	return "?"
}

func flattenOr(e ast.Expr) []string {
	switch x := e.(type) {
	case *ast.BinaryExpr:
		if x.Op == token.OR {
			return append(flattenOr(x.X), flattenOr(x.Y)...)
		}
	case *ast.ParenExpr:
		return flattenOr(x.X)
	}
	return []string{selName(e)}
}
