package facts

import (
	"crypto/sha256"
	"encoding/hex"
	"go/ast"
	"go/token"
	"strconv"
	"strings"
)

// templates: F-tpl - the string literals of the generator functions whose *meaning* the Coq model transcribes
// (Rego snippets pasted by fmt.Sprintf).  Emitted in source order per function; Model/TemplatesRef.v holds the
// text each model definition was written against and Properties/*.v prove extracted = reference.
type tplSpec struct {
	name  string // Coq identifier suffix
	file  string
	funcs []string // empty = whole file
}

var tplSpecs = []tplSpec{
	{"path_property", "internal/generator/path.go", []string{"traverseRegularProperty"}},
	{"path_aggregate", "internal/generator/path.go", []string{"traversePath", "aggregateResultsIntoSet", "aggregateResultsIntoArray"}},
	{"atom_count", "internal/generator/count.go", nil},
	{"atom_pattern", "internal/generator/pattern.go", nil},
	{"atom_contains_all", "internal/generator/scalar_subset.go", nil},
	{"atom_in", "internal/generator/scalar_superset.go", nil},
	{"atom_contains_some", "internal/generator/scalar_intersect_set.go", nil},
	{"atom_numeric", "internal/generator/numericcomparison.go", nil},
	{"atom_property_comparison", "internal/generator/propertycomparison.go", nil},
	{"atom_datatype", "internal/generator/datatype.go", nil},
	{"atom_unique_values", "internal/generator/uniqueValues.go", nil},
	{"nested", "internal/generator/nested.go", nil},
	{"expression", "internal/generator/expression.go", nil},
	{"normalizer", "internal/validator/normalizer.go", nil},
	{"iri_expander", "internal/misc/iri_expander.go", nil},
	{"quote", "internal/generator/quote.go", nil},
	{"quote_all_literals", "internal/generator/quote.go", []string{"regoStringContent"}},
	{"message", "internal/parser/profile/message.go", []string{"ParseMessageExpression"}},
	{"names", "internal/generator/generator.go", []string{"pkg", "packageName", "profileName"}},
}

func stringLits(n ast.Node) []string {
	out := []string{}
	ast.Inspect(n, func(x ast.Node) bool {
		if bl, ok := x.(*ast.BasicLit); ok && bl.Kind == token.STRING {
			s, err := strconv.Unquote(bl.Value)
			if err == nil {
				out = append(out, s)
			}
		}
		return true
	})
	return out
}

func (g *gen) templates() {
	var b strings.Builder
	all := map[string][]string{}
	for _, sp := range tplSpecs {
		f := g.parse(sp.file)
		lits := []string{}
		if f != nil {
			if len(sp.funcs) == 0 {
				for _, d := range f.Decls {
					if _, isImport := d.(*ast.GenDecl); isImport && d.(*ast.GenDecl).Tok == token.IMPORT {
						continue
					}
					lits = append(lits, stringLits(d)...)
				}
			}
			for _, fn := range sp.funcs {
				fd := g.funcDecl(f, fn)
				if fd == nil {
					// methods: funcDecl matches by name only, so a missing name is a changed source
					g.errs = append(g.errs, fn+" not found in "+sp.file)
					continue
				}
				if strings.HasSuffix(sp.name, "_all_literals") {
					// every basic literal as written (characters and numbers too): the case analysis of the escaper
					ast.Inspect(fd, func(x ast.Node) bool {
						if bl, ok := x.(*ast.BasicLit); ok {
							lits = append(lits, bl.Value)
						}
						return true
					})
				} else {
					lits = append(lits, stringLits(fd)...)
				}
			}
		}
		all[sp.name] = lits
		b.WriteString("Definition tpl_" + sp.name + " : list string := " + CoqStringList(lits) + ".\n")
	}
	// the Rego preamble (library of helper rules pasted into every module): digest of the constant's text
	pre := ""
	if f := g.parse("internal/generator/generator.go"); f != nil {
		ast.Inspect(f, func(n ast.Node) bool {
			if vs, ok := n.(*ast.ValueSpec); ok && len(vs.Names) == 1 && vs.Names[0].Name == "preambleRaw" && len(vs.Values) == 1 {
				pre = strLit(vs.Values[0])
			}
			return true
		})
	}
	if pre == "" {
		g.errs = append(g.errs, "preambleRaw not found in internal/generator/generator.go")
	}
	sum := sha256.Sum256([]byte(pre))
	b.WriteString("Definition preamble_sha256 : string := " + CoqString(hex.EncodeToString(sum[:])) + ".\n")
	g.facts["preamble_sha256"] = hex.EncodeToString(sum[:])
	g.facts["templates"] = all
	g.write("Templates.v", b.String())
}
