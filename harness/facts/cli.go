package facts

import (
	"go/ast"
	"strconv"
)

// cli: F-cli - flags of os.OpenFile in helpers.OpenFile, accepted argument counts of the commands.
func (g *gen) cli() {
	flags := []string{}
	if fd := g.funcDecl(g.parse("cmd/commands/helpers/file_helper.go"), "OpenFile"); fd != nil {
		ast.Inspect(fd, func(n ast.Node) bool {
			if c, ok := n.(*ast.CallExpr); ok && selName(c.Fun) == "OpenFile" && len(c.Args) == 3 {
				flags = flattenOr(c.Args[1])
			}
			return true
		})
	} else {
		g.errs = append(g.errs, "helpers.OpenFile not found")
	}
	nargs := func(file, fn string) []int {
		out := []int{}
		fd := g.funcDecl(g.parse(file), fn)
		if fd == nil {
			g.errs = append(g.errs, fn+" not found in "+file)
			return out
		}
		ast.Inspect(fd, func(n ast.Node) bool {
			c, ok := n.(*ast.CallExpr)
			if !ok || len(c.Args) < 1 {
				return true
			}
			switch selName(c.Fun) {
			case "ValidateNArgs":
				if lit, ok := c.Args[0].(*ast.BasicLit); ok {
					v, _ := strconv.Atoi(lit.Value)
					out = append(out, v)
				}
			case "ValidateNsArgs":
				if cl, ok := c.Args[0].(*ast.CompositeLit); ok {
					for _, e := range cl.Elts {
						if lit, ok := e.(*ast.BasicLit); ok {
							v, _ := strconv.Atoi(lit.Value)
							out = append(out, v)
						}
					}
				}
			}
			return true
		})
		return out
	}
	v := nargs("cmd/commands/validate.go", "Validate")
	ge := nargs("cmd/commands/generate.go", "Generate")
	no := nargs("cmd/commands/normalize.go", "Normalize")
	co := nargs("cmd/commands/compile.go", "Compile")
	trunc := false
	for _, f := range flags {
		if f == "O_TRUNC" {
			trunc = true
		}
	}
	g.facts["cli_open_flags"] = flags
	g.facts["cli_trunc"] = trunc
	g.write("CliFacts.v",
		"Definition open_flags : list string := "+CoqStringList(flags)+".\n"+
			"Definition validate_nargs : list nat := "+CoqNatList(v)+".\n"+
			"Definition generate_nargs : list nat := "+CoqNatList(ge)+".\n"+
			"Definition normalize_nargs : list nat := "+CoqNatList(no)+".\n"+
			"Definition compile_nargs : list nat := "+CoqNatList(co)+".\n")
}
