package facts

import (
	"go/ast"
	"strings"
)

// skeleton renders the control-flow skeleton of a function body: event sends, calls, `if cond {..}`, defers, returns.
func (g *gen) skeleton(stmts []ast.Stmt) string {
	parts := []string{}
	callName := func(c *ast.CallExpr) string {
		name := selName(c.Fun)
		if name == "dispatchEvent" && len(c.Args) > 0 {
			if inner, ok := c.Args[0].(*ast.CallExpr); ok && len(inner.Args) > 0 {
				return "send " + selName(inner.Args[0])
			}
		}
		return "call " + name
	}
	var exprCalls func(e ast.Expr) []string
	exprCalls = func(e ast.Expr) []string {
		out := []string{}
		ast.Inspect(e, func(n ast.Node) bool {
			if c, ok := n.(*ast.CallExpr); ok {
				name := callName(c)
				switch name {
				case "call NewEvent", "call Background", "call EvalInput", "call NewBuffer", "call Query", "call Module", "call UnsafeBuiltins", "call New", "call byte":
				default:
					out = append(out, name)
				}
				if strings.HasPrefix(name, "send ") {
					return false
				}
			}
			return true
		})
		return out
	}
	for _, st := range stmts {
		switch s := st.(type) {
		case *ast.DeferStmt:
			parts = append(parts, "defer "+selName(s.Call.Fun))
		case *ast.ExprStmt:
			parts = append(parts, exprCalls(s.X)...)
		case *ast.AssignStmt:
			for _, r := range s.Rhs {
				parts = append(parts, exprCalls(r)...)
			}
		case *ast.IfStmt:
			pre := []string{}
			if s.Init != nil {
				if as, ok := s.Init.(*ast.AssignStmt); ok {
					for _, r := range as.Rhs {
						pre = append(pre, exprCalls(r)...)
					}
				}
			}
			parts = append(parts, pre...)
			txt := "if " + g.exprString(s.Cond) + " { " + g.skeleton(s.Body.List) + " }"
			if s.Else != nil {
				txt += " else { " + g.skeleton([]ast.Stmt{s.Else}) + " }"
			}
			parts = append(parts, txt)
		case *ast.DeclStmt:
			if gd, ok := s.Decl.(*ast.GenDecl); ok {
				for _, sp := range gd.Specs {
					if vs, ok := sp.(*ast.ValueSpec); ok {
						for _, v := range vs.Values {
							parts = append(parts, exprCalls(v)...)
						}
					}
				}
			}
		case *ast.RangeStmt:
			parts = append(parts, "range "+g.exprString(s.X)+" { "+g.skeleton(s.Body.List)+" }")
		case *ast.ForStmt:
			parts = append(parts, "for { "+g.skeleton(s.Body.List)+" }")
		case *ast.BlockStmt:
			parts = append(parts, g.skeleton(s.List))
		case *ast.SwitchStmt:
			parts = append(parts, "switch { "+g.caseClauses(s.Body.List)+" }")
		case *ast.TypeSwitchStmt:
			parts = append(parts, "typeswitch { "+g.caseClauses(s.Body.List)+" }")
		case *ast.SendStmt:
			parts = append(parts, "send")
		case *ast.GoStmt:
			parts = append(parts, "go "+selName(s.Call.Fun))
		case *ast.SelectStmt:
			clauses := []string{}
			for _, c := range s.Body.List {
				if cc, ok := c.(*ast.CommClause); ok {
					kind := "default"
					switch cm := cc.Comm.(type) {
					case *ast.SendStmt:
						kind = "send"
					case *ast.ExprStmt, *ast.AssignStmt:
						_ = cm
						kind = "receive"
					}
					clauses = append(clauses, "case "+kind+": "+g.skeleton(cc.Body))
				}
			}
			parts = append(parts, "select { "+strings.Join(clauses, " | ")+" }")
		case *ast.ReturnStmt:
			calls := []string{}
			for _, r := range s.Results {
				calls = append(calls, exprCalls(r)...)
			}
			if len(calls) > 0 {
				parts = append(parts, "return "+strings.Join(calls, ", "))
			} else {
				parts = append(parts, "return")
			}
		}
	}
	return strings.Join(parts, "; ")
}

func (g *gen) caseClauses(stmts []ast.Stmt) string {
	out := []string{}
	for _, st := range stmts {
		if cc, ok := st.(*ast.CaseClause); ok {
			labels := []string{}
			for _, e := range cc.List {
				labels = append(labels, g.exprString(e))
			}
			if len(labels) == 0 {
				labels = []string{"default"}
			}
			out = append(out, "case "+strings.Join(labels, ",")+": "+g.skeleton(cc.Body))
		}
	}
	return strings.Join(out, " | ")
}

// pipeline: F-events / F-skeleton - the event enumeration, and per pipeline function its control-flow skeleton.
func (g *gen) pipeline() {
	evs := []string{}
	if f := g.parse("pkg/events/events.go"); f != nil {
		ast.Inspect(f, func(n ast.Node) bool {
			if gd, ok := n.(*ast.GenDecl); ok {
				for _, sp := range gd.Specs {
					if vs, ok := sp.(*ast.ValueSpec); ok {
						for _, nm := range vs.Names {
							if strings.HasSuffix(nm.Name, "Start") || strings.HasSuffix(nm.Name, "Done") {
								evs = append(evs, nm.Name)
							}
						}
					}
				}
			}
			return true
		})
	}
	type fn struct{ coq, file, name string }
	fns := []fn{
		{"sk_generate_rego", "internal/validator/process_profile.go", "GenerateRego"},
		{"sk_compile_rego", "internal/validator/process_profile.go", "CompileRego"},
		{"sk_process_profile", "internal/validator/process_profile.go", "ProcessProfile"},
		{"sk_process_input", "internal/validator/process_input.go", "ProcessInput"},
		{"sk_execute_validation", "internal/validator/validate.go", "executeValidation"},
		{"sk_process_result", "internal/validator/process_result.go", "processResult"},
		{"sk_validate_with_configuration", "internal/validator/validate.go", "ValidateWithConfiguration"},
		{"sk_validate_compiled_with_configuration", "internal/validator/validate.go", "ValidateCompiledWithConfiguration"},
		{"sk_validate", "internal/validator/validate.go", "Validate"},
		{"sk_validate_compiled", "internal/validator/validate.go", "ValidateCompiled"},
		{"sk_compile_profile", "pkg/profile.go", "CompileProfile"},
		{"sk_pkg_validate", "pkg/validate.go", "Validate"},
		{"sk_pkg_validate_compiled", "pkg/validate.go", "ValidateCompiled"},
		{"sk_pkg_validate_with_configuration", "pkg/validate.go", "ValidateWithConfiguration"},
		{"sk_pkg_validate_compiled_with_configuration", "pkg/validate.go", "ValidateCompiledWithConfiguration"},
		{"sk_recover_as_error", "internal/validator/recover.go", "recoverAsError"},
		{"sk_close_event_chan", "internal/validator/events.go", "CloseEventChan"},
		{"sk_dispatch_event", "internal/validator/events.go", "dispatchEvent"},
		{"sk_milestones", "pkg/milestones/milestones.go", "GenerateMilestonesFromEvents"},
		{"sk_index", "internal/validator/normalizer.go", "Index"},
		{"sk_add_lexical_entry", "internal/validator/normalizer.go", "addLexicalEntryFrom"},
		{"sk_create_location_index", "internal/validator/normalizer.go", "createLocationIndex"},
		{"sk_add_elements_of_loc", "internal/validator/normalizer.go", "addElementsOfLoc"},
		{"sk_handle_single_or_multiple", "internal/validator/normalizer.go", "handleSingleOrMultipleNodes"},
		{"sk_location", "internal/validator/normalizer.go", "Location"},
		{"sk_normalize", "internal/validator/normalizer.go", "Normalize"},
	}
	var b strings.Builder
	b.WriteString("Definition event_names : list string := " + CoqStringList(evs) + ".\n")
	sk := map[string]string{}
	for _, f := range fns {
		fd := g.funcDecl(g.parse(f.file), f.name)
		text := ""
		if fd == nil || fd.Body == nil {
			g.errs = append(g.errs, f.name+" not found in "+f.file)
		} else {
			text = g.skeleton(fd.Body.List)
		}
		sk[f.coq] = text
		b.WriteString("Definition " + f.coq + " : string := " + CoqString(text) + ".\n")
	}
	g.facts["skeletons"] = sk
	g.write("PipelineFacts.v", b.String())
}
