// verifh: translator (`facts`) and correspondence harness (`check`) of the Coq verification of
// amf-custom-validator.  Built against /repo's current working tree on every check run.
package main

import (
	"encoding/json"
	"flag"
	"fmt"
	"math/rand"
	"os"
	"path/filepath"

	"github.com/aml-org/amf-custom-validator/verifh/core"
	"github.com/aml-org/amf-custom-validator/verifh/facts"
	"github.com/aml-org/amf-custom-validator/verifh/props"
)

func main() {
	if len(os.Args) < 2 {
		fmt.Fprintln(os.Stderr, "usage: verifh facts|check ...")
		os.Exit(2)
	}
	switch os.Args[1] {
	case "facts":
		fs := flag.NewFlagSet("facts", flag.ExitOnError)
		repo := fs.String("repo", "/repo", "")
		out := fs.String("out", "/verif/coq/Extracted", "")
		jsonOut := fs.String("json", "", "")
		forID := fs.String("for", "", "property id: enables the facts that are expensive to extract and only that property needs")
		fs.Parse(os.Args[2:])
		f, errs := facts.Run(*repo, *out, *forID)
		f["errors"] = errs
		data, _ := json.MarshalIndent(f, "", " ")
		if *jsonOut != "" {
			os.WriteFile(*jsonOut, data, 0o644)
		} else {
			fmt.Println(string(data))
		}
	case "check":
		fs := flag.NewFlagSet("check", flag.ExitOnError)
		id := fs.String("id", "", "")
		tier := fs.String("tier", "quick", "")
		seed := fs.Int64("seed", 1, "")
		repo := fs.String("repo", "/repo", "")
		verif := fs.String("verif", "/verif", "")
		driver := fs.String("driver", "/verif/.build/driver", "")
		factsPath := fs.String("facts", "/verif/.build/facts.json", "")
		out := fs.String("out", "", "")
		fs.Parse(os.Args[2:])
		fn, ok := props.Checks[*id]
		if !ok {
			fmt.Fprintln(os.Stderr, "unknown property", *id)
			os.Exit(2)
		}
		res := core.NewResult(*id, *tier, *seed, *verif)
		fcts := map[string]any{}
		if data, err := os.ReadFile(*factsPath); err == nil {
			json.Unmarshal(data, &fcts)
		}
		scratch, err := os.MkdirTemp("", "verifh-"+*id+"-")
		if err != nil {
			panic(err)
		}
		defer os.RemoveAll(scratch)
		drv, err := core.StartDriver(*driver)
		if err != nil {
			panic(err)
		}
		env := &core.Env{Repo: *repo, Verif: *verif, Tier: *tier, Seed: *seed, Rand: rand.New(rand.NewSource(*seed)),
			Driver: drv, Facts: fcts, Scratch: scratch, Res: res}
		func() {
			defer func() {
				if r := recover(); r != nil {
					res.Violate("harness-error", fmt.Sprintf("harness panic: %v", r), map[string]any{"no_failing_input_found": true, "broken": "correspondence harness for " + *id})
				}
			}()
			fn(env)
		}()
		drv.Close()
		os.RemoveAll(scratch)
		if *out == "" {
			*out = filepath.Join(*verif, ".build", *id+".result.json")
		}
		if err := res.Write(*out); err != nil {
			panic(err)
		}
	case "modtext":
		// verifh modtext FILE...: the module the generator writes for each profile file against the Coq model of the generator
		drv, err := core.StartDriver("/verif/.build/driver")
		if err != nil {
			panic(err)
		}
		res := core.NewResult("C07", "quick", 1, "/verif")
		env := &core.Env{Repo: "/repo", Verif: "/verif", Tier: "quick", Seed: 1, Driver: drv, Res: res}
		props.ModText(env, os.Args[2:])
		drv.Close()
	case "oneshot":
		cfg := 0
		if len(os.Args) > 4 {
			fmt.Sscan(os.Args[4], &cfg)
		}
		props.OneShot(os.Args[2], os.Args[3], cfg)
	case "c17storm":
		rounds := 500
		if len(os.Args) > 4 {
			fmt.Sscan(os.Args[4], &rounds)
		}
		props.C17Storm(os.Args[2], os.Args[3], rounds)
	case "c06conc":
		rounds := 3
		if len(os.Args) > 4 {
			fmt.Sscan(os.Args[4], &rounds)
		}
		props.C06Conc(os.Args[2], os.Args[3], rounds)
	case "c10load":
		var seed int64
		var rounds int
		fmt.Sscan(os.Args[2], &seed)
		fmt.Sscan(os.Args[3], &rounds)
		props.C10Load(seed, rounds)
	default:
		fmt.Fprintln(os.Stderr, "unknown subcommand")
		os.Exit(2)
	}
}
