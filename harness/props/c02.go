package props

import (
	"fmt"
	"github.com/aml-org/amf-custom-validator/internal/validator"
	"github.com/aml-org/amf-custom-validator/pkg/config"
	"regexp"
	"sort"
	"strings"
	"sync"

	"github.com/aml-org/amf-custom-validator/pkg"
	"github.com/aml-org/amf-custom-validator/verifh/core"
	"github.com/aml-org/amf-custom-validator/verifh/sx"
	"github.com/open-policy-agent/opa/rego"
)

type c02obs struct {
	strs  map[string]bool // as_string of every reached value (traces of an unmatchable `in`)
	count int             // distinct values (maxCount: 0 trace)
	nodes map[string]bool // nodes a nested constraint ranges over
	nn    int
}

func traceValues(res RResult) []map[string]any {
	out := []map[string]any{}
	if tr, ok := res.Raw["trace"].([]any); ok {
		for _, t := range tr {
			if tm, ok := t.(map[string]any); ok {
				if tv, ok := tm["traceValue"].(map[string]any); ok {
					out = append(out, tv)
				}
			}
		}
	}
	return out
}

func asStr(v any) string {
	switch x := v.(type) {
	case string:
		return x
	case float64:
		return fmt.Sprint(int(x))
	case bool:
		return fmt.Sprint(x)
	}
	return fmt.Sprint(v)
}

func getObs(obs map[string]*c02obs, k string) *c02obs {
	if obs[k] == nil {
		obs[k] = &c02obs{strs: map[string]bool{}, nodes: map[string]bool{}}
	}
	return obs[k]
}

// C02: enumerated paths x graphs; the values each path reaches from every node are observed through the report
// (in / maxCount / nested traces) and compared with PathSem.model_* (the generator's clauses) and PathSem.spec_*
// (the denotation of C02).
func C02(e *core.Env) {
	res := e.Res
	res.Rule = "cases = (path, graph, focus node); paths: every path with <= 2 leaves over ex.a ex.b ex.c forward/inverse and @type plus a seeded sample with 3-4 (quick) / all with 3 and a sample with 4-5 (thorough), plus every 3-part (and a sample of 4-part) sequence whose parts are a predicate, a parenthesised sequence or a parenthesised alternative; for every third path and all of the latter the three observing constraints are ALSO written under one path key and must see the same values; " +
		"a history (paths over the built-in prefix core. before / after a profile that rebinds core was compiled);the same paths and graph with the vocabulary under five namespaces that do not end in `#` (URN, query-style, `/`, tag:), report renamed back; the same profile validated while 4 goroutines compile another profile in a loop; graphs: hand-made (cycle, diamond, self loop, literal and dangling link mid-path) + seeded random; observables: strings of reached values, number of distinct values, nodes reached for nested; for every 7th (quick) / every (thorough) path the text of the generated path rules (values mode and nodes mode), clause by clause and line by line, against PathGen.path_rule_lines; " +
		"non-trivial = the path reaches at least one value from that node; distinct by (path, graph, node)"
	leaves := []PExp{Pr("ex.a", false), Pr("ex.b", false), Pr("ex.c", false), Pr("ex.a", true), Pr("ex.b", true), Pr("ex.c", true), Pr("@type", false)}
	paths := []PExp{}
	paths = append(paths, EnumPaths(1, leaves, 1<<30)...)
	paths = append(paths, EnumPaths(2, leaves, 1<<30)...)
	p3 := EnumPaths(3, leaves, 1<<30)
	if e.Quick() {
		for i := 0; i < 260; i++ {
			paths = append(paths, p3[e.Rand.Intn(len(p3))])
		}
	} else {
		paths = append(paths, p3...)
	}
	small := []PExp{Pr("ex.a", false), Pr("ex.b", false), Pr("ex.a", true), Pr("ex.c", true)}
	p4 := EnumPaths(4, small, 40000)
	p5 := EnumPaths(5, small[:3], 40000)
	for i := 0; i < e.Pick(120, 1500); i++ {
		paths = append(paths, p4[e.Rand.Intn(len(p4))])
	}
	for i := 0; i < e.Pick(30, 500); i++ {
		paths = append(paths, p5[e.Rand.Intn(len(p5))])
	}
	// shapes the seeding reports name explicitly
	paths = append(paths,
		PExp{Kind: "and", Kids: []PExp{{Kind: "or", Kids: []PExp{Pr("ex.a", false), Pr("ex.b", false)}}, {Kind: "or", Kids: []PExp{Pr("ex.c", false), Pr("ex.a", false)}}}},
		PExp{Kind: "and", Kids: []PExp{{Kind: "and", Kids: []PExp{Pr("ex.a", false), Pr("ex.a", false)}}, {Kind: "or", Kids: []PExp{Pr("ex.a", false), Pr("ex.c", false)}}}},
		PExp{Kind: "and", Kids: []PExp{Pr("ex.a", false), {Kind: "or", Kids: []PExp{Pr("ex.b", true), Pr("ex.a", false)}}}},
		PExp{Kind: "and", Kids: []PExp{Pr("ex.a", false), {Kind: "or", Kids: []PExp{Pr("ex.a", false), Pr("ex.b", false)}}, {Kind: "or", Kids: []PExp{Pr("ex.a", false), Pr("ex.b", false)}}}},
		PExp{Kind: "and", Kids: []PExp{{Kind: "or", Kids: []PExp{Pr("ex.a", false), Pr("ex.b", false), Pr("ex.c", false)}}, {Kind: "or", Kids: []PExp{Pr("ex.a", false), Pr("ex.b", false)}}}},
		PExp{Kind: "or", Kids: []PExp{{Kind: "and", Kids: []PExp{Pr("ex.a", false), Pr("ex.b", false)}}, {Kind: "and", Kids: []PExp{Pr("ex.a", true), Pr("ex.b", true)}}}},
	)

	// parenthesised groups inside a sequence: every 3-part sequence whose parts are a predicate, (x / y) or (x | y)
	explicitFrom := len(paths) - 6
	grp := func(k int, x, y PExp) PExp {
		switch k {
		case 1:
			return PExp{Kind: "and", Kids: []PExp{x, y}}
		case 2:
			return PExp{Kind: "or", Kids: []PExp{x, y}}
		}
		return x
	}
	la, lb, lc, lai := Pr("ex.a", false), Pr("ex.b", false), Pr("ex.c", false), Pr("ex.a", true)
	for k1 := 0; k1 < 3; k1++ {
		for k2 := 0; k2 < 3; k2++ {
			for k3 := 0; k3 < 3; k3++ {
				if k1+k2+k3 == 0 {
					continue
				}
				paths = append(paths, PExp{Kind: "and", Kids: []PExp{grp(k1, la, lb), grp(k2, lb, la), grp(k3, la, lc)}})
				if e.Quick() && (k1+2*k2+k3)%3 != 0 {
					continue
				}
				paths = append(paths, PExp{Kind: "and", Kids: []PExp{grp(k1, lai, la), grp(k2, la, lc), grp(k3, lb, lai), grp(k1, la, la)}})
			}
		}
	}
	withAll := func(i int) bool { return i >= explicitFrom || i%3 == 0 }

	hand := Graph{Nodes: []GNode{
		{ID: NodeID(0), Types: []string{ExNS + "T"}, Props: []GProp{{ExNS + "a", []GVal{VR(NodeID(1)), VR(NodeID(2)), VS("lit")}}, {ExNS + "b", []GVal{VR(NodeID(0))}}}},
		{ID: NodeID(1), Types: []string{ExNS + "T"}, Props: []GProp{{ExNS + "a", []GVal{VR(NodeID(3))}}, {ExNS + "b", []GVal{VR(NodeID(3)), VI(7)}}, {ExNS + "c", []GVal{VR(NodeID(0))}}}},
		{ID: NodeID(2), Types: []string{ExNS + "T", ExNS + "U"}, Props: []GProp{{ExNS + "a", []GVal{VR(NodeID(3)), VR(DataNS + "dangling")}}, {ExNS + "c", []GVal{VR(NodeID(1)), VB(true)}}}},
		{ID: NodeID(3), Types: []string{ExNS + "T"}, Props: []GProp{{ExNS + "a", []GVal{VR(NodeID(0))}}, {ExNS + "b", []GVal{VS("x"), VS("y")}}, {ExNS + "c", []GVal{VR(NodeID(3))}}}},
	}}
	graphs := []Graph{hand}
	for i := 0; i < e.Pick(2, 8); i++ {
		graphs = append(graphs, RandomEdgeGraph(e.Rand, 3+e.Rand.Intn(4), []string{"a", "b", "c"}, 0.25+0.2*e.Rand.Float64()))
	}

	batch := 14
	type compiledBatch struct {
		q       *rego.PreparedEvalQuery
		profile string
		err     error
	}
	cache := map[int]*compiledBatch{} // one compilation per batch of paths, evaluated on every graph
	for gi, g := range graphs {
		data := g.JSONLD()
		ids := g.IDs()
		for start := 0; start < len(paths); start += batch {
			end := start + batch
			if end > len(paths) {
				end = len(paths)
			}
			cb := cache[start]
			if cb == nil {
				var b strings.Builder
				b.WriteString(ProfileHeader)
				b.WriteString("violation:\n")
				for i := start; i < end; i++ {
					fmt.Fprintf(&b, "  - p%d-in\n  - p%d-cnt\n  - p%d-nest\n", i, i, i)
					if withAll(i) {
						fmt.Fprintf(&b, "  - p%d-all\n", i)
					}
				}
				b.WriteString("validations:\n")
				for i := start; i < end; i++ {
					ps := yamlQuote(paths[i].Canon())
					fmt.Fprintf(&b, "  p%d-in:\n    targetClass: ex.T\n    propertyConstraints:\n      %s:\n        in: [ __no_such_value__ ]\n", i, ps)
					fmt.Fprintf(&b, "  p%d-cnt:\n    targetClass: ex.T\n    propertyConstraints:\n      %s:\n        maxCount: 0\n", i, ps)
					// the same three constraints under ONE path key: every constraint of a property sees the same values
					if withAll(i) {
						fmt.Fprintf(&b, "  p%d-all:\n    targetClass: ex.T\n    propertyConstraints:\n      %s:\n        in: [ __no_such_value__ ]\n        maxCount: 0\n        nested:\n          propertyConstraints:\n            ex.nosuchproperty:\n              minCount: 1\n", i, ps)
					}
					fmt.Fprintf(&b, "  p%d-nest:\n    targetClass: ex.T\n    propertyConstraints:\n      %s:\n        nested:\n          propertyConstraints:\n            ex.nosuchproperty:\n              minCount: 1\n", i, ps)
				}
				cb = &compiledBatch{profile: b.String()}
				if tcFor(e).check("C02 batch", cb.profile) {
					res.Count("whole-module-text=equal")
				}
				cb.q, cb.err = pkg.CompileProfile(cb.profile, false, nil)
				cache[start] = cb
			}
			profile := cb.profile
			var out string
			err := cb.err
			if err == nil {
				out, err = pkg.ValidateCompiled(cb.q, data, false, nil)
			}
			if err != nil {
				res.Violate("impl-violates-property", "a profile made of enumerated paths does not validate: "+err.Error(),
					map[string]any{"profile": profile, "data": data, "error": err.Error()})
				continue
			}
			rep, err := ParseReport(out)
			if err != nil {
				res.Violate("harness-error", "report does not parse: "+err.Error(), map[string]any{"report": core.Trunc(out, 2000), "no_failing_input_found": true, "broken": "report parser"})
				continue
			}
			obs := map[string]*c02obs{} // key: path index / node
			get := func(i int, n string) *c02obs { return getObs(obs, fmt.Sprintf("%d/%s", i, n)) }
			getAll := func(i int, n string) *c02obs { return getObs(obs, fmt.Sprintf("all/%d/%s", i, n)) }
			for _, r := range rep.Results {
				var idx int
				var kind string
				if _, err := fmt.Sscanf(strings.Replace(r.Name, "-", " ", 1), "p%d %s", &idx, &kind); err != nil {
					continue
				}
				o := get(idx, r.Focus)
				if kind == "all" {
					o = getAll(idx, r.Focus)
				}
				for _, tv := range traceValues(r) {
					kind := kind
					if kind == "all" {
						if _, ok := tv["failedNodes"]; ok {
							kind = "nest"
						} else if _, ok := tv["actual"].(float64); ok && strings.Contains(fmt.Sprint(tv["condition"]), "<=") {
							kind = "cnt"
						} else {
							kind = "in"
						}
					}
					switch kind {
					case "in":
						o.strs[asStr(tv["actual"])] = true
					case "cnt":
						if f, ok := tv["actual"].(float64); ok {
							o.count = int(f)
						}
					case "nest":
						if f, ok := tv["failedNodes"].(float64); ok {
							o.nn = int(f)
						}
						if subs, ok := tv["subResult"].([]any); ok {
							for _, s := range subs {
								if sm, ok := s.(map[string]any); ok {
									if fn, ok := sm["focusNode"].(string); ok {
										o.nodes[fn] = true
									}
								}
							}
						}
					}
				}
			}
			for i := start; i < end; i++ {
				ans, err := e.Driver.Eval(sx.L(sx.A("c02"), sx.A("eval"), g.Sx(), paths[i].Expanded().Sx(), idsSx(ids)))
				if err != nil {
					res.Violate("harness-error", err.Error(), map[string]any{"no_failing_input_found": true, "broken": "driver"})
					return
				}
				for ni, n := range ids {
					o := get(i, n)
					implStrs := sortedKeys(o.strs)
					implNodes := sortedKeys(o.nodes)
					impl := sx.L(strsSx(implStrs), sx.I(o.count), strsSx(implNodes))
					m := ans.List[ni].List[0]
					model := sx.L(m.List[0], m.List[1], m.List[2])
					mixed := m.List[3].Atom == "1"
					spec := ans.List[ni].List[1]
					key := fmt.Sprintf("%s|g%d|%s", paths[i].Canon(), gi, n)
					res.Case(key, len(implStrs) > 0 || o.count > 0)
					res.Count(fmt.Sprintf("leaves=%d", strings.Count(paths[i].Canon(), "ex.")+strings.Count(paths[i].Canon(), "@type")))
					replay := map[string]any{"path": paths[i].Canon(), "focus": n, "data": data, "impl": impl.String(), "model": model.String(), "spec": spec.String(),
						"observables": "(strings of reached values, number of distinct values, nodes reached by nested)", "profile_fragment": "propertyConstraints: {" + paths[i].Canon() + ": {in: [x]}} / {maxCount: 0} / {nested: ...}"}
					oa := getAll(i, n)
					implAll := sx.L(strsSx(sortedKeys(oa.strs)), sx.I(oa.count), strsSx(sortedKeys(oa.nodes)))
					if withAll(i) && implAll.String() != impl.String() && implAll.String() != spec.String() {
						rp := map[string]any{}
						for k, v := range replay {
							rp[k] = v
						}
						rp["impl_three_constraints_under_one_key"] = implAll.String()
						rp["profile_fragment"] = "propertyConstraints: {" + paths[i].Canon() + ": {in: [x], maxCount: 0, nested: ...}} versus the same three constraints in three validations"
						res.Violate("impl-violates-property", "three constraints written under one key `"+paths[i].Canon()+"` do not all see the path's denotation from "+n, rp)
					}
					if len(implNodes) != o.nn {
						res.Violate("impl-violates-property", "nested failedNodes differs from the number of distinct sub-result focus nodes for "+key, replay)
					}
					if impl.String() != spec.String() {
						// the denotation differs: known only for the double-counting class
						onlyCount := impl.List[0].String() == spec.List[0].String() && impl.List[2].String() == spec.List[2].String()
						if onlyCount && mixed && impl.String() == model.String() && res.KnownClass("mixed-final-step-dup") {
							res.Known("mixed-final-step-dup", "a node reached by a forward last step and by an inverse last step counts twice (e.g. `"+paths[i].Canon()+"`)")
							res.Count("known:mixed-final-step-dup")
						} else {
							res.Violate("impl-violates-property", "values reached by `"+paths[i].Canon()+"` from "+n+" differ from the path's denotation", replay)
						}
					} else if impl.String() != model.String() {
						replay["no_failing_input_found"] = true
						replay["broken"] = "correspondence PathSem.model_values vs generated policy"
						res.Violate("model-mismatch", "values reached by `"+paths[i].Canon()+"` differ from the model", replay)
					}
				}
			}
		}
		if gi == 0 {
			res.Sample(map[string]any{"graph": data, "paths": []string{paths[0].Canon(), paths[20].Canon(), paths[len(paths)-1].Canon()}})
		}
	}
	// history: paths over a BUILT-IN prefix (core.) reach the same values before and after another profile that binds that
	// prefix name to another namespace was compiled in the process
	{
		const coreNS = "http://a.ml/vocabularies/core#"
		hp := []PExp{paths[0], paths[7], paths[30], paths[60], paths[len(paths)-1], paths[len(paths)-5], paths[len(paths)-9]}
		mk := func(prefix string, declare bool) string {
			var b strings.Builder
			b.WriteString("#%Validation Profile 1.0\nprofile: gen\n")
			if declare {
				b.WriteString("prefixes:\n  ex: http://example.org/ns#\n")
			}
			b.WriteString("violation:\n")
			for i := range hp {
				fmt.Fprintf(&b, "  - h%d-in\n  - h%d-cnt\n", i, i)
			}
			b.WriteString("validations:\n")
			for i, p := range hp {
				ps := yamlQuote(strings.ReplaceAll(p.Canon(), "ex.", prefix+"."))
				fmt.Fprintf(&b, "  h%d-in:\n    targetClass: %s.T\n    propertyConstraints:\n      %s:\n        in: [ __no_such_value__ ]\n", i, prefix, ps)
				fmt.Fprintf(&b, "  h%d-cnt:\n    targetClass: %s.T\n    propertyConstraints:\n      %s:\n        maxCount: 0\n", i, prefix, ps)
			}
			return b.String()
		}
		rc := config.DefaultReportConfiguration()
		dataEx := hand.JSONLD()
		dataCore := strings.ReplaceAll(dataEx, ExNS, coreNS)
		other := "#%Validation Profile 1.0\nprofile: Other\nprefixes:\n  core: http://elsewhere.example/core#\n  ex: http://elsewhere.example/ex#\nviolation:\n  - o\nvalidations:\n  o:\n    targetClass: core.T\n    message: other\n    propertyConstraints:\n      core.a / ex.b:\n        minCount: 1\n"
		run := func(p, d string) string {
			o, err := pkg.ValidateWithConfiguration(p, d, false, nil, clockA, rc)
			if err != nil {
				return "error: " + err.Error()
			}
			return o
		}
		refEx := strings.ReplaceAll(run(mk("ex", true), dataEx), ExNS, coreNS)
		before := run(mk("core", false), dataCore)
		pkg.CompileProfile(other, false, nil)
		run(other, dataCore)
		after := run(mk("core", false), dataCore)
		afterEx := strings.ReplaceAll(run(mk("ex", true), dataEx), ExNS, coreNS)
		replay := map[string]any{"history": []string{"Validate(paths over the built-in prefix core., data)", "CompileProfile(other: rebinds core and ex)", "Validate(other, data)", "Validate(paths over core., data) again"},
			"profile_core": mk("core", false), "other_profile": other, "data": dataCore}
		switch {
		case before != refEx:
			replay["first_diff_line"] = firstDiff(refEx, before)
			res.Violate("impl-violates-property", "the same paths written over the built-in prefix core. (same graph, namespace renamed) reach other values than over a declared prefix", replay)
		case after != before:
			replay["first_diff_line"] = firstDiff(before, after)
			res.Violate("impl-violates-property", "paths over a built-in prefix reach other values after another profile that rebinds that prefix was compiled", replay)
		case afterEx != refEx:
			replay["first_diff_line"] = firstDiff(refEx, afterEx)
			res.Violate("impl-violates-property", "paths over a declared prefix reach other values after another profile that binds the same prefix name elsewhere was compiled", replay)
		}
		res.Case("history|builtin-prefix-paths", strings.Contains(before, "\"result\""))
		res.Count("stream=history")
	}
	// the TEXT of the path rules: for a sample of the paths, the clauses of the rules in the real generated module (values mode
	// for `in`, nodes mode for `nested`) against PathGen.path_rule_lines, line by line - the model whose every clause is proved safe
	{
		stepR := e.Pick(7, 1)
		for i, pth := range paths {
			if i%stepR != 0 && i < explicitFrom {
				continue
			}
			if !pathRuleText(e, res, pth) {
				break
			}
			res.Case("rule-text|"+pth.Canon(), true)
			res.Count("stream=path-rule-text")
		}
	}
	// namespaces: the same graph and the same paths with the vocabulary moved to namespaces that do not end in `#`
	// (a URN, a query-style namespace, a `/` namespace): after renaming the namespace back the report is the same
	{
		hp := []PExp{paths[0], paths[3], paths[7], paths[30], paths[60], paths[len(paths)-1], paths[len(paths)-5], paths[len(paths)-9]}
		mk := func(ns string) string {
			var b strings.Builder
			b.WriteString("#%Validation Profile 1.0\nprofile: gen\nprefixes:\n  ex: \"" + ns + "\"\nviolation:\n")
			for i := range hp {
				fmt.Fprintf(&b, "  - h%d-in\n  - h%d-cnt\n  - h%d-min\n", i, i, i)
			}
			b.WriteString("validations:\n")
			for i, p := range hp {
				ps := yamlQuote(p.Canon())
				fmt.Fprintf(&b, "  h%d-in:\n    targetClass: ex.T\n    propertyConstraints:\n      %s:\n        in: [ __no_such_value__ ]\n", i, ps)
				fmt.Fprintf(&b, "  h%d-cnt:\n    targetClass: ex.T\n    propertyConstraints:\n      %s:\n        maxCount: 0\n", i, ps)
				fmt.Fprintf(&b, "  h%d-min:\n    targetClass: ex.T\n    propertyConstraints:\n      %s:\n        minCount: 1\n", i, ps)
			}
			return b.String()
		}
		rc := config.DefaultReportConfiguration()
		dataEx := hand.JSONLD()
		run := func(p, d string) string {
			o, err := pkg.ValidateWithConfiguration(p, d, false, nil, clockA, rc)
			if err != nil {
				return "error: " + err.Error()
			}
			return o
		}
		ref := run(mk(ExNS), dataEx)
		for _, ns := range []string{"urn:example:ns:", "http://example.org/q?term=", "http://example.org/ns/", "http://example.org/ns#sub-", "tag:example.org,2026:"} {
			d := strings.ReplaceAll(dataEx, ExNS, ns)
			got := strings.ReplaceAll(run(mk(ns), d), ns, ExNS)
			if got != ref {
				res.Violate("impl-violates-property", "the same paths over the same graph reach other values when the vocabulary's namespace is `"+ns+"` instead of `"+ExNS+"`",
					map[string]any{"profile": mk(ns), "data": d, "namespace": ns, "reference_namespace": ExNS, "first_diff_line": firstDiff(ref, got), "mode": "namespace renamed in profile and data, report renamed back"})
			}
			res.Case("namespace|"+ns, strings.Contains(ref, "\"result\""))
			res.Count("stream=namespace-forms")
		}
		// while other profiles are being compiled in the process: the values a path reaches do not depend on it
		other := "#%Validation Profile 1.0\nprofile: Other\nprefixes:\n  ex: http://elsewhere.example/ex#\nviolation:\n  - o\nvalidations:\n  o:\n    targetClass: ex.T\n    message: other\n    propertyConstraints:\n      ex.a / ex.b:\n        minCount: 1\n"
		victim := mk(ExNS)
		stop := make(chan struct{})
		var wg sync.WaitGroup
		for w := 0; w < 4; w++ {
			wg.Add(1)
			go func() {
				defer wg.Done()
				defer func() { recover() }()
				for {
					select {
					case <-stop:
						return
					default:
					}
					pkg.CompileProfile(other, false, nil)
				}
			}()
		}
		for round := 0; round < e.Pick(6, 30); round++ {
			got := run(victim, dataEx)
			if got != ref {
				res.Violate("impl-violates-property", "the values the paths of a profile reach differ when other profiles are compiled in the process at the same time",
					map[string]any{"profile": victim, "data": dataEx, "other_profile_compiled_in_a_loop_by_4_goroutines": other, "round": round, "first_diff_line": firstDiff(ref, got), "mode": "validation while other profiles compile"})
				break
			}
			res.Case(fmt.Sprintf("while-others-compile|%d", round), strings.Contains(ref, "\"result\""))
			res.Count("stream=while-others-compile")
		}
		close(stop)
		wg.Wait()
	}
	kinds := []string{}
	for k := range res.Distribution {
		kinds = append(kinds, k)
	}
	sort.Strings(kinds)
	res.Distribution["paths"] = len(paths)
	res.Distribution["graphs"] = len(graphs)
}

var rePathRuleHead = regexp.MustCompile(`^(gen_path_set_rule_\d+)\[nodes\] \{$`)

// pathRuleText: the clauses of the path rules in the real generated module for one path (values mode for `in`, nodes mode for
// `nested`) against PathGen.path_rule_lines, line by line. false = stop (the driver is gone).
func pathRuleText(e *core.Env, res *core.Result, pth PExp) bool {
	reHead := rePathRuleHead
	ps := yamlQuote(pth.Canon())
	profile := ProfileHeader + "violation:\n  - vin\n  - vnest\nvalidations:\n" +
		fmt.Sprintf("  vin:\n    targetClass: ex.T\n    propertyConstraints:\n      %s:\n        in: [ a ]\n", ps) +
		fmt.Sprintf("  vnest:\n    targetClass: ex.T\n    propertyConstraints:\n      %s:\n        nested:\n          propertyConstraints:\n            ex.leaf:\n              minCount: 1\n", ps)
	unit, gerr := validator.GenerateRego(profile, false, nil)
	if gerr != nil || unit == nil {
		res.Violate("impl-violates-property", "a profile made of an enumerated path is not translated: "+fmt.Sprint(gerr), map[string]any{"profile": profile})
		return true
	}
	// the set rules of the module whose first clause starts from x (the rule of ex.leaf inside nested starts from y)
	rules := [][][]string{}
	var cur [][]string
	in := false
	for _, raw := range strings.Split(unit.Code, "\n") {
		line := strings.TrimSpace(raw)
		switch {
		case reHead.MatchString(line):
			in, cur = true, [][]string{{}}
		case in && line == "} {":
			cur = append(cur, []string{})
		case in && line == "}":
			in = false
			rules = append(rules, cur)
		case in:
			cur[len(cur)-1] = append(cur[len(cur)-1], line)
		}
	}
	enc := func(r [][]string) string {
		parts := []string{}
		for _, c := range r {
			parts = append(parts, strings.Join(c, " ; "))
		}
		return strings.Join(parts, " || ")
	}
	ans, derr := e.Driver.Eval(sx.L(sx.A("c02"), sx.A("rule-lines"), pth.Expanded().Sx(), sx.S("x")))
	if derr != nil {
		res.Violate("harness-error", derr.Error(), map[string]any{"no_failing_input_found": true, "broken": "driver"})
		return false
	}
	model := []string{}
	for _, m := range ans.List {
		cls := [][]string{}
		for _, c := range m.List {
			ls := []string{}
			for _, l := range c.List {
				ls = append(ls, l.Text())
			}
			cls = append(cls, ls)
		}
		model = append(model, enc(cls))
	}
	seen := map[string]bool{}
	for _, r := range rules {
		if len(r) == 0 || len(r[0]) == 0 || !strings.HasPrefix(r[0][0], "init_x_") {
			continue
		}
		got := enc(r)
		seen[got] = true
		if got != model[0] && got != model[1] {
			res.Violate("model-mismatch", "the text of a path rule for `"+pth.Canon()+"` differs from PathGen.path_rule_lines",
				map[string]any{"no_failing_input_found": true, "broken": "correspondence PathGen.path_rule_lines vs generator/path.go", "path": pth.Canon(), "profile": profile,
					"impl_rule": got, "model_values_rule": model[0], "model_nodes_rule": model[1]})
		}
	}
	if !seen[model[0]] || !seen[model[1]] {
		res.Violate("model-mismatch", "the generated module for `"+pth.Canon()+"` lacks a path rule that PathGen.path_rule_lines predicts",
			map[string]any{"no_failing_input_found": true, "broken": "correspondence PathGen.path_rule_lines vs generator/path.go", "path": pth.Canon(), "profile": profile,
				"model_values_rule": model[0], "model_nodes_rule": model[1], "impl_rules": sortedKeys(seen)})
	}
	return true
}
