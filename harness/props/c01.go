package props

import (
	"encoding/json"
	"fmt"
	"github.com/aml-org/amf-custom-validator/internal/validator"
	yaml3 "gopkg.in/yaml.v3"
	"math/rand"
	"os"
	"sort"
	"strings"
	"sync"
	"time"

	"github.com/aml-org/amf-custom-validator/pkg"
	"github.com/aml-org/amf-custom-validator/verifh/core"
	"github.com/aml-org/amf-custom-validator/verifh/sx"
)

// ------------------------------------------------------------------------------------ formulas

type FAtom struct {
	Kind  string // count length in containsAll containsSome num pattern cmp datatype
	Q     string // count/length: min max exact ; num: ge gt lt le ; cmp: lt le eq ne ; pattern: exact prefix suffix contains
	Path  PExp
	Path2 PExp
	K     int
	Strs  []string
	S     string // pattern literal / datatype local name
}

type FForm struct {
	Kind    string // atom nested and or not if      (atom / nested are written as propertyConstraints)
	Atom    *FAtom
	Kids    []FForm
	Q       string // nested: all atLeast atMost
	K       int
	Path    PExp
	HasElse bool
}

const xsdNS = "http://www.w3.org/2001/XMLSchema#"

func (a FAtom) constraint() (string, any) {
	switch a.Kind {
	case "count":
		return map[string]string{"min": "minCount", "max": "maxCount", "exact": "exactCount"}[a.Q], a.K
	case "length":
		return map[string]string{"min": "minLength", "max": "maxLength", "exact": "exactLength"}[a.Q], a.K
	case "in", "containsAll", "containsSome":
		return a.Kind, a.Strs
	case "num":
		return map[string]string{"ge": "minInclusive", "gt": "minExclusive", "lt": "maxExclusive", "le": "maxInclusive"}[a.Q], a.K
	case "pattern":
		switch a.Q {
		case "exact":
			return "pattern", "^" + a.S + "$"
		case "prefix":
			return "pattern", "^" + a.S
		case "suffix":
			return "pattern", a.S + "$"
		}
		return "pattern", a.S
	case "cmp":
		return map[string]string{"lt": "lessThanProperty", "le": "lessThanOrEqualsToProperty", "eq": "equalsToProperty", "ne": "disjointWithProperty"}[a.Q], a.Path2.Canon()
	case "datatype":
		return "datatype", "xsd." + a.S
	}
	panic("atom kind " + a.Kind)
}

func (a FAtom) Sx() sx.V {
	p := a.Path.Expanded().Sx()
	switch a.Kind {
	case "count", "length":
		return sx.L(sx.A(a.Kind), sx.A(a.Q), p, sx.I(a.K))
	case "in", "containsAll", "containsSome":
		return sx.L(sx.A(a.Kind), p, strsSx(a.Strs))
	case "num":
		return sx.L(sx.A("num"), sx.A(a.Q), p, sx.I(a.K))
	case "pattern":
		return sx.L(sx.A("pattern"), p, sx.L(sx.A(a.Q), sx.S(a.S)))
	case "cmp":
		return sx.L(sx.A("cmp"), sx.A(a.Q), p, a.Path2.Expanded().Sx())
	case "datatype":
		return sx.L(sx.A("datatype"), p, sx.S(xsdNS+a.S))
	}
	panic("atom kind " + a.Kind)
}

// Expr renders the formula as the mapping the profile language expects (JSON is YAML flow style).
func (f FForm) Expr() map[string]any {
	switch f.Kind {
	case "atom":
		k, v := f.Atom.constraint()
		return map[string]any{"propertyConstraints": map[string]any{f.Atom.Path.Canon(): map[string]any{k: v}}}
	case "nested":
		inner := f.Kids[0].Expr()
		var c map[string]any
		switch f.Q {
		case "all":
			c = map[string]any{"nested": inner}
		default:
			c = map[string]any{f.Q: map[string]any{"count": f.K, "validation": inner}}
		}
		return map[string]any{"propertyConstraints": map[string]any{f.Path.Canon(): c}}
	case "rego":
		return map[string]any{"rego": f.Q}
	case "pc":
		// several atoms / quantified constraints in ONE propertyConstraints mapping (same or different property keys)
		merged := map[string]any{}
		for _, k := range f.Kids {
			for path, cs := range k.Expr()["propertyConstraints"].(map[string]any) {
				if cur, ok := merged[path].(map[string]any); ok {
					for ck, cv := range cs.(map[string]any) {
						cur[ck] = cv
					}
				} else {
					merged[path] = cs
				}
			}
		}
		return map[string]any{"propertyConstraints": merged}
	case "and", "or":
		l := []any{}
		for _, k := range f.Kids {
			l = append(l, k.Expr())
		}
		return map[string]any{f.Kind: l}
	case "not":
		return map[string]any{"not": f.Kids[0].Expr()}
	case "if":
		m := map[string]any{"if": f.Kids[0].Expr(), "then": f.Kids[1].Expr()}
		if f.HasElse {
			m["else"] = f.Kids[2].Expr()
		}
		return m
	}
	panic("form kind " + f.Kind)
}

// Sx mirrors Expr: propertyConstraints is the implicit `and` the parser builds.
func (f FForm) Sx() sx.V {
	switch f.Kind {
	case "atom":
		return sx.L(sx.A("and"), sx.L(sx.A("atom"), f.Atom.Sx()))
	case "nested":
		p := f.Path.Expanded().Sx()
		var n sx.V
		switch f.Q {
		case "all":
			n = sx.L(sx.A("nested"), p, f.Kids[0].Sx())
		default:
			n = sx.L(sx.A(f.Q), sx.I(f.K), p, f.Kids[0].Sx())
		}
		return sx.L(sx.A("and"), n)
	case "pc":
		items := []sx.V{sx.A("and")}
		for _, k := range f.Kids {
			items = append(items, k.Sx().List[1:]...)
		}
		return sx.L(items...)
	case "and", "or":
		items := []sx.V{sx.A(f.Kind)}
		for _, k := range f.Kids {
			items = append(items, k.Sx())
		}
		return sx.L(items...)
	case "not":
		return sx.L(sx.A("not"), f.Kids[0].Sx())
	case "if":
		items := []sx.V{sx.A("if"), f.Kids[0].Sx(), f.Kids[1].Sx()}
		if f.HasElse {
			items = append(items, f.Kids[2].Sx())
		}
		return sx.L(items...)
	}
	panic("form kind " + f.Kind)
}

func (f FForm) String() string {
	data, _ := json.Marshal(f.Expr())
	return string(data)
}

func (f FForm) Depth() int {
	d := 0
	for _, k := range f.Kids {
		if kd := k.Depth(); kd > d {
			d = kd
		}
	}
	return d + 1
}

// dnfSize estimates how many branches Dispatch produces (and = sum, or = product, negation dualises):
// the generator's expandBranches is exponential, so the random streams bound it.
func (f FForm) dnfSize(neg bool) int {
	capm := func(x int) int {
		if x > 1<<20 {
			return 1 << 20
		}
		return x
	}
	sum := func(l []FForm, n bool) int {
		t := 0
		for _, k := range l {
			t = capm(t + k.dnfSize(n))
		}
		return t
	}
	prod := func(l []FForm, n bool) int {
		t := 1
		for _, k := range l {
			t = capm(t * k.dnfSize(n))
		}
		return t
	}
	switch f.Kind {
	case "atom", "nested":
		if f.Kind == "nested" {
			return capm(f.Kids[0].dnfSize(false))
		}
		return 1
	case "and", "pc":
		if neg {
			return prod(f.Kids, true)
		}
		return sum(f.Kids, false)
	case "or":
		if neg {
			return sum(f.Kids, true)
		}
		return prod(f.Kids, false)
	case "not":
		return f.Kids[0].dnfSize(!neg)
	case "if":
		i, t := f.Kids[0], f.Kids[1]
		if !neg {
			n := capm(i.dnfSize(true) * t.dnfSize(false))
			if f.HasElse {
				n = capm(n + capm(i.dnfSize(false)*f.Kids[2].dnfSize(false)))
			}
			return n
		}
		if f.HasElse {
			return capm(capm(i.dnfSize(false)+t.dnfSize(true)) * capm(i.dnfSize(true)+f.Kids[2].dnfSize(true)))
		}
		return capm(i.dnfSize(false) + t.dnfSize(true))
	}
	return 1
}

func fAtom(a FAtom) FForm         { return FForm{Kind: "atom", Atom: &a} }
func fNot(f FForm) FForm          { return FForm{Kind: "not", Kids: []FForm{f}} }
func fPC(l ...FForm) FForm        { return FForm{Kind: "pc", Kids: l} }
func fAnd(l ...FForm) FForm       { return FForm{Kind: "and", Kids: l} }
func fOr(l ...FForm) FForm        { return FForm{Kind: "or", Kids: l} }
func fIf(i, t FForm) FForm        { return FForm{Kind: "if", Kids: []FForm{i, t}} }
func fIfElse(i, t, e FForm) FForm { return FForm{Kind: "if", Kids: []FForm{i, t, e}, HasElse: true} }
func fNested(q string, k int, p PExp, f FForm) FForm {
	return FForm{Kind: "nested", Q: q, K: k, Path: p, Kids: []FForm{f}}
}

// skeletons: every formula with exactly n connective nodes over the given leaves (leaves may repeat)
func enumSkeletons(n int, leaves []FForm, limit int) []FForm {
	memo := map[int][]FForm{}
	var gen func(n int) []FForm
	gen = func(n int) []FForm {
		if v, ok := memo[n]; ok {
			return v
		}
		out := []FForm{}
		if n == 0 {
			out = append(out, leaves...)
			memo[n] = out
			return out
		}
		// not
		for _, k := range gen(n - 1) {
			out = append(out, fNot(k))
		}
		// binary and / or / if-then ; ternary and / or / if-then-else
		for a := 0; a <= n-1; a++ {
			for _, x := range gen(a) {
				for _, y := range gen(n - 1 - a) {
					out = append(out, fAnd(x, y), fOr(x, y), fIf(x, y))
					if len(out) > limit {
						memo[n] = out
						return out
					}
				}
			}
		}
		for a := 0; a <= n-1; a++ {
			for b := 0; a+b <= n-1; b++ {
				for _, x := range gen(a) {
					for _, y := range gen(b) {
						for _, z := range gen(n - 1 - a - b) {
							out = append(out, fIfElse(x, y, z))
							if a == 0 && b == 0 {
								out = append(out, fAnd(x, y, z), fOr(x, y, z))
							}
							if len(out) > limit {
								memo[n] = out
								return out
							}
						}
					}
				}
			}
		}
		memo[n] = out
		return out
	}
	return gen(n)
}

func randomForm(r *rand.Rand, depth int, leaf func() FForm) FForm {
	if depth <= 0 || r.Intn(5) == 0 {
		return leaf()
	}
	sub := func() FForm { return randomForm(r, depth-1, leaf) }
	switch r.Intn(7) {
	case 0:
		return fNot(sub())
	case 1:
		l := []FForm{}
		for i := 0; i < 1+r.Intn(4); i++ {
			l = append(l, sub())
		}
		return fAnd(l...)
	case 2:
		l := []FForm{}
		for i := 0; i < 1+r.Intn(4); i++ {
			l = append(l, sub())
		}
		return fOr(l...)
	case 3:
		return fIf(sub(), sub())
	case 4:
		return fIfElse(sub(), sub(), sub())
	case 5:
		return fNot(fIfElse(sub(), sub(), sub()))
	}
	return fOr(fAnd(sub(), sub()), sub())
}

// ------------------------------------------------------------------------------------ running a batch

type c01case struct {
	f      FForm
	stream string
}

// runC01Batch validates one profile (one validation per formula, all with targetClass ex.T) against g and
// classifies every (formula, node).
func runC01Batch(e *core.Env, g Graph, cases []c01case, tag string) {
	res := e.Res
	data := g.JSONLD()
	ids := g.IDs()
	var b strings.Builder
	b.WriteString(ProfileHeader)
	b.WriteString("violation:\n")
	for i := range cases {
		fmt.Fprintf(&b, "  - v%d\n", i)
	}
	b.WriteString("validations:\n")
	for i, c := range cases {
		m := c.f.Expr()
		m["targetClass"] = "ex.T"
		m["message"] = "m"
		d, _ := json.Marshal(m)
		fmt.Fprintf(&b, "  v%d: %s\n", i, d)
	}
	profile := b.String()
	// the text of the module against the Coq model of the whole generator (not while other goroutines draw names)
	if !strings.HasPrefix(tag, "cc") {
		if tcFor(e).check("C01 batch "+tag, profile) {
			res.Count("whole-module-text=equal")
		}
	}
	out, err := pkg.Validate(profile, data, false, nil)
	if err != nil {
		// find the offending formula
		for i, c := range cases {
			single := ProfileHeader + "violation:\n  - v0\nvalidations:\n"
			m := c.f.Expr()
			m["targetClass"] = "ex.T"
			m["message"] = "m"
			d, _ := json.Marshal(m)
			single += fmt.Sprintf("  v0: %s\n", d)
			if _, err1 := pkg.Validate(single, data, false, nil); err1 != nil {
				res.Violate("impl-violates-property", "a well-formed declarative formula is rejected: "+core.Trunc(err1.Error(), 300),
					map[string]any{"profile": single, "data": data, "error": err1.Error(), "formula_index": i})
				return
			}
		}
		res.Violate("impl-violates-property", "a profile of well-formed declarative formulas is rejected: "+core.Trunc(err.Error(), 300),
			map[string]any{"profile": profile, "data": data, "error": err.Error()})
		return
	}
	rep, err := ParseReport(out)
	if err != nil {
		res.Violate("harness-error", "report does not parse: "+err.Error(), map[string]any{"report": core.Trunc(out, 2000), "no_failing_input_found": true, "broken": "report parser"})
		return
	}
	byName := rep.FocusByName()
	// the same profile TEXT through the Coq model of the parser (YAML tree -> ProfileParser -> failure DNF -> evaluation):
	// one more route to the verdict, which must agree with the library on every (validation, node)
	var ydoc yaml3.Node
	if yaml3.Unmarshal([]byte(profile), &ydoc) == nil && len(ydoc.Content) > 0 {
		if y, ok := yamlSx(ydoc.Content[0]); ok {
			ans, derr := e.Driver.Eval(sx.L(sx.A("c15"), sx.A("verdict"), sx.L(amfDefaultsSx()...), y, g.Sx()))
			if derr == nil && ans.IsL && len(ans.List) == 2 && ans.List[0].Atom == "ok" {
				res.Count("batches-also-through-the-parser-model")
				mv := modelItems(ans)
				iv, _ := implItems(out)
				if diff := verdictDiff(mv, iv); diff != "" {
					res.Violate("model-mismatch", "the verdict the Coq model computes from the profile TEXT (parser model) differs from the library's: "+diff,
						map[string]any{"no_failing_input_found": true, "broken": "correspondence ProfileParser.verdict vs pkg.Validate (C01 batch " + tag + ")", "profile": profile, "data": data,
							"model": core.Trunc(itemsText(mv), 3000), "impl": core.Trunc(itemsText(iv), 3000)})
				}
			} else if derr == nil {
				res.Count("parser-model-answer=" + ans.Atom)
			}
		}
	}
	typed := map[string]bool{}
	for _, n := range g.Nodes {
		for _, t := range n.Types {
			if t == ExNS+"T" {
				typed[n.ID] = true
			}
		}
	}
	for i, c := range cases {
		name := fmt.Sprintf("v%d", i)
		ans, err := e.Driver.Eval(sx.L(sx.A("c01"), sx.A("eval"), g.Sx(), c.f.Sx(), idsSx(ids)))
		if err != nil {
			res.Violate("harness-error", err.Error(), map[string]any{"no_failing_input_found": true, "broken": "driver", "formula": c.f.String()})
			return
		}
		nrep, nok := 0, 0
		for ni, n := range ids {
			a := ans.List[ni].List
			impl := byName[name][n]
			if !typed[n] {
				if impl {
					res.Violate("impl-violates-property", "a node that is not an instance of the target class is reported", map[string]any{"formula": c.f.String(), "focus": n, "data": data})
				}
				continue
			}
			if impl {
				nrep++
			} else {
				nok++
			}
			model, csat, compl := a[0].Atom, a[2].Atom == "1", a[3].Atom == "1"
			lsat := a[1].Atom == "1"
			_ = lsat
			implS := "0"
			if impl {
				implS = "1"
			}
			replay := map[string]any{"formula": c.f.String(), "formula_sx": c.f.Sx().String(), "focus": n, "data": data, "stream": c.stream,
				"impl_reported": impl, "model_reported": model, "classical_satisfied": csat, "negated_atoms_complementary": compl,
				"expected": "reported iff instance of ex.T and the classical formula is not satisfied"}
			if model == "x" {
				replay["no_failing_input_found"] = true
				replay["broken"] = "Dnf.disp ran out of fuel (C01_dispatch_terminates says it cannot)"
				res.Violate("model-mismatch", "the model's dispatch ran out of fuel", replay)
				continue
			}
			specOK := impl == !csat
			if implS != model && os.Getenv("VERIF_DEBUG") != "" {
				nd, _ := json.Marshal(nodeByID(g, n))
				fmt.Printf("MISMATCH %s node=%s impl=%s model=%s csat=%v compl=%v\n", c.f.String(), nd, implS, model, csat, compl)
			}
			switch {
			case implS == model && specOK:
			case implS == model && !specOK && !compl && res.KnownClass("neg-value-atom-nonuniform"):
				res.Known("neg-value-atom-nonuniform", "a negated value-quantified constraint is `no value passes`, not the complement: on a property with no value (or values that disagree) neither `c` nor `not c` reports the node (e.g. "+core.Trunc(c.f.String(), 160)+")")
				res.Count("known:neg-value-atom-nonuniform")
			case !specOK:
				res.Violate("impl-violates-property", "verdict differs from the classical meaning of the formula at "+n+": "+core.Trunc(c.f.String(), 200), replay)
			default: // spec satisfied, model differs
				if !compl {
					// inside the recorded defect class the code may have been repaired; nothing to report
					res.Count("repaired-in-known-class")
				} else {
					replay["no_failing_input_found"] = true
					replay["broken"] = "correspondence Rules.model_reported vs generated policy"
					res.Violate("model-mismatch", "verdict equals the classical meaning but differs from the model: "+core.Trunc(c.f.String(), 200), replay)
				}
			}
		}
		key := tag + "|" + c.f.String()
		res.Case(key, nrep > 0 && nok > 0)
		res.Count("stream=" + c.stream)
		res.Count(fmt.Sprintf("depth=%d", c.f.Depth()))
	}
}

func runC01(e *core.Env, g Graph, cases []c01case, tag string, batch int) {
	for start := 0; start < len(cases); start += batch {
		end := start + batch
		if end > len(cases) {
			end = len(cases)
		}
		runC01Batch(e, g, cases[start:end], fmt.Sprintf("%s%d", tag, start))
		if e.Res.Full() && os.Getenv("VERIF_DEBUG") == "" {
			return
		}
	}
}

// truthGraph: 2^k target nodes; node i has ex.p<j> = "yes" iff bit j of i is set, "no" otherwise; and ex.c<j> present iff bit j.
func truthGraph(k int) Graph {
	g := Graph{}
	for i := 0; i < 1<<k; i++ {
		n := GNode{ID: NodeID(i), Types: []string{ExNS + "T"}}
		for j := 0; j < k; j++ {
			v := "no"
			if i&(1<<j) != 0 {
				v = "yes"
				n.Props = append(n.Props, GProp{Iri: ExNS + fmt.Sprintf("c%d", j), Vals: []GVal{VI(j + 1)}})
			}
			n.Props = append(n.Props, GProp{Iri: ExNS + fmt.Sprintf("p%d", j), Vals: []GVal{VS(v)}})
		}
		g.Nodes = append(g.Nodes, n)
	}
	// a node of another class must never be reported
	g.Nodes = append(g.Nodes, GNode{ID: DataNS + "other", Types: []string{ExNS + "Other"}})
	return g
}

// C01: skeleton x truth-assignment stream, quantifier stream, atom stream, random deep formulas.
func C01(e *core.Env) {
	res := e.Res
	res.Rule = "cases = (formula, graph); every target node of the graph is a truth assignment / value configuration and its verdict is compared with the extracted model (parser + failure DNF + atom snippets) and with the classical semantics; the text of the module generated for every batch (outside the concurrent stream) is compared byte for byte with the Coq model of the whole generator (Elab.compile, whose branches C01_text_branches_report_the_failing_nodes is about); " +
		"streams: skeleton (all formulas with <= 2 (quick) / <= 3 (thorough) connectives over 3 single-valued atoms, count and `in` flavours, x all 8 assignments), quantifier (nested/atLeast/atMost, k=0..3, under not/or/if, nested in each other; several quantified constraints under different keys of ONE propertyConstraints mapping, plain and under not / if), " +
		"atom (every documented constraint kind x value sets of size 0..2 x both polarities; two constraints of one kind - e.g. two property-pair comparisons on one node - under or / and / if / or-not), random (depth <= 5 / 7, width <= 4), while-others-compile (random and quantifier formulas validated in small batches while three goroutines translate another profile), history (12 random formulas written over the built-in prefix `core` instead of a declared prefix, validated before and after another profile that rebinds core / data / doc / shacl / apiContract / ex was compiled and run); non-trivial = the formula reports at least one target node and spares at least one; distinct by formula text"

	// ---- (i) skeleton stream
	k := 3
	tg := truthGraph(k)
	cntLeaves, inLeaves := []FForm{}, []FForm{}
	for j := 0; j < k; j++ {
		cntLeaves = append(cntLeaves, fAtom(FAtom{Kind: "count", Q: "min", Path: Pr(fmt.Sprintf("ex.c%d", j), false), K: 1}))
		inLeaves = append(inLeaves, fAtom(FAtom{Kind: "in", Path: Pr(fmt.Sprintf("ex.p%d", j), false), Strs: []string{"yes"}}))
	}
	cases := []c01case{}
	maxConn := e.Pick(2, 3)
	for n := 0; n <= maxConn; n++ {
		limit := 400000
		sk := enumSkeletons(n, cntLeaves, limit)
		sk2 := enumSkeletons(n, inLeaves, limit)
		if n <= 1 || (n == 2 && !e.Quick()) {
			for _, f := range sk {
				cases = append(cases, c01case{f, "skeleton-count"})
			}
			for _, f := range sk2 {
				cases = append(cases, c01case{f, "skeleton-in"})
			}
		} else {
			m := e.Pick(700, 6000)
			for i := 0; i < m; i++ {
				if i%2 == 0 {
					cases = append(cases, c01case{sk[e.Rand.Intn(len(sk))], "skeleton-count"})
				} else {
					cases = append(cases, c01case{sk2[e.Rand.Intn(len(sk2))], "skeleton-in"})
				}
			}
		}
	}
	// the shapes the defect table names explicitly
	a0, a1, a2 := cntLeaves[0], cntLeaves[1], cntLeaves[2]
	cases = append(cases,
		c01case{fNot(fIfElse(a0, a1, a2)), "named"},
		c01case{fNot(fNot(fIfElse(a0, a1, a2))), "named"},
		c01case{fOr(fAnd(a0, a1), fAnd(a1, a2), a0), "named"},
		c01case{fIf(fNot(fIf(a0, a1)), fNot(fOr(a1, a2))), "named"},
		c01case{fNot(fAnd(fOr(a0, fNot(a1)), fIfElse(a2, a0, a1))), "named"},
		c01case{fIfElse(fIfElse(a0, a1, a2), fNot(fIfElse(a1, a2, a0)), fIf(a2, a0)), "named"},
	)
	res.Sample(map[string]any{"stream": "skeleton", "formula": cases[len(cases)-2].f.String(), "graph": "8 nodes of class ex.T realising every assignment of (ex.c0, ex.c1, ex.c2) + one node of another class"})
	t0 := time.Now()
	runC01(e, tg, cases, "sk", 60)
	res.Note(fmt.Sprintf("skeleton stream: %d formulas, %.1fs", len(cases), time.Since(t0).Seconds()))
	t0 = time.Now()
	if res.Full() && os.Getenv("VERIF_DEBUG") == "" {
		return
	}

	// ---- (i') wide stream: and/or over 3-4 operands that are themselves multi-branch, 6 atoms with shuffled
	// property names (the generator sorts operands by their printed form, so names decide the processing order)
	{
		k6 := 6
		wg := truthGraph(k6)
		wcases := []c01case{}
		for i := 0; i < e.Pick(70, 1200); i++ {
			perm := e.Rand.Perm(k6)
			at := func(j int) FForm {
				return fAtom(FAtom{Kind: "count", Q: "min", Path: Pr(fmt.Sprintf("ex.c%d", perm[j%k6]), false), K: 1})
			}
			next := 0
			operand := func() FForm {
				switch e.Rand.Intn(6) {
				case 0:
					next++
					return at(next - 1)
				case 1:
					next += 2
					return fAnd(at(next-2), at(next-1))
				case 2:
					next += 3
					return fAnd(at(next-3), at(next-2), at(next-1))
				case 3:
					next += 2
					return fOr(at(next-2), at(next-1))
				case 4:
					next += 3
					return fIfElse(at(next-3), at(next-2), at(next-1))
				}
				next += 2
				return fNot(fOr(at(next-2), fNot(at(next-1))))
			}
			ops := []FForm{}
			for j := 0; j < 3+e.Rand.Intn(2); j++ {
				ops = append(ops, operand())
			}
			var f FForm
			switch e.Rand.Intn(4) {
			case 0:
				f = fAnd(ops...)
			case 1:
				f = fNot(fAnd(ops...))
			default:
				f = fOr(ops...)
			}
			if f.dnfSize(false) > e.Pick(24, 60) {
				i--
				continue
			}
			wcases = append(wcases, c01case{f, "wide"})
		}
		wcases = append(wcases,
			c01case{fOr(fOr(cntLeaves[0], cntLeaves[1]), fAnd(cntLeaves[2], fAtom(FAtom{Kind: "count", Q: "min", Path: Pr("ex.c3", false), K: 1})),
				fAnd(fAtom(FAtom{Kind: "count", Q: "min", Path: Pr("ex.c4", false), K: 1}), fAtom(FAtom{Kind: "count", Q: "min", Path: Pr("ex.c5", false), K: 1}))), "wide"})
		res.Sample(map[string]any{"stream": "wide", "formula": wcases[0].f.String(), "graph": "64 nodes realising every assignment of ex.c0..ex.c5"})
		t1 := time.Now()
		runC01(e, wg, wcases, "w", 30)
		res.Note(fmt.Sprintf("wide stream: %d formulas, %.1fs", len(wcases), time.Since(t1).Seconds()))
		if res.Full() && os.Getenv("VERIF_DEBUG") == "" {
			return
		}
	}

	// ---- (ii) quantifier stream: 8 child types (every assignment of c0, p0=yes, c1), parents over every set of
	// 0..2 child types and some of 3; a literal and a dangling link among the children are ignored by `find`
	qg := Graph{}
	for t := 0; t < 8; t++ {
		n := GNode{ID: DataNS + fmt.Sprintf("ch%d", t)}
		if t&1 != 0 {
			n.Props = append(n.Props, GProp{Iri: ExNS + "c0", Vals: []GVal{VI(1)}})
		}
		v := "no"
		if t&2 != 0 {
			v = "yes"
		}
		n.Props = append(n.Props, GProp{Iri: ExNS + "p0", Vals: []GVal{VS(v)}})
		if t&4 != 0 {
			n.Props = append(n.Props, GProp{Iri: ExNS + "c1", Vals: []GVal{VI(2)}})
		}
		qg.Nodes = append(qg.Nodes, n)
	}
	pid := 0
	addParent := func(kids []int) {
		p := GNode{ID: NodeID(pid), Types: []string{ExNS + "T"}}
		vals := []GVal{}
		for _, k := range kids {
			vals = append(vals, VR(DataNS+fmt.Sprintf("ch%d", k)))
		}
		if pid%5 == 2 {
			vals = append(vals, VS("literal"), VR(DataNS+"dangling"))
		}
		if len(vals) > 0 {
			p.Props = append(p.Props, GProp{Iri: ExNS + "kid", Vals: vals})
		}
		if pid%2 == 0 {
			p.Props = append(p.Props, GProp{Iri: ExNS + "c1", Vals: []GVal{VI(2)}})
		}
		pid++
		qg.Nodes = append(qg.Nodes, p)
	}
	addParent(nil)
	for i := 0; i < 8; i++ {
		addParent([]int{i})
		for j := i + 1; j < 8; j++ {
			addParent([]int{i, j})
		}
	}
	for i := 0; i < 8; i++ {
		addParent([]int{i, (i + 3) % 8, (i + 5) % 8})
	}
	// grand-parents: nested in nested, children shared between parents
	for i := 0; i < 4; i++ {
		gp := GNode{ID: DataNS + fmt.Sprintf("gp%d", i), Types: []string{ExNS + "T"}}
		kids := []GVal{}
		for j := 0; j < pid; j++ {
			if (j+i)%7 == 0 || (i == 3 && j%11 == 0) {
				kids = append(kids, VR(NodeID(j)))
			}
		}
		gp.Props = append(gp.Props, GProp{Iri: ExNS + "kid", Vals: kids})
		qg.Nodes = append(qg.Nodes, gp)
	}
	inner := []FForm{cntLeaves[0], inLeaves[0], fNot(cntLeaves[0]), fAnd(cntLeaves[0], inLeaves[0]),
		fOr(fAnd(cntLeaves[0], inLeaves[0]), cntLeaves[1]), fNot(fAnd(fOr(cntLeaves[0], inLeaves[0]), cntLeaves[1])),
		fIfElse(cntLeaves[0], inLeaves[0], cntLeaves[1]), fOr(fAnd(cntLeaves[0], cntLeaves[1]), fAnd(inLeaves[0], fNot(cntLeaves[1])))}
	qcases := []c01case{}
	kidp := Pr("ex.kid", false)
	for _, in := range inner {
		quants := []FForm{fNested("all", 0, kidp, in)}
		for kk := 0; kk <= 3; kk++ {
			quants = append(quants, fNested("atLeast", kk, kidp, in), fNested("atMost", kk, kidp, in))
		}
		for _, q := range quants {
			qcases = append(qcases, c01case{q, "quantifier"}, c01case{fNot(q), "quantifier"},
				c01case{fOr(q, cntLeaves[1]), "quantifier"}, c01case{fIf(cntLeaves[1], q), "quantifier"},
				c01case{fNot(fIfElse(q, cntLeaves[1], fNot(q))), "quantifier"})
			// nested in each other
			qcases = append(qcases, c01case{fNested("all", 0, kidp, q), "quantifier"},
				c01case{fNested("atLeast", 1, kidp, fNot(q)), "quantifier"},
				c01case{fNot(fNested("atMost", 1, kidp, fOr(q, cntLeaves[1]))), "quantifier"})
		}
	}
	// several constraints in ONE propertyConstraints mapping (the parser's implicit and): quantified constraints under two
	// different property keys, atoms next to quantified constraints, two constraints of one key - plain and under negation
	kidInv := Pr("ex.kid", true)
	blocks := []FForm{
		fPC(fNested("all", 0, kidp, cntLeaves[0]), fNested("atLeast", 1, kidInv, inLeaves[0])),
		fPC(fNested("atMost", 1, kidp, inLeaves[0]), fNested("all", 0, kidInv, cntLeaves[1]), cntLeaves[0]),
		fPC(fNested("atLeast", 2, kidp, fOr(cntLeaves[0], inLeaves[0])), fNested("atMost", 0, kidInv, fNot(cntLeaves[1]))),
		fPC(cntLeaves[0], cntLeaves[1], inLeaves[0]),
		fPC(fNested("all", 0, kidp, fPC(fNested("all", 0, kidp, cntLeaves[0]), fNested("atLeast", 1, kidInv, cntLeaves[1]))), cntLeaves[1]),
	}
	for _, b := range blocks {
		qcases = append(qcases, c01case{b, "constraint-block"}, c01case{fNot(b), "constraint-block"},
			c01case{fIf(b, cntLeaves[1]), "constraint-block"}, c01case{fIfElse(b, inLeaves[0], cntLeaves[1]), "constraint-block"},
			c01case{fOr(fNot(b), cntLeaves[1]), "constraint-block"}, c01case{fNot(fAnd(b, cntLeaves[1])), "constraint-block"},
			c01case{fNested("all", 0, kidp, fNot(b)), "constraint-block"})
	}
	// many quantified variables in one validation: k sibling nested constraints, then nested-in-nested
	// (every variable of the alphabet gets to be the one of the enclosing nested constraint)
	manySiblings := []c01case{}
	for _, k := range []int{20, 21, 22, 23, 24, 25} {
		ops := []FForm{}
		for i := 0; i < k; i++ {
			ops = append(ops, fNested("all", 0, Pr(fmt.Sprintf("ex.sib%02d", i), false), cntLeaves[1]))
		}
		ops = append(ops, fNested("all", 0, kidp, fNested("all", 0, kidp, cntLeaves[0])))
		manySiblings = append(manySiblings, c01case{fAnd(ops...), "many-variables"})
	}
	if e.Quick() {
		e.Rand.Shuffle(len(qcases), func(i, j int) { qcases[i], qcases[j] = qcases[j], qcases[i] })
		kept := []c01case{}
		for _, c := range qcases {
			if c.f.dnfSize(false) <= 6 && len(kept) < 150 {
				kept = append(kept, c)
			}
		}
		qcases = kept
	}
	res.Sample(map[string]any{"stream": "quantifier", "formula": qcases[0].f.String()})
	qcases = append(qcases, manySiblings...)
	runC01(e, qg, qcases, "q", 25)
	res.Note(fmt.Sprintf("quantifier stream: %d formulas, %.1fs", len(qcases), time.Since(t0).Seconds()))
	t0 = time.Now()
	if res.Full() && os.Getenv("VERIF_DEBUG") == "" {
		return
	}

	// ---- (iii) atom stream: every documented kind x value sets x both polarities
	pool := []GVal{VS("yes"), VS("no"), VS("xay"), VI(1), VI(5), VI(10), VB(true), VR(NodeID(0))}
	sets := [][]GVal{{}}
	for i := range pool {
		sets = append(sets, []GVal{pool[i]})
	}
	for i := range pool {
		for j := i + 1; j < len(pool); j++ {
			sets = append(sets, []GVal{pool[i], pool[j]})
		}
	}
	qsets := [][]GVal{{}, {VI(5)}, {VI(1), VI(10)}, {VS("xay")}}
	ag := Graph{}
	for i, s := range sets {
		for j, q := range qsets {
			if j > 0 && e.Quick() && (i+j)%3 != 0 {
				continue
			}
			n := GNode{ID: NodeID(len(ag.Nodes)), Types: []string{ExNS + "T"}}
			if len(s) > 0 {
				n.Props = append(n.Props, GProp{Iri: ExNS + "p", Vals: s})
			}
			if len(q) > 0 {
				n.Props = append(n.Props, GProp{Iri: ExNS + "q", Vals: q})
			}
			ag.Nodes = append(ag.Nodes, n)
		}
	}
	pp, pq := Pr("ex.p", false), Pr("ex.q", false)
	atoms := []FAtom{}
	for _, q := range []string{"min", "max", "exact"} {
		for _, kk := range []int{0, 1, 2} {
			atoms = append(atoms, FAtom{Kind: "count", Q: q, Path: pp, K: kk})
		}
		for _, kk := range []int{1, 3} {
			atoms = append(atoms, FAtom{Kind: "length", Q: q, Path: pp, K: kk})
		}
	}
	for _, kind := range []string{"in", "containsAll", "containsSome"} {
		atoms = append(atoms, FAtom{Kind: kind, Path: pp, Strs: []string{"yes"}}, FAtom{Kind: kind, Path: pp, Strs: []string{"yes", "5"}},
			FAtom{Kind: kind, Path: pp, Strs: []string{"true", NodeID(0), "1"}},
			FAtom{Kind: kind, Path: pp, Strs: []string{}}) // the empty list: in nothing / contains all of nothing / some of nothing
	}
	for _, q := range []string{"ge", "gt", "lt", "le"} {
		atoms = append(atoms, FAtom{Kind: "num", Q: q, Path: pp, K: 5})
	}
	atoms = append(atoms, FAtom{Kind: "pattern", Q: "exact", Path: pp, S: "yes"}, FAtom{Kind: "pattern", Q: "prefix", Path: pp, S: "x"},
		FAtom{Kind: "pattern", Q: "suffix", Path: pp, S: "y"}, FAtom{Kind: "pattern", Q: "contains", Path: pp, S: "a"})
	for _, q := range []string{"lt", "le", "eq", "ne"} {
		atoms = append(atoms, FAtom{Kind: "cmp", Q: q, Path: pp, Path2: pq})
	}
	for _, dt := range []string{"string", "integer", "boolean", "float"} {
		atoms = append(atoms, FAtom{Kind: "datatype", Path: pp, S: dt})
	}
	acases := []c01case{}
	for _, a := range atoms {
		acases = append(acases, c01case{fAtom(a), "atom+" + a.Kind}, c01case{fNot(fAtom(a)), "atom-" + a.Kind})
	}
	// two constraints of ONE kind in one validation (or / and / if / or-not), e.g. two property-pair comparisons on one node
	byKind := map[string][]FAtom{}
	for _, a := range atoms {
		byKind[a.Kind] = append(byKind[a.Kind], a)
	}
	byKind["cmp"] = append(byKind["cmp"], FAtom{Kind: "cmp", Q: "lt", Path: pq, Path2: pp})
	pairKinds := []string{}
	for kd := range byKind {
		pairKinds = append(pairKinds, kd)
	}
	sort.Strings(pairKinds)
	for _, kd := range pairKinds {
		as := byKind[kd]
		for _, ij := range [][2]int{{0, 1}, {1, len(as) - 1}, {0, len(as) - 1}} {
			if ij[0] == ij[1] || ij[1] >= len(as) || (e.Quick() && kd != "cmp" && ij[0] == 1) {
				continue
			}
			a1, a2 := fAtom(as[ij[0]]), fAtom(as[ij[1]])
			acases = append(acases, c01case{fOr(a1, a2), "pair-or-" + kd}, c01case{fAnd(a1, a2), "pair-and-" + kd},
				c01case{fIf(a1, a2), "pair-if-" + kd}, c01case{fOr(fNot(a1), a2), "pair-ornot-" + kd})
		}
	}
	res.Sample(map[string]any{"stream": "atom", "formula": acases[len(acases)-1].f.String(), "nodes": len(ag.Nodes)})
	runC01(e, ag, acases, "a", 30)
	res.Note(fmt.Sprintf("atom stream: %d formulas x %d nodes, %.1fs", len(acases), len(ag.Nodes), time.Since(t0).Seconds()))
	t0 = time.Now()
	if res.Full() && os.Getenv("VERIF_DEBUG") == "" {
		return
	}

	// ---- (iv) random deep / wide formulas over all leaf kinds on the truth graph
	rleaves := append(append([]FForm{}, cntLeaves...), inLeaves...)
	rcases := []c01case{}
	for i := 0; i < e.Pick(120, 1500); i++ {
		f := randomForm(e.Rand, e.Pick(4, 6), func() FForm { return rleaves[e.Rand.Intn(len(rleaves))] })
		if f.dnfSize(false) > e.Pick(20, 48) {
			i--
			res.Count("random-skipped-too-many-branches")
			continue
		}
		rcases = append(rcases, c01case{f, "random"})
	}
	res.Sample(map[string]any{"stream": "random", "formula": core.Trunc(rcases[0].f.String(), 600)})
	runC01(e, tg, rcases, "r", 20)
	res.Note(fmt.Sprintf("random stream: %d formulas, %.1fs", len(rcases), time.Since(t0).Seconds()))

	// ---- (v) histories: the verdict of a profile that relies on a built-in prefix does not depend on which other
	// profiles the process compiled before (in particular profiles that bind the same prefix name to something else)
	t0 = time.Now()
	{
		const coreNS = "http://a.ml/vocabularies/core#"
		hcases := rcases
		if len(hcases) > 12 {
			hcases = hcases[:12]
		}
		mk := func(prefix string, declare bool) string {
			var b strings.Builder
			b.WriteString("#%Validation Profile 1.0\nprofile: gen\n")
			if declare {
				b.WriteString("prefixes:\n  ex: http://example.org/ns#\n")
			}
			b.WriteString("violation:\n")
			for i := range hcases {
				fmt.Fprintf(&b, "  - v%d\n", i)
			}
			b.WriteString("validations:\n")
			for i, c := range hcases {
				m := c.f.Expr()
				m["targetClass"] = "ex.T"
				m["message"] = "m"
				d, _ := json.Marshal(m)
				fmt.Fprintf(&b, "  v%d: %s\n", i, strings.ReplaceAll(string(d), "ex.", prefix+"."))
			}
			return b.String()
		}
		verdict := func(profile, data string) (string, error) {
			out, err := pkg.Validate(profile, data, false, nil)
			if err != nil {
				return "", err
			}
			rep, err := ParseReport(out)
			if err != nil {
				return "", err
			}
			items := []string{}
			for name, m := range rep.FocusByName() {
				for focus, ok := range m {
					if ok {
						items = append(items, name+" "+focus)
					}
				}
			}
			sort.Strings(items)
			return strings.Join(items, "\n"), nil
		}
		dataEx := tg.JSONLD()
		dataCore := strings.ReplaceAll(dataEx, ExNS, coreNS)
		pEx, pCore := mk("ex", true), mk("core", false)
		other := "#%Validation Profile 1.0\nprofile: Other\nprefixes:\n  core: http://elsewhere.example/core#\n  data: http://elsewhere.example/data#\n  doc: http://elsewhere.example/doc#\n  shacl: http://elsewhere.example/shacl#\n  apiContract: http://elsewhere.example/api#\n  ex: http://elsewhere.example/ex#\n" +
			"violation:\n  - o\nvalidations:\n  o:\n    targetClass: core.T\n    message: other\n    propertyConstraints:\n      core.c0:\n        minCount: 1\n      data.x / doc.y:\n        maxCount: 3\n"
		ref, err0 := verdict(pEx, dataEx)
		before, err1 := verdict(pCore, dataCore)
		_, errO := pkg.CompileProfile(other, false, nil)
		_, errO2 := pkg.Validate(other, dataCore, false, nil)
		after, err2 := verdict(pCore, dataCore)
		afterEx, err3 := verdict(pEx, dataEx)
		replay := map[string]any{"history": []string{"Validate(profile_with_declared_prefix, data)", "Validate(profile_with_builtin_prefix, data_core)", "CompileProfile(other_profile)", "Validate(other_profile, data_core)", "Validate(profile_with_builtin_prefix, data_core)", "Validate(profile_with_declared_prefix, data)"},
			"profile_with_declared_prefix": pEx, "profile_with_builtin_prefix": pCore, "other_profile": other, "data": core.Trunc(dataEx, 3000), "data_core": "the same graph with " + ExNS + " replaced by " + coreNS}
		for _, err := range []error{err0, err1, errO, errO2, err2, err3} {
			if err != nil {
				replay["error"] = err.Error()
				res.Violate("impl-violates-property", "a step of the history is rejected: "+core.Trunc(err.Error(), 200), replay)
				break
			}
		}
		if err0 == nil && err1 == nil && err2 == nil && err3 == nil {
			replay["reported_with_declared_prefix"] = ref
			switch {
			case before != ref:
				replay["reported_with_builtin_prefix"] = before
				res.Violate("impl-violates-property", "the same formulas over the built-in prefix `core` (same graph, renamed namespace) report different nodes", replay)
			case after != ref:
				replay["reported_with_builtin_prefix_after_the_other_profile"] = after
				res.Violate("impl-violates-property", "the verdict of a profile that relies on a built-in prefix changes after another profile that rebinds that prefix name was compiled", replay)
			case afterEx != ref:
				replay["reported_with_declared_prefix_after_the_other_profile"] = afterEx
				res.Violate("impl-violates-property", "the verdict of a profile changes after another profile that binds its prefix name to another namespace was compiled", replay)
			}
		}
		res.Case("history|builtin-prefix-after-rebinding-profile", ref != "")
		res.Count("stream=history")
	}
	res.Note(fmt.Sprintf("history stream: %.1fs", time.Since(t0).Seconds()))

	// ---- (iv') the same kind of formulas while OTHER profiles are being translated in the same process (the verdict of a
	// profile must not depend on what else the process compiles at that moment)
	t0 = time.Now()
	{
		stop := make(chan struct{})
		var nwg sync.WaitGroup
		noise := ProfileHeader + "violation:\n  - n1\n  - n2\nvalidations:\n  n1:\n    targetClass: ex.T\n    message: n\n    propertyConstraints:\n      ex.a / ex.b:\n        minCount: 1\n      ex.c | ex.d:\n        pattern: ^a\n  n2:\n    targetClass: ex.T\n    message: n\n    propertyConstraints:\n      ex.e:\n        nested:\n          propertyConstraints:\n            ex.f:\n              in: [ a ]\n"
		for w := 0; w < 3; w++ {
			nwg.Add(1)
			go func() {
				defer nwg.Done()
				for {
					select {
					case <-stop:
						return
					default:
						func() {
							defer func() { recover() }()
							validator.GenerateRego(noise, false, nil)
						}()
					}
				}
			}()
		}
		ccases := []c01case{}
		for i := 0; i < len(rcases) && i < e.Pick(40, 200); i++ {
			ccases = append(ccases, c01case{rcases[i].f, "random-while-others-compile"})
		}
		for i := 0; i < len(qcases) && i < e.Pick(40, 200); i += 3 {
			ccases = append(ccases, c01case{qcases[i].f, "quantifier-while-others-compile"})
		}
		// many small batches: each batch is one translation of its own
		for start := 0; start < len(ccases); start += 4 {
			end := start + 4
			if end > len(ccases) {
				end = len(ccases)
			}
			g := tg
			if ccases[start].stream == "quantifier-while-others-compile" {
				g = qg
			}
			same := true
			for _, c := range ccases[start:end] {
				if c.stream != ccases[start].stream {
					same = false
				}
			}
			if !same {
				continue
			}
			runC01Batch(e, g, ccases[start:end], fmt.Sprintf("cc%d", start))
		}
		close(stop)
		nwg.Wait()
	}
	res.Note(fmt.Sprintf("while-others-compile stream: %.1fs", time.Since(t0).Seconds()))
	res.Note(tcFor(e).summary())

	keys := []string{}
	for k := range res.Distribution {
		keys = append(keys, k)
	}
	sort.Strings(keys)
}

func nodeByID(g Graph, id string) map[string]any {
	for _, n := range g.Nodes {
		if n.ID == id {
			m := map[string]any{}
			for _, p := range n.Props {
				vs := []any{}
				for _, v := range p.Vals {
					vs = append(vs, v.JSON())
				}
				m[strings.TrimPrefix(p.Iri, ExNS)] = vs
			}
			return m
		}
	}
	return nil
}
