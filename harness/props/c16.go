package props

import (
	"fmt"
	"sort"
	"strings"

	"github.com/aml-org/amf-custom-validator/internal/parser/path"
	"github.com/aml-org/amf-custom-validator/pkg"
	"github.com/aml-org/amf-custom-validator/verifh/core"
	"github.com/aml-org/amf-custom-validator/verifh/sx"
)

// PExp is a property-path AST used by the generators (C16, C02).
type PExp struct {
	Kind string // pred | and | or
	Iri  string
	Inv  bool
	Kids []PExp
}

func Pr(iri string, inv bool) PExp { return PExp{Kind: "pred", Iri: iri, Inv: inv} }

func (p PExp) Sx() sx.V {
	switch p.Kind {
	case "pred":
		return sx.L(sx.A("pred"), sx.S(p.Iri), sx.B(p.Inv), sx.B(false))
	default:
		items := []sx.V{sx.A(p.Kind)}
		for _, k := range p.Kids {
			items = append(items, k.Sx())
		}
		return sx.L(items...)
	}
}

// Render prints the path; ws(i) supplies the whitespace for the i-th gap, extra() decides redundant parentheses.
func (p PExp) Render(ws func() string, extra func() bool) string {
	var r func(p PExp, parent string) string
	r = func(p PExp, parent string) string {
		var s string
		switch p.Kind {
		case "pred":
			s = p.Iri
			if p.Inv {
				s += ws() + "^"
			}
		case "and":
			parts := []string{}
			for _, k := range p.Kids {
				parts = append(parts, r(k, "and"))
			}
			sep := func() string {
				w := ws()
				if w == "" {
					w = " " // `/` directly after an IRI would be an IRI character
				}
				return w + "/" + ws()
			}
			s = parts[0]
			for _, q := range parts[1:] {
				s += sep() + q
			}
			if parent == "and" || parent == "or" {
				s = "(" + ws() + s + ws() + ")"
			}
		case "or":
			parts := []string{}
			for _, k := range p.Kids {
				parts = append(parts, r(k, "or"))
			}
			s = parts[0]
			for _, q := range parts[1:] {
				s += ws() + "|" + ws() + q
			}
			if parent == "or" {
				s = "(" + ws() + s + ws() + ")"
			}
		}
		if extra() {
			s = "(" + ws() + s + ws() + ")"
		}
		return s
	}
	return r(p, "")
}

// EnumPaths lists every path with exactly n leaves over the given leaves (and/or nodes have >= 2 children,
// a child never has its parent's kind unless parenthesised - both are generated).
func EnumPaths(n int, leaves []PExp, limit int) []PExp {
	memo := map[int][]PExp{}
	var gen func(n int) []PExp
	gen = func(n int) []PExp {
		if v, ok := memo[n]; ok {
			return v
		}
		out := []PExp{}
		if n == 1 {
			out = append(out, leaves...)
		} else {
			// compositions of n into >= 2 parts
			var parts func(rem int, cur []int)
			comps := [][]int{}
			parts = func(rem int, cur []int) {
				if rem == 0 {
					if len(cur) >= 2 {
						comps = append(comps, append([]int{}, cur...))
					}
					return
				}
				for k := 1; k <= rem; k++ {
					parts(rem-k, append(cur, k))
				}
			}
			parts(n, nil)
			for _, comp := range comps {
				choices := [][]PExp{}
				for _, k := range comp {
					choices = append(choices, gen(k))
				}
				var prod func(i int, cur []PExp)
				prod = func(i int, cur []PExp) {
					if len(out) > limit {
						return
					}
					if i == len(choices) {
						kids := append([]PExp{}, cur...)
						out = append(out, PExp{Kind: "and", Kids: kids}, PExp{Kind: "or", Kids: kids})
						return
					}
					for _, c := range choices[i] {
						prod(i+1, append(cur, c))
					}
				}
				prod(0, nil)
			}
		}
		memo[n] = out
		return out
	}
	return gen(n)
}

func goPathSx(p path.PropertyPath) sx.V {
	switch x := p.(type) {
	case path.Property:
		return sx.L(sx.A("pred"), sx.S(x.Iri), sx.B(x.Inverse), sx.B(x.Transitive))
	case path.AndPath:
		items := []sx.V{sx.A("and")}
		for _, k := range x.And {
			items = append(items, goPathSx(k))
		}
		return sx.L(items...)
	case path.OrPath:
		items := []sx.V{sx.A("or")}
		for _, k := range x.Or {
			items = append(items, goPathSx(k))
		}
		return sx.L(items...)
	}
	return sx.A("unknown")
}

// implParse runs the real ParsePath and projects its result: (null) | (accept <path>) | (reject) | (panic)
func implParse(s string) (out sx.V) {
	defer func() {
		if r := recover(); r != nil {
			out = sx.L(sx.A("panic"))
		}
	}()
	p, err := path.ParsePath(s)
	if err != nil {
		return sx.L(sx.A("reject"))
	}
	if _, isNull := p.(path.NullPath); isNull {
		return sx.L(sx.A("null"))
	}
	return sx.L(sx.A("accept"), goPathSx(p))
}

func yamlQuote(s string) string {
	var b strings.Builder
	b.WriteByte('"')
	for i := 0; i < len(s); i++ {
		c := s[i]
		switch {
		case c == '"':
			b.WriteString("\\\"")
		case c == '\\':
			b.WriteString("\\\\")
		case c == '\n':
			b.WriteString("\\n")
		case c == '\t':
			b.WriteString("\\t")
		case c == '\r':
			b.WriteString("\\r")
		case c < 32 || c == 127:
			fmt.Fprintf(&b, "\\x%02x", c)
		default:
			b.WriteByte(c)
		}
	}
	b.WriteByte('"')
	return b.String()
}

func compileOutcome(profile string) (out string) {
	defer func() {
		if r := recover(); r != nil {
			out = "panic"
		}
	}()
	_, err := pkg.CompileProfile(profile, false, nil)
	if err != nil {
		return "error"
	}
	return "ok"
}

const c16Alphabet = "ab.ex/|^*() @\",_-1\\\t"

func mutants(s string) []string {
	out := []string{}
	for i := 0; i < len(s); i++ {
		out = append(out, s[:i]+s[i+1:])
		for _, c := range c16Alphabet {
			if byte(c) != s[i] {
				out = append(out, s[:i]+string(c)+s[i+1:])
			}
		}
	}
	for i := 0; i <= len(s); i++ {
		for _, c := range c16Alphabet {
			out = append(out, s[:i]+string(c)+s[i:])
		}
	}
	return out
}

// C16: every sentence up to a size, in canonical and random layouts, and every single-edit mutant, through the
// real ParsePath; outcome and structure compared with Model.PathGrammar.parse_path_with (flag from the source)
// and with the anchored reading (= the specification, by C16_accept_is_sentence / C16_reject_is_not_sentence).
func C16(e *core.Env) {
	res := e.Res
	res.Rule = "a history of 150 000 (quick) / 1 500 000 (thorough) further parses of one long sentence and one ill-formed string in the same process (same answer every time); strings = sentences of the path grammar with <= N leaves (N=3 quick, 5 thorough) over ex.a/ex.b/ex.c^/@type in canonical layout, " +
		"in random whitespace/redundant-parenthesis layouts, and every single-character edit (delete/replace/insert over the 20-character path alphabet) of a sample of them; 7 non-paths and one path written at each of 11 places of a profile where a path stands (top level, if / then / else, not, and / or operand, nested, atLeast, the argument of lessThanProperty, else + not): refused (accepted) by CompileProfile everywhere; 12 characters foreign to the grammar (U+FFFD, other non-ASCII, invalid UTF-8, NUL, BOM) placed where the parser stops after a complete path, inside parentheses and in front, alone and followed by more text; " +
		"non-trivial = distinct string on which model or implementation accepts, or a mutant of an accepted sentence that must be rejected"
	anchored, _ := e.Facts["peg_anchored"].(bool)
	leaves := []PExp{Pr("ex.a", false), Pr("ex.b", false), Pr("ex.c", true), Pr("@type", false)}
	maxLeaves := e.Pick(3, 5)
	seen := map[string]bool{}
	nCompile := 0
	compileBudget := e.Pick(250, 3000)

	try := func(s string, kind string, expect *PExp) {
		if seen[s] {
			return
		}
		seen[s] = true
		impl := implParse(s)
		ans, err := e.Driver.Eval(sx.L(sx.A("c16"), sx.A("parse"), sx.B(anchored), sx.S(s)))
		if err != nil {
			res.Violate("harness-error", err.Error(), map[string]any{"input": s, "no_failing_input_found": true, "broken": "driver"})
			return
		}
		model, spec := ans.List[0], ans.List[1]
		accepted := impl.List[0].Atom == "accept" || spec.List[0].Atom == "accept"
		res.Case(s, accepted || kind == "mutant")
		res.Count(kind + ":" + spec.List[0].Atom)
		if spec.List[0].Atom == "exhausted" {
			res.Violate("model-mismatch", "model ran out of fuel on "+fmt.Sprintf("%q", s), map[string]any{"input": s, "no_failing_input_found": true, "broken": "fuel adequacy of PathGrammar.parse_path"})
			return
		}
		replay := map[string]any{"input": s, "impl": impl.String(), "model": model.String(), "spec_anchored": spec.String(),
			"replay_go": fmt.Sprintf("path.ParsePath(%q)", s)}
		if impl.String() != spec.String() {
			what := "ParsePath disagrees with the anchored grammar on " + fmt.Sprintf("%q", s) + ": impl " + impl.List[0].Atom + ", grammar " + spec.List[0].Atom
			if impl.List[0].Atom == "accept" && spec.List[0].Atom == "accept" {
				what = "ParsePath assigns a different structure than the grammar to " + fmt.Sprintf("%q", s)
			}
			res.Violate("impl-violates-property", what, replay)
		} else if impl.String() != model.String() {
			replay["no_failing_input_found"] = true
			replay["broken"] = "correspondence PathGrammar.parse_path_with vs path.ParsePath"
			res.Violate("model-mismatch", "ParsePath differs from the model on "+fmt.Sprintf("%q", s), replay)
		}
		if expect != nil && spec.String() != sx.L(sx.A("accept"), expect.Sx()).String() {
			// the generator believed this layout to be a sentence with this structure: the model (not the code) disagrees
			res.Note("generator expectation differs from the grammar for " + fmt.Sprintf("%q", s))
			res.Count("generator-expectation-mismatch")
		}
		// through the profile compiler: a rejected path must give an error (never a panic, never success)
		if nCompile < compileBudget && (len(seen)%17 == 0 || kind == "canonical") {
			nCompile++
			prof := "profile: p\nprefixes:\n  ex: http://example.org/ns#\nviolation:\n  - v\nvalidations:\n  v:\n    targetClass: ex.T\n    propertyConstraints:\n      " +
				yamlQuote(s) + ":\n        minCount: 1\n"
			oc := compileOutcome(prof)
			res.Count("compile:" + oc)
			if oc == "panic" || (spec.List[0].Atom == "reject" && oc == "ok") {
				replay["profile"] = prof
				replay["compile_outcome"] = oc
				res.Violate("impl-violates-property", "CompileProfile "+oc+" for a profile whose path "+fmt.Sprintf("%q", s)+" the grammar "+spec.List[0].Atom+"s", replay)
			}
		}
	}

	sentences := []PExp{}
	for n := 1; n <= maxLeaves; n++ {
		sentences = append(sentences, EnumPaths(n, leaves, e.Pick(1500, 20000))...)
	}
	res.Count(fmt.Sprintf("sentences=%d", 0))
	delete(res.Distribution, "sentences=0")
	none := func() bool { return false }
	canon := func() string { return " " }
	wsChoices := []string{"", "", " ", " ", "  ", "\t", "\n", "\r"}
	for i, p := range sentences {
		pp := p
		s := p.Render(canon, none)
		try(s, "canonical", &pp)
		tight := p.Render(func() string { return "" }, none)
		try(tight, "layout", &pp)
		nl := e.Pick(2, 6)
		for k := 0; k < nl; k++ {
			l := p.Render(func() string { return wsChoices[e.Rand.Intn(len(wsChoices))] }, func() bool { return e.Rand.Intn(5) == 0 })
			try(l, "layout", &pp)
			if k == 0 {
				pad := wsChoices[e.Rand.Intn(len(wsChoices))] + l + wsChoices[e.Rand.Intn(len(wsChoices))]
				try(pad, "layout", &pp)
			}
		}
		if i < 3 {
			res.Sample(map[string]any{"sentence": s, "structure": p.Sx().String()})
		}
	}
	// single-edit mutants of a sample of sentences (all of the small ones, a seeded sample of the rest)
	nm := 0
	for i, p := range sentences {
		s := p.Render(canon, none)
		if len(s) > 30 && e.Rand.Intn(e.Pick(40, 12)) != 0 {
			continue
		}
		if i%e.Pick(6, 2) != 0 && len(s) > 12 {
			continue
		}
		for _, m := range mutants(s) {
			try(m, "mutant", nil)
			nm++
		}
		if e.Rand.Intn(4) == 0 {
			l := p.Render(func() string { return wsChoices[e.Rand.Intn(len(wsChoices))] }, func() bool { return e.Rand.Intn(4) == 0 })
			for _, m := range mutants(l) {
				try(m, "mutant", nil)
				nm++
			}
		}
	}
	// hand-picked corner strings (the witnesses of the repaired defect and grammar oddities)
	for _, s := range []string{"", " ", "ex.a ) junk", "ex.a / / ex.b", "ex.a |", "( ex.a", "()", "ex.a/ex.b", "ex.a /ex.b", "ex.a\"", "ex.a,",
		"ex.a*", "ex.a ^", "ex.a^^", "ex.a.b.c", "ex.", ".a", "ex", "@type", "@types", "@type^", "ex.a | @type", "é.a", "ex.a\x00", "ex.a\xff", "ex.a\u00a0",
		"\u00a0ex.a", "ex.a\v", "ex.a\f", "ex.a / (ex.b | (ex.c / ex.d)^)", "((((((((((ex.a))))))))))", "ex.a" + strings.Repeat(" / ex.a", 40),
		strings.Repeat("(", 60) + "ex.a" + strings.Repeat(")", 60), strings.Repeat("(", 60) + "ex.a" + strings.Repeat(")", 59)} {
		try(s, "corner", nil)
	}
	// every place of a profile where a path is written: a string that is not a path is refused wherever it stands
	{
		pc := func(path string, ind string) string {
			return ind + "propertyConstraints:\n" + ind + "  " + yamlQuote(path) + ":\n" + ind + "    minCount: 1\n"
		}
		okc := func(ind string) string { return pc("ex.ok", ind) }
		positions := map[string]func(string) string{
			"top":  func(x string) string { return pc(x, "    ") },
			"if":   func(x string) string { return "    if:\n" + pc(x, "      ") + "    then:\n" + okc("      ") },
			"then": func(x string) string { return "    if:\n" + okc("      ") + "    then:\n" + pc(x, "      ") },
			"else": func(x string) string {
				return "    if:\n" + okc("      ") + "    then:\n" + okc("      ") + "    else:\n" + pc(x, "      ")
			},
			"not": func(x string) string { return "    not:\n" + pc(x, "      ") },
			"and-2nd": func(x string) string {
				return "    and:\n      -\n" + okc("        ") + "      -\n" + pc(x, "        ")
			},
			"or-1st": func(x string) string { return "    or:\n      -\n" + pc(x, "        ") + "      -\n" + okc("        ") },
			"nested": func(x string) string {
				return "    propertyConstraints:\n      ex.kid:\n        nested:\n" + pc(x, "          ")
			},
			"atLeast": func(x string) string {
				return "    propertyConstraints:\n      ex.kid:\n        atLeast:\n          count: 1\n          validation:\n" + pc(x, "            ")
			},
			"lessThan": func(x string) string {
				return "    propertyConstraints:\n      ex.ok:\n        lessThanProperty: " + yamlQuote(x) + "\n"
			},
			"else-not": func(x string) string {
				return "    if:\n" + okc("      ") + "    then:\n" + okc("      ") + "    else:\n      not:\n" + pc(x, "        ")
			},
		}
		pnames := []string{}
		for n := range positions {
			pnames = append(pnames, n)
		}
		sort.Strings(pnames)
		for _, x := range []string{"ex.a / / ex.b", "( ex.a | ex.b", "ex.a ) junk", "ex.a |", "ex.a,", "ex.a ^^", "ex.a\ufffd/ ex.b", "ex.a / ex.b"} {
			ans, err := e.Driver.Eval(sx.L(sx.A("c16"), sx.A("parse"), sx.B(anchored), sx.S(x)))
			if err != nil {
				continue
			}
			verdict := ans.List[1].List[0].Atom
			for _, pn := range pnames {
				prof := "profile: p\nprefixes:\n  ex: http://example.org/ns#\nviolation:\n  - v\nvalidations:\n  v:\n    targetClass: ex.T\n    message: m\n" + positions[pn](x)
				oc := compileOutcome(prof)
				res.Case("position|"+pn+"|"+x, verdict == "reject")
				res.Count("position-compile:" + oc)
				if oc == "panic" || (verdict == "reject" && oc == "ok") || (verdict == "accept" && oc != "ok") {
					res.Violate("impl-violates-property", fmt.Sprintf("CompileProfile %s for a profile with %q written as a path under `%s`, which the grammar %ss", oc, x, pn, verdict),
						map[string]any{"input": x, "position": pn, "profile": prof, "compile_outcome": oc, "spec_anchored": ans.List[1].String()})
				}
			}
		}
	}
	// characters outside the grammar's alphabet placed exactly where the parser stops after a complete path (and inside one):
	// the replacement character U+FFFD (what decoders use for "no rune here"), other non-ASCII letters, invalid UTF-8 bytes,
	// NUL, the byte order mark - alone and followed by more text
	foreign := []string{"\ufffd", "\xef\xbf\xbd\xef\xbf\xbd", "é", "\xff", "\xc0\x80", "\x00", "\ufeff", "\u2028", "\U0010ffff", "\xed\xa0\x80", "\xf4\x90\x80\x80", "\xef\xbf"}
	tails := []string{"", " junk", "/ ex.b", ") junk (", " / ", " | ex.b"}
	nf := 0
	for i, p := range sentences {
		if i >= e.Pick(60, 400) {
			break
		}
		base := p.Render(canon, none)
		for _, c := range foreign {
			for ti, tail := range tails {
				if e.Quick() && (i+ti)%3 != 0 && i > 6 {
					continue
				}
				try(base+c+tail, "foreign-character", nil)
				try(base+" "+c+tail, "foreign-character", nil)
				nf += 2
			}
			try(c+base, "foreign-character", nil)
			try("("+base+c+")", "foreign-character", nil)
			try("( "+base+" )"+c+") junk (", "foreign-character", nil)
			nf += 3
		}
	}
	res.Distribution["foreign_character_strings"] = nf
	// histories: what ParsePath answers for a string does not depend on how many strings the process parsed before
	// (a long-lived embedder parses the paths of every profile again and again)
	{
		long := "( ex.a / ex.b | ex.c ^ ) / ( ( ex.a | ex.b ) / ex.c | @type ) / ex.a / ex.b / ex.c / ( ex.a | ex.b | ex.c )"
		bad := "ex.a / / ex.b"
		first, firstBad := implParse(long), implParse(bad)
		n := e.Pick(150000, 1500000)
		for i := 0; i < n; i++ {
			var got sx.V
			if i%50 == 49 {
				got = implParse(bad)
				if got.String() != firstBad.String() {
					res.Violate("impl-violates-property", fmt.Sprintf("ParsePath answers differently for %q after %d earlier parses in the process", bad, i),
						map[string]any{"string": bad, "first_answer": firstBad.String(), "answer_now": got.String(), "earlier_parses_in_this_history": i, "replay_go": fmt.Sprintf("for i := 0; i < %d; i++ { path.ParsePath(%q) }; path.ParsePath(%q)", i, long, bad)})
					break
				}
				continue
			}
			got = implParse(long)
			if got.String() != first.String() {
				res.Violate("impl-violates-property", fmt.Sprintf("ParsePath answers differently for a sentence after %d earlier parses in the process", i),
					map[string]any{"string": long, "first_answer": first.String(), "answer_now": got.String(), "earlier_parses_in_this_history": i, "replay_go": fmt.Sprintf("for i := 0; i <= %d; i++ { path.ParsePath(%q) }", i, long)})
				break
			}
		}
		res.Case("history|repeated-parses", true)
		res.Count("stream=history")
	}
	res.Sample(map[string]any{"mutant_example": "ex.a / / ex.b", "expected": "reject"})
	res.Count(fmt.Sprintf("mutants_generated"))
	res.Distribution["mutants_generated"] = nm
	res.Distribution["sentences_enumerated"] = len(sentences)
}
