package props

import (
	"bytes"
	"fmt"
	"os"
	"os/exec"
	"path/filepath"
	"strings"
	"sync"
	"time"
	"unicode/utf16"

	"github.com/aml-org/amf-custom-validator/pkg"
	"github.com/aml-org/amf-custom-validator/pkg/config"
	"github.com/aml-org/amf-custom-validator/pkg/events"
	"github.com/aml-org/amf-custom-validator/pkg/milestones"
	"github.com/aml-org/amf-custom-validator/verifh/core"
	"github.com/aml-org/amf-custom-validator/verifh/sx"
	"github.com/open-policy-agent/opa/rego"
)

// ------------------------------------------------------------------------------------ inputs with a known fate

type pvariant struct {
	name, text          string
	parse, gen, compile string // ok | err | panic : how the three profile stages end
}

type dvariant struct {
	name, text   string
	decode, norm string
	evalErrWith  string // name of the profile variant whose evaluation fails on this document
	nodes        bool
	buildErrWith string // comma-separated profile variants whose report cannot be encoded for this document
}

const evalErrProfile = `#%Validation Profile 1.0
profile: Eval Error
prefixes:
  ex: http://example.org/ns#
violation:
  - conflict
validations:
  conflict:
    targetClass: ex.Thing
    message: object keys must be unique
    rego: |
      ts = object.get($node, "http://example.org/ns#name", [])
      names = nodes_array with data.nodes as ts
      o = {"k": n | n = names[_]}
      $result = (count(o) > 5)
`

var profileVariants = []pvariant{
	{"ok-min", PoolProfileMin, "ok", "ok", "ok"},
	{"ok-levels", PoolProfileLevels, "ok", "ok", "ok"},
	{"eval-error", evalErrProfile, "ok", "ok", "ok"},
	{"bad-yaml", PoolProfileBadYaml, "err", "ok", "ok"},
	{"empty-text", "", "panic", "ok", "ok"},
	{"scalar", "just a scalar\n", "err", "ok", "ok"},
	{"no-validations", "#%Validation Profile 1.0\nprofile: X\n", "err", "ok", "ok"},
	{"no-target-class", PoolProfileBroken, "err", "ok", "ok"},
	{"bad-path", strings.Replace(PoolProfileMin, "ex.name:", "\"ex.name / / ex.x\":", 1), "err", "ok", "ok"},
	{"not-not-map", strings.Replace(PoolProfileMin, "    propertyConstraints:\n      ex.name:\n        minCount: 1\n", "    not: 5\n", 1), "err", "ok", "ok"},
	{"unknown-prefix", strings.Replace(PoolProfileMin, "targetClass: ex.Thing", "targetClass: acme.Thing", 1), "ok", "panic", "ok"},
	{"underscore-prefix", strings.Replace(PoolProfileMin, "      ex.name:", "      my_ns.name:", 1), "ok", "panic", "ok"},
	{"broken-rego", strings.Replace(PoolProfileMin, "    propertyConstraints:\n      ex.name:\n        minCount: 1\n", "    rego: |\n      this is ( not rego\n", 1), "ok", "ok", "err"},
	{"unsafe-builtin", strings.Replace(PoolProfileMin, "    propertyConstraints:\n      ex.name:\n        minCount: 1\n", "    rego: |\n      r = http.send({\"method\": \"get\", \"url\": \"http://localhost:1\"})\n      $result = (r.status_code != 200)\n", 1), "ok", "ok", "err"},
}

var dataVariants = []dvariant{
	{"good", PoolDataGood, "ok", "ok", "", true, ""},
	{"bad", PoolDataBad, "ok", "ok", "eval-error", true, ""},
	{"empty-graph", PoolDataEmpty, "ok", "ok", "", false, ""},
	{"empty-object", "{}", "ok", "ok", "", false, ""},
	{"empty-array", "[]", "ok", "ok", "", false, ""},
	{"null", "null", "ok", "ok", "", false, ""},
	{"number", "1", "ok", "ok", "", false, ""},
	{"string", "\"s\"", "ok", "ok", "", false, ""},
	{"garbage", PoolDataGarbage, "err", "ok", "", false, ""},
	{"empty-text", "", "err", "ok", "", false, ""},
	{"truncated", PoolDataTruncated, "err", "ok", "", false, ""},
	{"open-brace", "{", "err", "ok", "", false, ""},
	{"bom-then-good", "\xef\xbb\xbf" + PoolDataGood, "err", "ok", "", false, ""},
	{"bom-then-bad", "\xef\xbb\xbf" + PoolDataBad, "err", "ok", "", false, ""},
	{"latin1-in-a-string", "{\"@id\":\"http://example.org/d#a\",\"@type\":\"http://example.org/ns#Thing\",\"http://example.org/ns#name\":\"caf\xe9\"}", "ok", "ok", "", true, ""},
	{"latin1-no-name", "{\"@id\":\"http://example.org/d#a\",\"@type\":\"http://example.org/ns#Thing\",\"http://example.org/ns#label\":\"caf\xe9 \xff\xfe\"}", "ok", "ok", "", true, ""},
	{"trailing-text", PoolDataGood + " and more", "ok", "ok", "", true, ""},
	{"jsonld-id-number", `{"@id": 5, "@type": "http://example.org/ns#Thing"}`, "ok", "panic", "", false, ""},
	{"jsonld-context-number", `{"@context": 5, "@id": "http://example.org/d#a"}`, "ok", "panic", "", false, ""},
	{"jsonld-type-number", `{"@id": "http://example.org/d#a", "@type": 1}`, "ok", "panic", "", false, ""},
	{"jsonld-value-and-id", `{"@id": "http://example.org/d#a", "http://example.org/ns#p": {"@value": 1, "@id": "http://example.org/d#b"}}`, "ok", "panic", "", false, ""},
	{"lexical-leading-zeros", `{"@graph":[{"@id":"http://example.org/d#a","@type":"http://example.org/ns#Thing"},{"@id":"http://example.org/d#sm","@type":["http://a.ml/vocabularies/document-source-maps#SourceMap"],"http://a.ml/vocabularies/document-source-maps#lexical":[{"@id":"http://example.org/d#lx"}]},{"@id":"http://example.org/d#lx","http://a.ml/vocabularies/document-source-maps#element":"http://example.org/d#a","http://a.ml/vocabularies/document-source-maps#value":"[(01,002)-(3,4)]"}]}`, "ok", "ok", "", true, "ok-min,ok-levels,eval-error"},
	{"lexical-without-element", `{"@graph":[{"@id":"http://example.org/d#sm","@type":["http://a.ml/vocabularies/document-source-maps#SourceMap"],"http://a.ml/vocabularies/document-source-maps#lexical":[{"@id":"http://example.org/d#lx"}]},{"@id":"http://example.org/d#lx","http://a.ml/vocabularies/document-source-maps#value":"[(1,0)-(2,0)]"}]}`, "ok", "panic", "", false, ""},
}

func pv(name string) pvariant {
	for _, p := range profileVariants {
		if p.name == name {
			return p
		}
	}
	panic(name)
}

// ------------------------------------------------------------------------------------ recording consumer

type traceRec struct {
	acts     []string
	events   []events.Event
	closed   bool
	timedOut bool
}

// observe runs call with a fresh event channel and a consumer goroutine; returns the channel trace, the kind of
// outcome (value | error | escaped), the panic text and whether the consumer saw the close.
func observe(call func(ch *chan events.Event) (string, error)) (tr traceRec, kind string, out string, errText string) {
	return observeSlow(0, call)
}

func observeSlow(delay time.Duration, call func(ch *chan events.Event) (string, error)) (tr traceRec, kind string, out string, errText string) {
	var own chan events.Event
	return observeVar(&own, delay, call)
}

// observeVar puts a FRESH channel into *slot and hands the library the address of that variable.
func observeVar(slot *chan events.Event, delay time.Duration, call func(ch *chan events.Event) (string, error)) (tr traceRec, kind string, out string, errText string) {
	*slot = make(chan events.Event)
	ch := *slot
	done := make(chan traceRec, 1)
	go func() {
		r := traceRec{}
		timer := time.NewTimer(20 * time.Second)
		defer timer.Stop()
		for {
			if delay > 0 {
				time.Sleep(delay)
			}
			select {
			case ev, ok := <-ch:
				if !ok {
					r.closed = true
					r.acts = append(r.acts, "close")
					done <- r
					return
				}
				r.events = append(r.events, ev)
				r.acts = append(r.acts, eventName(ev.EventType))
			case <-timer.C:
				r.timedOut = true
				done <- r
				return
			}
		}
	}()
	finished := make(chan struct{})
	go func() {
		defer close(finished)
		defer func() {
			if r := recover(); r != nil {
				kind = "escaped"
				errText = fmt.Sprint(r)
			}
		}()
		o, err := call(slot)
		if err != nil {
			kind, errText = "error", err.Error()
		} else {
			kind, out = "value", o
		}
	}()
	select {
	case <-finished:
	case <-time.After(60 * time.Second):
		kind, errText = "blocked", "the call did not return within 60 s"
	}
	if kind == "value" || kind == "error" {
		select {
		case tr = <-done:
		case <-time.After(3 * time.Second):
			// channel left open: collect what was seen so far by closing it ourselves
			func() {
				defer func() { recover() }()
				close(ch)
			}()
			tr = <-done
			tr.closed = false
			if n := len(tr.acts); n > 0 && tr.acts[n-1] == "close" {
				tr.acts = tr.acts[:n-1]
			}
		}
	} else {
		func() {
			defer func() { recover() }()
			close(ch)
		}()
		select {
		case tr = <-done:
			tr.closed = false
			if n := len(tr.acts); n > 0 && tr.acts[n-1] == "close" {
				tr.acts = tr.acts[:n-1]
			}
		case <-time.After(3 * time.Second):
		}
	}
	return
}

func eventName(t events.EventType) string {
	names := []string{"ProfileParsingStart", "ProfileParsingDone", "InputDataParsingStart", "InputDataParsingDone", "InputDataNormalizationStart",
		"InputDataNormalizationDone", "RegoGenerationStart", "RegoGenerationDone", "RegoCompilationStart", "RegoCompilationDone",
		"OpaValidationStart", "OpaValidationDone", "BuildReportStart", "BuildReportDone"}
	if int(t) >= 0 && int(t) < len(names) {
		return names[t]
	}
	return fmt.Sprintf("Event%d", int(t))
}

func atoms(l []string) sx.V {
	items := []sx.V{}
	for _, a := range l {
		items = append(items, sx.A(a))
	}
	return sx.L(items...)
}

type pipeCase struct {
	entry string
	p     pvariant
	d     dvariant
	slow  time.Duration // the consumer waits this long before taking each event (a slow listener is a legal schedule)
	// the caller's ValidationConfiguration panics in ReportCreationTime: a panic inside the report-building stage
	clockPanics bool
	// the channel is passed through ONE variable that the caller reuses for every call (a field of a long-lived service)
	reuseVar bool
}

type panickingClock struct{}

func (panickingClock) ReportCreationTime() time.Time { panic("the caller's clock panics") }

// the variable a long-lived caller keeps its current event channel in
var c11SharedChannelVar chan events.Event

func (c pipeCase) faults() []string {
	eval := "ok"
	if c.d.evalErrWith == c.p.name {
		eval = "err"
	}
	build := "ok"
	for _, n := range strings.Split(c.d.buildErrWith, ",") {
		if n != "" && n == c.p.name {
			build = "err"
		}
	}
	if c.clockPanics {
		build = "panic"
	}
	return []string{c.p.parse, c.p.gen, c.p.compile, c.d.decode, c.d.norm, eval, build}
}

// runPipeCase executes one (entry point, profile, data) with a recording consumer and compares with the model.
func runPipeCase(e *core.Env, c pipeCase, compiled map[string]*rego.PreparedEvalQuery) (tr traceRec, kind string, out string) {
	tr, kind, out, errText := observeCase(c, compiled)
	comparePipeCase(e, c, tr, kind, errText)
	return
}

func observeCase(c pipeCase, compiled map[string]*rego.PreparedEvalQuery) (tr traceRec, kind string, out string, errText string) {
	rc := config.DefaultReportConfiguration()
	observe := func(call func(ch *chan events.Event) (string, error)) (traceRec, string, string, string) {
		if c.reuseVar {
			return observeVar(&c11SharedChannelVar, c.slow, call)
		}
		return observeSlow(c.slow, call)
	}
	if c.clockPanics {
		var pc panickingClock
		switch c.entry {
		case "validate":
			return observe(func(ch *chan events.Event) (string, error) {
				return pkg.ValidateWithConfiguration(c.p.text, c.d.text, false, ch, pc, rc)
			})
		case "validateCompiled":
			q := compiled[c.p.name]
			return observe(func(ch *chan events.Event) (string, error) {
				return pkg.ValidateCompiledWithConfiguration(q, c.d.text, false, ch, pc, rc)
			})
		case "compileThenValidate":
			return observe(func(ch *chan events.Event) (string, error) {
				q, err := pkg.CompileProfile(c.p.text, false, ch)
				if err != nil {
					return "", err
				}
				return pkg.ValidateCompiledWithConfiguration(q, c.d.text, false, ch, pc, rc)
			})
		}
	}
	switch c.entry {
	case "validate":
		if len(c.p.name)%2 == 0 {
			tr, kind, out, errText = observe(func(ch *chan events.Event) (string, error) { return pkg.Validate(c.p.text, c.d.text, false, ch) })
		} else {
			tr, kind, out, errText = observe(func(ch *chan events.Event) (string, error) {
				return pkg.ValidateWithConfiguration(c.p.text, c.d.text, false, ch, clockA, rc)
			})
		}
	case "validateCompiled":
		q := compiled[c.p.name]
		if len(c.d.name)%2 == 0 {
			tr, kind, out, errText = observe(func(ch *chan events.Event) (string, error) { return pkg.ValidateCompiled(q, c.d.text, false, ch) })
		} else {
			tr, kind, out, errText = observe(func(ch *chan events.Event) (string, error) {
				return pkg.ValidateCompiledWithConfiguration(q, c.d.text, false, ch, clockA, rc)
			})
		}
	case "compileProfile":
		tr, kind, out, errText = observe(func(ch *chan events.Event) (string, error) {
			_, err := pkg.CompileProfile(c.p.text, false, ch)
			if err == nil {
				// a successful stand-alone compilation leaves the channel open: close it for the consumer
				// and remember that WE did it
				return "compiled", nil
			}
			return "", err
		})
	case "compileThenValidate":
		tr, kind, out, errText = observe(func(ch *chan events.Event) (string, error) {
			q, err := pkg.CompileProfile(c.p.text, false, ch)
			if err != nil {
				return "", err
			}
			return pkg.ValidateCompiledWithConfiguration(q, c.d.text, false, ch, clockA, rc)
		})
	}
	return
}

func comparePipeCase(e *core.Env, c pipeCase, tr traceRec, kind string, errText string) {
	res := e.Res
	acts := tr.acts
	ans, err := e.Driver.Eval(sx.L(sx.A("c11"), sx.A("run"), sx.A(c.entry), atoms(c.faults()), atoms(acts), sx.A(map[string]string{"value": "value", "error": "error", "escaped": "escaped", "blocked": "escaped"}[kind])))
	replay := map[string]any{"entry_point": c.entry, "profile": c.p.text, "profile_variant": c.p.name, "data": c.d.text, "data_variant": c.d.name,
		"expected_stage_outcomes(parse,generate,compile,decode,normalize,eval,build)": c.faults(), "impl_channel_trace": acts, "impl_outcome": kind, "impl_error": core.Trunc(errText, 400)}
	slowNote := ""
	if c.slow > 0 {
		replay["consumer"] = fmt.Sprintf("waits %v before taking each event from the channel", c.slow)
		slowNote = ", slow consumer"
	}
	if err != nil {
		replay["no_failing_input_found"] = true
		replay["broken"] = "driver: " + err.Error()
		res.Violate("harness-error", err.Error(), replay)
		return
	}
	modelTrace, modelKind, specOK := ans.List[0].String(), ans.List[1].Atom, ans.List[2].Atom == "1"
	replay["model_channel_trace"] = modelTrace
	replay["model_outcome"] = modelKind
	implTrace := atoms(acts).String()
	if !specOK {
		what := "the channel trace violates the event protocol"
		if kind == "escaped" {
			what = "a panic escaped the entry point: " + core.Trunc(errText, 200)
		} else if kind == "blocked" {
			what = "the entry point blocked"
		}
		res.Violate("impl-violates-property", what+" ("+c.entry+", profile "+c.p.name+", data "+c.d.name+slowNote+")", replay)
	} else if implTrace != modelTrace || kind != modelKind {
		replay["no_failing_input_found"] = true
		replay["broken"] = "correspondence Pipeline.run_entry vs the entry point (the trace satisfies the protocol but differs from the model for the expected stage outcomes)"
		res.Violate("model-mismatch", "channel trace / outcome differs from the model ("+c.entry+", profile "+c.p.name+", data "+c.d.name+slowNote+")", replay)
	}
	return
}

func allPipeCases(compiledOK func(string) bool) []pipeCase {
	cases := []pipeCase{}
	for _, p := range profileVariants {
		for _, d := range dataVariants {
			cases = append(cases, pipeCase{entry: "validate", p: p, d: d}, pipeCase{entry: "compileThenValidate", p: p, d: d})
			if compiledOK(p.name) {
				cases = append(cases, pipeCase{entry: "validateCompiled", p: p, d: d})
			}
		}
		cases = append(cases, pipeCase{entry: "compileProfile", p: p, d: dataVariants[0]})
	}
	return cases
}

func compilePool(res *core.Result) map[string]*rego.PreparedEvalQuery {
	compiled := map[string]*rego.PreparedEvalQuery{}
	for _, p := range profileVariants {
		if p.parse == "ok" && p.gen == "ok" && p.compile == "ok" {
			q, err := pkg.CompileProfile(p.text, false, nil)
			if err != nil {
				res.Violate("impl-violates-property", "pool profile "+p.name+" does not compile: "+err.Error(), map[string]any{"profile": p.text})
				continue
			}
			compiled[p.name] = q
		}
	}
	return compiled
}

// ------------------------------------------------------------------------------------ C11

func C11(e *core.Env) {
	res := e.Res
	res.Rule = "cases = (entry point, profile variant, data variant): every failure point reachable by input (YAML error, structural error, parser panic, generator panic, Rego compile error, deny-listed built-in, decode error, JSON-LD rejection, lexical index panic, evaluation error) and success x Validate / ValidateWithConfiguration / ValidateCompiled(WithConfiguration) / CompileProfile / CompileProfile-then-ValidateCompiled on one channel, each with a recording consumer goroutine (events, close, double close, missing close); exhaustive over the pools; plus a caller clock that panics inside report building, plus 3 rounds in which every call receives a fresh channel through ONE reused variable, plus 19 runs with a listener that waits 260 ms (quick) / 700 ms (thorough) before taking each event; " +
		"the trace must equal the model's trace for the stage outcomes the inputs were built to produce and satisfy the executable protocol specification; milestones consumer on the same runs; non-trivial = some stage fails; distinct by (entry, profile, data)"
	compiled := compilePool(res)
	cases := allPipeCases(func(n string) bool { return compiled[n] != nil })
	blocked := 0
	for i, c := range cases {
		if blocked >= 2 {
			res.Note("two calls blocked: the remaining cases are skipped (each would wait for the wall-clock bound)")
			break
		}
		tr, kind, _ := runPipeCase(e, c, compiled)
		if kind == "blocked" {
			blocked++
		}
		fail := false
		for _, f := range c.faults() {
			if f != "ok" {
				fail = true
			}
		}
		res.Case(c.entry+"|"+c.p.name+"|"+c.d.name, fail)
		res.Count("entry=" + c.entry)
		res.Count("outcome=" + kind)
		if i == 7 || i == 200 {
			res.Sample(map[string]any{"entry": c.entry, "profile": c.p.name, "data": c.d.name, "trace": tr.acts, "outcome": kind})
		}
		// milestones: one per completed stage, non-negative duration, derived from the same events
		ch := make(chan events.Event, len(tr.events)+1)
		mch := make(chan milestones.Milestone, len(tr.events)+1)
		for _, ev := range tr.events {
			ch <- ev
		}
		close(ch)
		milestones.GenerateMilestonesFromEvents(&ch, &mch)
		got := []string{}
		for m := range mch {
			got = append(got, string(m.Operation))
			if m.Duration < 0 {
				res.Violate("impl-violates-property", "milestone with negative duration", map[string]any{"trace": tr.acts, "milestone": fmt.Sprint(m)})
			}
		}
		want := []string{}
		for _, a := range tr.acts {
			if strings.HasSuffix(a, "Done") {
				want = append(want, strings.TrimSuffix(a, "Done"))
			}
		}
		if strings.Join(got, ",") != strings.Join(want, ",") {
			res.Violate("impl-violates-property", "milestones are not one per completed stage", map[string]any{"trace": tr.acts, "milestones": got, "completed_stages": want,
				"entry_point": c.entry, "profile": c.p.text, "data": c.d.text})
		}
	}
	// slow listeners: the same protocol must hold when the consumer takes its time over every event (the sends are
	// synchronous, so nothing may be dropped, reordered or left unsent); observed concurrently, compared in order
	slowCases := []pipeCase{}
	for _, en := range []string{"validate", "validateCompiled", "compileProfile", "compileThenValidate"} {
		for _, pd := range [][2]string{{"ok-min", "good"}, {"ok-levels", "bad"}, {"broken-rego", "good"}, {"ok-min", "garbage"}, {"eval-error", "bad"}} {
			if en == "validateCompiled" && compiled[pd[0]] == nil {
				continue
			}
			var dd dvariant
			for _, d := range dataVariants {
				if d.name == pd[1] {
					dd = d
				}
			}
			slowCases = append(slowCases, pipeCase{entry: en, p: pv(pd[0]), d: dd, slow: time.Duration(e.Pick(260, 700)) * time.Millisecond})
		}
	}
	type slowObs struct {
		tr            traceRec
		kind, errText string
	}
	obs := make([]slowObs, len(slowCases))
	var wg sync.WaitGroup
	for i := range slowCases {
		wg.Add(1)
		go func(i int) {
			defer wg.Done()
			tr, kind, _, errText := observeCase(slowCases[i], compiled)
			obs[i] = slowObs{tr, kind, errText}
		}(i)
	}
	wg.Wait()
	for i, c := range slowCases {
		comparePipeCase(e, c, obs[i].tr, obs[i].kind, obs[i].errText)
		res.Case("slow|"+c.entry+"|"+c.p.name+"|"+c.d.name, true)
		res.Count("consumer=slow")
	}
	// a panic inside the report-building stage (the caller's clock panics): recovered into an error, channel closed
	for _, en := range []string{"validate", "validateCompiled", "compileThenValidate"} {
		for _, pd := range [][2]string{{"ok-min", "good"}, {"ok-levels", "bad"}} {
			var dd dvariant
			for _, d := range dataVariants {
				if d.name == pd[1] {
					dd = d
				}
			}
			c := pipeCase{entry: en, p: pv(pd[0]), d: dd, clockPanics: true}
			runPipeCase(e, c, compiled)
			res.Case("clock-panics|"+en+"|"+pd[0]+"|"+pd[1], true)
			res.Count("fault=report-building-panic")
		}
	}
	// one channel VARIABLE reused for several calls (each call gets a fresh channel through the same variable): every one
	// of these channels is closed
	for round := 0; round < 3; round++ {
		for _, en := range []string{"validate", "validateCompiled", "compileThenValidate", "compileProfile"} {
			for _, pd := range [][2]string{{"ok-min", "good"}, {"broken-rego", "good"}, {"ok-min", "garbage"}} {
				if en == "validateCompiled" && compiled[pd[0]] == nil {
					continue
				}
				var dd dvariant
				for _, d := range dataVariants {
					if d.name == pd[1] {
						dd = d
					}
				}
				c := pipeCase{entry: en, p: pv(pd[0]), d: dd, reuseVar: true}
				runPipeCase(e, c, compiled)
				res.Case(fmt.Sprintf("reused-variable|%d|%s|%s|%s", round, en, pd[0], pd[1]), true)
				res.Count("channel=through-a-reused-variable")
			}
		}
	}
	res.Exhaustive = true
}

// ------------------------------------------------------------------------------------ C04

func C04(e *core.Env) {
	res := e.Res
	res.Rule = "cases = (unreadable data text, entry point): empty text, every 5th (quick) / every (thorough) proper prefix of two valid documents cut inside the first JSON value, UTF-16/UTF-32/BOM/Latin-1 encodings, YAML/RAML/XML/Rego texts, JSON that JSON-LD rejects (non-string @id, bad @context, bad @type, @value+@id, bad @base, invalid @language, contexts and documents named by a URL that cannot be loaded, conflicting @index values found only while the node objects are merged, @graph: null / a scalar @graph / @language or @direction used as a property - rejected by the flattening step with an uncoded error) x Validate / ValidateWithConfiguration / ValidateCompiled / ValidateCompiledWithConfiguration (also with the debug flag set) and the built acv binary (validate, normalize); expected: an error (non-zero exit, nothing on stdout), never a report; histories (a readable document first, then the unreadable one three times); paired calls: the unreadable text and a readable document validated at once, both held at the same point (inside the send of the data-parsing start / done, normalisation start or evaluation start event: the listener stops receiving after the event before it) through the event channel - started one after the other in either order, released one after the other in either order; " +
		"non-trivial = the text is not empty; distinct by (text, entry)"
	texts := map[string]string{"empty": "", "space": "   \n", "open-brace": "{", "open-bracket": "[", "raml": PoolDataGarbage, "yaml": "a: 1\nb: [2\n",
		"xml": "<?xml version=\"1.0\"?><a/>", "rego": "package x\np { true }\n", "single-quote": "{'@id': 'x'}", "trailing-comma": `{"@id": "http://x/a",}`,
		"nan": "NaN", "unquoted": "{@graph: []}", "latin1": "{\"@id\": \"http://x/\xe9\", \"http://x/p\": \xe9}", "bom-utf8-garbage": "\xef\xbb\xbf\xef\xbb\xbf{",
		"jsonld-id-number": `{"@id": 5}`, "jsonld-context-number": `{"@context": 5}`, "jsonld-type-number": `{"@id": "http://x/a", "@type": 1}`,
		"jsonld-value-and-id": `{"@id": "http://x/a", "http://x/p": {"@value": 1, "@id": "http://x/b"}}`,
		"jsonld-base-number":  `{"@context": {"@base": 5}, "@id": "a"}`, "jsonld-language-number": `{"@context": {"@language": 5}, "@id": "http://x/a"}`,
		"jsonld-type-object":     `{"@id": "http://x/a", "@type": {"a": 1}}`,
		"jsonld-graph-id-object": `{"@graph": [{"@id": {"a": 1}}]}`,
		// contexts / documents named by URL that cannot be loaded (nothing listens on port 1): JSON-LD processing fails
		"jsonld-remote-context-unreachable": `{"@context": "http://127.0.0.1:1/context.jsonld", "@id": "http://x/a", "@type": "ex:Thing"}`,
		"jsonld-remote-context-in-array":    `{"@context": [{"ex": "http://example.org/ns#"}, "http://127.0.0.1:1/context.jsonld"], "@id": "http://x/a", "@type": "ex:Thing"}`,
		"jsonld-remote-scoped-context":      `{"@context": {"ex": "http://example.org/ns#"}, "@id": "http://x/a", "@type": "ex:Thing", "ex:child": {"@context": "http://127.0.0.1:1/context.jsonld", "@id": "http://x/b"}}`,
		"jsonld-remote-context-https":       `{"@context": "https://127.0.0.1:1/context.jsonld", "@graph": [{"@id": "http://x/a"}]}`,
		"jsonld-document-url-as-string":     `"http://127.0.0.1:1/document.jsonld"`,
		// documents every node object of which is fine (expansion succeeds) but which JSON-LD rejects as a whole while merging the
		// node objects: one node given two different @index values
		"jsonld-conflicting-indexes-container": `{"@context": {"ex": "http://example.org/ns#", "byName": {"@id": "ex:child", "@container": "@index"}}, "@id": "http://x/a", "@type": "ex:Thing", "byName": {"one": {"@id": "http://x/n", "@type": "ex:Thing"}, "two": {"@id": "http://x/n"}}}`,
		// expansion succeeds; the flattening step rejects them with an error that is not one of the coded JSON-LD errors
		"jsonld-graph-null":                   `{"@graph": null}`,
		"jsonld-graph-number":                 `{"@graph": 5}`,
		"jsonld-graph-string-in-node":         `{"@id": "http://x/a", "@graph": "s"}`,
		"jsonld-graph-null-nested":            `{"@id": "http://x/a", "http://x/p": {"@graph": null}}`,
		"jsonld-graph-null-in-array":          `[{"@graph": null}]`,
		"jsonld-language-as-property":         `{"@id": "http://x/a", "@language": "en"}`,
		"jsonld-direction-next-to-graph":      `{"@graph": [], "@direction": "ltr"}`,
		"jsonld-direction-as-property":        `{"@id": "http://x/a", "@type": ["http://example.org/ns#Thing"], "@direction": "ltr"}`,
		"jsonld-conflicting-indexes-expanded": `[{"@id": "http://x/a", "@type": ["http://example.org/ns#Thing"], "http://example.org/ns#child": [{"@id": "http://x/n", "@index": "one", "@type": ["http://example.org/ns#Thing"]}, {"@id": "http://x/n", "@index": "two"}]}]`}
	u16 := utf16.Encode([]rune(PoolDataGood))
	var b16 bytes.Buffer
	b16.Write([]byte{0xff, 0xfe})
	for _, u := range u16 {
		b16.WriteByte(byte(u))
		b16.WriteByte(byte(u >> 8))
	}
	texts["utf16le-bom"] = b16.String()
	var b32 bytes.Buffer
	for _, r := range PoolDataGood {
		b32.Write([]byte{0, 0, byte(r >> 8), byte(r)})
	}
	texts["utf32be"] = b32.String()
	stepN := e.Pick(5, 1)
	for _, doc := range []string{PoolDataGood, PoolDataBad} {
		trimmed := strings.TrimSpace(doc)
		for i := 1; i < len(trimmed); i += stepN {
			texts[fmt.Sprintf("prefix-%d-of-%d", i, len(trimmed))] = trimmed[:i]
		}
	}
	compiled, err := pkg.CompileProfile(PoolProfileMin, false, nil)
	if err != nil {
		res.Violate("harness-error", "pool profile does not compile", map[string]any{"no_failing_input_found": true, "broken": "pool"})
		return
	}
	rc := config.DefaultReportConfiguration()
	entries := map[string]func(d string) (string, error){
		"Validate":        func(d string) (string, error) { return pkg.Validate(PoolProfileMin, d, false, nil) },
		"Validate(debug)": func(d string) (string, error) { return pkg.Validate(PoolProfileMin, d, true, nil) },
		"ValidateCompiledWithConfiguration(debug)": func(d string) (string, error) {
			return pkg.ValidateCompiledWithConfiguration(compiled, d, true, nil, clockA, rc)
		},
		"ValidateWithConfiguration": func(d string) (string, error) {
			return pkg.ValidateWithConfiguration(PoolProfileLevels, d, false, nil, clockA, rc)
		},
		"ValidateCompiled": func(d string) (string, error) { return pkg.ValidateCompiled(compiled, d, false, nil) },
		"ValidateCompiledWithConfiguration": func(d string) (string, error) {
			return pkg.ValidateCompiledWithConfiguration(compiled, d, false, nil, clockA, rc)
		},
	}
	names := []string{}
	for n := range texts {
		names = append(names, n)
	}
	sortStrings(names)
	for _, n := range names {
		d := texts[n]
		for en, f := range entries {
			var out string
			var err error
			var pan any
			func() {
				defer func() { pan = recover() }()
				out, err = f(d)
			}()
			replay := map[string]any{"data": d, "data_kind": n, "entry_point": en, "expected": "an error value, no report"}
			if pan != nil {
				replay["panic"] = fmt.Sprint(pan)
				res.Violate("impl-violates-property", "unreadable data makes "+en+" panic instead of returning an error ("+n+")", replay)
			} else if err == nil {
				replay["report"] = core.Trunc(out, 1500)
				res.Violate("impl-violates-property", "unreadable data ("+n+") yields a report from "+en+" instead of an error", replay)
			}
			res.Case(n+"|"+en, d != "")
		}
		if strings.HasPrefix(n, "jsonld") {
			res.Count("kind=jsonld-rejected")
		} else if strings.HasPrefix(n, "prefix") {
			res.Count("kind=truncated")
		} else {
			res.Count("kind=not-json")
		}
	}
	// histories: a readable document first, then the unreadable one more than once (nothing may be remembered)
	for i, n := range names {
		if e.Quick() && strings.HasPrefix(n, "prefix") && i%7 != 0 {
			continue
		}
		d := texts[n]
		for en, f := range entries {
			f(PoolDataGood)
			for rep := 0; rep < 3; rep++ {
				var out string
				var err error
				func() {
					defer func() {
						if r := recover(); r != nil {
							err = fmt.Errorf("panic: %v", r)
						}
					}()
					out, err = f(d)
				}()
				if err == nil {
					res.Violate("impl-violates-property", fmt.Sprintf("unreadable data (%s) yields a report from %s on attempt %d after a readable document was validated", n, en, rep+1),
						map[string]any{"history": []string{PoolDataGood, d, d, d}, "entry_point": en, "attempt": rep + 1, "report": core.Trunc(out, 1500)})
					break
				}
			}
			res.Case("history|"+n+"|"+en, d != "")
		}
	}
	// two calls at once, steered through the event channel: the call with the unreadable text and a call with a readable one are
	// both held at the same stage-start event and then released one after the other, in both orders (whatever one call leaves
	// behind before that stage must not be read by the other after it)
	for _, n := range []string{"empty", "open-brace", fmt.Sprintf("prefix-%d-of-%d", 1+((len(strings.TrimSpace(PoolDataGood))/2-1)/stepN)*stepN, len(strings.TrimSpace(PoolDataGood))), "jsonld-id-number", "jsonld-graph-null"} {
		d, ok := texts[n]
		if !ok {
			res.Violate("harness-error", "no text named "+n, map[string]any{"no_failing_input_found": true, "broken": "pool"})
			continue
		}
		for _, en := range []string{"ValidateWithConfiguration", "ValidateCompiledWithConfiguration"} {
			call := func(text string) func(ch *chan events.Event) (string, error) {
				if en == "ValidateWithConfiguration" {
					return func(ch *chan events.Event) (string, error) {
						return pkg.ValidateWithConfiguration(PoolProfileLevels, text, false, ch, clockA, rc)
					}
				}
				return func(ch *chan events.Event) (string, error) {
					return pkg.ValidateCompiledWithConfiguration(compiled, text, false, ch, clockA, rc)
				}
			}
			// parking points: inside the send of InputDataParsingStart (everything before the decoder has run), of InputDataParsingDone
			// (decoded), of InputDataNormalizationStart, of OpaValidationStart (indexed)
			first := beforeFirst
			if en == "ValidateWithConfiguration" {
				first = events.RegoCompilationDone
			}
			for _, stage := range []events.EventType{first, events.InputDataParsingStart, events.InputDataParsingDone, events.InputDataNormalizationDone} {
				for _, so := range [][2][]int{{{0, 1}, {0, 1}}, {{0, 1}, {1, 0}}, {{1, 0}, {0, 1}}, {{1, 0}, {1, 0}}} {
					order := fmt.Sprintf("started in the order %v, released in the order %v", so[0], so[1])
					outs := startedThenSerial(stage, 2*time.Second, so[0], so[1], []func(ch *chan events.Event) (string, error){call(d), call(PoolDataGood)})
					if !strings.HasPrefix(outs[0], "error: ") {
						res.Violate("impl-violates-property", fmt.Sprintf("unreadable data (%s) yields a report from %s while another call validates a readable document (both held %s; %s)", n, en, parkName(stage), order),
							map[string]any{"data": d, "data_kind": n, "entry_point": en, "other_call_data": PoolDataGood, "schedule": fmt.Sprintf("both calls held %s (their listeners stop receiving); %s (0 = the unreadable text, 1 = the readable one); each call is started when the one before is held, each is released when the one before has returned", parkName(stage), order), "returned": core.Trunc(outs[0], 1500), "other_call_returned": core.Trunc(outs[1], 300)})
					}
					res.Case(fmt.Sprintf("paired|%s|%s|%s|%v", n, en, parkName(stage), order), d != "")
					res.Count("kind=paired-with-a-readable-call")
				}
			}
		}
	}
	// the model's verdict for the two fault classes, all entry points
	for _, fa := range [][]string{{"ok", "ok", "ok", "err", "ok", "ok", "ok"}, {"ok", "ok", "ok", "ok", "panic", "ok", "ok"}, {"ok", "ok", "ok", "ok", "err", "ok", "ok"}, {"ok", "ok", "ok", "panic", "ok", "ok", "ok"}} {
		for _, en := range []string{"validate", "validateCompiled", "compileThenValidate"} {
			ans := e.Driver.MustEval(sx.L(sx.A("c11"), sx.A("run"), sx.A(en), atoms(fa), sx.L(), sx.A("error")))
			if ans.List[1].Atom != "error" {
				res.Violate("model-mismatch", "the model returns a value for unreadable data", map[string]any{"no_failing_input_found": true, "broken": "Pipeline model", "faults": fa})
			}
		}
	}
	res.Sample(map[string]any{"data": texts["prefix-11-of-"+fmt.Sprint(len(strings.TrimSpace(PoolDataGood)))], "entry": "all four", "expected": "error"})
	res.Sample(map[string]any{"data": texts["jsonld-value-and-id"], "entry": "all four", "expected": "error"})

	// the CLI: non-zero exit and nothing on stdout
	acv := filepath.Join(e.Scratch, "acv")
	cmd := exec.Command("go", "build", "-o", acv, "./cmd/main.go")
	cmd.Dir = e.Repo
	cmd.Env = append(os.Environ(), "GOFLAGS=-mod=mod", "GOPROXY=off", "GOSUMDB=off", "GOTOOLCHAIN=local")
	if out, err := cmd.CombinedOutput(); err != nil {
		res.Violate("harness-error", "acv does not build: "+core.Trunc(string(out), 500), map[string]any{"no_failing_input_found": true, "broken": "cli build"})
		return
	}
	pf := filepath.Join(e.Scratch, "p.yaml")
	os.WriteFile(pf, []byte(PoolProfileMin), 0o644)
	for i, n := range names {
		if e.Quick() && strings.HasPrefix(n, "prefix") && i%9 != 0 {
			continue
		}
		df := filepath.Join(e.Scratch, "d.jsonld")
		os.WriteFile(df, []byte(texts[n]), 0o644)
		for _, sub := range [][]string{{"validate", pf, df}, {"normalize", df}} {
			c := exec.Command(acv, sub...)
			var so, se bytes.Buffer
			c.Stdout, c.Stderr = &so, &se
			err := c.Run()
			if err == nil || so.Len() > 0 {
				res.Violate("impl-violates-property", "acv "+sub[0]+" on unreadable data ("+n+"): exit status 0 or output on stdout",
					map[string]any{"data": texts[n], "argv": sub, "stdout": core.Trunc(so.String(), 800), "exit_error": fmt.Sprint(err)})
			}
			res.Case(n+"|acv "+sub[0], texts[n] != "")
		}
	}
}

func parkName(after events.EventType) string {
	if after == beforeFirst {
		return "inside the send of their first event"
	}
	return "inside the send of the event that follows " + eventName(after)
}

func sortStrings(l []string) {
	for i := 1; i < len(l); i++ {
		for j := i; j > 0 && l[j] < l[j-1]; j-- {
			l[j], l[j-1] = l[j-1], l[j]
		}
	}
}
