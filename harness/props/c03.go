package props

import (
	"encoding/json"
	"fmt"
	"github.com/open-policy-agent/opa/rego"
	yaml3 "gopkg.in/yaml.v3"
	"sort"
	"strings"
	"sync"
	"time"

	"github.com/aml-org/amf-custom-validator/pkg"
	"github.com/aml-org/amf-custom-validator/pkg/config"
	"github.com/aml-org/amf-custom-validator/verifh/core"
	"github.com/aml-org/amf-custom-validator/verifh/sx"
)

// fixedClock is a ValidationConfiguration with a caller-chosen time.
type fixedClock struct{ t time.Time }

func (f fixedClock) ReportCreationTime() time.Time { return f.t }

var clockA = fixedClock{time.Date(2031, time.March, 4, 5, 6, 7, 0, time.UTC)}
var clockB = fixedClock{time.Date(2029, time.December, 31, 23, 30, 59, 0, time.FixedZone("plus0530", 5*3600+1800))}
var clockC = fixedClock{time.Date(1999, time.January, 1, 0, 0, 1, 0, time.FixedZone("minus0300", -3*3600))}

// ------------------------------------------------------------------------------------ report -> s-expressions

// typedTree mirrors defineIdRecursively: typed object children by key, typed elements of arrays by index.
func typedTree(m map[string]any) sx.V {
	items := []sx.V{sx.A("et")}
	keys := []string{}
	for k := range m {
		keys = append(keys, k)
	}
	sort.Strings(keys)
	for _, k := range keys {
		switch v := m[k].(type) {
		case map[string]any:
			if _, typed := v["@type"]; typed {
				items = append(items, sx.L(sx.L(sx.A("k"), sx.S(k)), typedTree(v)))
			}
		case []any:
			for i, e := range v {
				if em, ok := e.(map[string]any); ok {
					if _, typed := em["@type"]; typed {
						items = append(items, sx.L(sx.L(sx.A("i"), sx.I(i)), typedTree(em)))
					}
				}
			}
		}
	}
	return sx.L(items...)
}

// typedIDs collects the @id of every typed object below v (any depth, through untyped objects and arrays too).
func typedIDs(v any, out *[]string) {
	switch x := v.(type) {
	case map[string]any:
		if _, typed := x["@type"]; typed {
			if id, ok := x["@id"].(string); ok {
				*out = append(*out, id)
			} else {
				*out = append(*out, "<typed node without @id>")
			}
		}
		for _, c := range x {
			typedIDs(c, out)
		}
	case []any:
		for _, c := range x {
			typedIDs(c, out)
		}
	}
}

func optS(v any) sx.V {
	if s, ok := v.(string); ok {
		return sx.S(s)
	}
	return sx.A("none")
}

func sevLevel(sev string) string {
	return strings.ToLower(strings.TrimPrefix(sev, "http://www.w3.org/ns/shacl#"))
}

// reportSx renders the implementation's report as (impl ...) and the engine output it implies as (m ...).
func reportSx(rep *Report) (impl sx.V, m sx.V) {
	ctx, _ := rep.Doc["@context"].(map[string]any)
	_, hasResultTerm := ctx["result"]
	byLevel := map[string][]sx.V{"violation": {}, "warning": {}, "info": {}}
	results := sx.A("none")
	if raw, ok := rep.Node["result"].([]any); ok {
		items := []sx.V{sx.A("results")}
		for _, r := range raw {
			rm, _ := r.(map[string]any)
			ids := []string{}
			typedIDs(rm, &ids)
			sev, _ := rm["resultSeverity"].(string)
			id, _ := rm["@id"].(string)
			name, _ := rm["sourceShapeName"].(string)
			focus, _ := rm["focusNode"].(string)
			msg, _ := rm["resultMessage"].(string)
			items = append(items, sx.L(sx.A("o"), sx.S(sev), sx.S(id), sx.S(name), sx.S(focus), sx.S(msg), strsSx(ids)))
			lv := sevLevel(sev)
			byLevel[lv] = append(byLevel[lv], sx.L(sx.A("res"), sx.S(name), sx.S(focus), sx.S(msg), typedTree(rm)))
		}
		results = sx.L(items...)
	}
	conf, _ := rep.Node["conforms"].(bool)
	pn, _ := rep.Node["profileName"].(string)
	impl = sx.L(sx.A("impl"), sx.B(!hasResultTerm), optS(ctx["reportSchema"]), optS(ctx["lexicalSchema"]), sx.S(pn), sx.B(conf), optS(rep.Node["dateCreated"]), results)
	lv := func(n string) sx.V { return sx.L(append([]sx.V{sx.A(n)}, byLevel[n]...)...) }
	m = sx.L(sx.A("m"), sx.S(pn), lv("violation"), lv("warning"), lv("info"))
	return
}

func cfgSx(rc config.ReportConfiguration, clock fixedClock) sx.V {
	return sx.L(sx.A("cfg"), sx.B(rc.IncludeReportCreationTime), sx.S(clock.t.Format(time.RFC3339)), sx.S(rc.ReportSchemaIri), sx.S(rc.LexicalSchemaIri))
}

// checkReportAgainstModel: BuildReport model on the engine output implied by the report must reproduce the report
// (header, conforms, severities, positional ids), and the executable spec must accept the implementation's report.
func checkReportAgainstModel(e *core.Env, rep *Report, rc config.ReportConfiguration, clock fixedClock, replay map[string]any) (wf bool) {
	res := e.Res
	impl, m := reportSx(rep)
	ans, err := e.Driver.Eval(sx.L(sx.A("c03"), sx.A("report"), m, cfgSx(rc, clock), impl))
	if err != nil {
		replay["no_failing_input_found"] = true
		replay["broken"] = "driver: " + err.Error()
		res.Violate("harness-error", err.Error(), replay)
		return false
	}
	model, implC, specOK, wfAll := ans.List[0].String(), ans.List[1].String(), ans.List[2].Atom == "1", ans.List[3].Atom == "1"
	replay["impl_report_canonical"] = implC
	replay["model_report_canonical"] = model
	if !specOK {
		res.Violate("impl-violates-property", "the report does not satisfy the report specification (conforms vs Violation results, result key, profileName, dateCreated, unique ids)", replay)
	} else if model != implC {
		replay["no_failing_input_found"] = true
		replay["broken"] = "correspondence Report.build_report vs BuildReport"
		res.Violate("model-mismatch", "the report differs from the model's report for the same result lists", replay)
	}
	return wfAll
}

// ------------------------------------------------------------------------------------ C03

func C03(e *core.Env) {
	res := e.Res
	res.Rule = "cases = (profile with 3 validations each absent / listed under one level / under two levels / twice under one level / listed but undefined, graph, report configuration); " +
		"every assignment of the 7 listing options to 3 validations is enumerated in the thorough tier (343 profiles), a seeded sample of 70 in the quick tier, x 3 graphs x 8 configurations with a fixed clock; profile names with accents, quotes, percent signs, astral characters, surrounding blanks, inner and final line breaks; one profile / data / configuration under three clocks in turn; up to 24 of the non-empty reports are rebuilt by 8 goroutines at once and compared byte-wise with the sequential ones; " +
		"observables: conforms, (severity, validation, focus) set, result key, context variant, profileName, dateCreated, schema IRIs, positional ids; " +
		"non-trivial = the report has at least one result; distinct by (listing, graph, configuration)"
	options := [][]string{{}, {"violation"}, {"warning"}, {"info"}, {"violation", "warning"}, {"warning", "info"}, {"violation", "violation"}}
	type listing [3]int
	all := []listing{}
	for a := range options {
		for b := range options {
			for c := range options {
				all = append(all, listing{a, b, c})
			}
		}
	}
	if e.Quick() {
		e.Rand.Shuffle(len(all), func(i, j int) { all[i], all[j] = all[j], all[i] })
		all = append([]listing{{0, 0, 0}, {2, 3, 0}, {1, 2, 3}, {6, 4, 5}}, all[:66]...)
	}
	mk := func(has [][3]bool) Graph {
		g := Graph{}
		for i, h := range has {
			n := GNode{ID: NodeID(i), Types: []string{ExNS + "T"}}
			for j := 0; j < 3; j++ {
				if h[j] {
					n.Props = append(n.Props, GProp{Iri: ExNS + fmt.Sprintf("p%d", j), Vals: []GVal{VS("x")}})
				}
			}
			g.Nodes = append(g.Nodes, n)
		}
		return g
	}
	graphs := []Graph{
		mk([][3]bool{{true, true, true}, {true, true, true}}),                          // everything passes
		mk([][3]bool{{false, true, true}, {true, false, false}, {false, false, true}}), // mixed
		{Nodes: []GNode{{ID: NodeID(0), Types: []string{ExNS + "Other"}}}},             // no target
	}
	configs := []config.ReportConfiguration{}
	for _, inc := range []bool{true, false} {
		for _, r := range []string{"file:///dialects/validation-report.yaml", "http://example.org/report"} {
			for _, l := range []string{"file:///dialects/lexical.yaml", "urn:lexical"} {
				configs = append(configs, config.ReportConfiguration{IncludeReportCreationTime: inc, ReportSchemaIri: r, LexicalSchemaIri: l})
			}
		}
	}
	type seqJob struct {
		compiled *rego.PreparedEvalQuery
		data     string
		rc       config.ReportConfiguration
		clock    fixedClock
		out      string
		profile  string
	}
	jobs := []seqJob{}
	nameStems := []string{"Levels", "Règles ünï", "API rules \U0001F680", "\U00020BB7野家 rules", "Levels \"quoted\" 100%", "  padded name  ", "two\nlines"}
	for li, ls := range all {
		var b strings.Builder
		pname := fmt.Sprintf("%s %d-%d-%d", nameStems[li%len(nameStems)], ls[0], ls[1], ls[2])
		if li%5 == 4 {
			pname += "\n" // a name that ends in a line break (what a block scalar `profile: |` gives)
		}
		b.WriteString("#%Validation Profile 1.0\nprofile: " + yq(pname) + "\nprefixes:\n  ex: http://example.org/ns#\n")
		for _, level := range []string{"violation", "warning", "info"} {
			names := []string{}
			for v := 0; v < 3; v++ {
				for _, l := range options[ls[v]] {
					if l == level {
						names = append(names, fmt.Sprintf("v%d", v))
					}
				}
			}
			if level == "warning" && li%3 == 0 {
				names = append(names, "not-defined-anywhere")
			}
			if len(names) > 0 || li%2 == 0 {
				b.WriteString(level + ":\n")
				for _, n := range names {
					b.WriteString("  - " + n + "\n")
				}
				if len(names) == 0 {
					b.WriteString("  []\n")
				}
			}
		}
		b.WriteString("validations:\n")
		for v := 0; v < 3; v++ {
			fmt.Fprintf(&b, "  v%d:\n    targetClass: ex.T\n    message: m%d\n    propertyConstraints:\n      ex.p%d:\n        minCount: 1\n", v, v, v)
		}
		profile := b.String()
		compiled, err := pkg.CompileProfile(profile, false, nil)
		if err != nil {
			res.Violate("impl-violates-property", "a profile that only distributes validations over levels does not compile: "+core.Trunc(err.Error(), 300), map[string]any{"profile": profile, "error": err.Error()})
			continue
		}
		for gi, g := range graphs {
			data := g.JSONLD()
			// expected (severity, validation, focus) by construction
			expected := map[string]bool{}
			for v := 0; v < 3; v++ {
				for _, l := range options[ls[v]] {
					for _, n := range g.Nodes {
						isT := len(n.Types) > 0 && n.Types[0] == ExNS+"T"
						has := false
						for _, p := range n.Props {
							if p.Iri == ExNS+fmt.Sprintf("p%d", v) {
								has = true
							}
						}
						if isT && !has {
							expected[fmt.Sprintf("%s|v%d|%s", l, v, n.ID)] = true
						}
					}
				}
			}
			var first string
			for ci, rc := range configs {
				if e.Quick() && li >= 8 && ci != (li+gi)%len(configs) && ci != 0 {
					continue
				}
				clock := []fixedClock{clockA, clockB, clockC}[(li+ci)%3]
				out, err := pkg.ValidateCompiledWithConfiguration(compiled, data, false, nil, clock, rc)
				replay := map[string]any{"profile": profile, "data": data, "configuration": fmt.Sprintf("%+v", rc), "clock": clock.t.Format(time.RFC3339)}
				if err != nil {
					replay["error"] = err.Error()
					res.Violate("impl-violates-property", "validation fails: "+core.Trunc(err.Error(), 200), replay)
					continue
				}
				rep, err := ParseReport(out)
				if err != nil {
					replay["report"] = core.Trunc(out, 3000)
					res.Violate("impl-violates-property", "the report is not the documented JSON document: "+err.Error(), replay)
					continue
				}
				replay["report"] = core.Trunc(out, 3000)
				if reportTextCheck(e, "listing", compiled, data, clock.t, rc, out, replay) {
					res.Count("report-bytes=equal")
				}
				got := map[string]bool{}
				for _, r := range rep.Results {
					got[sevLevel(r.Severity)+"|"+r.Name+"|"+r.Focus] = true
				}
				if strings.Join(sortedKeys(got), ",") != strings.Join(sortedKeys(expected), ",") {
					replay["expected_results"] = sortedKeys(expected)
					replay["actual_results"] = sortedKeys(got)
					res.Violate("impl-violates-property", "results do not carry the severity of the level their validation is listed under", replay)
				}
				hasViolation := false
				for k := range expected {
					if strings.HasPrefix(k, "violation|") {
						hasViolation = true
					}
				}
				if rep.Conforms == hasViolation {
					res.Violate("impl-violates-property", fmt.Sprintf("conforms=%v although the profile lists %d expected results of which violation=%v", rep.Conforms, len(expected), hasViolation), replay)
				}
				if pn, _ := rep.Node["profileName"].(string); pn != pname {
					res.Violate("impl-violates-property", "profileName differs from the profile's name", replay)
				}
				checkReportAgainstModel(e, rep, rc, clock, replay)
				if dc, ok := rep.Node["dateCreated"].(string); ok {
					if t, err := time.Parse(time.RFC3339, dc); err != nil || !t.Equal(clock.t) {
						res.Violate("impl-violates-property", "dateCreated "+dc+" is not the configured time "+clock.t.Format(time.RFC3339), replay)
					}
				}
				// the configuration changes nothing else
				stripped := stripConfig(out)
				if ci == 0 {
					first = stripped
				} else if stripped != first {
					replay["first_configuration_report_stripped"] = core.Trunc(first, 2000)
					res.Violate("impl-violates-property", "the report configuration changes more than dateCreated and the schema IRIs", replay)
				}
				if len(rep.Results) > 0 && len(jobs) < 24 && (li+gi+ci)%2 == 0 {
					jobs = append(jobs, seqJob{compiled, data, rc, clock, out, profile})
				}
				res.Case(fmt.Sprintf("%v|g%d|c%d", ls, gi, ci), len(rep.Results) > 0)
				res.Count(fmt.Sprintf("results=%d", len(rep.Results)))
				if li == 3 && gi == 1 && ci == 0 {
					res.Sample(map[string]any{"profile": profile, "data": data, "configuration": fmt.Sprintf("%+v", rc), "results": sortedKeys(got), "conforms": rep.Conforms})
				}
			}
		}
	}
	// the same profile, data and report configuration under three different clocks, one call after the other (also when the
	// report has no results): dateCreated is the time configured for THAT call
	{
		profile := "#%Validation Profile 1.0\nprofile: Clocks\nprefixes:\n  ex: http://example.org/ns#\nviolation:\n  - v0\nvalidations:\n  v0:\n    targetClass: ex.T\n    message: m\n    propertyConstraints:\n      ex.p0:\n        minCount: 1\n"
		compiled, err := pkg.CompileProfile(profile, false, nil)
		if err == nil {
			for gi, g := range graphs {
				data := g.JSONLD()
				for round := 0; round < 2; round++ {
					for _, clock := range []fixedClock{clockA, clockB, clockC} {
						out, err := pkg.ValidateCompiledWithConfiguration(compiled, data, false, nil, clock, configs[0])
						res.Case(fmt.Sprintf("clock-history|g%d|%d|%s", gi, round, clock.t.Format(time.RFC3339)), false)
						res.Count("stream=clock-history")
						if err != nil {
							continue
						}
						rep, perr := ParseReport(out)
						if perr != nil {
							continue
						}
						dc, _ := rep.Node["dateCreated"].(string)
						if t, terr := time.Parse(time.RFC3339, dc); terr != nil || !t.Equal(clock.t) {
							res.Violate("impl-violates-property", "dateCreated "+dc+" is not the time configured for this call ("+clock.t.Format(time.RFC3339)+")",
								map[string]any{"profile": profile, "data": data, "configuration": fmt.Sprintf("%+v", configs[0]), "history": "the same compiled profile, data and report configuration validated under clocks A, B, C, A, B, C in turn", "clock_of_this_call": clock.t.Format(time.RFC3339), "report": core.Trunc(out, 2000)})
						}
					}
				}
			}
		}
	}
	// reports with different severity mixes built at the same time: each must be byte-identical to the same call made alone
	if len(jobs) > 1 {
		workers, rounds := 8, e.Pick(40, 300)
		type bad struct {
			j   int
			got string
		}
		var mu sync.Mutex
		bads := []bad{}
		var wg sync.WaitGroup
		for w := 0; w < workers; w++ {
			wg.Add(1)
			go func(w int) {
				defer wg.Done()
				for r := 0; r < rounds; r++ {
					j := (w*7 + r*3) % len(jobs)
					o, err := pkg.ValidateCompiledWithConfiguration(jobs[j].compiled, jobs[j].data, false, nil, jobs[j].clock, jobs[j].rc)
					if err != nil {
						o = "error: " + err.Error()
					}
					if o != jobs[j].out {
						mu.Lock()
						if len(bads) < 3 {
							bads = append(bads, bad{j, o})
						}
						mu.Unlock()
					}
				}
			}(w)
		}
		wg.Wait()
		for _, b := range bads {
			j := jobs[b.j]
			res.Violate("impl-violates-property", "a report built while other reports (other profiles, other severity mixes) are being built differs from the report of the same call alone",
				map[string]any{"profile": j.profile, "data": j.data, "configuration": fmt.Sprintf("%+v", j.rc), "history": fmt.Sprintf("%d goroutines x %d ValidateCompiledWithConfiguration calls over %d (profile, data, configuration) jobs at the same time", workers, rounds, len(jobs)),
					"alone": core.Trunc(j.out, 3000), "concurrent": core.Trunc(b.got, 3000), "first_diff_line": firstDiff(j.out, b.got)})
		}
		res.Case("concurrent-report-building", true)
		res.Count("stream=concurrent")
	}
}

// stripConfig removes what the report configuration is documented to control.
func stripConfig(report string) string {
	var doc []map[string]any
	if json.Unmarshal([]byte(report), &doc) != nil || len(doc) != 1 {
		return report
	}
	if ctx, ok := doc[0]["@context"].(map[string]any); ok {
		delete(ctx, "reportSchema")
		delete(ctx, "lexicalSchema")
	}
	if enc, ok := doc[0]["doc:encodes"].([]any); ok && len(enc) == 1 {
		if n, ok := enc[0].(map[string]any); ok {
			delete(n, "dateCreated")
		}
	}
	out, _ := json.Marshal(doc)
	return string(out)
}

// ------------------------------------------------------------------------------------ C12

// checkWellFormed applies the C12 predicates to a parsed report; names = validations of the profile.
func checkWellFormed(rep *Report, raw string, graphIDs map[string]bool, names map[string]bool) []string {
	bad := []string{}
	var doc []any
	if err := json.Unmarshal([]byte(raw), &doc); err != nil || len(doc) != 1 {
		return []string{"the report is not a JSON array holding one dialect instance"}
	}
	ids := []string{}
	typedIDs(doc[0], &ids)
	seen := map[string]bool{}
	for _, id := range ids {
		if id == "<typed node without @id>" {
			bad = append(bad, "a typed node without @id")
			continue
		}
		if seen[id] {
			bad = append(bad, "duplicate @id "+id)
		}
		seen[id] = true
	}
	var checkResult func(m map[string]any, top bool, where string)
	checkResult = func(m map[string]any, top bool, where string) {
		focus, ok := m["focusNode"].(string)
		if !ok || !graphIDs[focus] {
			bad = append(bad, fmt.Sprintf("%s: focusNode %v is not the @id of a node of the input graph", where, m["focusNode"]))
		}
		name, _ := m["sourceShapeName"].(string)
		if top && !names[name] {
			bad = append(bad, where+": sourceShapeName "+name+" is not a validation of the profile")
		}
		if !top && name != "nested" && !names[name] {
			bad = append(bad, where+": sub-result name "+name)
		}
		if msg, _ := m["resultMessage"].(string); msg == "" {
			bad = append(bad, where+": empty resultMessage")
		}
		tr, _ := m["trace"].([]any)
		if len(tr) == 0 {
			bad = append(bad, where+": empty trace")
		}
		for ti, t := range tr {
			tm, _ := t.(map[string]any)
			if c, _ := tm["component"].(string); c == "" {
				bad = append(bad, fmt.Sprintf("%s trace %d: no component", where, ti))
			}
			if _, ok := tm["resultPath"].(string); !ok {
				bad = append(bad, fmt.Sprintf("%s trace %d: no resultPath", where, ti))
			}
			if tv, ok := tm["traceValue"].(map[string]any); ok {
				if subs, ok := tv["subResult"].([]any); ok {
					for si, s := range subs {
						if sm, ok := s.(map[string]any); ok {
							checkResult(sm, false, fmt.Sprintf("%s/trace %d/sub %d", where, ti, si))
						}
					}
				}
			}
		}
	}
	for i, r := range rep.Results {
		checkResult(r.Raw, true, fmt.Sprintf("result %d", i))
	}
	return bad
}

func C12(e *core.Env) {
	res := e.Res
	res.Rule = "cases = (profile, graph); profiles built from the C01 formula generator so that results carry several traces (or-branches), sub-results to depth <= 3 (quick) / 4 (thorough), a sub-result list of 70 / 150 entries, every atom kind plain and negated (incl. property-pair comparisons), several results per node and per level, with and without lexical locations; typed literals (xsd:date, xsd:dateTime, xsd:long, a custom datatype) compared by property-pair constraints and echoed under actual / expected; validation names plain, with percent signs (followed by letters, digits, blanks), with quotes and non-ASCII letters; " +
		"plus 16 YAML spellings of the message (absent, blank, null, number, boolean, date, sequence, mapping, tagged, quoted, block) and 12 goroutines x 4 (quick) / 25 (thorough) reports built at once from one compiled profile; each report: JSON shape, every @id of a typed node unique, focus nodes in the graph, names in the profile, message and trace non-empty, and the positional id scheme equal to the model's; non-trivial = the report has a result with a sub-result or more than one trace; distinct by (profile, graph)"
	cnt := func(p string, k int) FForm {
		return fAtom(FAtom{Kind: "count", Q: "min", Path: Pr(p, false), K: k})
	}
	in := func(p string) FForm { return fAtom(FAtom{Kind: "in", Path: Pr(p, false), Strs: []string{"yes"}}) }
	kid := Pr("ex.kid", false)
	forms := []FForm{
		cnt("ex.c0", 1),
		fAnd(cnt("ex.c0", 1), in("ex.p0"), cnt("ex.c1", 1)),
		fOr(cnt("ex.c0", 1), in("ex.p0"), cnt("ex.c1", 1)),
		fOr(fAnd(cnt("ex.c0", 1), in("ex.p0")), fAnd(cnt("ex.c1", 1), in("ex.p0"))),
		fNested("all", 0, kid, cnt("ex.c0", 1)),
		fNested("all", 0, kid, fOr(cnt("ex.c0", 1), in("ex.p0"))),
		fNested("atLeast", 2, kid, fAnd(cnt("ex.c0", 1), in("ex.p0"))),
		fNested("all", 0, kid, fNested("all", 0, kid, cnt("ex.c0", 1))),
		fNested("atMost", 0, kid, fNested("atLeast", 1, kid, fNot(in("ex.p0")))),
		fAnd(fNested("all", 0, kid, in("ex.p0")), fNested("all", 0, Pr("ex.other", false), cnt("ex.c0", 1))),
		fNot(fNested("all", 0, kid, fNested("all", 0, kid, fOr(in("ex.p0"), cnt("ex.c1", 1))))),
		fIfElse(cnt("ex.c1", 1), fNested("all", 0, kid, cnt("ex.c0", 1)), in("ex.p0")),
	}
	// a chain of nested constraints deeper than anything in the fixtures (each level adds sub-result, trace, trace value)
	chain := func(d int) FForm {
		f := cnt("ex.never", 1)
		for i := 0; i < d; i++ {
			f = fNested("all", 0, Pr("ex.next", false), f)
		}
		return f
	}
	forms = append(forms, chain(e.Pick(6, 7)), chain(2))
	// every atom kind, plain and negated (each trace entry names its component), incl. the property-pair comparisons
	c0p, c1p, p0p := Pr("ex.c0", false), Pr("ex.c1", false), Pr("ex.p0", false)
	kinds := []FAtom{
		{Kind: "cmp", Q: "lt", Path: c0p, Path2: c1p}, {Kind: "cmp", Q: "le", Path: c0p, Path2: c1p}, {Kind: "cmp", Q: "eq", Path: p0p, Path2: c0p}, {Kind: "cmp", Q: "ne", Path: c0p, Path2: c1p},
		{Kind: "num", Q: "ge", Path: c0p, K: 5}, {Kind: "num", Q: "lt", Path: c0p, K: 1}, {Kind: "pattern", Q: "prefix", Path: p0p, S: "y"}, {Kind: "length", Q: "max", Path: p0p, K: 2},
		{Kind: "containsAll", Path: p0p, Strs: []string{"yes"}}, {Kind: "containsSome", Path: p0p, Strs: []string{"yes", "maybe"}}, {Kind: "datatype", Path: c0p, S: "string"}, {Kind: "count", Q: "exact", Path: c1p, K: 1},
	}
	for i := 0; i+1 < len(kinds); i += 2 {
		forms = append(forms, fAnd(fNot(fAtom(kinds[i])), fAtom(kinds[i+1])), fOr(fAtom(kinds[i]), fNot(fAtom(kinds[i+1]))), fIf(fAtom(kinds[i]), fNot(fAtom(kinds[i+1]))))
	}
	// one focus node whose nested constraint fails for many inner nodes (a long sub-result list)
	forms = append(forms, fNested("all", 0, Pr("ex.many", false), cnt("ex.c0", 1)))
	if !e.Quick() {
		forms = append(forms, fNested("all", 0, kid, fNested("all", 0, kid, fNested("all", 0, kid, fOr(cnt("ex.c0", 1), in("ex.p0"))))))
		for i := 0; i < 40; i++ {
			f := randomForm(e.Rand, 3, func() FForm {
				switch e.Rand.Intn(4) {
				case 0:
					return fNested("all", 0, kid, cnt("ex.c0", 1))
				case 1:
					return fNested("atLeast", 1, kid, in("ex.p0"))
				case 2:
					return in("ex.p0")
				}
				return cnt("ex.c0", 1)
			})
			if f.dnfSize(false) <= 12 {
				forms = append(forms, f)
			}
		}
	}
	// a chain / tree of nodes, each level with mixed satisfaction
	g := Graph{}
	n := 14
	for i := 0; i < n; i++ {
		node := GNode{ID: NodeID(i), Types: []string{ExNS + "T"}}
		kids := []GVal{}
		for _, j := range []int{2*i + 1, 2*i + 2, (i * 5) % n} {
			if j < n && j != i {
				kids = append(kids, VR(NodeID(j)))
			}
		}
		if i == 3 {
			kids = append(kids, VR(DataNS+"not-declared-in-this-document"))
		}
		if i+1 < n {
			node.Props = append(node.Props, GProp{Iri: ExNS + "next", Vals: []GVal{VR(NodeID(i + 1))}})
		}
		if len(kids) > 0 && i%5 != 4 {
			node.Props = append(node.Props, GProp{Iri: ExNS + "kid", Vals: kids})
		}
		if i%2 == 0 {
			node.Props = append(node.Props, GProp{Iri: ExNS + "c0", Vals: []GVal{VI(1)}})
		}
		if i%3 == 0 {
			node.Props = append(node.Props, GProp{Iri: ExNS + "c1", Vals: []GVal{VI(1)}})
		}
		v := "no"
		if i%4 < 2 {
			v = "yes"
		}
		node.Props = append(node.Props, GProp{Iri: ExNS + "p0", Vals: []GVal{VS(v)}})
		if i%3 == 1 {
			node.Props = append(node.Props, GProp{Iri: ExNS + "other", Vals: []GVal{VR(NodeID((i + 1) % n))}})
		}
		g.Nodes = append(g.Nodes, node)
	}
	// node 0 also links, through ex.many, to 70 (quick) / 150 (thorough) leaves without ex.c0
	for i := 0; i < e.Pick(70, 150); i++ {
		leaf := GNode{ID: NodeID(100 + i), Types: []string{ExNS + "Leaf"}, Props: []GProp{{Iri: ExNS + "p0", Vals: []GVal{VS("no")}}}}
		g.Nodes = append(g.Nodes, leaf)
		g.Nodes[0].Props = append(g.Nodes[0].Props, GProp{Iri: ExNS + "many", Vals: nil})
	}
	{
		links := []GVal{}
		for i := 0; i < e.Pick(70, 150); i++ {
			links = append(links, VR(NodeID(100+i)))
		}
		kept := []GProp{}
		for _, pr := range g.Nodes[0].Props {
			if pr.Iri != ExNS+"many" {
				kept = append(kept, pr)
			}
		}
		g.Nodes[0].Props = append(kept, GProp{Iri: ExNS + "many", Vals: links})
	}
	datas := []string{g.JSONLD(), withLexical(g)}
	graphIDs := map[string]bool{}
	for _, id := range g.IDs() {
		graphIDs[id] = true
	}
	rc := config.DefaultReportConfiguration()
	levels := []string{"violation", "warning", "info"}
	batch := 3
	// validation names: plain, with percent signs followed by letters / digits / a blank, with quotes and non-ASCII letters
	vname := func(i int) string {
		switch i % 5 {
		case 3:
			return fmt.Sprintf("v%d under-80%%-of-limit %%d %%s 100%% sure", i)
		case 4:
			return fmt.Sprintf("v%d/with \"quotes\", 'single' and ünï", i)
		}
		return fmt.Sprintf("v%d", i)
	}
	yq := func(s string) string { d, _ := json.Marshal(s); return string(d) }
	for start := 0; start < len(forms); start += batch {
		end := start + batch
		if end > len(forms) {
			end = len(forms)
		}
		var b strings.Builder
		b.WriteString(ProfileHeader)
		names := map[string]bool{}
		byLevel := map[string][]string{}
		for i := start; i < end; i++ {
			l := levels[i%3]
			byLevel[l] = append(byLevel[l], vname(i))
			if i%4 == 1 { // also listed under a second level
				byLevel[levels[(i+1)%3]] = append(byLevel[levels[(i+1)%3]], vname(i))
			}
		}
		for _, l := range levels {
			if len(byLevel[l]) > 0 {
				b.WriteString(l + ":\n")
				for _, nme := range byLevel[l] {
					b.WriteString("  - " + yq(nme) + "\n")
				}
			}
		}
		b.WriteString("validations:\n")
		for i := start; i < end; i++ {
			m := forms[i].Expr()
			m["targetClass"] = "ex.T"
			if i%2 == 0 {
				m["message"] = fmt.Sprintf("message of v%d for {{ex.p0}}", i)
			}
			d, _ := json.Marshal(m)
			fmt.Fprintf(&b, "  %s: %s\n", yq(vname(i)), d)
			names[vname(i)] = true
		}
		profile := b.String()
		for di, data := range datas {
			out, err := pkg.ValidateWithConfiguration(profile, data, false, nil, clockA, rc)
			replay := map[string]any{"profile": profile, "data": core.Trunc(data, 6000)}
			if err == nil && reportTextCheckProfile(e, "deep / wide report", profile, data, clockA.t, false, rc, out, replay) {
				res.Count("report-bytes=equal")
			}
			if err != nil {
				replay["error"] = err.Error()
				res.Violate("impl-violates-property", "validation fails: "+core.Trunc(err.Error(), 200), replay)
				continue
			}
			replay["report"] = core.Trunc(out, 6000)
			rep, err := ParseReport(out)
			if err != nil {
				res.Violate("impl-violates-property", "the report is not one dialect instance encoding one report node: "+err.Error(), replay)
				continue
			}
			if bad := checkWellFormed(rep, out, graphIDs, names); len(bad) > 0 {
				replay["failed_predicates"] = bad
				res.Violate("impl-violates-property", "report not well-formed: "+bad[0], replay)
			}
			wf := checkReportAgainstModel(e, rep, rc, clockA, replay)
			if !wf {
				res.Note("a result tree with sibling children sharing a token (two array-valued fields with typed elements): " + fmt.Sprintf("batch %d", start))
			}
			deep := false
			for _, r := range rep.Results {
				if len(traceValues(r)) > 1 || strings.Contains(fmt.Sprint(r.Raw["trace"]), "subResult") {
					deep = true
				}
			}
			res.Case(fmt.Sprintf("b%d|d%d", start, di), deep)
			res.Count(fmt.Sprintf("results=%d", len(rep.Results)))
			res.Distribution["typed_nodes"] += strings.Count(out, "\"@id\"")
			if start == 4 && di == 1 {
				res.Sample(map[string]any{"profile": profile, "report_bytes": len(out), "results": len(rep.Results), "typed_nodes": strings.Count(out, "\"@id\"")})
			}
		}
	}

	// typed literals (dates, a custom datatype) compared by the property-pair constraints: the compared values are echoed in
	// the trace values as typed objects, under `actual` AND under `expected`
	{
		profile := ProfileHeader + "violation:\n  - ordered\n  - same\nwarning:\n  - apart\nvalidations:\n" +
			"  ordered:\n    targetClass: ex.T\n    message: start before end\n    propertyConstraints:\n      ex.start:\n        lessThanProperty: ex.end\n" +
			"  same:\n    targetClass: ex.T\n    message: same\n    propertyConstraints:\n      ex.start:\n        equalsToProperty: ex.end\n" +
			"  apart:\n    targetClass: ex.T\n    message: apart\n    propertyConstraints:\n      ex.start:\n        disjointWithProperty: ex.again\n"
		const xsdNS = "http://www.w3.org/2001/XMLSchema#"
		data := `{"@graph":[{"@id":"` + NodeID(0) + `","@type":"` + ExNS + `T",
 "` + ExNS + `start":[{"@value":"2021-05-01","@type":"` + xsdNS + `date"},{"@value":"x","@type":"` + ExNS + `custom"}],
 "` + ExNS + `end":[{"@value":"2020-01-01","@type":"` + xsdNS + `date"},{"@value":"2020-01-01T00:00:00Z","@type":"` + xsdNS + `dateTime"}],
 "` + ExNS + `again":{"@value":"2021-05-01","@type":"` + xsdNS + `date"}},
 {"@id":"` + NodeID(1) + `","@type":"` + ExNS + `T","` + ExNS + `start":{"@value":"3","@type":"` + xsdNS + `long"},"` + ExNS + `end":{"@value":"2","@type":"` + xsdNS + `long"},"` + ExNS + `again":{"@value":"3","@type":"` + xsdNS + `long"}}]}`
		out, err := pkg.ValidateWithConfiguration(profile, data, false, nil, clockA, rc)
		replay := map[string]any{"profile": profile, "data": data}
		if err == nil && reportTextCheckProfile(e, "typed literals", profile, data, clockA.t, false, rc, out, replay) {
			res.Count("report-bytes=equal")
		}
		if err != nil {
			replay["error"] = err.Error()
			res.Violate("impl-violates-property", "validation fails: "+core.Trunc(err.Error(), 200), replay)
		} else if rep, perr := ParseReport(out); perr != nil {
			replay["report"] = core.Trunc(out, 6000)
			res.Violate("impl-violates-property", "the report is not one dialect instance encoding one report node: "+perr.Error(), replay)
		} else {
			replay["report"] = core.Trunc(out, 6000)
			if bad := checkWellFormed(rep, out, map[string]bool{NodeID(0): true, NodeID(1): true}, map[string]bool{"ordered": true, "same": true, "apart": true}); len(bad) > 0 {
				replay["failed_predicates"] = bad
				res.Violate("impl-violates-property", "report not well-formed (typed literals in trace values): "+bad[0], replay)
			}
			checkReportAgainstModel(e, rep, rc, clockA, replay)
			res.Case("typed-literals-in-trace-values", strings.Contains(out, "traceValue_expected"))
			res.Count("stream=typed-literals")
		}
	}

	// every way of writing (or not writing) the message of a validation that YAML accepts: the result still names a
	// non-empty message. (`message: ""` is left out: there the author asked for the empty text, see C13.)
	spellings := []string{"", "message:", "message: ~", "message: null", "message: 404", "message: 4.5", "message: false", "message: 2001-12-14",
		"message: [a, b]", "message: {a: b}", "message: 0x1F", "message: .inf", "message: !!str 12", "message: 'quoted'", "message: plain text", "message: |\n      block\n      text",
		// the TEXT of the escapes the report encoder writes (six characters each), and the characters themselves
		"message: 'line separator (\\u2028) and (\\u2029)'", "message: \"separators \\u2028 \\u2029 and the text \\\\u2028\""}
	for si, sp := range spellings {
		var b strings.Builder
		b.WriteString(ProfileHeader)
		b.WriteString("violation:\n  - v0\nwarning:\n  - v1\nvalidations:\n")
		for v := 0; v < 2; v++ {
			fmt.Fprintf(&b, "  v%d:\n    targetClass: ex.T\n", v)
			if sp != "" {
				b.WriteString("    " + sp + "\n")
			}
			if v == 0 {
				b.WriteString("    propertyConstraints:\n      ex.never:\n        minCount: 1\n")
			} else {
				b.WriteString("    propertyConstraints:\n      ex.kid:\n        nested:\n          propertyConstraints:\n            ex.never:\n              minCount: 1\n")
			}
		}
		profile := b.String()
		out, err := pkg.ValidateWithConfiguration(profile, datas[si%2], false, nil, clockA, rc)
		replay := map[string]any{"profile": profile, "data": core.Trunc(datas[si%2], 6000), "message_spelling": sp}
		if err == nil && reportTextCheckProfile(e, "message spelling", profile, datas[si%2], clockA.t, false, rc, out, replay) {
			res.Count("report-bytes=equal")
		}
		res.Case(fmt.Sprintf("message-spelling|%d", si), true)
		res.Count("stream=message-spelling")
		if err != nil {
			// a profile the parser rejects is no report at all; only a report has to be complete
			res.Count("message-spelling-rejected")
			continue
		}
		replay["report"] = core.Trunc(out, 3000)
		rep, err := ParseReport(out)
		if err != nil {
			res.Violate("impl-violates-property", "the report is not one dialect instance encoding one report node: "+err.Error(), replay)
			continue
		}
		if len(rep.Results) == 0 {
			res.Violate("harness-error", "the message-spelling profile reports nothing", replay)
		}
		if bad := checkWellFormed(rep, out, graphIDs, map[string]bool{"v0": true, "v1": true}); len(bad) > 0 {
			replay["failed_predicates"] = bad
			res.Violate("impl-violates-property", "report not well-formed when the message is written `"+sp+"`: "+bad[0], replay)
		}
		// the message the Coq model of the parser assigns (ProfileParser: "Validation error" unless a string is written)
		var ydoc yaml3.Node
		if yaml3.Unmarshal([]byte(profile), &ydoc) == nil && len(ydoc.Content) > 0 {
			if y, ok := yamlSx(ydoc.Content[0]); ok {
				ans, derr := e.Driver.Eval(sx.L(sx.A("c15"), sx.A("verdict"), sx.L(amfDefaultsSx()...), y, g.Sx()))
				if derr == nil && ans.IsL && len(ans.List) == 2 && ans.List[0].Atom == "ok" {
					res.Count("message-spelling-compared-with-model")
					mv := modelItems(ans)
					iv, _ := implItems(out)
					if diff := verdictDiff(mv, iv); diff != "" {
						replay["no_failing_input_found"] = true
						replay["broken"] = "correspondence ProfileParser.verdict (messages) vs pkg.Validate"
						replay["model"], replay["impl"] = itemsText(mv), itemsText(iv)
						res.Violate("model-mismatch", "the message the model assigns differs from the report's when the message is written `"+sp+"`: "+diff, replay)
					}
				} else if derr == nil {
					res.Count("message-spelling-model-answer=" + ans.Atom)
				}
			}
		}
	}

	// reports built at the same time: the ids of one report never depend on another report being assembled
	{
		var b strings.Builder
		b.WriteString(ProfileHeader)
		b.WriteString("violation:\n  - v0\n  - v1\nvalidations:\n")
		for v, f := range []FForm{fNested("all", 0, kid, fNested("all", 0, kid, fOr(cnt("ex.never", 1), in("ex.p0")))), fOr(cnt("ex.never", 1), in("ex.never"), cnt("ex.never2", 1))} {
			m := f.Expr()
			m["targetClass"] = "ex.T"
			d, _ := json.Marshal(m)
			fmt.Fprintf(&b, "  v%d: %s\n", v, d)
		}
		profile := b.String()
		q, err := pkg.CompileProfile(profile, false, nil)
		if err != nil {
			res.Violate("impl-violates-property", "validation fails: "+err.Error(), map[string]any{"profile": profile})
			return
		}
		ref, err := pkg.ValidateCompiledWithConfiguration(q, datas[1], false, nil, clockA, rc)
		if err != nil {
			res.Violate("impl-violates-property", "validation fails: "+err.Error(), map[string]any{"profile": profile, "data": datas[1]})
			return
		}
		workers, rounds := 12, e.Pick(4, 25)
		outs := make([][]string, workers)
		var wg sync.WaitGroup
		for w := 0; w < workers; w++ {
			wg.Add(1)
			go func(w int) {
				defer wg.Done()
				for r := 0; r < rounds; r++ {
					o, err := pkg.ValidateCompiledWithConfiguration(q, datas[1], false, nil, clockA, rc)
					if err != nil {
						o = "error: " + err.Error()
					}
					outs[w] = append(outs[w], o)
				}
			}(w)
		}
		wg.Wait()
		reported := 0
		for w := range outs {
			for r, o := range outs[w] {
				res.Case(fmt.Sprintf("concurrent|%d|%d", w, r), true)
				res.Count("stream=concurrent-report-building")
				if reported >= 2 {
					continue
				}
				replay := map[string]any{"profile": profile, "data": core.Trunc(datas[1], 6000), "history": fmt.Sprintf("%d goroutines x %d ValidateCompiledWithConfiguration calls on one compiled profile at the same time; this is the report of goroutine %d, call %d", workers, rounds, w, r),
					"report": core.Trunc(o, 6000)}
				rep, err := ParseReport(o)
				if err != nil {
					reported++
					res.Violate("impl-violates-property", "a report built while other reports are being built is not a report: "+core.Trunc(err.Error(), 200), replay)
					continue
				}
				if bad := checkWellFormed(rep, o, graphIDs, map[string]bool{"v0": true, "v1": true}); len(bad) > 0 {
					reported++
					replay["failed_predicates"] = bad
					res.Violate("impl-violates-property", "a report built while other reports are being built is not well-formed: "+bad[0], replay)
				} else if o != ref {
					reported++
					replay["sequential_report"] = core.Trunc(ref, 6000)
					res.Violate("impl-violates-property", "a report built while other reports are being built differs from the report of the same call made alone", replay)
				}
			}
		}
	}
}

// withLexical adds AMF-style lexical source maps (one entry per node) and source information to the graph.
func withLexical(g Graph) string { return withLexicalOpt(g, true) }

// withLexicalOpt: lexical source maps, with or without the BaseUnitSourceInformation node.
func withLexicalOpt(g Graph, info bool) string {
	nodes := []any{}
	var doc map[string]any
	json.Unmarshal([]byte(g.JSONLD()), &doc)
	for _, n := range doc["@graph"].([]any) {
		nodes = append(nodes, n)
	}
	const sm = "http://a.ml/vocabularies/document-source-maps#"
	const dc = "http://a.ml/vocabularies/document#"
	for i, n := range g.Nodes {
		smID := fmt.Sprintf("%s/source-map", n.ID)
		lexID := fmt.Sprintf("%s/source-map/lexical/element_0", n.ID)
		nodes[i].(map[string]any)[sm+"sources"] = []any{map[string]any{"@id": smID}}
		nodes = append(nodes,
			map[string]any{"@id": smID, "@type": []any{sm + "SourceMap"}, sm + "lexical": []any{map[string]any{"@id": lexID}}},
			map[string]any{"@id": lexID, sm + "element": n.ID, sm + "value": fmt.Sprintf("[(%d,%d)-(%d,%d)]", i+1, 0, i+2, 10+i)})
	}
	if info {
		nodes = append(nodes, map[string]any{"@id": DataNS + "root/BaseUnitSourceInformation", "@type": []any{dc + "BaseUnitSourceInformation"},
			dc + "rootLocation": "file:///root.raml"})
	}
	out, _ := json.Marshal(map[string]any{"@graph": nodes})
	return string(out)
}
