package props

import (
	"encoding/json"
	"fmt"
	"math/rand"
	"os"
	"regexp"
	"sort"
	"strings"

	"github.com/aml-org/amf-custom-validator/internal/misc"
	"github.com/aml-org/amf-custom-validator/internal/validator"
	"github.com/aml-org/amf-custom-validator/internal/validator/contexts"
	"github.com/aml-org/amf-custom-validator/pkg"
	"github.com/aml-org/amf-custom-validator/pkg/config"
	"github.com/aml-org/amf-custom-validator/verifh/core"
	"github.com/aml-org/amf-custom-validator/verifh/sx"
	yaml3 "gopkg.in/yaml.v3"
)

// ------------------------------------------------------------------------------------ ordered YAML trees

type onode struct {
	kind  string // map seq str int bool
	keys  []string
	vals  []*onode
	items []*onode
	s     string
	i     int
	b     bool
	perm  string // for seq: "free" = the order carries no meaning (level lists, and/or operands)
}

func toOnode(v any, freeSeq bool) *onode {
	switch x := v.(type) {
	case map[string]any:
		n := &onode{kind: "map"}
		ks := []string{}
		for k := range x {
			ks = append(ks, k)
		}
		sort.Strings(ks)
		for _, k := range ks {
			n.keys = append(n.keys, k)
			n.vals = append(n.vals, toOnode(x[k], k == "and" || k == "or"))
		}
		return n
	case []any:
		n := &onode{kind: "seq"}
		if freeSeq {
			n.perm = "free"
		}
		for _, e := range x {
			n.items = append(n.items, toOnode(e, false))
		}
		return n
	case []string:
		n := &onode{kind: "seq"}
		for _, e := range x {
			n.items = append(n.items, &onode{kind: "str", s: e})
		}
		return n
	case string:
		return &onode{kind: "str", s: x}
	case int:
		return &onode{kind: "int", i: x}
	case bool:
		return &onode{kind: "bool", b: x}
	}
	panic(fmt.Sprintf("toOnode %T", v))
}

func (n *onode) clone() *onode {
	c := *n
	c.keys = append([]string{}, n.keys...)
	c.vals = nil
	for _, v := range n.vals {
		c.vals = append(c.vals, v.clone())
	}
	c.items = nil
	for _, v := range n.items {
		c.items = append(c.items, v.clone())
	}
	return &c
}

// shuffle permutes the entries of every mapping and the items of every order-free sequence.
func (n *onode) shuffle(r *rand.Rand) {
	switch n.kind {
	case "map":
		r.Shuffle(len(n.keys), func(i, j int) {
			n.keys[i], n.keys[j] = n.keys[j], n.keys[i]
			n.vals[i], n.vals[j] = n.vals[j], n.vals[i]
		})
		for _, v := range n.vals {
			v.shuffle(r)
		}
	case "seq":
		if n.perm == "free" {
			r.Shuffle(len(n.items), func(i, j int) { n.items[i], n.items[j] = n.items[j], n.items[i] })
		}
		for _, v := range n.items {
			v.shuffle(r)
		}
	}
}

var rePlainSafe = regexp.MustCompile(`^[A-Za-z][A-Za-z0-9_.\-]*( [A-Za-z0-9_.\-]+)*$`)

func looksTyped(s string) bool {
	switch strings.ToLower(s) {
	case "true", "false", "yes", "no", "on", "off", "null", "y", "n", "~", "":
		return true
	}
	return false
}

// scalar renders a string with a random quoting style that keeps the !!str tag.
func scalarText(r *rand.Rand, s string) string {
	styles := []string{"double"}
	if !strings.ContainsAny(s, "\n\t\\") {
		styles = append(styles, "single")
	}
	if rePlainSafe.MatchString(s) && !looksTyped(s) {
		styles = append(styles, "plain", "plain")
	}
	switch styles[r.Intn(len(styles))] {
	case "plain":
		return s
	case "single":
		return "'" + strings.ReplaceAll(s, "'", "''") + "'"
	}
	return yq(s)
}

func (n *onode) flow(r *rand.Rand) string {
	switch n.kind {
	case "str":
		// inside flow collections plain scalars must not contain flow indicators or ": "
		t := scalarText(r, n.s)
		if !strings.HasPrefix(t, "'") && !strings.HasPrefix(t, "\"") && strings.ContainsAny(t, ",[]{}:#|^/@() ") {
			t = yq(n.s)
		}
		return t
	case "int":
		return fmt.Sprint(n.i)
	case "bool":
		return fmt.Sprint(n.b)
	case "null":
		return []string{"~", "null", "Null"}[r.Intn(3)]
	case "seq":
		parts := []string{}
		for _, it := range n.items {
			parts = append(parts, it.flow(r))
		}
		return "[" + strings.Join(parts, ", ") + "]"
	}
	parts := []string{}
	for i, k := range n.keys {
		parts = append(parts, yq(k)+": "+n.vals[i].flow(r))
	}
	return "{" + strings.Join(parts, ", ") + "}"
}

func keyText(r *rand.Rand, k string) string {
	if rePlainSafe.MatchString(k) && !strings.Contains(k, " ") && !looksTyped(k) && r.Intn(2) == 0 {
		return k
	}
	if r.Intn(2) == 0 && !strings.ContainsAny(k, "'\\") {
		return "'" + k + "'"
	}
	return yq(k)
}

// block writes the node in block style with random indentation, comments, blank lines and occasional flow sub-trees.
func (n *onode) block(r *rand.Rand, b *strings.Builder, indent int, step int) {
	pad := strings.Repeat(" ", indent)
	comment := func() {
		if r.Intn(6) == 0 {
			b.WriteString(pad + "# " + []string{"a comment", "validation: not-a-key", "- x", "  indented comment"}[r.Intn(4)] + "\n")
		}
		if r.Intn(9) == 0 {
			b.WriteString("\n")
		}
	}
	switch n.kind {
	case "map":
		for i, k := range n.keys {
			comment()
			v := n.vals[i]
			switch {
			case v.kind == "str" || v.kind == "int" || v.kind == "bool" || v.kind == "null":
				trail := ""
				if r.Intn(7) == 0 {
					trail = "   # trailing"
				}
				b.WriteString(pad + keyText(r, k) + ":" + strings.Repeat(" ", 1+r.Intn(3)) + v.flow(r) + trail + "\n")
			case r.Intn(4) == 0 || (v.kind == "seq" && len(v.items) == 0) || (v.kind == "map" && len(v.keys) == 0):
				b.WriteString(pad + keyText(r, k) + ": " + v.flow(r) + "\n")
			default:
				b.WriteString(pad + keyText(r, k) + ":\n")
				v.block(r, b, indent+step, step)
			}
		}
	case "seq":
		for _, it := range n.items {
			comment()
			switch {
			case it.kind == "str" || it.kind == "int" || it.kind == "bool" || it.kind == "null" || r.Intn(4) == 0:
				b.WriteString(pad + "- " + it.flow(r) + "\n")
			case it.kind == "map" && len(it.keys) > 0:
				// "- key: value" with the rest of the mapping aligned under the first key
				var sub strings.Builder
				it.block(r, &sub, indent+2, step)
				text := sub.String()
				// comments / blank lines before the first key cannot follow the dash: drop leading ones
				lines := strings.Split(text, "\n")
				j := 0
				for j < len(lines) && (strings.TrimSpace(lines[j]) == "" || strings.HasPrefix(strings.TrimSpace(lines[j]), "#")) {
					j++
				}
				text = strings.Join(lines[j:], "\n")
				b.WriteString(pad + "- " + strings.TrimPrefix(text, strings.Repeat(" ", indent+2)))
			default:
				b.WriteString(pad + "-\n")
				it.block(r, b, indent+step, step)
			}
		}
	}
}

// ------------------------------------------------------------------------------------ profiles

type c15Profile struct {
	name     string
	prefixes map[string]string // prefix -> namespace
	levels   map[string][]string
	forms    map[string]FForm // validation name -> formula
	classes  map[string]string
	messages map[string]string
}

// tree builds the canonical YAML tree; rename maps a compact IRI (path / class / datatype / placeholder) to its spelling.
func (p c15Profile) tree(rename func(string) string, prefixes map[string]string) *onode {
	root := map[string]any{"profile": p.name}
	pf := map[string]any{}
	for k, v := range prefixes {
		pf[k] = v
	}
	root["prefixes"] = pf
	for l, names := range p.levels {
		if len(names) > 0 {
			root[l] = append([]string{}, names...)
		}
	}
	vals := map[string]any{}
	for n, f := range p.forms {
		m := renameExpr(f.Expr(), rename).(map[string]any)
		m["targetClass"] = rename(p.classes[n])
		if msg, ok := p.messages[n]; ok {
			m["message"] = rePlaceholder.ReplaceAllStringFunc(msg, func(ph string) string {
				inner := rePlaceholder.FindStringSubmatch(ph)[1]
				return strings.Replace(ph, inner, rename(inner), 1)
			})
		}
		vals[n] = m
	}
	root["validations"] = vals
	t := toOnode(root, false)
	// level lists are order-free sequences
	for i, k := range t.keys {
		if k == "violation" || k == "warning" || k == "info" {
			t.vals[i].perm = "free"
		}
	}
	return t
}

var rePlaceholder = regexp.MustCompile(`\{\{\s*([\w-]+\.[\w-]+)\s*}}`)
var reCompactToken = regexp.MustCompile(`[A-Za-z][A-Za-z0-9\-]*\.[A-Za-z0-9_\-]+`)

// renameExpr rewrites every compact IRI inside property paths, *Property arguments and datatype values.
func renameExpr(v any, rename func(string) string) any {
	renamePath := func(s string) string { return reCompactToken.ReplaceAllStringFunc(s, rename) }
	switch x := v.(type) {
	case map[string]any:
		out := map[string]any{}
		for k, e := range x {
			switch k {
			case "propertyConstraints":
				pc := map[string]any{}
				for path, cs := range e.(map[string]any) {
					pc[renamePath(path)] = renameExpr(cs, rename)
				}
				out[k] = pc
			case "lessThanProperty", "lessThanOrEqualsToProperty", "equalsToProperty", "disjointWithProperty":
				out[k] = renamePath(e.(string))
			case "datatype":
				out[k] = rename(e.(string))
			default:
				out[k] = renameExpr(e, rename)
			}
		}
		return out
	case []any:
		out := []any{}
		for _, e := range x {
			out = append(out, renameExpr(e, rename))
		}
		return out
	}
	return v
}

func (p c15Profile) render(r *rand.Rand, variant bool) string {
	v, _ := p.render2(r, variant)
	return v
}

// render2 also returns the intermediate text of a variant: compact IRIs respelled (prefixes renamed / aliased), nothing
// reordered yet, so that variant = reordering(respelling(original)) can be checked step by step against the two relations
// of the C15 theorems.
func (p c15Profile) render2(r *rand.Rand, variant bool) (string, string) {
	prefixes := map[string]string{}
	for k, v := range p.prefixes {
		prefixes[k] = v
	}
	rename := func(s string) string { return s }
	if variant {
		// consistent renaming of some prefixes to fresh names, and aliases bound to the same namespace used at random
		renamed := map[string]string{}
		aliases := map[string][]string{}
		for k, ns := range p.prefixes {
			if r.Intn(2) == 0 {
				nn := fmt.Sprintf("%s-r%d", k, r.Intn(90)+10)
				renamed[k] = nn
				delete(prefixes, k)
				prefixes[nn] = ns
			}
			if r.Intn(2) == 0 {
				// alias names: letters first, a digit first, with a hyphen (all three are prefixes the language accepts)
				al := fmt.Sprintf([]string{"al%d%s", "%dal-%s", "Z-%d%s"}[r.Intn(3)], r.Intn(90)+10, k)
				cur := k
				if nn, ok := renamed[k]; ok {
					cur = nn
				}
				aliases[cur] = append(aliases[cur], al)
				prefixes[al] = ns
			}
		}
		rename = func(s string) string {
			i := strings.Index(s, ".")
			if i < 0 {
				return s
			}
			pfx, local := s[:i], s[i+1:]
			if nn, ok := renamed[pfx]; ok {
				pfx = nn
			}
			if al := aliases[pfx]; len(al) > 0 && r.Intn(2) == 0 {
				pfx = al[r.Intn(len(al))]
			}
			return pfx + "." + local
		}
	}
	t := p.tree(rename, prefixes)
	var b strings.Builder
	if !variant {
		b.WriteString("#%Validation Profile 1.0\n")
		t.block(rand.New(rand.NewSource(1)), &b, 0, 2)
		return b.String(), ""
	}
	var mid strings.Builder
	mid.WriteString("#%Validation Profile 1.0\n")
	t.block(rand.New(rand.NewSource(1)), &mid, 0, 2)
	t.shuffle(r)
	if r.Intn(3) != 0 {
		b.WriteString("#%Validation Profile 1.0\n")
	}
	if r.Intn(3) == 0 {
		b.WriteString("---\n")
	}
	t.block(r, &b, 0, []int{2, 2, 3, 4}[r.Intn(4)])
	return b.String(), mid.String()
}

// amfDefaultsSx: the built-in prefix table (contexts.DefaultAMFContext) as the model's default context.
func amfDefaultsSx() []sx.V {
	defaults := []sx.V{}
	dnames := []string{}
	for k := range contexts.DefaultAMFContext {
		dnames = append(dnames, k)
	}
	sort.Strings(dnames)
	for _, k := range dnames {
		if v, ok := contexts.DefaultAMFContext[k].(string); ok {
			defaults = append(defaults, sx.L(sx.S(k), sx.S(v)))
		}
	}
	return defaults
}

// modelItems reads the model's verdict answer: key "level|name|focus" -> message template.
func modelItems(ans sx.V) map[string]string {
	out := map[string]string{}
	for _, it := range ans.List[1].List {
		if it.IsL && len(it.List) == 4 {
			out[it.List[0].Text()+"|"+it.List[1].Text()+"|"+it.List[2].Text()] = it.List[3].Text()
		}
	}
	return out
}

// implItems: the same keys from a report, with the message shown.
func implItems(report string) (map[string]string, bool) {
	rep, err := ParseReport(report)
	if err != nil {
		return nil, false
	}
	out := map[string]string{}
	for _, r := range rep.Results {
		out[sevLevel(r.Severity)+"|"+r.Name+"|"+r.Focus] = r.Message
	}
	return out, true
}

// verdictDiff compares the model's verdict with the library's: the same (level, validation, focus) triples, and the
// same message wherever the template is plain text (no placeholder, quote, backslash or percent sign: those are C13's).
func verdictDiff(model, impl map[string]string) string {
	for k, tmpl := range model {
		msg, ok := impl[k]
		if !ok {
			return "the model reports " + k + ", the library does not"
		}
		if !strings.ContainsAny(tmpl, "{\"\\%\n") && msg != tmpl {
			return fmt.Sprintf("message of %s: model %q, library %q", k, tmpl, msg)
		}
	}
	for k := range impl {
		if _, ok := model[k]; !ok {
			return "the library reports " + k + ", the model does not"
		}
	}
	return ""
}

func itemsText(m map[string]string) string {
	l := []string{}
	for k, v := range m {
		l = append(l, k+"|"+v)
	}
	sort.Strings(l)
	return strings.Join(l, "\n")
}

// renderPure: every mapping and free list shuffled, random styles, no prefix renamed.
func (p c15Profile) renderPure(r *rand.Rand) string {
	prefixes := map[string]string{}
	for k, v := range p.prefixes {
		prefixes[k] = v
	}
	t := p.tree(func(s string) string { return s }, prefixes)
	t.shuffle(r)
	var b strings.Builder
	b.WriteString("#%Validation Profile 1.0\n")
	t.block(r, &b, 0, []int{2, 2, 3, 4}[r.Intn(4)])
	return b.String()
}

// yamlShape is (kind, tag, value) of a parsed YAML tree with mapping entries sorted: what the "same abstract tree"
// assumption is about.
func yamlShape(n *yaml3.Node) string {
	switch n.Kind {
	case yaml3.DocumentNode:
		if len(n.Content) > 0 {
			return yamlShape(n.Content[0])
		}
		return "doc"
	case yaml3.ScalarNode:
		return n.Tag + ":" + n.Value
	case yaml3.SequenceNode:
		parts := []string{}
		for _, c := range n.Content {
			parts = append(parts, yamlShape(c))
		}
		return "[" + strings.Join(parts, ",") + "]"
	case yaml3.MappingNode:
		parts := []string{}
		for i := 0; i+1 < len(n.Content); i += 2 {
			parts = append(parts, yamlShape(n.Content[i])+"=>"+yamlShape(n.Content[i+1]))
		}
		sort.Strings(parts)
		return "{" + strings.Join(parts, ",") + "}"
	}
	return "?"
}

func C15(e *core.Env) {
	res := e.Res
	res.Rule = "cases = (profile, rewriting): profiles with 2-4 validations over the three levels built from the C01 formula generator (every connective, nested / atLeast / atMost, all atom kinds, sequence / alternative / inverse paths, messages with placeholders), each rewritten k times (quick 6, thorough 30) by composing: a random permutation of the entries of EVERY mapping, of every level list and of every and/or operand list, consistent renaming of prefixes to fresh names, use of alias prefixes bound to the same namespace, three quoting styles where the tag is preserved, flow vs block style per sub-tree, indentation 2/3/4, comments, blank lines, document marker; every variant is validated on the same graphs and must give the same conforms flag and the same set of (severity, validation, focus, message); the IRI expander is compared with the model on the compact IRIs used; the repository's 29 integration fixtures and 5 hand-written profiles (embedded Rego setting $message in one of several operands, two expression keywords in one body, five-operand or / and lists with multi-branch operands over two prefixes, level lists with stray null / number / boolean entries) are rewritten the same way (3 / 10 variants quick, 12 / 40 thorough); a profile relying on the built-in prefixes apiContract / core, spelled with its own (hyphenated, digit-first) prefixes for the same namespaces, before and after another profile that binds those names elsewhere; " +
		"non-trivial = the original profile reports at least one result on some graph; distinct by variant text"
	rc := config.DefaultReportConfiguration()
	k := e.Pick(6, 30)
	atoms := func() []FAtom {
		return []FAtom{
			{Kind: "count", Q: "min", Path: Pr("ex.a", false), K: 1},
			{Kind: "count", Q: "max", Path: PExp{Kind: "or", Kids: []PExp{Pr("ex.a", false), Pr("zz.b", false)}}, K: 1},
			{Kind: "in", Path: Pr("zz.b", false), Strs: []string{"lit-b0", "lit-b1", "2"}},
			{Kind: "containsSome", Path: Pr("ex.c", false), Strs: []string{"true", "lit-c1"}},
			{Kind: "pattern", Q: "prefix", Path: Pr("ex.a", false), S: "lit"},
			{Kind: "length", Q: "max", Path: Pr("zz.b", false), K: 6},
			{Kind: "num", Q: "ge", Path: Pr("zz.b", false), K: 2},
			{Kind: "cmp", Q: "ne", Path: Pr("ex.a", false), Path2: Pr("zz.b", false)},
			{Kind: "datatype", Path: Pr("ex.c", false), S: "boolean"},
			{Kind: "count", Q: "min", Path: PExp{Kind: "and", Kids: []PExp{Pr("ex.a", false), Pr("ex.c", true)}}, K: 1},
		}
	}
	// data uses two namespaces: ex (a, c) and zz (b)
	mkGraph := func(r *rand.Rand) Graph {
		g := RandomEdgeGraph(r, 3+r.Intn(4), []string{"a", "b", "c"}, 0.2+0.2*r.Float64())
		for i := range g.Nodes {
			for j := range g.Nodes[i].Props {
				if g.Nodes[i].Props[j].Iri == ExNS+"b" {
					g.Nodes[i].Props[j].Iri = "http://example.org/zz#b"
				}
			}
			// every node carries one ex.single value (single-valued placeholder)
			g.Nodes[i].Props = append(g.Nodes[i].Props, GProp{Iri: ExNS + "single", Vals: []GVal{VS("one")}})
		}
		return g
	}
	defaults := amfDefaultsSx()
	// modelVerdict: the Coq model of the profile parser + generator + evaluation, from the YAML tree as yaml.v3 parsed it
	modelVerdict := func(profileText string, g Graph) (map[string]string, bool) {
		var doc yaml3.Node
		if yaml3.Unmarshal([]byte(profileText), &doc) != nil || len(doc.Content) == 0 {
			return nil, false
		}
		y, ok := yamlSx(doc.Content[0])
		if !ok {
			return nil, false
		}
		ans, err := e.Driver.Eval(sx.L(sx.A("c15"), sx.A("verdict"), sx.L(defaults...), y, g.Sx()))
		if err != nil {
			res.Violate("harness-error", err.Error(), map[string]any{"no_failing_input_found": true, "broken": "driver"})
			return nil, false
		}
		if ans.IsL && len(ans.List) == 2 && ans.List[0].Atom == "ok" {
			return modelItems(ans), true
		}
		res.Count("model-parser-answer=" + ans.Atom)
		return nil, false
	}
	// respelled: same shape, compact IRIs spelled differently but expanding alike (YamlRespell.respell_doc_b)
	respelled := func(a, b string) (bool, bool) {
		var da, db yaml3.Node
		if yaml3.Unmarshal([]byte(a), &da) != nil || yaml3.Unmarshal([]byte(b), &db) != nil || len(da.Content) == 0 || len(db.Content) == 0 {
			return false, false
		}
		ya, ok1 := yamlSx(da.Content[0])
		yb, ok2 := yamlSx(db.Content[0])
		if !ok1 || !ok2 {
			return false, false
		}
		ans, err := e.Driver.Eval(sx.L(sx.A("c15"), sx.A("respelled"), sx.L(defaults...), ya, yb))
		if err != nil {
			res.Violate("harness-error", err.Error(), map[string]any{"no_failing_input_found": true, "broken": "driver"})
			return false, false
		}
		return ans.Atom == "1", true
	}
	// related: is the second text's tree a key / free-list reordering of the first's (YamlRewrite.related, sound for yrw)?
	related := func(a, b string) (bool, bool) {
		var da, db yaml3.Node
		if yaml3.Unmarshal([]byte(a), &da) != nil || yaml3.Unmarshal([]byte(b), &db) != nil || len(da.Content) == 0 || len(db.Content) == 0 {
			return false, false
		}
		ya, ok1 := yamlSx(da.Content[0])
		yb, ok2 := yamlSx(db.Content[0])
		if !ok1 || !ok2 {
			return false, false
		}
		ans, err := e.Driver.Eval(sx.L(sx.A("c15"), sx.A("related"), ya, yb))
		if err != nil {
			res.Violate("harness-error", err.Error(), map[string]any{"no_failing_input_found": true, "broken": "driver"})
			return false, false
		}
		return ans.Atom == "1", true
	}
	summary := func(report string) (string, int) {
		rep, err := ParseReport(report)
		if err != nil {
			return "unparsable", 0
		}
		items := map[string]bool{}
		for _, r := range rep.Results {
			items[r.Severity+"|"+r.Name+"|"+r.Focus+"|"+r.Message] = true
		}
		return fmt.Sprintf("conforms=%v\n", rep.Conforms) + strings.Join(sortedKeys(items), "\n"), len(items)
	}
	expander := misc.IriExpander{Context: map[string]any{"ex": ExNS, "zz": "http://example.org/zz#", "xsd": "http://www.w3.org/2001/XMLSchema#"}}
	_ = expander
	for pi := 0; pi < e.Pick(20, 200); pi++ {
		p := c15Profile{name: fmt.Sprintf("Rewrites %d", pi), prefixes: map[string]string{"ex": ExNS, "zz": "http://example.org/zz#"},
			levels: map[string][]string{}, forms: map[string]FForm{}, classes: map[string]string{}, messages: map[string]string{}}
		as := atoms()
		nv := 2 + e.Rand.Intn(3)
		for v := 0; v < nv; v++ {
			name := fmt.Sprintf("val-%d", v)
			var f FForm
			for {
				f = randomForm(e.Rand, 2, func() FForm {
					a := as[e.Rand.Intn(len(as))]
					if e.Rand.Intn(16) == 0 {
						// inline Rego operands with the default message: different code, same printed form
						codes := []string{`$result = (object.get($node, "@id", "") != "http://example.org/d#n0")`,
							`$result = (object.get($node, "@id", "") != "http://example.org/d#n1")`,
							`$result = (count(object.get($node, "http://example.org/ns#a", [])) >= 0)`}
						return fAnd(FForm{Kind: "rego", Q: codes[e.Rand.Intn(3)]}, FForm{Kind: "rego", Q: codes[e.Rand.Intn(3)]})
					}
					switch e.Rand.Intn(8) {
					case 0:
						return fNested([]string{"all", "atLeast", "atMost"}[e.Rand.Intn(3)], 1, Pr([]string{"ex.a", "zz.b", "ex.c"}[e.Rand.Intn(3)], e.Rand.Intn(4) == 0), fAtom(a))
					case 1:
						// several constraints under one propertyConstraints / one property: written as an explicit and of atoms
						return fAnd(fAtom(a), fAtom(as[e.Rand.Intn(len(as))]), fAtom(as[e.Rand.Intn(len(as))]))
					}
					return fAtom(a)
				})
				if f.dnfSize(false) <= 6 {
					break
				}
			}
			p.forms[name] = f
			p.classes[name] = []string{"ex.T", "ex.T", "ex.U"}[e.Rand.Intn(3)]
			if e.Rand.Intn(3) != 0 {
				p.messages[name] = []string{"plain message", "a is {{ex.single}} / {{ zz.none }}", "100% of {{ex.single}}"}[e.Rand.Intn(3)]
			}
			lv := []string{"violation", "warning", "info"}[e.Rand.Intn(3)]
			p.levels[lv] = append(p.levels[lv], name)
			if e.Rand.Intn(5) == 0 {
				l2 := []string{"violation", "warning", "info"}[e.Rand.Intn(3)]
				if l2 != lv {
					p.levels[l2] = append(p.levels[l2], name)
				}
			}
		}
		orig := p.render(e.Rand, false)
		graphs := []Graph{mkGraph(e.Rand), mkGraph(e.Rand)}
		datas := []string{graphs[0].JSONLD(), graphs[1].JSONLD()}
		refs := []string{}
		total := 0
		okOrig := true
		if tcFor(e).check("C15 original", orig) {
			res.Count("whole-module-text=equal")
		}
		origCompiled, oerr := pkg.CompileProfile(orig, false, nil)
		if oerr != nil {
			res.Violate("harness-error", "the generated original profile is rejected: "+core.Trunc(oerr.Error(), 300), map[string]any{"no_failing_input_found": true, "broken": "C15 generator", "profile": orig})
			continue
		}
		for _, d := range datas {
			out, err := pkg.ValidateCompiledWithConfiguration(origCompiled, d, false, nil, clockA, rc)
			if err != nil {
				res.Violate("harness-error", "the generated original profile is rejected: "+core.Trunc(err.Error(), 300), map[string]any{"no_failing_input_found": true, "broken": "C15 generator", "profile": orig})
				okOrig = false
				break
			}
			s, n := summary(out)
			refs = append(refs, s)
			total += n
			if mv, ok := modelVerdict(orig, graphs[len(refs)-1]); ok {
				res.Count("model-parser-verdicts-compared")
				if iv, _ := implItems(out); verdictDiff(mv, iv) != "" {
					res.Violate("model-mismatch", "the verdict computed by the Coq model from the YAML tree (parser + generator + evaluation) differs from the library's: "+verdictDiff(mv, iv),
						map[string]any{"no_failing_input_found": true, "broken": "correspondence ProfileParser.verdict vs pkg.Validate", "profile": orig, "data": d, "impl": itemsText(iv), "model": itemsText(mv)})
				}
			}
		}
		if !okOrig {
			continue
		}
		var origTree yaml3.Node
		yaml3.Unmarshal([]byte(orig), &origTree)
		for vi := 0; vi < k; vi++ {
			variant, respeltOnly := p.render2(e.Rand, true)
			if vi > 0 && vi <= 2 {
				// variant = reordering(respelling(original)): both steps must be instances of the relations of the theorems
				// (C15_prefix_respelling: YamlRespell.respell_doc_b; C15_rewriting_at_any_depth: YamlRewrite.related)
				if ok1, ok := respelled(orig, respeltOnly); ok {
					ok2, _ := related(respeltOnly, variant)
					res.Count("respelling-then-reordering-recognised-by-the-model")
					if !ok1 || !ok2 {
						res.Violate("model-mismatch", fmt.Sprintf("a rewriting made of prefix respelling (recognised: %v) followed by reordering (recognised: %v) is not an instance of the relations of the C15 theorems", ok1, ok2),
							map[string]any{"no_failing_input_found": true, "broken": "correspondence: the harness's rewritings vs YamlRespell.respell_doc_b / YamlRewrite.related", "original_profile": orig, "respelled_profile": respeltOnly, "rewritten_profile": variant})
					}
				}
			}
			if vi == 0 {
				// a rewriting made of key / free-list reordering and styles only: an instance of the relation of
				// C15_rewriting_at_any_depth, which the extracted test must recognise
				variant = p.renderPure(e.Rand)
				if rel, ok := related(orig, variant); ok {
					res.Count("reordering-recognised-by-the-model")
					if !rel {
						res.Violate("model-mismatch", "a pure reordering of mapping keys and free lists is not recognised by YamlRewrite.related",
							map[string]any{"no_failing_input_found": true, "broken": "correspondence: the harness's reordering vs the relation yrw of C15_rewriting_at_any_depth", "original_profile": orig, "rewritten_profile": variant})
					}
				}
			}
			replay := map[string]any{"original_profile": orig, "rewritten_profile": variant}
			if tcFor(e).check("C15 rewritten", variant) {
				res.Count("whole-module-text=equal")
			}
			compiled, cerr := pkg.CompileProfile(variant, false, nil)
			if cerr != nil {
				replay["error"] = core.Trunc(cerr.Error(), 1200)
				res.Violate("impl-violates-property", "a rewriting that keeps the meaning of the profile is rejected: "+core.Trunc(cerr.Error(), 160), replay)
				continue
			}
			for di, d := range datas {
				out, err := pkg.ValidateCompiledWithConfiguration(compiled, d, false, nil, clockA, rc)
				if err != nil {
					replay["data"] = d
					replay["error"] = core.Trunc(err.Error(), 1200)
					res.Violate("impl-violates-property", "a rewriting that keeps the meaning of the profile is rejected: "+core.Trunc(err.Error(), 160), replay)
					break
				}
				s, _ := summary(out)
				if s != refs[di] {
					replay["data"] = d
					replay["original_results"] = refs[di]
					replay["rewritten_results"] = s
					res.Violate("impl-violates-property", "a rewriting that keeps the meaning of the profile changes the verdict", replay)
					break
				}
				if mv, ok := modelVerdict(variant, graphs[di]); ok && di == 0 {
					res.Count("model-parser-verdicts-compared")
					if iv, _ := implItems(out); verdictDiff(mv, iv) != "" {
						res.Violate("model-mismatch", "the verdict computed by the Coq model from the YAML tree of a rewritten profile differs from the library's: "+verdictDiff(mv, iv),
							map[string]any{"no_failing_input_found": true, "broken": "correspondence ProfileParser.verdict vs pkg.Validate", "profile": variant, "data": d, "impl": itemsText(iv), "model": itemsText(mv)})
					}
				}
			}
			res.Case(fmt.Sprintf("p%d|%x", pi, hashString(variant)), total > 0)
			res.Count("variants")
			if pi == 2 && vi == 1 {
				res.Sample(map[string]any{"original": core.Trunc(orig, 1500), "rewritten": core.Trunc(variant, 2000)})
			}
		}
	}
	c15Fixtures(e, rc, summary, defaults)
	c15HandWritten(e, rc, summary, defaults, mkGraph)
	// the IRI expander against the model, on the compact IRIs the profiles use and on renamed / aliased ones
	ctxPairs := [][2]string{{"ex", ExNS}, {"zz", "http://example.org/zz#"}, {"al12ex", ExNS}, {"ex-r31", ExNS}}
	ctxSx := []sx.V{}
	ctxMap := map[string]any{}
	for _, c := range ctxPairs {
		ctxSx = append(ctxSx, sx.L(sx.S(c[0]), sx.S(c[1])))
		ctxMap[c[0]] = c[1]
	}
	ex := misc.IriExpander{Context: ctxMap}
	for _, iri := range []string{"ex.a", "zz.b", "al12ex.a", "ex-r31.T", "ex.a.b", "nope.a", "ex.single", "zz.none"} {
		got, err := ex.Expand(iri)
		want := e.Driver.MustEval(sx.L(sx.A("c15"), sx.A("expand"), sx.L(ctxSx...), sx.S(iri)))
		g := "none"
		if err == nil {
			g = got
		}
		w := "none"
		if want.IsL && len(want.List) == 1 {
			w = want.List[0].Text()
		}
		if g != w {
			res.Violate("model-mismatch", "IriExpander.Expand differs from Yaml.expand_compact on "+iri, map[string]any{"no_failing_input_found": true, "broken": "correspondence Yaml.expand_compact", "iri": iri, "impl": g, "model": w})
		}
		res.Case("expand|"+iri, true)
	}
}

// fromYaml converts a parsed YAML tree to an onode (scalars keep their resolved tag through their kind).
func fromYaml(n *yaml3.Node, key string) *onode {
	switch n.Kind {
	case yaml3.DocumentNode:
		return fromYaml(n.Content[0], "")
	case yaml3.MappingNode:
		o := &onode{kind: "map"}
		for i := 0; i+1 < len(n.Content); i += 2 {
			o.keys = append(o.keys, n.Content[i].Value)
			o.vals = append(o.vals, fromYaml(n.Content[i+1], n.Content[i].Value))
		}
		return o
	case yaml3.SequenceNode:
		o := &onode{kind: "seq"}
		if key == "violation" || key == "warning" || key == "info" || key == "and" || key == "or" {
			o.perm = "free"
		}
		for _, c := range n.Content {
			o.items = append(o.items, fromYaml(c, ""))
		}
		return o
	}
	switch n.Tag {
	case "!!int":
		var i int
		fmt.Sscan(n.Value, &i)
		return &onode{kind: "int", i: i}
	case "!!bool":
		return &onode{kind: "bool", b: n.Value == "true"}
	case "!!str":
		return &onode{kind: "str", s: n.Value}
	case "!!null":
		return &onode{kind: "null"}
	}
	return nil // floats, nulls ...: the fixture is skipped
}

func (n *onode) valid() bool {
	if n == nil {
		return false
	}
	for _, v := range n.vals {
		if !v.valid() {
			return false
		}
	}
	for _, v := range n.items {
		if !v.valid() {
			return false
		}
	}
	return true
}

// aliasPrefixes declares aliases for built-in prefixes and spells a random share of their uses with the alias.
func aliasPrefixes(r *rand.Rand, t *onode) {
	builtin := map[string]string{"apiContract": "http://a.ml/vocabularies/apiContract#", "core": "http://a.ml/vocabularies/core#", "shacl": "http://www.w3.org/ns/shacl#",
		"apiExt": "http://a.ml/vocabularies/api-extension#", "shapes": "http://a.ml/vocabularies/shapes#", "raml-shapes": "http://a.ml/vocabularies/shapes#",
		"doc": "http://a.ml/vocabularies/document#", "security": "http://a.ml/vocabularies/security#", "data": "http://a.ml/vocabularies/data#", "xsd": "http://www.w3.org/2001/XMLSchema#"}
	// the profile's own prefixes too (they overlay the built-in ones); alias names sort before, between and after
	// the usual names, so that a textual ordering of rules by prefix changes with the spelling
	for i, k := range t.keys {
		if k == "prefixes" && t.vals[i].kind == "map" {
			for j, pk := range t.vals[i].keys {
				if t.vals[i].vals[j].kind == "str" && regexp.MustCompile(`^[A-Za-z][A-Za-z0-9\-]*$`).MatchString(pk) {
					builtin[pk] = t.vals[i].vals[j].s
				}
			}
		}
	}
	alias := map[string]string{}
	names := []string{}
	for p := range builtin {
		names = append(names, p)
	}
	sort.Strings(names)
	alts := []string{}
	for _, p := range names {
		alias[p] = []string{"al", "mm", "zy"}[r.Intn(3)] + strings.ReplaceAll(p, "-", "") + "x"
		alts = append(alts, regexp.QuoteMeta(p))
	}
	used := map[string]bool{}
	re := regexp.MustCompile(`(^|[\s(|/{])(` + strings.Join(alts, "|") + `)\.([A-Za-z])`)
	rewrite := func(s string) string {
		return re.ReplaceAllStringFunc(s, func(m string) string {
			sub := re.FindStringSubmatch(m)
			if r.Intn(2) == 0 {
				return m
			}
			used[sub[2]] = true
			return sub[1] + alias[sub[2]] + "." + sub[3]
		})
	}
	var walk func(n *onode, key string, inRego bool)
	walk = func(n *onode, key string, inRego bool) {
		switch n.kind {
		case "map":
			for i, k := range n.keys {
				child := n.vals[i]
				rego := inRego || k == "rego" || k == "regoModule" || k == "rego_extensions" || k == "code"
				if key == "propertyConstraints" {
					n.keys[i] = rewrite(k)
				}
				walk(child, k, rego)
			}
		case "seq":
			for _, it := range n.items {
				walk(it, key, inRego)
			}
		case "str":
			if inRego {
				return
			}
			switch key {
			case "targetClass", "datatype", "lessThanProperty", "lessThanOrEqualsToProperty", "equalsToProperty", "disjointWithProperty", "message":
				n.s = rewrite(n.s)
			}
		}
	}
	walk(t, "", false)
	// declare the aliases that are used
	var prefixes *onode
	for i, k := range t.keys {
		if k == "prefixes" {
			prefixes = t.vals[i]
		}
	}
	if prefixes == nil {
		prefixes = &onode{kind: "map"}
		t.keys = append(t.keys, "prefixes")
		t.vals = append(t.vals, prefixes)
	}
	for p := range used {
		prefixes.keys = append(prefixes.keys, alias[p])
		prefixes.vals = append(prefixes.vals, &onode{kind: "str", s: builtin[p]})
	}
}

// c15Fixtures rewrites the repository's own integration profiles (keys, free lists, styles, alias prefixes for the
// built-in vocabularies) and validates the fixture data with both spellings.
// graphSx renders the library's own normalised input (input["@ids"]) as the model's graph; false when it holds a
// value the model has no counterpart for (floats, value objects, nested objects).
func graphSx(norm any) (sx.V, bool) {
	m, _ := norm.(map[string]any)
	ids, _ := m["@ids"].(map[string]any)
	names := []string{}
	for id := range ids {
		names = append(names, id)
	}
	sort.Strings(names)
	nodes := []sx.V{sx.A("graph")}
	for _, id := range names {
		n, _ := ids[id].(map[string]any)
		props := []sx.V{}
		keys := []string{}
		for k := range n {
			if k != "@id" {
				keys = append(keys, k)
			}
		}
		sort.Strings(keys)
		for _, k := range keys {
			vals := []sx.V{}
			ok := true
			var add func(v any)
			add = func(v any) {
				switch x := v.(type) {
				case []any:
					for _, el := range x {
						add(el)
					}
				case string:
					vals = append(vals, sx.L(sx.A("s"), sx.S(x)))
				case bool:
					vals = append(vals, sx.L(sx.A("b"), sx.B(x)))
				case json.Number:
					if i, err := x.Int64(); err == nil && i > -1000000 && i < 1000000 {
						vals = append(vals, sx.L(sx.A("i"), sx.I(int(i))))
					} else {
						ok = false
					}
				case map[string]any:
					if rid, isRef := x["@id"].(string); isRef && len(x) == 1 {
						vals = append(vals, sx.L(sx.A("r"), sx.S(rid)))
					} else {
						ok = false
					}
				default:
					ok = false
				}
			}
			add(n[k])
			if !ok {
				return sx.V{}, false
			}
			props = append(props, sx.L(sx.S(k), sx.L(vals...)))
		}
		nodes = append(nodes, sx.L(sx.A("node"), sx.S(id), sx.L(props...)))
	}
	return sx.L(nodes...), true
}

func c15Fixtures(e *core.Env, rc config.ReportConfiguration, summary func(string) (string, int), defaults []sx.V) {
	dir := e.Repo + "/test/data/integration"
	for i := 1; i <= 29; i++ {
		base := fmt.Sprintf("%s/profile%d/", dir, i)
		ptxt, err := os.ReadFile(base + "profile.yaml")
		if err != nil {
			continue
		}
		datas := []string{}
		dnames := []string{}
		for _, dn := range []string{"positive.data.jsonld", "negative.data.jsonld"} {
			if d, err := os.ReadFile(base + dn); err == nil {
				datas = append(datas, string(d))
				dnames = append(dnames, dn)
			}
		}
		c15Text(e, rc, summary, defaults, fmt.Sprintf("fixture profile%d", i), fmt.Sprintf("test/data/integration/profile%d", i), "fixture", string(ptxt), datas, dnames, e.Pick(3, 12))
	}
}

// c15Text: one profile given as YAML text (a repository fixture or a hand-written profile), validated on the given
// documents, compared with the Coq model where the model supports every construct, then rewritten n times.
func c15Text(e *core.Env, rc config.ReportConfiguration, summary func(string) (string, int), defaults []sx.V, label, where, stream string, ptext string, datas []string, dnames []string, n int) {
	res := e.Res
	i := label
	ptxt := []byte(ptext)
	{
		var doc yaml3.Node
		if yaml3.Unmarshal(ptxt, &doc) != nil || len(doc.Content) == 0 {
			return
		}
		tree := fromYaml(&doc, "")
		if !tree.valid() || tree.kind != "map" {
			res.Count(stream + "-skipped")
			return
		}
		refs := []string{}
		ok := true
		for _, d := range datas {
			out, err := pkg.ValidateWithConfiguration(string(ptxt), d, false, nil, clockA, rc)
			if err != nil {
				ok = false
				break
			}
			s, _ := summary(out)
			refs = append(refs, s)
			// the repository's own profile and data through the Coq model (where it supports every construct used)
			if y, yok := yamlSx(doc.Content[0]); yok {
				if norm, nerr := validator.ProcessInput(d, false, nil); nerr == nil {
					if gsx, gok := graphSx(norm); gok {
						ans, derr := e.Driver.Eval(sx.L(sx.A("c15"), sx.A("verdict"), sx.L(defaults...), y, gsx))
						if derr == nil && ans.IsL && len(ans.List) == 2 {
							mv := modelItems(ans)
							iv, _ := implItems(out)
							res.Count(stream + "-model-verdicts-compared")
							if diff := verdictDiff(mv, iv); diff != "" {
								res.Violate("model-mismatch", fmt.Sprintf("the Coq model's verdict for %s differs from the library's: %s", i, diff),
									map[string]any{"no_failing_input_found": true, "broken": "correspondence ProfileParser.verdict vs pkg.Validate on " + stream + " profile",
										"profile_from": where, "profile": string(ptxt), "data": core.Trunc(d, 4000), "model": itemsText(mv), "impl": itemsText(iv)})
							}
						} else if derr == nil {
							res.Count(stream + "-model-answer=" + ans.Atom)
						}
					} else {
						res.Count(stream + "-graph-outside-model")
					}
				}
			}
		}
		if !ok {
			res.Count(stream + "-skipped")
			return
		}
		for v := 0; v < n; v++ {
			t := tree.clone()
			hasPrefixes := false
			for _, k := range tree.keys {
				if k == "prefixes" {
					hasPrefixes = true
				}
			}
			if v > 0 {
				aliasPrefixes(e.Rand, t)
				if v == 1 && hasPrefixes {
					// the respelling step alone (nothing reordered): an instance of the relation of C15_prefix_respelling
					var mb strings.Builder
					mb.WriteString("#%Validation Profile 1.0\n")
					t.block(rand.New(rand.NewSource(1)), &mb, 0, 2)
					var dm yaml3.Node
					if yaml3.Unmarshal([]byte(mb.String()), &dm) == nil && len(dm.Content) > 0 {
						ya, ok1 := yamlSx(doc.Content[0])
						yb, ok2 := yamlSx(dm.Content[0])
						if ok1 && ok2 {
							if ans, derr := e.Driver.Eval(sx.L(sx.A("c15"), sx.A("respelled"), sx.L(defaults...), ya, yb)); derr == nil {
								res.Count(stream + "-respelling-recognised-by-the-model")
								if ans.Atom != "1" {
									res.Violate("model-mismatch", "a pure prefix respelling of "+i+" is not recognised by YamlRespell.respell_doc_b",
										map[string]any{"no_failing_input_found": true, "broken": "correspondence: the harness's alias spelling vs the relation of C15_prefix_respelling", "profile_from": where, "original_profile": string(ptxt), "respelled_profile": mb.String()})
								}
							}
						}
					}
				}
			}
			t.shuffle(e.Rand)
			var b strings.Builder
			b.WriteString("#%Validation Profile 1.0\n")
			t.block(e.Rand, &b, 0, []int{2, 4}[e.Rand.Intn(2)])
			variant := b.String()
			if v == 0 {
				// keys and free lists reordered only: an instance of the relation of C15_rewriting_at_any_depth
				var dv yaml3.Node
				if yaml3.Unmarshal([]byte(variant), &dv) == nil && len(dv.Content) > 0 {
					ya, ok1 := yamlSx(doc.Content[0])
					yb, ok2 := yamlSx(dv.Content[0])
					if ok1 && ok2 {
						if ans, derr := e.Driver.Eval(sx.L(sx.A("c15"), sx.A("related"), ya, yb)); derr == nil {
							res.Count(stream + "-reordering-recognised-by-the-model")
							if ans.Atom != "1" {
								res.Violate("model-mismatch", "a pure reordering of mapping keys and free lists of "+i+" is not recognised by YamlRewrite.related",
									map[string]any{"no_failing_input_found": true, "broken": "correspondence: the harness's reordering vs the relation yrw of C15_rewriting_at_any_depth", "profile_from": where, "original_profile": string(ptxt), "rewritten_profile": variant})
							}
						}
					}
				}
			}
			for di, d := range datas {
				out, err := pkg.ValidateWithConfiguration(variant, d, false, nil, clockA, rc)
				replay := map[string]any{"profile_from": where, "original_profile": string(ptxt), "rewritten_profile": variant, "data_file": dnames[di]}
				if stream != "fixture" {
					replay["data"] = d
				}
				if err != nil {
					replay["error"] = core.Trunc(err.Error(), 1000)
					res.Violate("impl-violates-property", fmt.Sprintf("a rewriting of %s that keeps its meaning is rejected: %s", i, core.Trunc(err.Error(), 160)), replay)
					break
				}
				s, _ := summary(out)
				if s != refs[di] {
					replay["original_results"] = refs[di]
					replay["rewritten_results"] = s
					res.Violate("impl-violates-property", fmt.Sprintf("a rewriting of %s that keeps its meaning changes the verdict", i), replay)
					break
				}
			}
			res.Case(fmt.Sprintf("%s|%x", i, hashString(variant)), true)
			res.Count(stream + "-variants")
		}
	}
}

// yamlSx renders a yaml.v3 tree as the model's ynode; aliases, merge keys and non-scalar keys are not modelled.
func yamlSx(n *yaml3.Node) (sx.V, bool) {
	switch n.Kind {
	case yaml3.ScalarNode:
		if n.Tag == "!!null" {
			return sx.L(sx.A("scalar"), sx.S(n.Tag), sx.S("")), true // ~, null, Null and an empty entry are one value
		}
		return sx.L(sx.A("scalar"), sx.S(n.Tag), sx.S(n.Value)), true
	case yaml3.SequenceNode:
		items := []sx.V{sx.A("seq")}
		for _, c := range n.Content {
			v, ok := yamlSx(c)
			if !ok {
				return sx.V{}, false
			}
			items = append(items, v)
		}
		return sx.L(items...), true
	case yaml3.MappingNode:
		items := []sx.V{sx.A("map")}
		for i := 0; i+1 < len(n.Content); i += 2 {
			if n.Content[i].Kind != yaml3.ScalarNode || n.Content[i].Tag == "!!merge" {
				return sx.V{}, false
			}
			v, ok := yamlSx(n.Content[i+1])
			if !ok {
				return sx.V{}, false
			}
			items = append(items, sx.L(sx.S(n.Content[i].Value), v))
		}
		return sx.L(items...), true
	}
	return sx.V{}, false
}

// c15Hand: legal but unusual profiles no generator stream produces: bodies holding more than one expression keyword
// (the parser's fixed priority decides, whatever the key order), wide `or` / `and` lists whose operands have several
// branches and differ in prefix and in the position of nested constraints (operand sorting), a nested body with two
// keywords, one property constrained under two spellings of its path.
var c15Hand = []string{
	// two keywords in one body
	`profile: Two keywords
prefixes:
  ex: http://example.org/ns#
  zz: http://example.org/zz#
violation:
  - pc-and-not
  - or-and-and
warning:
  - not-and-if
info:
  - nested-two
validations:
  pc-and-not:
    targetClass: ex.T
    message: both written
    propertyConstraints:
      ex.a:
        minCount: 1
    not:
      propertyConstraints:
        ex.a:
          minCount: 1
  or-and-and:
    targetClass: ex.T
    and:
      - propertyConstraints:
          ex.a:
            minCount: 1
      - propertyConstraints:
          zz.b:
            minCount: 1
    or:
      - propertyConstraints:
          ex.c:
            minCount: 1
      - propertyConstraints:
          zz.b:
            maxCount: 0
  not-and-if:
    targetClass: ex.T
    not:
      propertyConstraints:
        ex.c:
          minCount: 1
    if:
      propertyConstraints:
        ex.a:
          minCount: 1
    then:
      propertyConstraints:
        zz.b:
          minCount: 1
  nested-two:
    targetClass: ex.T
    propertyConstraints:
      ex.a:
        nested:
          propertyConstraints:
            ex.c:
              minCount: 1
          or:
            - propertyConstraints:
                zz.b:
                  minCount: 1
            - propertyConstraints:
                ex.a:
                  minCount: 1
`,
	// wide or: five alternatives, several with two branches, two prefixes, nested first / last
	`profile: Wide or
prefixes:
  ex: http://example.org/ns#
  zz: http://example.org/zz#
violation:
  - wide-or
warning:
  - wide-or-nested
validations:
  wide-or:
    targetClass: ex.T
    message: none of five
    or:
      - propertyConstraints:
          zz.b:
            minCount: 1
            maxCount: 1
      - propertyConstraints:
          ex.a:
            minCount: 2
          ex.c:
            minCount: 1
      - propertyConstraints:
          ex.c:
            minCount: 2
          zz.b:
            in: [ lit-b0, lit-b1 ]
      - propertyConstraints:
          ex.a:
            maxCount: 0
          ex.c:
            maxCount: 0
      - propertyConstraints:
          zz.b:
            minCount: 2
          ex.a:
            minCount: 1
  wide-or-nested:
    targetClass: ex.T
    or:
      - propertyConstraints:
          ex.a:
            nested:
              propertyConstraints:
                ex.c:
                  minCount: 1
                zz.b:
                  minCount: 1
      - propertyConstraints:
          ex.c:
            nested:
              propertyConstraints:
                ex.a:
                  minCount: 1
          zz.b:
            minCount: 3
      - propertyConstraints:
          zz.b:
            minCount: 1
          ex.c:
            minCount: 1
      - propertyConstraints:
          ex.a:
            minCount: 1
          ex.c:
            maxCount: 0
      - propertyConstraints:
          ex.a:
            atLeast:
              count: 2
              validation:
                propertyConstraints:
                  ex.a:
                    minCount: 1
`,
	// wide and of ors (the complement shape)
	`profile: Wide and
prefixes:
  ex: http://example.org/ns#
  zz: http://example.org/zz#
violation:
  - wide-and
validations:
  wide-and:
    targetClass: ex.T
    and:
      - or:
          - propertyConstraints:
              ex.a:
                minCount: 1
          - propertyConstraints:
              zz.b:
                minCount: 1
      - or:
          - propertyConstraints:
              ex.c:
                minCount: 1
          - propertyConstraints:
              ex.a:
                maxCount: 0
      - or:
          - propertyConstraints:
              zz.b:
                maxCount: 1
          - propertyConstraints:
              ex.c:
                maxCount: 0
      - not:
          propertyConstraints:
            ex.a:
              minCount: 3
`,
}

// level lists holding stray entries that are not names (an entry left empty after commenting a name out, a number, a
// boolean): the parser skips them wherever they stand
const c15HandStray = `profile: Stray entries
prefixes:
  ex: http://example.org/ns#
  zz: http://example.org/zz#
violation:
  - needs-a
  - ~
  - needs-b
warning:
  - 404
  - needs-c
  - true
  - needs-a
info:
  -
  - needs-b
validations:
  needs-a:
    targetClass: ex.T
    message: a
    propertyConstraints:
      ex.a:
        minCount: 1
  needs-b:
    targetClass: ex.T
    message: b
    propertyConstraints:
      zz.b:
        minCount: 1
  needs-c:
    targetClass: ex.T
    message: c
    propertyConstraints:
      ex.c:
        minCount: 1
`

// embedded Rego that sets the message ($message) next to operands that do not, under two prefixes and in two operand orders
const c15HandRegoMessage = `profile: Rego message
prefixes:
  ex: http://example.org/ns#
  zz: http://example.org/zz#
violation:
  - b-or-a
  - two-regos
warning:
  - and-of-regos
validations:
  b-or-a:
    message: b or a expected
    targetClass: ex.T
    or:
      - propertyConstraints:
          zz.b:
            rego: |
              $message = "b must be exactly y when there is no a"
              $result = ($node == ["y"])
      - propertyConstraints:
          ex.a:
            rego: |
              $result = (count($node) > 3)
  two-regos:
    targetClass: ex.T
    or:
      - rego: |
          cs = object.get($node, "http://example.org/ns#c", [])
          $result = (count(cs) > 5)
      - rego: |
          bs = object.get($node, "http://example.org/zz#b", [])
          $message = "custom message of the second operand"
          $result = (count(bs) > 5)
  and-of-regos:
    targetClass: ex.T
    message: plain
    not:
      and:
        - propertyConstraints:
            ex.c:
              rego: |
                $result = (count($node) > 0)
        - propertyConstraints:
            zz.b:
              rego: |
                $message = "both c and b"
                $result = (count($node) > 0)
`

func c15HandWritten(e *core.Env, rc config.ReportConfiguration, summary func(string) (string, int), defaults []sx.V, mkGraph func(*rand.Rand) Graph) {
	datas, dnames := []string{}, []string{}
	for i := 0; i < e.Pick(3, 8); i++ {
		datas = append(datas, mkGraph(e.Rand).JSONLD())
		dnames = append(dnames, fmt.Sprintf("generated graph %d", i))
	}
	for i, p := range append(append([]string{}, c15Hand...), c15HandStray, c15HandRegoMessage) {
		c15Text(e, rc, summary, defaults, fmt.Sprintf("hand-written profile %d", i), "harness/props/c15.go c15Hand", "hand-written", "#%Validation Profile 1.0\n"+p, datas, dnames, e.Pick(10, 40))
	}
	// the built-in prefixes and a history: a profile that relies on the built-in prefix apiContract / core, the same profile
	// spelled with its own prefix for the same namespace, before and after ANOTHER profile that binds those prefix names to
	// other namespaces was compiled and used in the process - one verdict
	{
		res := e.Res
		const apiNS, coreNS = "http://a.ml/vocabularies/apiContract#", "http://a.ml/vocabularies/core#"
		body := func(api, core string) string {
			return "violation:\n  - named\nwarning:\n  - versioned\nvalidations:\n" +
				"  named:\n    targetClass: " + api + ".WebAPI\n    message: \"the API {{" + core + ".name}} needs a description\"\n    propertyConstraints:\n      " + core + ".description:\n        minCount: 1\n" +
				"  versioned:\n    targetClass: " + api + ".WebAPI\n    message: version\n    propertyConstraints:\n      " + api + ".endpoint / " + core + ".version:\n        minCount: 1\n"
		}
		builtinSpelling := "#%Validation Profile 1.0\nprofile: Builtin\n" + body("apiContract", "core")
		ownSpelling := "#%Validation Profile 1.0\nprofile: Builtin\nprefixes:\n  own-api: " + apiNS + "\n  9core: " + coreNS + "\n" + body("own-api", "9core")
		mixedSpelling := "#%Validation Profile 1.0\nprofile: Builtin\nprefixes:\n  zz: " + coreNS + "\n" + body("apiContract", "zz")
		rebinder := "#%Validation Profile 1.0\nprofile: Rebinder\nprefixes:\n  apiContract: http://acme.example/vocab/api#\n  core: http://acme.example/vocab/core#\n" + body("apiContract", "core")
		data := `{"@graph":[{"@id":"http://example.org/d#api1","@type":"` + apiNS + `WebAPI","` + coreNS + `name":"first"},
 {"@id":"http://example.org/d#api2","@type":"` + apiNS + `WebAPI","` + coreNS + `name":"second","` + coreNS + `description":"d","` + apiNS + `endpoint":{"@id":"http://example.org/d#e"}},
 {"@id":"http://example.org/d#e","` + coreNS + `version":"1"},
 {"@id":"http://example.org/d#other","@type":"http://acme.example/vocab/api#WebAPI","http://acme.example/vocab/core#name":"acme"}]}`
		run := func(p string) string {
			out, err := pkg.ValidateWithConfiguration(p, data, false, nil, clockA, rc)
			if err != nil {
				return "error: " + err.Error()
			}
			sm, _ := summary(out)
			return sm
		}
		ref := run(builtinSpelling)
		steps := []struct{ what, p string }{{"own prefixes for the same namespaces", ownSpelling}, {"one built-in prefix, one own prefix", mixedSpelling},
			{"ANOTHER profile binding apiContract / core elsewhere", rebinder}, {"the built-in spelling again", builtinSpelling}, {"own prefixes again", ownSpelling}, {"mixed again", mixedSpelling}}
		hist := []string{"Validate(profile relying on the built-in prefixes apiContract / core)"}
		for _, st := range steps {
			got := run(st.p)
			hist = append(hist, "Validate("+st.what+")")
			if st.p != rebinder && got != ref {
				res.Violate("impl-violates-property", "the same profile spelled with other prefixes for the same namespaces ("+st.what+") gives another verdict",
					map[string]any{"profile_builtin_spelling": builtinSpelling, "profile_this_spelling": st.p, "other_profile_in_the_history": rebinder, "data": data, "history": append([]string{}, hist...),
						"verdict_builtin_spelling_first": ref, "verdict_this_spelling": got})
				break
			}
			res.Case("builtin-prefix-history|"+st.what, strings.Contains(ref, "|"))
			res.Count("stream=builtin-prefix-history")
		}
	}
}
