package props

import (
	"fmt"
	"sync"
	"sync/atomic"
	"time"

	"github.com/aml-org/amf-custom-validator/pkg/events"
)

// Steering concurrent calls through the public event channel only: the listener of every call holds the call's first event
// of type `stage` until all the calls have reached it (or `wait` has passed: a call that fails before the stage never
// arrives); the calls are then released one after another in `order`, each running to completion (or for `wait`) before
// the next is released.  So every call has executed everything up to `stage` before any call executes what follows it -
// the interleaving in which state shared between calls, written before `stage` and read after it, is seen by the wrong call.
// Returns, per call, the report or "error: ..." / "panic: ...".
func parkedThenSerial(stage events.EventType, wait time.Duration, order []int, calls []func(ch *chan events.Event) (string, error)) []string {
	n := len(calls)
	outs := make([]string, n)
	var mu sync.Mutex
	flags := make([]int32, n)
	arrived := make(chan int, n)
	release := make([]chan struct{}, n)
	done := make([]chan struct{}, n)
	var wg sync.WaitGroup
	for i := 0; i < n; i++ {
		release[i] = make(chan struct{})
		done[i] = make(chan struct{})
		wg.Add(1)
		go func(i int) {
			defer wg.Done()
			defer close(done[i])
			ch := make(chan events.Event)
			fin := make(chan struct{})
			go func() {
				defer close(fin)
				for ev := range ch {
					if ev.EventType == stage && atomic.CompareAndSwapInt32(&flags[i], 0, 1) {
						arrived <- i
						select {
						case <-release[i]:
						case <-time.After(4 * wait):
						}
					}
				}
			}()
			o, err := func() (o string, err error) {
				defer func() {
					if r := recover(); r != nil {
						err = fmt.Errorf("panic: %v", r)
					}
				}()
				return calls[i](&ch)
			}()
			if err != nil {
				o = "error: " + err.Error()
			}
			if atomic.CompareAndSwapInt32(&flags[i], 0, 1) {
				arrived <- i // ended without reaching the stage
			}
			mu.Lock()
			outs[i] = o
			mu.Unlock()
			select {
			case <-fin:
			case <-time.After(wait):
			}
		}(i)
	}
	// wait until every call is parked at the stage, has ended, or the time is up
	deadline := time.After(wait)
	parked := 0
collect:
	for parked < n {
		select {
		case <-arrived:
			parked++
		case <-deadline:
			break collect
		}
	}
	for _, i := range order {
		close(release[i])
		select {
		case <-done[i]:
		case <-time.After(wait):
		}
	}
	fin := make(chan struct{})
	go func() { wg.Wait(); close(fin) }()
	select {
	case <-fin:
	case <-time.After(4 * wait):
	}
	mu.Lock()
	defer mu.Unlock()
	res := make([]string, n)
	for i := range outs {
		res[i] = outs[i]
		if res[i] == "" {
			res[i] = "blocked: the call has not returned"
		}
	}
	return res
}

var stageStarts = []events.EventType{events.ProfileParsingStart, events.InputDataParsingStart, events.InputDataNormalizationStart,
	events.RegoGenerationStart, events.RegoCompilationStart, events.OpaValidationStart, events.BuildReportStart}
var stageDones = []events.EventType{events.ProfileParsingDone, events.InputDataParsingDone, events.InputDataNormalizationDone,
	events.RegoGenerationDone, events.RegoCompilationDone, events.OpaValidationDone, events.BuildReportDone}
