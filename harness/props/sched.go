package props

import (
	"fmt"
	"strings"
	"sync"
	"sync/atomic"
	"time"

	"github.com/aml-org/amf-custom-validator/pkg/events"
)

// Steering concurrent calls through the public event channel only: the listener of every call holds the call's first event
// of type `stage` until all the calls have reached it (or `wait` has passed: a call that fails before the stage never
// arrives); the calls are then released one after another in `order`, each running to completion (or for `wait`) before
// the next is released.  So every call has executed everything up to `stage` before any call executes what follows it -
// the interleaving in which state shared between calls, written before `stage` and read after it, is seen by the wrong call.
// Returns, per call, the report or "error: ..." / "panic: ...".
func parkedThenSerial(stage events.EventType, wait time.Duration, order []int, calls []func(ch *chan events.Event) (string, error)) []string {
	start := make([]int, len(calls))
	for i := range start {
		start[i] = i
	}
	return startedThenSerial(stage, wait, start, order, calls)
}

// startedThenSerial: as parkedThenSerial, and the calls are STARTED one after the other in the order `start`, each only when
// the one before it is parked at the stage (or has ended): the order in which the calls pass the code before the stage is
// fixed as well as the order in which they pass the code after it.
func startedThenSerial(stage events.EventType, wait time.Duration, start []int, order []int, calls []func(ch *chan events.Event) (string, error)) []string {
	n := len(calls)
	outs := make([]string, n)
	var mu sync.Mutex
	flags := make([]int32, n)
	arrived := make(chan int, n)
	release := make([]chan struct{}, n)
	done := make([]chan struct{}, n)
	var wg sync.WaitGroup
	for i := 0; i < n; i++ {
		release[i] = make(chan struct{})
		done[i] = make(chan struct{})
	}
	deadline := time.After(wait * time.Duration(n))
	for _, i := range start {
		wg.Add(1)
		go func(i int) {
			defer wg.Done()
			defer close(done[i])
			ch := make(chan events.Event)
			fin := make(chan struct{})
			go func() {
				defer close(fin)
				for ev := range ch {
					if ev.EventType == stage && atomic.CompareAndSwapInt32(&flags[i], 0, 1) {
						arrived <- i
						select {
						case <-release[i]:
						case <-time.After(4 * wait):
						}
					}
				}
			}()
			o, err := func() (o string, err error) {
				defer func() {
					if r := recover(); r != nil {
						err = fmt.Errorf("panic: %v", r)
					}
				}()
				return calls[i](&ch)
			}()
			if err != nil {
				o = "error: " + err.Error()
			}
			if atomic.CompareAndSwapInt32(&flags[i], 0, 1) {
				arrived <- i // ended without reaching the stage
			}
			mu.Lock()
			outs[i] = o
			mu.Unlock()
			select {
			case <-fin:
			case <-time.After(wait):
			}
		}(i)
		// wait until this call is parked at the stage, has ended, or the time is up
		select {
		case <-arrived:
		case <-deadline:
		}
	}
	for _, i := range order {
		close(release[i])
		select {
		case <-done[i]:
		case <-time.After(wait):
		}
	}
	fin := make(chan struct{})
	go func() { wg.Wait(); close(fin) }()
	select {
	case <-fin:
	case <-time.After(4 * wait):
	}
	mu.Lock()
	defer mu.Unlock()
	res := make([]string, n)
	for i := range outs {
		res[i] = outs[i]
		if res[i] == "" {
			res[i] = "blocked: the call has not returned"
		}
	}
	return res
}

var stageStarts = []events.EventType{events.ProfileParsingStart, events.InputDataParsingStart, events.InputDataNormalizationStart,
	events.RegoGenerationStart, events.RegoCompilationStart, events.OpaValidationStart, events.BuildReportStart}
var stageDones = []events.EventType{events.ProfileParsingDone, events.InputDataParsingDone, events.InputDataNormalizationDone,
	events.RegoGenerationDone, events.RegoCompilationDone, events.OpaValidationDone, events.BuildReportDone}

// alignedCalls: n calls at once; the listener of every call holds the call's first event of type `stage` until all n calls
// have reached it (or 10 s), then all go on together - the calls enter the code after `stage` at the same moment.
func alignedCalls(stage events.EventType, n int, call func(w int, ch *chan events.Event) (string, error)) []string {
	outs := make([]string, n)
	bar := make(chan struct{})
	var arrived int32
	var awg sync.WaitGroup
	for w := 0; w < n; w++ {
		awg.Add(1)
		go func(w int) {
			defer awg.Done()
			ch := make(chan events.Event)
			fin := make(chan struct{})
			go func() {
				defer close(fin)
				held := false
				for ev := range ch {
					if ev.EventType == stage && !held {
						held = true
						if atomic.AddInt32(&arrived, 1) == int32(n) {
							close(bar)
						}
						select {
						case <-bar:
						case <-time.After(10 * time.Second):
						}
					}
				}
			}()
			o, err := func() (o string, err error) {
				defer func() {
					if r := recover(); r != nil {
						err = fmt.Errorf("panic: %v", r)
					}
				}()
				return call(w, &ch)
			}()
			if err != nil {
				o = "error: " + err.Error()
			}
			outs[w] = o
			select {
			case <-fin:
			case <-time.After(5 * time.Second):
			}
		}(w)
	}
	awg.Wait()
	return outs
}

// coldProfile: one validation with `k` sibling constraints written in DESCENDING order of their printed form (whatever
// order the translator prefers, it is not this one), and two or-operands in descending order; `tag` goes into a comment, so
// that the text is new to the process while the profile is the same.
func coldProfile(k int, tag string) string {
	var b strings.Builder
	b.WriteString(ProfileHeader + "# " + tag + "\nviolation:\n  - wide\nwarning:\n  - either\nvalidations:\n  wide:\n    targetClass: ex.Thing\n    message: wide\n    propertyConstraints:\n")
	for i := k - 1; i >= 0; i-- {
		fmt.Fprintf(&b, "      ex.p%02d:\n        minCount: 1\n", i)
	}
	b.WriteString("  either:\n    targetClass: ex.Thing\n    message: either\n    or:\n")
	for i := 9; i >= 0; i-- {
		fmt.Fprintf(&b, "      - propertyConstraints:\n          ex.q%d:\n            minCount: 1\n", i)
	}
	return b.String()
}
