package props

import (
	"fmt"
	"strings"
	"sync"
	"sync/atomic"
	"time"

	"github.com/aml-org/amf-custom-validator/pkg/events"
)

// Steering concurrent calls through the public event channel only.  A call is blocked only while it SENDS an event (the
// channel is unbuffered), so a listener cannot stop a call "at" an event it has already received: the code that follows that
// event is running by then.  What a listener can do is stop RECEIVING: `after` names the last event the listener takes before
// it stops (beforeFirst = it takes none), so the call runs up to its next send and stays inside it - e.g. after =
// ProfileParsingDone parks a call inside the send of RegoGenerationStart, i.e. before any code of Rego generation has run.
// A call that ends (fails) before that point counts as arrived.
const beforeFirst events.EventType = -1

// parkedThenSerial: every call is parked as described; the calls are then released one after another in `order`, each running
// to completion (or for `wait`) before the next is released.  So every call has executed everything up to the parking point
// before any call executes what follows it - the interleaving in which state shared between calls, written before that point
// and read after it, is seen by the wrong call.  Returns, per call, the report or "error: ..." / "panic: ...".
func parkedThenSerial(after events.EventType, wait time.Duration, order []int, calls []func(ch *chan events.Event) (string, error)) []string {
	start := make([]int, len(calls))
	for i := range start {
		start[i] = i
	}
	return startedThenSerial(after, wait, start, order, calls)
}

// startedThenSerial: as parkedThenSerial, and the calls are STARTED one after the other in the order `start`, each only when
// the one before it is parked (or has ended): the order in which the calls pass the code before the stage is
// fixed as well as the order in which they pass the code after it.  order == nil: released all at once (startedThenTogether).
func startedThenSerial(after events.EventType, wait time.Duration, start []int, order []int, calls []func(ch *chan events.Event) (string, error)) []string {
	return startedThenReleased(after, wait, start, order, 0, calls)
}

// startedThenReleased: the general form; order == nil releases all calls, `gap` apart (0 = at once).
func startedThenReleased(after events.EventType, wait time.Duration, start []int, order []int, gap time.Duration, calls []func(ch *chan events.Event) (string, error)) []string {
	n := len(calls)
	outs := make([]string, n)
	var mu sync.Mutex
	flags := make([]int32, n)
	arrived := make(chan int, n)
	release := make([]chan struct{}, n)
	done := make([]chan struct{}, n)
	var wg sync.WaitGroup
	for i := 0; i < n; i++ {
		release[i] = make(chan struct{})
		done[i] = make(chan struct{})
	}
	deadline := time.After(wait * time.Duration(n))
	for _, i := range start {
		wg.Add(1)
		go func(i int) {
			defer wg.Done()
			defer close(done[i])
			ch := make(chan events.Event)
			fin := make(chan struct{})
			go func() {
				defer close(fin)
				hold := func() {
					if atomic.CompareAndSwapInt32(&flags[i], 0, 1) {
						arrived <- i
						select {
						case <-release[i]:
						case <-time.After(4 * wait):
						}
					}
				}
				if after == beforeFirst {
					hold()
				}
				for ev := range ch {
					if ev.EventType == after {
						hold() // nothing is received until the release: the call stays inside its next send
					}
				}
			}()
			o, err := func() (o string, err error) {
				defer func() {
					if r := recover(); r != nil {
						err = fmt.Errorf("panic: %v", r)
					}
				}()
				return calls[i](&ch)
			}()
			if err != nil {
				o = "error: " + err.Error()
			}
			if atomic.CompareAndSwapInt32(&flags[i], 0, 1) {
				arrived <- i // ended without reaching the stage
			}
			mu.Lock()
			outs[i] = o
			mu.Unlock()
			select {
			case <-fin:
			case <-time.After(wait):
			}
		}(i)
		// wait until this call is parked at the stage, has ended, or the time is up
		select {
		case <-arrived:
		case <-deadline:
		}
	}
	if order == nil {
		// all together: every call has passed the code before the parking point, one after the other; now they all run on
		for i := 0; i < n; i++ {
			close(release[i])
			if gap > 0 {
				t0 := time.Now()
				for time.Since(t0) < gap { // a busy wait: gaps are far below the timer resolution
				}
			}
		}
	}
	for _, i := range order {
		close(release[i])
		select {
		case <-done[i]:
		case <-time.After(wait):
		}
	}
	fin := make(chan struct{})
	go func() { wg.Wait(); close(fin) }()
	select {
	case <-fin:
	case <-time.After(4 * wait):
	}
	mu.Lock()
	defer mu.Unlock()
	res := make([]string, n)
	for i := range outs {
		res[i] = outs[i]
		if res[i] == "" {
			res[i] = "blocked: the call has not returned"
		}
	}
	return res
}

// startedThenTogether: n calls started one after the other (each when the one before is parked), then released at the same
// moment: whatever the earlier calls left behind before the parking point is there for the later ones, and all of them run
// the code after it concurrently.
func startedThenTogether(after events.EventType, wait time.Duration, n int, call func(w int, ch *chan events.Event) (string, error)) []string {
	return startedThenStaggered(after, wait, n, 0, call)
}

// startedThenStaggered: as startedThenTogether, the releases `gap` apart (the calls run the code after the parking point
// concurrently but out of step).
func startedThenStaggered(after events.EventType, wait time.Duration, n int, gap time.Duration, call func(w int, ch *chan events.Event) (string, error)) []string {
	start := make([]int, n)
	calls := make([]func(ch *chan events.Event) (string, error), n)
	for i := 0; i < n; i++ {
		i := i
		start[i] = i
		calls[i] = func(ch *chan events.Event) (string, error) { return call(i, ch) }
	}
	return startedThenReleased(after, wait, start, nil, gap, calls)
}

var stageStarts = []events.EventType{events.ProfileParsingStart, events.InputDataParsingStart, events.InputDataNormalizationStart,
	events.RegoGenerationStart, events.RegoCompilationStart, events.OpaValidationStart, events.BuildReportStart}
var stageDones = []events.EventType{events.ProfileParsingDone, events.InputDataParsingDone, events.InputDataNormalizationDone,
	events.RegoGenerationDone, events.RegoCompilationDone, events.OpaValidationDone, events.BuildReportDone}

// alignedCalls: n calls at once; the listener of every call stops receiving after the event `after` (see above) until all n
// calls have got there (or 10 s), then all go on together - the calls enter the code behind their next event at the same moment.
func alignedCalls(after events.EventType, n int, call func(w int, ch *chan events.Event) (string, error)) []string {
	outs := make([]string, n)
	bar := make(chan struct{})
	var arrived int32
	var awg sync.WaitGroup
	for w := 0; w < n; w++ {
		awg.Add(1)
		go func(w int) {
			defer awg.Done()
			ch := make(chan events.Event)
			fin := make(chan struct{})
			go func() {
				defer close(fin)
				held := false
				hold := func() {
					if !held {
						held = true
						if atomic.AddInt32(&arrived, 1) == int32(n) {
							close(bar)
						}
						select {
						case <-bar:
						case <-time.After(10 * time.Second):
						}
					}
				}
				if after == beforeFirst {
					hold()
				}
				for ev := range ch {
					if ev.EventType == after {
						hold()
					}
				}
			}()
			o, err := func() (o string, err error) {
				defer func() {
					if r := recover(); r != nil {
						err = fmt.Errorf("panic: %v", r)
					}
				}()
				return call(w, &ch)
			}()
			if err != nil {
				o = "error: " + err.Error()
			}
			outs[w] = o
			select {
			case <-fin:
			case <-time.After(5 * time.Second):
			}
		}(w)
	}
	awg.Wait()
	return outs
}

// coldProfile: one validation with `k` sibling constraints written in DESCENDING order of their printed form (whatever
// order the translator prefers, it is not this one), and two or-operands in descending order; `tag` goes into a comment, so
// that the text is new to the process while the profile is the same.
func coldProfile(k int, tag string) string {
	var b strings.Builder
	b.WriteString(ProfileHeader + "# " + tag + "\nviolation:\n  - wide\nwarning:\n  - either\nvalidations:\n  wide:\n    targetClass: ex.Thing\n    message: wide\n    propertyConstraints:\n")
	for i := k - 1; i >= 0; i-- {
		fmt.Fprintf(&b, "      ex.p%02d:\n        minCount: 1\n", i)
	}
	b.WriteString("  either:\n    targetClass: ex.Thing\n    message: either\n    or:\n")
	for i := 9; i >= 0; i-- {
		fmt.Fprintf(&b, "      - propertyConstraints:\n          ex.q%d:\n            minCount: 1\n", i)
	}
	return b.String()
}
