package props

import (
	"context"
	"encoding/json"
	"fmt"
	"regexp"
	"sort"
	"time"

	"github.com/aml-org/amf-custom-validator/internal/validator"
	"github.com/aml-org/amf-custom-validator/pkg"
	"github.com/aml-org/amf-custom-validator/pkg/config"
	"github.com/aml-org/amf-custom-validator/verifh/core"
	"github.com/aml-org/amf-custom-validator/verifh/sx"
	"github.com/open-policy-agent/opa/rego"
)

// jsonSx renders a value of the engine's result (maps, arrays, strings, json.Number, booleans, nil) as the model's json.
func jsonSx(v any) (sx.V, bool) {
	switch x := v.(type) {
	case nil:
		return sx.L(sx.A("null")), true
	case bool:
		return sx.L(sx.A("bool"), sx.B(x)), true
	case json.Number:
		return sx.L(sx.A("num"), sx.S(string(x))), true
	case string:
		return sx.L(sx.A("str"), sx.S(x)), true
	case []any:
		items := []sx.V{sx.A("arr")}
		for _, e := range x {
			s, ok := jsonSx(e)
			if !ok {
				return sx.V{}, false
			}
			items = append(items, s)
		}
		return sx.L(items...), true
	case map[string]any:
		keys := make([]string, 0, len(x))
		for k := range x {
			keys = append(keys, k)
		}
		sort.Sort(sort.Reverse(sort.StringSlice(keys))) // any order will do: the model sorts; reversed on purpose
		items := []sx.V{sx.A("obj")}
		for _, k := range keys {
			s, ok := jsonSx(x[k])
			if !ok {
				return sx.V{}, false
			}
			items = append(items, sx.L(sx.S(k), s))
		}
		return sx.L(items...), true
	}
	return sx.V{}, false
}

type reportTextStats struct{ Compared, Mismatches int }

var reportTextCheckers = map[*core.Env]*reportTextStats{}

func rtFor(e *core.Env) *reportTextStats {
	if t, ok := reportTextCheckers[e]; ok {
		return t
	}
	t := &reportTextStats{}
	reportTextCheckers[e] = t
	return t
}

// reportTextCheck evaluates the compiled policy on the data itself, hands the value to the Coq model of BuildReport
// (ReportJson.build_report_text) and compares the answer, byte for byte, with the report the library returned for the same call.
func reportTextCheck(e *core.Env, label string, q *rego.PreparedEvalQuery, data string, clock time.Time, rc config.ReportConfiguration, libraryReport string, replay map[string]any) bool {
	st := rtFor(e)
	norm, err := validator.ProcessInput(data, false, nil)
	if err != nil {
		return false
	}
	rs, err := q.Eval(context.Background(), rego.EvalInput(norm))
	if err != nil || len(rs) == 0 || len(rs[0].Expressions) == 0 {
		return false
	}
	val, ok := jsonSx(rs[0].Expressions[0].Value)
	if !ok {
		return false
	}
	ans, derr := e.Driver.Eval(sx.L(sx.A("report"), sx.A("text"), val, sx.B(rc.IncludeReportCreationTime), sx.S(clock.Format(time.RFC3339)), sx.S(rc.ReportSchemaIri), sx.S(rc.LexicalSchemaIri)))
	if derr != nil {
		e.Res.Violate("harness-error", "the driver did not answer a report request ("+label+"): "+core.Trunc(derr.Error(), 300), map[string]any{"no_failing_input_found": true, "broken": "driver"})
		return false
	}
	if !ans.IsL || len(ans.List) != 2 {
		st.Mismatches++
		if st.Mismatches <= 3 {
			r := map[string]any{"no_failing_input_found": true, "broken": "correspondence ReportJson.build_report_text vs validator.BuildReport (the model says the builder panics)"}
			for k, v := range replay {
				r[k] = v
			}
			e.Res.Violate("model-mismatch", "the Coq model of the report builder refuses a result the library built a report from ("+label+")", r)
		}
		return false
	}
	st.Compared++
	want := ans.List[1].Text()
	if want != libraryReport {
		st.Mismatches++
		if st.Mismatches <= 3 {
			line, got, exp := firstDifference(libraryReport, want)
			r := map[string]any{"no_failing_input_found": true, "broken": "correspondence ReportJson.build_report_text vs validator.BuildReport (bytes of the report)",
				"line": line, "library": core.Trunc(got, 500), "model": core.Trunc(exp, 500)}
			for k, v := range replay {
				r[k] = v
			}
			e.Res.Violate("model-mismatch", fmt.Sprintf("the bytes of the report differ from the Coq model of the report builder (%s) at line %d", label, line), r)
		}
		return false
	}
	return true
}

func (t *reportTextStats) summary() string {
	return fmt.Sprintf("report bytes: %d reports equal to ReportJson.build_report_text byte for byte", t.Compared-t.Mismatches)
}

var reDateCreated = regexp.MustCompile(`"dateCreated": "([^"]*)"`)

// reportTextCheckProfile: the same for a call that was given the profile text.  With defaultClock the library stamped the report
// with the wall clock: that one field is read off the report, everything else is compared.
func reportTextCheckProfile(e *core.Env, label, profile, data string, clock time.Time, defaultClock bool, rc config.ReportConfiguration, libraryReport string, replay map[string]any) bool {
	q, err := pkg.CompileProfile(profile, false, nil)
	if err != nil {
		return false
	}
	if defaultClock {
		m := reDateCreated.FindStringSubmatch(libraryReport)
		if m == nil {
			return false
		}
		t, perr := time.Parse(time.RFC3339, m[1])
		if perr != nil || t.Format(time.RFC3339) != m[1] {
			return false
		}
		clock = t
	}
	return reportTextCheck(e, label, q, data, clock, rc, libraryReport, replay)
}
