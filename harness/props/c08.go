package props

import (
	"context"
	"fmt"
	"net"
	"net/http"
	"sort"
	"strings"
	"sync/atomic"
	"time"

	"github.com/aml-org/amf-custom-validator/internal/validator"
	"github.com/aml-org/amf-custom-validator/pkg"
	"github.com/aml-org/amf-custom-validator/pkg/events"
	"github.com/aml-org/amf-custom-validator/verifh/core"
	"github.com/open-policy-agent/opa/ast"
	"github.com/open-policy-agent/opa/rego"
	"github.com/open-policy-agent/opa/types"
)

type recordingTransport struct{ hits *int64 }

func (t recordingTransport) RoundTrip(r *http.Request) (*http.Response, error) {
	atomic.AddInt64(t.hits, 1)
	return nil, fmt.Errorf("network access attempted by the policy: %s", r.URL)
}

// dangerous calls, each well-typed, binding R
var c08Calls = map[string]string{
	"http.send":          `R := http.send({"method": "get", "url": "http://127.0.0.1:9/x"})`,
	"net.lookup_ip_addr": `R := net.lookup_ip_addr("localhost")`,
	"opa.runtime":        `R := opa.runtime()`,
	"rego.parse_module":  `R := rego.parse_module("x.rego", "package x")`,
	"walk":               `walk(input, R)`,
}

// syntactic shapes of a call inside a rule body (X = the call statement)
func c08Shapes(b, call string) map[string]string {
	shapes := map[string]string{
		"statement":     call,
		"comprehension": "cs := [ R | " + call + " ]\n      count(cs) >= 0",
		"set-compr":     "cs := { 1 | " + call + " }\n      count(cs) >= 0",
		"negated":       "not c08_absent\n      " + call,
		"every":         "every i in [1] { i > 0; " + call + " }",
		// a future keyword used as an ordinary identifier: the module does not even parse with the keywords imported -
		// the profile must still be rejected (for whatever reason), never compiled some other way
		"kw-every-var": "every := count([1])\n      " + call,
		"kw-in-var":    "in := count([1])\n      " + call,
		"kw-if-var":    "if := count([1])\n      " + call,
	}
	if b != "walk" {
		fn := b
		args := call[strings.Index(call, "(")+1 : strings.LastIndex(call, ")")]
		_ = args
		shapes["with-target"] = "R := count([1]) with count as " + fn
		shapes["nested-arg"] = "R2 := json.marshal(" + strings.TrimPrefix(call, "R := ") + ")"
	} else {
		shapes["with-target"] = "R := count([1]) with count as walk"
	}
	return shapes
}

func c08Profile(name string, validationBody string, extensions string) string {
	p := "#%Validation Profile 1.0\nprofile: " + name + "\nprefixes:\n  ex: http://example.org/ns#\n"
	if extensions != "" {
		p += "rego_extensions: |\n"
		for _, l := range strings.Split(extensions, "\n") {
			p += "  " + l + "\n"
		}
	}
	p += "violation:\n  - v\nvalidations:\n  v:\n    targetClass: ex.Thing\n    message: m\n" + validationBody
	return p
}

func indent(s string, n int) string {
	pad := strings.Repeat(" ", n)
	out := []string{}
	for _, l := range strings.Split(s, "\n") {
		out = append(out, pad+strings.TrimLeft(l, " "))
	}
	return strings.Join(out, "\n")
}

// c08Positions embeds a body (Rego statements ending with $result assignment) at every position the language offers.
func c08Positions(body string) map[string]string {
	code := body + "\n$result = (count([1]) > 5)"
	blk := func(n int) string { return indent(code, n) }
	return map[string]string{
		"inline-rego":       c08Profile("P", "    rego: |\n"+blk(6)+"\n", ""),
		"regoModule":        c08Profile("P", "    regoModule: |\n"+blk(6)+"\n", ""),
		"code-message":      c08Profile("P", "    rego:\n      message: custom\n      code: |\n"+blk(8)+"\n", ""),
		"under-property":    c08Profile("P", "    propertyConstraints:\n      ex.name:\n        rego: |\n"+blk(10)+"\n", ""),
		"under-nested":      c08Profile("P", "    propertyConstraints:\n      ex.child:\n        nested:\n          rego: |\n"+blk(12)+"\n", ""),
		"under-nested-prop": c08Profile("P", "    propertyConstraints:\n      ex.child:\n        nested:\n          propertyConstraints:\n            ex.name:\n              rego: |\n"+blk(16)+"\n", ""),
		"under-and":         c08Profile("P", "    and:\n      - propertyConstraints:\n          ex.name:\n            minCount: 1\n      - rego: |\n"+blk(10)+"\n", ""),
		"under-or-not":      c08Profile("P", "    or:\n      - not:\n          rego: |\n"+blk(12)+"\n      - propertyConstraints:\n          ex.name:\n            minCount: 1\n", ""),
		"under-then":        c08Profile("P", "    if:\n      propertyConstraints:\n        ex.name:\n          minCount: 1\n    then:\n      rego: |\n"+blk(8)+"\n", ""),
		"under-else-only":   c08Profile("P", "    if:\n      propertyConstraints:\n        ex.name:\n          minCount: 1\n    then:\n      propertyConstraints:\n        ex.name:\n          maxCount: 3\n    else:\n      rego: |\n"+blk(8)+"\n", ""),
		"under-else-or":     c08Profile("P", "    if:\n      propertyConstraints:\n        ex.name:\n          minCount: 1\n    then:\n      propertyConstraints:\n        ex.name:\n          maxCount: 3\n    else:\n      or:\n        - propertyConstraints:\n            ex.name:\n              minCount: 2\n        - propertyConstraints:\n            ex.child:\n              nested:\n                rego:\n                  message: custom\n                  code: |\n"+blk(20)+"\n", ""),
		"under-if":          c08Profile("P", "    if:\n      rego: |\n"+blk(8)+"\n    then:\n      propertyConstraints:\n        ex.name:\n          minCount: 1\n", ""),
		"under-atLeast":     c08Profile("P", "    propertyConstraints:\n      ex.child:\n        atLeast:\n          count: 1\n          validation:\n            rego: |\n"+blk(14)+"\n", ""),
		"helper-called":     c08Profile("P", "    rego: |\n      c08_helper(1)\n      $result = false\n", "c08_helper(x) {\n"+indent(body, 2)+"\n}"),
		"helper-unused":     c08Profile("P", "    propertyConstraints:\n      ex.name:\n        minCount: 1\n", "c08_helper(x) {\n"+indent(body, 2)+"\n}"),
		"helper-rule":       c08Profile("P", "    propertyConstraints:\n      ex.name:\n        minCount: 1\n", "c08_value = R {\n"+indent(body, 2)+"\n}"),
	}
}

// sampleArg builds a well-typed literal for a built-in's parameter type.
func sampleArg(t types.Type) string {
	switch x := t.(type) {
	case types.String:
		return `"a"`
	case types.Number:
		return "1"
	case types.Boolean:
		return "true"
	case types.Null:
		return "null"
	case *types.Array:
		return "[]"
	case *types.Object:
		return "{}"
	case *types.Set:
		return "set()"
	case types.Any:
		if len(x) > 0 {
			return sampleArg(x[0])
		}
		return "1"
	case *types.Function:
		return "1"
	}
	if nt, ok := t.(interface{ Type() types.Type }); ok {
		return sampleArg(nt.Type())
	}
	return "1"
}

func C08(e *core.Env) {
	res := e.Res
	res.Rule = "cases = (dangerous built-in, embedding position, call shape, debug flag): 5 built-ins x 16 positions (inline rego, regoModule, code/message form, under a property path, under nested, nested + property, and / or+not / if / then / else only / else + or + nested code-message / atLeast, rego_extensions helper called / unused / as a complete rule) x up to 10 call shapes (statement, array and set comprehension, after a negation, every, nested as an argument, function value of a `with`, after a future keyword used as a variable name - where any rejection counts) x debug in {false, true}; each profile must be rejected by CompileProfile and by Validate, with zero outbound HTTP attempts (recording transport); exhaustive over the listed sets; interleavings: 5 built-ins x 3 positions x 5 stage events of the probing compilation at which the listener runs a complete compilation and validation of an innocent profile, and GenerateRego + CompileRego called directly afterwards: still rejected; " +
		"plus one well-typed probing profile per built-in of the linked engine (187): the set rejected as unsafe must equal the deny-list read from the source; non-trivial = every case; distinct by (built-in, position, shape, debug)"
	var hits int64
	// the engine's http.send clones http.DefaultTransport (it must stay a *http.Transport): every connection attempt is
	// recorded and refused at the dialer; the default client gets the recording round tripper as well
	http.DefaultTransport = &http.Transport{Proxy: nil, DialContext: func(ctx context.Context, network, addr string) (net.Conn, error) {
		atomic.AddInt64(&hits, 1)
		return nil, fmt.Errorf("network access attempted by the policy: %s %s", network, addr)
	}}
	http.DefaultClient.Transport = recordingTransport{&hits}
	net.DefaultResolver = &net.Resolver{PreferGo: true, Dial: func(ctx context.Context, network, addr string) (net.Conn, error) {
		atomic.AddInt64(&hits, 1)
		return nil, fmt.Errorf("name resolution over the network attempted by the policy: %s %s", network, addr)
	}}
	builtins := []string{}
	for b := range c08Calls {
		builtins = append(builtins, b)
	}
	sort.Strings(builtins)
	data := PoolDataBad
	n := 0
	for _, b := range builtins {
		shapes := c08Shapes(b, c08Calls[b])
		snames := []string{}
		for s := range shapes {
			snames = append(snames, s)
		}
		sort.Strings(snames)
		for _, s := range snames {
			positions := c08Positions(shapes[s])
			pnames := []string{}
			for p := range positions {
				pnames = append(pnames, p)
			}
			sort.Strings(pnames)
			for _, pos := range pnames {
				profile := positions[pos]
				if s == "every" && strings.HasPrefix(pos, "helper") {
					continue // rego_extensions precede the import of the future keywords
				}
				for _, debug := range []bool{false, true} {
					n++
					var cerr, verr error
					var out string
					func() {
						defer func() {
							if r := recover(); r != nil {
								cerr = fmt.Errorf("panic: %v", r)
								verr = cerr
							}
						}()
						_, cerr = pkg.CompileProfile(profile, debug, nil)
						out, verr = pkg.Validate(profile, data, debug, nil)
					}()
					replay := map[string]any{"builtin": b, "position": pos, "shape": s, "debug": debug, "profile": profile, "data": data}
					if cerr == nil || verr == nil {
						replay["report"] = core.Trunc(out, 800)
						replay["outbound_http_attempts"] = atomic.LoadInt64(&hits)
						res.Violate("impl-violates-property", fmt.Sprintf("a profile calling %s (%s, %s, debug=%v) is accepted", b, pos, s, debug), replay)
					} else if !strings.Contains(cerr.Error(), "unsafe") && !strings.HasPrefix(s, "kw-") {
						// rejected, but for another reason: the probe is not doing its job
						replay["error"] = core.Trunc(cerr.Error(), 600)
						replay["no_failing_input_found"] = true
						replay["broken"] = "C08 probe: the profile is rejected for a reason other than the unsafe built-in (fix the generator)"
						res.Violate("harness-error", fmt.Sprintf("probe %s/%s/%s rejected for another reason: %s", b, pos, s, core.Trunc(cerr.Error(), 200)), replay)
					}
					res.Case(fmt.Sprintf("%s|%s|%s|%v", b, pos, s, debug), true)
					res.Count("builtin=" + b)
					if n == 17 {
						res.Sample(map[string]any{"builtin": b, "position": pos, "shape": s, "debug": debug, "profile": profile, "error": core.Trunc(fmt.Sprint(cerr), 300)})
					}
				}
			}
		}
	}
	if h := atomic.LoadInt64(&hits); h != 0 {
		res.Violate("impl-violates-property", fmt.Sprintf("%d outbound HTTP attempts were made while compiling / validating the probing profiles", h), map[string]any{"attempts": h})
	}
	// other calls in between: at each stage event of the compilation of a probing profile, the listener runs a complete
	// compilation and validation of an innocent profile (the probing call is blocked on its event meanwhile); and the two
	// halves of a compilation called directly (GenerateRego, CompileRego) after other compilations have completed
	for _, b := range builtins {
		for _, pos := range []string{"inline-rego", "under-nested-prop", "helper-rule"} {
			profile := c08Positions(c08Calls[b])[pos]
			for _, stage := range []events.EventType{events.ProfileParsingStart, events.ProfileParsingDone, events.RegoGenerationStart, events.RegoGenerationDone, events.RegoCompilationStart} {
				ch := make(chan events.Event)
				fin := make(chan struct{})
				go func() {
					defer close(fin)
					for ev := range ch {
						if ev.EventType == stage {
							pkg.CompileProfile(PoolProfileMin, false, nil)
							pkg.Validate(PoolProfileLevels, data, false, nil)
						}
					}
				}()
				var cerr error
				var q *rego.PreparedEvalQuery
				func() {
					defer func() {
						if r := recover(); r != nil {
							cerr = fmt.Errorf("panic: %v", r)
						}
					}()
					q, cerr = pkg.CompileProfile(profile, false, &ch)
				}()
				select {
				case <-fin:
				case <-time.After(5 * time.Second):
				}
				if cerr == nil {
					replay := map[string]any{"builtin": b, "position": pos, "profile": profile, "data": data,
						"schedule": "CompileProfile(profile) with an event channel; when the listener receives " + eventName(stage) + " it runs CompileProfile and Validate of an innocent profile to completion, then lets the call go on", "innocent_profile": PoolProfileMin}
					if q != nil {
						func() {
							defer func() {
								if r := recover(); r != nil {
									replay["validate_panic"] = fmt.Sprint(r)
								}
							}()
							out, verr := pkg.ValidateCompiled(q, data, false, nil)
							replay["report"] = core.Trunc(out, 600)
							replay["validate_error"] = fmt.Sprint(verr)
						}()
					}
					replay["outbound_http_attempts"] = atomic.LoadInt64(&hits)
					res.Violate("impl-violates-property", fmt.Sprintf("a profile calling %s (%s) is accepted when another profile is compiled during its %s event", b, pos, eventName(stage)), replay)
				}
				res.Case(fmt.Sprintf("interleaved|%s|%s|%s", b, pos, eventName(stage)), true)
				res.Count("stream=interleaved-compilation")
			}
			// the two halves called directly
			unit, gerr := validator.GenerateRego(profile, false, nil)
			if gerr == nil {
				_, cerr := validator.CompileRego(unit, nil)
				if cerr == nil {
					res.Violate("impl-violates-property", fmt.Sprintf("the generated code of a profile calling %s (%s) is accepted by CompileRego called directly", b, pos),
						map[string]any{"builtin": b, "position": pos, "profile": profile, "history": "many compilations in this process, then GenerateRego(profile) and CompileRego(unit) called directly"})
				}
			}
			res.Case(fmt.Sprintf("direct-halves|%s|%s", b, pos), true)
			res.Count("stream=direct-halves")
		}
	}
	if h := atomic.LoadInt64(&hits); h != 0 {
		res.Violate("impl-violates-property", fmt.Sprintf("%d outbound HTTP attempts were made during the interleaved compilations", h), map[string]any{"attempts": h})
	}
	// every built-in of the linked engine: which ones does the compile step refuse as unsafe?
	deny := map[string]bool{}
	if l, ok := e.Facts["deny"].([]any); ok {
		for _, x := range l {
			deny[fmt.Sprint(x)] = true
		}
	}
	refused := map[string]bool{}
	for _, b := range ast.Builtins {
		if b.Infix != "" || b.Relation || b.Decl == nil {
			if !b.Relation {
				continue
			}
		}
		args := []string{}
		for _, a := range b.Decl.FuncArgs().Args {
			args = append(args, sampleArg(a))
		}
		call := "R := " + b.Name + "(" + strings.Join(args, ", ") + ")"
		if b.Relation {
			call = b.Name + "(" + strings.Join(append(args, "R"), ", ") + ")"
		}
		if b.Decl.Result() == nil && !b.Relation {
			call = b.Name + "(" + strings.Join(args, ", ") + ")"
		}
		profile := c08Profile("Probe", "    rego: |\n      "+call+"\n      $result = false\n", "")
		_, err := pkg.CompileProfile(profile, false, nil)
		res.Case("probe|"+b.Name, true)
		if err != nil && strings.Contains(err.Error(), "unsafe built-in function calls") {
			refused[b.Name] = true
		}
	}
	for name := range deny {
		if !refused[name] {
			res.Violate("impl-violates-property", "the deny-listed built-in "+name+" is not refused by the compile step", map[string]any{"builtin": name, "probe": "R := " + name + "(...) as inline rego"})
		}
	}
	for name := range refused {
		if !deny[name] {
			res.Violate("model-mismatch", "the compile step refuses "+name+" which the deny-list read from the source does not contain", map[string]any{"no_failing_input_found": true, "broken": "F-deny vs behaviour", "builtin": name})
		}
	}
	res.Distribution["builtins-probed"] = len(ast.Builtins)
	res.Distribution["refused-as-unsafe"] = len(refused)
	res.Exhaustive = true
}
