package props

import (
	"encoding/json"
	"fmt"
	"math/rand"
	"sort"
	"strings"

	"github.com/aml-org/amf-custom-validator/verifh/sx"
)

// ------------------------------------------------------------------------------------ graphs

type GVal struct {
	Kind string // s | i | b | r
	S    string
	I    int
	B    bool
}

func VS(s string) GVal  { return GVal{Kind: "s", S: s} }
func VI(i int) GVal     { return GVal{Kind: "i", I: i} }
func VB(b bool) GVal    { return GVal{Kind: "b", B: b} }
func VR(id string) GVal { return GVal{Kind: "r", S: id} }

type GProp struct {
	Iri  string
	Vals []GVal
}

type GNode struct {
	ID    string
	Types []string
	Props []GProp
}

type Graph struct{ Nodes []GNode }

const DataNS = "http://example.org/d#"

func NodeID(i int) string { return fmt.Sprintf("%sn%d", DataNS, i) }

func (v GVal) JSON() any {
	switch v.Kind {
	case "s":
		return v.S
	case "i":
		return v.I
	case "b":
		return v.B
	}
	return map[string]any{"@id": v.S}
}

func (v GVal) Sx() sx.V {
	switch v.Kind {
	case "s":
		return sx.L(sx.A("s"), sx.S(v.S))
	case "i":
		return sx.L(sx.A("i"), sx.I(v.I))
	case "b":
		return sx.L(sx.A("b"), sx.B(v.B))
	}
	return sx.L(sx.A("r"), sx.S(v.S))
}

// JSONLD serialises the graph flat, with absolute IRIs (the form AMF emits).
func (g Graph) JSONLD() string {
	nodes := []any{}
	for _, n := range g.Nodes {
		m := map[string]any{"@id": n.ID}
		if len(n.Types) > 0 {
			m["@type"] = n.Types
		}
		for _, p := range n.Props {
			vals := []any{}
			for _, v := range p.Vals {
				vals = append(vals, v.JSON())
			}
			if len(vals) == 1 {
				m[p.Iri] = vals[0]
			} else {
				m[p.Iri] = vals
			}
		}
		nodes = append(nodes, m)
	}
	data, _ := json.Marshal(map[string]any{"@graph": nodes})
	return string(data)
}

func (g Graph) Sx() sx.V {
	items := []sx.V{sx.A("graph")}
	for _, n := range g.Nodes {
		props := []sx.V{}
		if len(n.Types) > 0 {
			tv := []sx.V{}
			for _, t := range n.Types {
				tv = append(tv, VS(t).Sx())
			}
			props = append(props, sx.L(sx.S("@type"), sx.L(tv...)))
		}
		for _, p := range n.Props {
			if len(p.Vals) == 0 {
				continue
			}
			vs := []sx.V{}
			for _, v := range p.Vals {
				vs = append(vs, v.Sx())
			}
			props = append(props, sx.L(sx.S(p.Iri), sx.L(vs...)))
		}
		items = append(items, sx.L(sx.A("node"), sx.S(n.ID), sx.L(props...)))
	}
	return sx.L(items...)
}

func (g Graph) IDs() []string {
	out := []string{}
	for _, n := range g.Nodes {
		out = append(out, n.ID)
	}
	return out
}

func idsSx(ids []string) sx.V {
	items := []sx.V{}
	for _, i := range ids {
		items = append(items, sx.S(i))
	}
	return sx.L(items...)
}

// RandomEdgeGraph: n nodes of class ex:T with random a/b/c edges (cycles, self loops, shared children),
// literal values next to links, dangling links.
func RandomEdgeGraph(r *rand.Rand, n int, preds []string, density float64) Graph {
	g := Graph{}
	for i := 0; i < n; i++ {
		node := GNode{ID: NodeID(i), Types: []string{ExNS + "T"}}
		if r.Intn(4) == 0 {
			node.Types = append(node.Types, ExNS+"U")
		}
		for _, p := range preds {
			vals := []GVal{}
			for j := 0; j < n; j++ {
				if r.Float64() < density {
					vals = append(vals, VR(NodeID(j)))
				}
			}
			switch r.Intn(7) {
			case 0:
				vals = append(vals, VS("lit-"+p+fmt.Sprint(i)))
			case 1:
				vals = append(vals, VI(i+1))
			case 2:
				vals = append(vals, VR(DataNS+"dangling"))
			case 3:
				vals = append(vals, VB(i%2 == 0))
			}
			if len(vals) > 0 {
				node.Props = append(node.Props, GProp{Iri: ExNS + p, Vals: vals})
			}
		}
		g.Nodes = append(g.Nodes, node)
	}
	return g
}

// ------------------------------------------------------------------------------------ paths

// Expand turns the compact IRIs of a path (ex.a) into the absolute IRIs the graph uses.
func (p PExp) Expanded() PExp {
	switch p.Kind {
	case "pred":
		iri := p.Iri
		if strings.HasPrefix(iri, "ex.") {
			iri = ExNS + iri[3:]
		}
		if strings.HasPrefix(iri, "apiExt.") {
			iri = "http://a.ml/vocabularies/api-extension#" + iri[7:]
		}
		return PExp{Kind: "pred", Iri: iri, Inv: p.Inv}
	}
	kids := []PExp{}
	for _, k := range p.Kids {
		kids = append(kids, k.Expanded())
	}
	return PExp{Kind: p.Kind, Kids: kids}
}

func (p PExp) Canon() string {
	return p.Render(func() string { return " " }, func() bool { return false })
}

// ------------------------------------------------------------------------------------ reports

type RResult struct {
	Severity string
	Name     string
	Focus    string
	Message  string
	Raw      map[string]any
}

type Report struct {
	Conforms bool
	Results  []RResult
	Node     map[string]any
	Doc      map[string]any
}

func ParseReport(text string) (*Report, error) {
	var doc []map[string]any
	if err := json.Unmarshal([]byte(text), &doc); err != nil {
		return nil, err
	}
	if len(doc) != 1 {
		return nil, fmt.Errorf("report is not a one-element array")
	}
	enc, ok := doc[0]["doc:encodes"].([]any)
	if !ok || len(enc) != 1 {
		return nil, fmt.Errorf("doc:encodes is not a one-element array")
	}
	node, ok := enc[0].(map[string]any)
	if !ok {
		return nil, fmt.Errorf("the node under doc:encodes is not an object")
	}
	rep := &Report{Node: node, Doc: doc[0]}
	rep.Conforms, _ = node["conforms"].(bool)
	if rs, ok := node["result"].([]any); ok {
		for i, r := range rs {
			m, ok := r.(map[string]any)
			if !ok {
				return nil, fmt.Errorf("result[%d] is not a result node but %v", i, r)
			}
			res := RResult{Raw: m}
			res.Severity, _ = m["resultSeverity"].(string)
			res.Name, _ = m["sourceShapeName"].(string)
			res.Focus, _ = m["focusNode"].(string)
			res.Message, _ = m["resultMessage"].(string)
			rep.Results = append(rep.Results, res)
		}
	}
	return rep, nil
}

// FocusByName groups the focus nodes of the results by validation name.
func (r *Report) FocusByName() map[string]map[string]bool {
	out := map[string]map[string]bool{}
	for _, x := range r.Results {
		if out[x.Name] == nil {
			out[x.Name] = map[string]bool{}
		}
		out[x.Name][x.Focus] = true
	}
	return out
}

func sortedKeys(m map[string]bool) []string {
	out := []string{}
	for k := range m {
		out = append(out, k)
	}
	sort.Strings(out)
	return out
}

func strsSx(l []string) sx.V {
	items := []sx.V{}
	for _, s := range l {
		items = append(items, sx.S(s))
	}
	return sx.L(items...)
}

const ProfileHeader = "#%Validation Profile 1.0\nprofile: gen\nprefixes:\n  ex: http://example.org/ns#\n"
