package props

import (
	"bytes"
	"context"
	"fmt"
	"os"
	"os/exec"
	"path/filepath"
	"regexp"
	"strings"
	"syscall"
	"time"

	"github.com/aml-org/amf-custom-validator/internal/parser/profile"
	"github.com/aml-org/amf-custom-validator/internal/validator"
	"github.com/aml-org/amf-custom-validator/verifh/core"
	"github.com/aml-org/amf-custom-validator/verifh/sx"
)

var dateRe = regexp.MustCompile(`"dateCreated": "[^"]*"`)

// normDate replaces the creation time (the only clock-dependent bytes) by a placeholder of the same length.
func normDate(s string) string {
	return dateRe.ReplaceAllStringFunc(s, func(m string) string {
		return `"dateCreated": "` + strings.Repeat("T", len(m)-len(`"dateCreated": ""`)) + `"`
	})
}

type cliRun struct {
	stdout string
	exit   int
}

func runCli(acv string, args ...string) cliRun {
	ctx, cancel := context.WithTimeout(context.Background(), 120*time.Second)
	defer cancel()
	cmd := exec.CommandContext(ctx, acv, args...)
	var out, errb bytes.Buffer
	cmd.Stdout = &out
	cmd.Stderr = &errb
	err := cmd.Run()
	code := 0
	if err != nil {
		if ee, ok := err.(*exec.ExitError); ok {
			code = ee.ExitCode()
		} else {
			code = -1
		}
	}
	return cliRun{stdout: out.String(), exit: code}
}

// runCliStdin: the same with a pipe as standard input (the text is written and the pipe closed).
func runCliStdin(acv string, stdin string, args ...string) cliRun {
	ctx, cancel := context.WithTimeout(context.Background(), 120*time.Second)
	defer cancel()
	cmd := exec.CommandContext(ctx, acv, args...)
	var out, errb bytes.Buffer
	cmd.Stdout = &out
	cmd.Stderr = &errb
	cmd.Stdin = strings.NewReader(stdin)
	err := cmd.Run()
	code := 0
	if err != nil {
		if ee, ok := err.(*exec.ExitError); ok {
			code = ee.ExitCode()
		} else {
			code = -1
		}
	}
	return cliRun{stdout: out.String(), exit: code}
}

// feedFifo creates a named pipe and writes text into it once a reader opens it (gives up after 10 s).
func feedFifo(path, text string) error {
	os.Remove(path)
	if err := syscall.Mkfifo(path, 0o644); err != nil {
		return err
	}
	go func() {
		deadline := time.Now().Add(60 * time.Second)
		for time.Now().Before(deadline) {
			f, err := os.OpenFile(path, os.O_WRONLY|syscall.O_NONBLOCK, 0)
			if err == nil {
				f.Write([]byte(text))
				f.Close()
				return
			}
			time.Sleep(5 * time.Millisecond)
		}
	}()
	return nil
}

func libV(text string, err error) sx.V {
	if err != nil {
		return sx.A("err")
	}
	return sx.L(sx.A("ok"), sx.S(text))
}

func cellV(kind string, content string) sx.V {
	switch kind {
	case "absent":
		return sx.A("absent")
	case "dir":
		return sx.A("dir")
	case "ro":
		return sx.L(sx.A("file"), sx.B(false), sx.S(content))
	}
	return sx.L(sx.A("file"), sx.B(true), sx.S(content))
}

// observeCell reads back the state of the output path as an s-expression of the model's fcell.
func observeCell(path string, wasRO bool) sx.V {
	st, err := os.Stat(path)
	if err != nil {
		return sx.A("absent")
	}
	if st.IsDir() {
		return sx.A("dir")
	}
	data, _ := os.ReadFile(path)
	return sx.L(sx.A("file"), sx.B(!wasRO), sx.S(normDate(string(data))))
}

func setCell(path, kind, content string) {
	os.RemoveAll(path)
	switch kind {
	case "absent":
	case "dir":
		os.Mkdir(path, 0o755)
	case "ro":
		os.WriteFile(path, []byte(content), 0o444)
	default:
		os.WriteFile(path, []byte(content), 0o644)
	}
}

// C18 drives the built `acv` binary and compares stdout / exit status / output-file bytes with
// Model.Cli.run evaluated on the library's own answer for the same texts.
func C18(e *core.Env) {
	res := e.Res
	res.Rule = "cases = (subcommand, argument count, profile, data, prior state of the output path) and histories of 2-4 runs into one path; PROFILE / DATA given as a named pipe or as /dev/stdin behind a pipe; a document with a 77 000-character string (validate, normalize); an output path whose writes fail (/dev/full); 9 KB leftover files next to the output path (OUTPUT.tmp, OUTPUT~, .bak, .part, a swap file) in every file case; " +
		"non-trivial = the command reaches the library and, for file output, the prior content differs from the new report; distinct by (command, profile, data, prior-state kind, history)"
	acv := filepath.Join(e.Scratch, "acv")
	build := exec.Command("go", "build", "-o", acv, "./cmd/main.go")
	build.Dir = e.Repo
	if out, err := build.CombinedOutput(); err != nil {
		res.Violate("harness-error", "cmd/main.go does not build", map[string]any{"output": string(out), "no_failing_input_found": true,
			"broken": "correspondence C18 (the CLI binary cannot be built)"})
		return
	}
	trunc, _ := e.Facts["cli_trunc"].(bool)
	work := filepath.Join(e.Scratch, "c18")
	os.MkdirAll(work, 0o755)
	write := func(name, text string) string {
		p := filepath.Join(work, name)
		os.WriteFile(p, []byte(text), 0o644)
		return p
	}
	type named struct{ name, text string }
	profiles := []named{{"min", PoolProfileMin}, {"levels", PoolProfileLevels}, {"special", PoolProfileSpecial}, {"broken", PoolProfileBroken}, {"badyaml", PoolProfileBadYaml}}
	// a document holding one very long string (longer than any line buffer a printer might use)
	longText := `{"@graph":[{"@id":"http://example.org/d#long","@type":"http://example.org/ns#Thing","http://example.org/ns#name":"` + strings.Repeat("long-value ", 7000) + `"}]}`
	datas := []named{{"good", PoolDataGood}, {"bad", PoolDataBad}, {"special", PoolDataSpecial}, {"empty", PoolDataEmpty}, {"garbage", PoolDataGarbage}, {"truncated", PoolDataTruncated}, {"long-line", longText},
		{"markup", `{"@graph":[{"@id":"http://example.org/d#q?a=1&b=2","@type":"http://example.org/ns#Thing","http://example.org/ns#name":"<b>bold</b> & more > less \u2028 \u00e9 \\ \" / \u0007","http://example.org/ns#child":{"@id":"http://example.org/d#<x>"}}]}`}}
	root := os.Geteuid() == 0
	if root {
		res.Note("running as root: a read-only prior file cannot be made unwritable, so the read-only prior state is exercised as a directory only")
	}

	check := func(key string, nontrivial bool, kase sx.V, actual sx.V, replay map[string]any) {
		res.Case(key, nontrivial)
		kase.List = append(kase.List, actual)
		ans, err := e.Driver.Eval(kase)
		if err != nil {
			res.Violate("harness-error", err.Error(), map[string]any{"case": kase.String(), "no_failing_input_found": true, "broken": "driver"})
			return
		}
		model, specOK := ans.List[0], ans.List[1].Atom == "1"
		replay["case"] = kase.String()
		replay["model"] = model.String()
		replay["impl"] = actual.String()
		if !specOK {
			// the implementation's own outcome fails the executable specification Cli.spec_run
			res.Violate("impl-violates-property", "acv outcome violates the property (Cli.spec_run = false): "+key, replay)
		} else if model.String() != actual.String() {
			replay["no_failing_input_found"] = true
			replay["broken"] = "correspondence Model.Cli.run vs acv (outcome differs although it satisfies the specification)"
			res.Violate("model-mismatch", "acv outcome differs from Model.Cli.run: "+key, replay)
		}
	}

	// validate: stdout and file variants
	for _, p := range profiles {
		pp := write("p_"+p.name+".yaml", p.text)
		for _, d := range datas {
			dp := write("d_"+d.name+".jsonld", d.text)
			libText, libErr := validator.Validate(p.text, d.text, false, nil)
			libText = normDate(libText)
			lib := libV(libText, libErr)
			res.Count(fmt.Sprintf("lib_ok=%v", libErr == nil))
			// stdout
			r := runCli(acv, "validate", pp, dp)
			check("validate-stdout/"+p.name+"/"+d.name, libErr == nil,
				sx.L(sx.A("c18"), sx.A("run"), sx.B(trunc), sx.A("validate"), sx.I(4), sx.B(true), lib, sx.A("absent")),
				sx.L(sx.A("out"), sx.S(normDate(r.stdout)), sx.I(r.exit), sx.A("absent")),
				map[string]any{"argv": []string{"validate", pp, dp}, "profile": p.text, "data": d.text})
			// file, every prior state
			priors := []named{{"absent", ""}, {"empty", ""}, {"shorter", "xx"}, {"same-length", strings.Repeat("y", len(libText))},
				{"longer", libText + strings.Repeat("z", 37)}, {"old-report", "{\n  \"old\": \"" + strings.Repeat("r", 4000) + "\"\n}\n"}, {"dir", ""}}
			if !root {
				priors = append(priors, named{"ro", "read only"})
			}
			for _, pr := range priors {
				outp := filepath.Join(work, "out.jsonld")
				kind := pr.name
				if kind != "absent" && kind != "dir" && kind != "ro" {
					kind = "file"
				}
				setCell(outp, kind, pr.text)
				// files NEXT TO the output path left behind by earlier runs or other tools (longer than any report here): whatever
				// the command does with them, the output path must end up holding exactly the report
				siblings := []string{outp + ".tmp", outp + "~", outp + ".bak", outp + ".part", filepath.Join(work, ".out.jsonld.swp"), filepath.Join(work, "out.jsonld.tmp.1"), filepath.Join(work, "out.tmp")}
				for _, sb := range siblings {
					os.WriteFile(sb, []byte("{\"leftover\": \""+strings.Repeat("s", 9000)+"\"}\n"), 0o644)
				}
				r := runCli(acv, "validate", pp, dp, outp)
				after := observeCell(outp, kind == "ro")
				for _, sb := range siblings {
					os.Remove(sb)
				}
				res.Count("prior=" + pr.name)
				check("validate-file/"+p.name+"/"+d.name+"/"+pr.name, libErr == nil && pr.text != libText,
					sx.L(sx.A("c18"), sx.A("run"), sx.B(trunc), sx.A("validate"), sx.I(5), sx.B(true), lib, cellV(kind, pr.text)),
					sx.L(sx.A("out"), sx.S(r.stdout), sx.I(r.exit), after),
					map[string]any{"argv": []string{"validate", pp, dp, outp}, "profile": p.text, "data": d.text, "prior_state": pr.name, "prior_content": core.Trunc(pr.text, 200)})
				os.Chmod(outp, 0o644)
				os.RemoveAll(outp)
			}
		}
	}

	// an output path on which every write fails (/dev/full: no space left on device): a failure, not a silent success
	// (reached through a symbolic link in the scratch directory: a command that REPLACES its output path - rename over it -
	// must not be able to replace the device node of a sandbox that runs as root; that happened once under a seeded change)
	fullLink := filepath.Join(work, "full-device")
	os.Remove(fullLink)
	if st, err := os.Stat("/dev/full"); err == nil && st.Mode()&os.ModeCharDevice != 0 && os.Symlink("/dev/full", fullLink) == nil && os.WriteFile(fullLink, []byte("x"), 0o644) != nil {
		for _, pd := range [][2]int{{0, 0}, {0, 1}, {1, 1}} {
			p, d := profiles[pd[0]], datas[pd[1]]
			pp := filepath.Join(work, "p_"+p.name+".yaml")
			dp := filepath.Join(work, "d_"+d.name+".jsonld")
			os.Remove(fullLink)
			os.Symlink("/dev/full", fullLink)
			r := runCli(acv, "validate", pp, dp, fullLink)
			res.Case("validate-file/"+p.name+"/"+d.name+"/dev-full", true)
			res.Count("prior=dev-full")
			if r.exit == 0 || r.stdout != "" {
				res.Violate("impl-violates-property", fmt.Sprintf("acv validate into an output path whose writes fail (/dev/full) ends with exit status %d: the report was not written and nothing says so", r.exit),
					map[string]any{"argv": []string{"validate", pp, dp, fullLink}, "output_path": "a symbolic link to /dev/full", "profile": p.text, "data": d.text, "exit": r.exit, "stdout": core.Trunc(r.stdout, 400)})
			}
		}
	} else {
		res.Note("/dev/full is not a character device whose writes fail here: the failing-output stream is skipped")
	}
	os.Remove(fullLink)
	os.Remove(fullLink + ".tmp")

	// PROFILE / DATA that are not regular files: a named pipe (what the shell's <(...) gives) and /dev/stdin behind a pipe
	for _, pd := range [][2]int{{0, 1}, {1, 0}, {2, 2}} {
		p, d := profiles[pd[0]], datas[pd[1]]
		pp := filepath.Join(work, "p_"+p.name+".yaml")
		dp := filepath.Join(work, "d_"+d.name+".jsonld")
		libText, libErr := validator.Validate(p.text, d.text, false, nil)
		lib := libV(normDate(libText), libErr)
		fifo := filepath.Join(work, "in.fifo")
		variants := []struct {
			name string
			run  func() cliRun
			argv []string
		}{
			{"data-fifo", func() cliRun {
				if feedFifo(fifo, d.text) != nil {
					return cliRun{exit: -2}
				}
				return runCli(acv, "validate", pp, fifo)
			}, []string{"validate", pp, "<named pipe carrying the data>"}},
			{"profile-fifo", func() cliRun {
				if feedFifo(fifo, p.text) != nil {
					return cliRun{exit: -2}
				}
				return runCli(acv, "validate", fifo, dp)
			}, []string{"validate", "<named pipe carrying the profile>", dp}},
			{"data-dev-stdin", func() cliRun { return runCliStdin(acv, d.text, "validate", pp, "/dev/stdin") }, []string{"validate", pp, "/dev/stdin  (data piped into standard input)"}},
		}
		for _, v := range variants {
			r := v.run()
			os.Remove(fifo)
			if r.exit == -2 {
				res.Note("named pipes cannot be created here: " + v.name + " skipped")
				continue
			}
			res.Count("input=" + v.name)
			check("validate-stdout/"+p.name+"/"+d.name+"/"+v.name, libErr == nil,
				sx.L(sx.A("c18"), sx.A("run"), sx.B(trunc), sx.A("validate"), sx.I(4), sx.B(true), lib, sx.A("absent")),
				sx.L(sx.A("out"), sx.S(normDate(r.stdout)), sx.I(r.exit), sx.A("absent")),
				map[string]any{"argv": v.argv, "profile": p.text, "data": d.text, "input_kind": v.name})
		}
	}

	// histories into one output path
	type step struct{ p, d int }
	histories := [][]step{
		{{1, 1}, {0, 0}}, {{0, 0}, {1, 1}}, {{1, 1}, {2, 0}, {0, 1}}, {{1, 1}, {0, 3}, {0, 0}, {1, 0}},
		{{0, 1}, {0, 1}}, {{1, 1}, {1, 2}, {0, 4}}, {{3, 0}, {1, 1}, {0, 0}},
	}
	n := e.Pick(4, 40)
	for i := 0; i < n; i++ {
		h := []step{}
		for j := 0; j < 2+e.Rand.Intn(3); j++ {
			h = append(h, step{e.Rand.Intn(len(profiles)), e.Rand.Intn(len(datas))})
		}
		histories = append(histories, h)
	}
	for hi, h := range histories {
		for _, start := range []string{"absent", "longer"} {
			outp := filepath.Join(work, "hist.jsonld")
			startText := ""
			kind := "absent"
			if start == "longer" {
				startText = strings.Repeat("q", 9000)
				kind = "file"
			}
			setCell(outp, kind, startText)
			libs := []sx.V{}
			desc := []string{}
			for _, s := range h {
				pp := filepath.Join(work, "p_"+profiles[s.p].name+".yaml")
				dp := filepath.Join(work, "d_"+datas[s.d].name+".jsonld")
				t, err := validator.Validate(profiles[s.p].text, datas[s.d].text, false, nil)
				libs = append(libs, libV(normDate(t), err))
				runCli(acv, "validate", pp, dp, outp)
				desc = append(desc, profiles[s.p].name+"+"+datas[s.d].name)
			}
			after := observeCell(outp, false)
			res.Case(fmt.Sprintf("history/%d/%s", hi, start), true)
			res.Count("history_len=" + fmt.Sprint(len(h)))
			kase := sx.L(sx.A("c18"), sx.A("history"), sx.B(trunc), cellV(kind, startText), sx.L(libs...), after)
			ans := e.Driver.MustEval(kase)
			// answer: (<model's final cell> <Cli.spec_history on the real final cell>)
			if ans.List[1].Atom != "1" {
				res.Violate("impl-violates-property", "output file after a history of runs is not the last report: "+strings.Join(desc, " ; "),
					map[string]any{"history": desc, "start": start, "model": ans.List[0].String(), "impl": after.String(), "case": kase.String()})
			} else if ans.List[0].String() != after.String() {
				res.Violate("model-mismatch", "output file after a history differs from Model.Cli.run_history: "+strings.Join(desc, " ; "),
					map[string]any{"history": desc, "start": start, "model": ans.List[0].String(), "impl": after.String(), "no_failing_input_found": true,
						"broken": "correspondence Model.Cli.run_history vs acv"})
			}
			os.RemoveAll(outp)
		}
	}
	res.Sample(map[string]any{"history": "levels+bad ; min+garbage ; min+good ; levels+good into one path, prior state: 9000 bytes"})

	// generate / normalize
	for _, p := range profiles {
		pp := filepath.Join(work, "p_"+p.name+".yaml")
		profile.GenReset()
		unit, err := validator.GenerateRego(p.text, false, nil)
		code := ""
		if err == nil {
			code = unit.Code
		}
		r := runCli(acv, "generate", pp)
		check("generate/"+p.name, err == nil,
			sx.L(sx.A("c18"), sx.A("run"), sx.B(trunc), sx.A("generate"), sx.I(3), sx.B(true), libV(code, err), sx.A("absent")),
			sx.L(sx.A("out"), sx.S(r.stdout), sx.I(r.exit), sx.A("absent")),
			map[string]any{"argv": []string{"generate", pp}, "profile": p.text})
		_, cerr := validator.ProcessProfile(p.text, false, nil)
		r = runCli(acv, "compile", pp)
		check("compile/"+p.name, cerr == nil,
			sx.L(sx.A("c18"), sx.A("run"), sx.B(trunc), sx.A("compile"), sx.I(3), sx.B(true), libV("", cerr), sx.A("absent")),
			sx.L(sx.A("out"), sx.S(r.stdout), sx.I(r.exit), sx.A("absent")),
			map[string]any{"argv": []string{"compile", pp}, "profile": p.text})
	}
	for _, d := range datas {
		dp := filepath.Join(work, "d_"+d.name+".jsonld")
		norm, err := validator.ProcessInput(d.text, false, nil)
		text := ""
		if err == nil {
			text = validator.Encode(norm)
		}
		r := runCli(acv, "normalize", dp)
		check("normalize/"+d.name, err == nil,
			sx.L(sx.A("c18"), sx.A("run"), sx.B(trunc), sx.A("normalize"), sx.I(3), sx.B(true), libV(text, err), sx.A("absent")),
			sx.L(sx.A("out"), sx.S(r.stdout), sx.I(r.exit), sx.A("absent")),
			map[string]any{"argv": []string{"normalize", dp}, "data": d.text})
	}

	// argument errors, unknown command, unreadable inputs
	pp := filepath.Join(work, "p_min.yaml")
	dp := filepath.Join(work, "d_good.jsonld")
	missing := filepath.Join(work, "does-not-exist")
	argCases := []struct {
		cmd      string
		args     []string
		readable bool
	}{
		{"validate", []string{pp}, true}, {"validate", []string{pp, dp, "a", "b"}, true}, {"generate", []string{}, true},
		{"generate", []string{pp, dp}, true}, {"normalize", []string{}, true}, {"compile", []string{pp, pp}, true},
		{"frobnicate", []string{pp}, true}, {"validate", []string{missing, dp}, false}, {"validate", []string{pp, missing}, false},
		{"generate", []string{missing}, false}, {"normalize", []string{missing}, false}, {"validate", []string{pp, missing, filepath.Join(work, "o")}, false},
	}
	for _, ac := range argCases {
		r := runCli(acv, append([]string{ac.cmd}, ac.args...)...)
		check(fmt.Sprintf("args/%s/%d/readable=%v", ac.cmd, len(ac.args)+2, ac.readable), false,
			sx.L(sx.A("c18"), sx.A("run"), sx.B(trunc), sx.A(ac.cmd), sx.I(len(ac.args)+2), sx.B(ac.readable), sx.L(sx.A("ok"), sx.S("unused")), sx.A("absent")),
			sx.L(sx.A("out"), sx.S(r.stdout), sx.I(r.exit), sx.A("absent")),
			map[string]any{"argv": append([]string{ac.cmd}, ac.args...)})
		res.Count("argument-error")
	}
	res.Sample(map[string]any{"argv": "validate p_levels.yaml d_bad.jsonld out.jsonld", "prior_state": "longer (report + 37 bytes)", "expected": "file == report, stdout empty, exit 0"})
	res.Sample(map[string]any{"argv": "normalize d_garbage.jsonld", "expected": "exit 2, stdout empty"})
	res.Exhaustive = false
}
