package props

import (
	"bytes"
	"context"
	"encoding/json"
	"fmt"
	"math/rand"
	"os"
	"os/exec"
	"path/filepath"
	"strings"
	"sync"
	"time"

	"github.com/aml-org/amf-custom-validator/pkg"
	"github.com/aml-org/amf-custom-validator/pkg/config"
	"github.com/aml-org/amf-custom-validator/pkg/events"
	"github.com/aml-org/amf-custom-validator/verifh/core"
	"github.com/open-policy-agent/opa/rego"
)

// ------------------------------------------------------------------------------------ C17

type c17out struct {
	kind string // value | error | panic | timeout
	text string
}

// guarded runs f under recover with a wall-clock bound.
func guarded(limit time.Duration, f func() (string, error)) c17out {
	done := make(chan c17out, 1)
	go func() {
		defer func() {
			if r := recover(); r != nil {
				done <- c17out{"panic", fmt.Sprint(r)}
			}
		}()
		o, err := f()
		if err != nil {
			done <- c17out{"error", err.Error()}
		} else {
			done <- c17out{"value", o}
		}
	}()
	select {
	case r := <-done:
		return r
	case <-time.After(limit):
		return c17out{"timeout", ""}
	}
}

// mutateText applies one structured or raw mutation.
func mutateText(r *rand.Rand, s string, vocab []string) string {
	if len(s) == 0 {
		return vocab[r.Intn(len(vocab))]
	}
	lines := strings.Split(s, "\n")
	switch r.Intn(11) {
	case 0: // delete a line
		i := r.Intn(len(lines))
		return strings.Join(append(append([]string{}, lines[:i]...), lines[i+1:]...), "\n")
	case 1: // duplicate a line
		i := r.Intn(len(lines))
		out := append(append([]string{}, lines[:i+1]...), lines[i:]...)
		return strings.Join(out, "\n")
	case 2: // replace a token by a vocabulary item
		i := r.Intn(len(lines))
		f := strings.Fields(lines[i])
		if len(f) > 0 {
			lines[i] = strings.Replace(lines[i], f[r.Intn(len(f))], vocab[r.Intn(len(vocab))], 1)
		}
		return strings.Join(lines, "\n")
	case 3: // cut
		return s[:r.Intn(len(s))]
	case 4: // drop a byte range
		i := r.Intn(len(s))
		j := i + r.Intn(len(s)-i)
		return s[:i] + s[j:]
	case 5: // insert a vocabulary item
		i := r.Intn(len(s))
		return s[:i] + vocab[r.Intn(len(vocab))] + s[i:]
	case 6: // flip a byte
		b := []byte(s)
		b[r.Intn(len(b))] = byte(r.Intn(256))
		return string(b)
	case 7: // change indentation of a line
		i := r.Intn(len(lines))
		lines[i] = strings.Repeat(" ", r.Intn(8)) + strings.TrimLeft(lines[i], " ")
		return strings.Join(lines, "\n")
	case 8: // swap two lines
		i, j := r.Intn(len(lines)), r.Intn(len(lines))
		lines[i], lines[j] = lines[j], lines[i]
		return strings.Join(lines, "\n")
	case 9: // replace a value after a colon
		i := r.Intn(len(lines))
		if k := strings.Index(lines[i], ":"); k >= 0 {
			lines[i] = lines[i][:k+1] + " " + vocab[r.Intn(len(vocab))]
		}
		return strings.Join(lines, "\n")
	}
	return vocab[r.Intn(len(vocab))] + s
}

func C17(e *core.Env) {
	res := e.Res
	res.Rule = "cases = (profile text, data text, entry point), each call under recover with a 20 s (quick) / 30 s (thorough) wall-clock bound (after two calls that block the run stops and reports them with the calls made before): the pools of C11 (every failure point), documents without nodes ([], {}, null, scalars, {\"@graph\": []}) which must conform, structured mutations of valid profiles and documents (delete / duplicate / swap lines, replace tokens and values by items of a vocabulary of keywords, prefixes, paths, scalars of other kinds, empty containers; truncation; byte flips) and raw byte strings, YAML anchors / aliases / merge keys incl. self-referencing ones (each in a child process, exit status 0 required), documents on which the JSON-LD library panics or fails with an uncoded error (each in a child process), a nil validation configuration and a panicking clock with / without the creation time, 8 goroutines validating at once in a child process (a fatal runtime error ends the process), through Validate, ValidateWithConfiguration, CompileProfile + ValidateCompiled, ValidateCompiledWithConfiguration, with and without an event channel; " +
		"any panic or timeout is a violation; non-trivial = the call returns an error (the input was rejected, not merely accepted); distinct by input text"
	compiled := compilePool(res)
	rc := config.DefaultReportConfiguration()
	limit := time.Duration(e.Pick(20, 30)) * time.Second
	timeouts := 0
	history := []string{} // what was called before (a call that blocks may be the consequence of an earlier one)
	check := func(what string, profile, data string, o c17out) {
		if o.kind == "panic" || o.kind == "timeout" {
			rp := map[string]any{"entry_point": what, "profile": profile, "data": data, "outcome": o.kind, "panic": core.Trunc(o.text, 2000)}
			if o.kind == "timeout" {
				timeouts++
				rp["calls_made_before_in_this_process(last 6: entry point, profile)"] = history
				rp["note"] = fmt.Sprintf("the call did not return within %v; when the same call returns at once in a fresh process, an EARLIER call of the history left something locked", limit)
			}
			res.Violate("impl-violates-property", what+" "+o.kind+"s: "+core.Trunc(o.text, 300), rp)
		}
		history = append(history, what+" | "+core.Trunc(profile, 400))
		if len(history) > 6 {
			history = history[len(history)-6:]
		}
	}
	blockedOut := func() bool {
		if timeouts >= 2 {
			res.Note("two calls blocked: the remaining streams are skipped (every further call would wait for the wall-clock bound)")
			return true
		}
		return false
	}
	// 1. the pools (every failure point), all entry points, with a channel
	poolBlocked := 0
	for _, c := range allPipeCases(func(n string) bool { return compiled[n] != nil }) {
		_, kind, _ := runPipeCase(e, c, compiled)
		res.Case("pool|"+c.entry+"|"+c.p.name+"|"+c.d.name, kind == "error")
		res.Count("pool-outcome=" + kind)
		if kind == "blocked" {
			poolBlocked++
			if poolBlocked >= 2 {
				res.Note("two pool calls blocked: the remaining streams are skipped")
				return
			}
		}
	}
	// 2. documents without nodes conform
	for _, d := range dataVariants {
		if d.decode == "ok" && d.norm == "ok" && !d.nodes {
			for _, p := range []string{"ok-min", "ok-levels"} {
				o := guarded(limit, func() (string, error) { return pkg.Validate(pv(p).text, d.text, false, nil) })
				check("Validate", pv(p).text, d.text, o)
				replay := map[string]any{"profile": pv(p).text, "data": d.text, "outcome": o.kind, "text": core.Trunc(o.text, 600), "expected": "a conforming report"}
				if o.kind != "value" {
					res.Violate("impl-violates-property", "a document that is valid JSON-LD without nodes ("+d.name+") is not accepted: "+core.Trunc(o.text, 200), replay)
				} else if rep, err := ParseReport(o.text); err != nil || !rep.Conforms || len(rep.Results) != 0 {
					res.Violate("impl-violates-property", "a document without nodes ("+d.name+") does not conform", replay)
				}
				res.Case("nonodes|"+d.name+"|"+p, false)
			}
		}
	}
	if blockedOut() {
		return
	}
	// 2b. YAML anchors, aliases and merge keys, each in a child process (a runtime fatal error - stack exhaustion on a
	// cyclic tree - cannot be recovered, so it must not happen at all): report or error, exit status 0
	self, _ := os.Executable()
	aliasProfiles := map[string]string{
		"alias-acyclic":       ProfileHeader + "violation:\n  - v\n  - w\nvalidations:\n  v:\n    targetClass: ex.T\n    message: m\n    propertyConstraints: &pc\n      ex.a:\n        minCount: 1\n  w:\n    targetClass: ex.T\n    message: m\n    propertyConstraints: *pc\n",
		"alias-cyclic-not":    ProfileHeader + "violation:\n  - v\nvalidations:\n  v:\n    targetClass: ex.T\n    message: m\n    not: &again\n      not: *again\n",
		"alias-cyclic-and":    ProfileHeader + "violation:\n  - v\nvalidations:\n  v:\n    targetClass: ex.T\n    message: m\n    and: &l\n      - propertyConstraints:\n          ex.a:\n            minCount: 1\n      - or: *l\n",
		"alias-cyclic-nested": ProfileHeader + "violation:\n  - v\nvalidations:\n  v: &v\n    targetClass: ex.T\n    message: m\n    propertyConstraints:\n      ex.a:\n        nested: *v\n",
		"alias-cyclic-if":     ProfileHeader + "violation:\n  - v\nvalidations:\n  v:\n    targetClass: ex.T\n    if: &c\n      propertyConstraints:\n        ex.a:\n          atLeast:\n            count: 1\n            validation: *c\n    then: *c\n",
		"merge-key":           ProfileHeader + "violation:\n  - v\nvalidations:\n  base: &b\n    targetClass: ex.T\n    message: m\n  v:\n    <<: *b\n    propertyConstraints:\n      ex.a:\n        minCount: 1\n",
		"alias-scalar":        ProfileHeader + "violation:\n  - v\nvalidations:\n  v:\n    targetClass: &t ex.T\n    message: *t\n    propertyConstraints:\n      ex.a:\n        minCount: 1\n",
		"alias-level-list":    ProfileHeader + "violation: &l\n  - v\nwarning: *l\nvalidations:\n  v:\n    targetClass: ex.T\n    propertyConstraints:\n      ex.a:\n        minCount: 1\n",
	}
	anames := []string{}
	for n := range aliasProfiles {
		anames = append(anames, n)
	}
	sortStrings(anames)
	for _, n := range anames {
		pf, df := filepath.Join(e.Scratch, "alias.yaml"), filepath.Join(e.Scratch, "alias.jsonld")
		os.WriteFile(pf, []byte(aliasProfiles[n]), 0o644)
		os.WriteFile(df, []byte(PoolDataGood), 0o644)
		ctx, cancel := context.WithTimeout(context.Background(), 90*time.Second)
		cmd := exec.CommandContext(ctx, self, "oneshot", pf, df)
		var so, se bytes.Buffer
		cmd.Stdout, cmd.Stderr = &so, &se
		err := cmd.Run()
		cancel()
		var js map[string]string
		replay := map[string]any{"profile": aliasProfiles[n], "data": PoolDataGood, "entry_points": "GenerateRego and ValidateWithConfiguration in a fresh process (verifh oneshot)", "exit": fmt.Sprint(err), "stderr_head": core.Trunc(se.String(), 600)}
		if err != nil || json.Unmarshal(so.Bytes(), &js) != nil {
			res.Violate("impl-violates-property", "a profile with YAML anchors / aliases ("+n+") ends the process instead of giving a report or an error: "+core.Trunc(strings.SplitN(se.String(), "\n", 2)[0], 160), replay)
		}
		res.Case("alias|"+n, strings.HasPrefix(js["report"], "error"))
		res.Count("stream=yaml-aliases")
	}
	// 2b'. documents on which the JSON-LD library itself panics (it does not return one of its coded errors), each in a child
	// process: wherever that panic is raised, the caller must get an error value and the process must go on
	ldPanics := map[string]string{
		"protected-object":  `{"@context":{"@protected":{}},"@id":"http://example.org/d#a","@type":"http://example.org/ns#Thing"}`,
		"value-type-empty":  `{"@id":"http://example.org/d#a","http://example.org/ns#name":{"@value":"a","@type":[]}}`,
		"container-object":  `{"@context":{"t":{"@id":"http://example.org/ns#t","@container":{}}},"@id":"http://example.org/d#a","t":1}`,
		"graph-null":        `{"@graph": null}`,
		"language-property": `{"@id":"http://example.org/d#a","@language":"en"}`,
	}
	lnames := []string{}
	for n := range ldPanics {
		lnames = append(lnames, n)
	}
	sortStrings(lnames)
	for _, n := range lnames {
		pf, df := filepath.Join(e.Scratch, "ldp.yaml"), filepath.Join(e.Scratch, "ldp.jsonld")
		os.WriteFile(pf, []byte(PoolProfileMin), 0o644)
		os.WriteFile(df, []byte(ldPanics[n]), 0o644)
		ctx, cancel := context.WithTimeout(context.Background(), 120*time.Second)
		cmd := exec.CommandContext(ctx, self, "oneshot", pf, df)
		var so, se bytes.Buffer
		cmd.Stdout, cmd.Stderr = &so, &se
		err := cmd.Run()
		cancel()
		var js map[string]string
		if err != nil || json.Unmarshal(so.Bytes(), &js) != nil {
			res.Violate("impl-violates-property", "a document on which the JSON-LD library panics ("+n+") ends the process instead of giving an error: "+core.Trunc(firstLineWith(se.String(), "fatal error", "panic:"), 160),
				map[string]any{"profile": PoolProfileMin, "data": ldPanics[n], "entry_points": "ValidateWithConfiguration in a fresh process (verifh oneshot)", "exit": fmt.Sprint(err), "stderr_head": core.Trunc(se.String(), 800)})
		}
		res.Case("jsonld-library-panic|"+n, strings.HasPrefix(js["report"], "error"))
		res.Count("stream=jsonld-library-panics")
	}
	// 2b''. the caller's own configuration objects: a nil validation configuration, a clock that panics, with and without the
	// creation time in the report - a report or an error, never a panic
	for ci, vc := range []config.ValidationConfiguration{nil, panickingClock{}} {
		for _, include := range []bool{false, true} {
			rcx := config.DefaultReportConfiguration()
			rcx.IncludeReportCreationTime = include
			name := fmt.Sprintf("%s, IncludeReportCreationTime=%v", []string{"nil ValidationConfiguration", "ReportCreationTime() panics"}[ci], include)
			vc := vc
			o := guarded(limit, func() (string, error) {
				return pkg.ValidateWithConfiguration(PoolProfileMin, PoolDataBad, false, nil, vc, rcx)
			})
			check("ValidateWithConfiguration ("+name+")", PoolProfileMin, PoolDataBad, o)
			if q := compiled["ok-min"]; q != nil {
				o2 := guarded(limit, func() (string, error) {
					return pkg.ValidateCompiledWithConfiguration(q, PoolDataBad, false, nil, vc, rcx)
				})
				check("ValidateCompiledWithConfiguration ("+name+")", PoolProfileMin, PoolDataBad, o2)
				if !include && o2.kind != "value" {
					res.Violate("impl-violates-property", "the creation time is not part of the report, yet the call fails because of the clock ("+name+"): "+core.Trunc(o2.text, 200),
						map[string]any{"entry_point": "ValidateCompiledWithConfiguration", "profile": PoolProfileMin, "data": PoolDataBad, "configuration": name, "outcome": o2.kind, "text": core.Trunc(o2.text, 600)})
				}
			}
			res.Case("caller-config|"+name, o.kind == "error")
			res.Count("stream=caller-configuration")
		}
	}
	// 2c. several goroutines validating at once, in a child process: a fatal runtime error (concurrent map writes ...) is not
	// a panic, cannot be recovered by the library and ends the caller's process - no report, no error value
	for _, pd := range [][2]string{{PoolProfileLevels, PoolDataBad}, {PoolProfileMin, PoolDataGood}} {
		pf, df := filepath.Join(e.Scratch, "conc.yaml"), filepath.Join(e.Scratch, "conc.jsonld")
		os.WriteFile(pf, []byte(pd[0]), 0o644)
		os.WriteFile(df, []byte(pd[1]), 0o644)
		ctx, cancel := context.WithTimeout(context.Background(), 240*time.Second)
		cmd := exec.CommandContext(ctx, self, "c17storm", pf, df, fmt.Sprint(e.Pick(500, 5000)))
		var so, se bytes.Buffer
		cmd.Stdout, cmd.Stderr = &so, &se
		err := cmd.Run()
		cancel()
		var cr struct {
			Ref   string
			Diffs []string
		}
		if err != nil || json.Unmarshal(so.Bytes(), &cr) != nil {
			res.Violate("impl-violates-property", "the process ends abnormally when 8 goroutines validate at once: "+core.Trunc(firstLineWith(se.String(), "fatal error", "panic:"), 160),
				map[string]any{"profile": pd[0], "data": pd[1], "how": "16 goroutines x ValidateCompiledWithConfiguration (one shared compiled profile) and ValidateWithConfiguration of these inputs in a child process (verifh c17storm)", "exit": fmt.Sprint(err), "stderr_head": core.Trunc(se.String(), 1500)})
		} else {
			for _, d := range cr.Diffs {
				if strings.HasPrefix(d, "panic:") {
					res.Violate("impl-violates-property", "a panic escapes an entry point when 8 goroutines validate at once: "+core.Trunc(d, 160), map[string]any{"profile": pd[0], "data": pd[1], "panic": d})
				}
			}
		}
		res.Case("concurrent-child|"+fmt.Sprint(len(pd[0])), true)
		res.Count("stream=concurrent-child-process")
	}
	// 3. mutation stream
	pvocab := []string{"", "[]", "{}", "~", "5", "true", "- x", "ex.a", "ex.a / ex.b", "ex.a |", "( ex.a", "nope.a", "my_ns.a", "@type", "not", "and", "or", "if", "then", "else", "nested",
		"atLeast", "count", "validation", "propertyConstraints", "targetClass", "message", "rego", "regoModule", "code", "rego_extensions", "prefixes", "violation", "warning", "info",
		"validations", "profile", "minCount", "maxCount", "in", "pattern", "datatype", "xsd.string", "lessThanProperty", "minInclusive", "uniqueValues", "containsAll", "\"", "'", "\\", "%", "{{ex.a}}", "{{", "$message", "\t", ":", "&a", "*a", "!!binary x", "<<: *a"}
	dvocab := []string{"", "[]", "{}", "null", "5", "true", "\"x\"", "@id", "@type", "@graph", "@context", "@value", "@list", "@set", "@reverse", "@base", "@vocab", "@language", "@container", "\"@id\": 5",
		"{\"@id\": \"x\"}", "http://a.ml/vocabularies/document-source-maps#SourceMap", "http://a.ml/vocabularies/document-source-maps#lexical", "http://a.ml/vocabularies/document-source-maps#element",
		"http://a.ml/vocabularies/document-source-maps#value", "http://a.ml/vocabularies/document#BaseUnitSourceInformation", "http://a.ml/vocabularies/document#rootLocation",
		"http://a.ml/vocabularies/document#additionalLocations", "http://a.ml/vocabularies/document#elements", "http://a.ml/vocabularies/document#location", "[(1,2)-(3,4)]", "_:b0", "\\u0000", ",", ":", "1e999", "-0"}
	profiles := []string{PoolProfileMin, PoolProfileLevels, PoolProfileSpecial, evalErrProfile, ProfileHeader + "violation:\n  - v\nvalidations:\n  v:\n    targetClass: ex.T\n    message: m\n    or:\n      - propertyConstraints:\n          ex.a / ex.b:\n            nested:\n              propertyConstraints:\n                ex.c:\n                  in: [ a, 1, true ]\n      - not:\n          propertyConstraints:\n            ex.d:\n              atLeast:\n                count: 1\n                validation:\n                  propertyConstraints:\n                    ex.e:\n                      pattern: ^a\n"}
	g := RandomEdgeGraph(e.Rand, 4, []string{"a", "b", "c"}, 0.4)
	datas := []string{PoolDataGood, PoolDataBad, PoolDataSpecial, g.JSONLD(), withLexical(g),
		`{"@context": {"ex": "http://example.org/ns#", "@base": "http://example.org/d"}, "@graph": [{"@id": "#a", "@type": "ex:Thing", "ex:name": ["n", {"@value": "m"}], "ex:child": {"@id": "#b", "ex:name": "x"}}]}`}
	n := e.Pick(700, 12000)
	for i := 0; i < n; i++ {
		p := profiles[e.Rand.Intn(len(profiles))]
		d := datas[e.Rand.Intn(len(datas))]
		mode := e.Rand.Intn(4)
		if mode == 0 || mode == 2 {
			for k := 0; k <= e.Rand.Intn(3); k++ {
				p = mutateText(e.Rand, p, pvocab)
			}
		}
		if mode == 1 || mode == 2 {
			for k := 0; k <= e.Rand.Intn(3); k++ {
				d = mutateText(e.Rand, d, dvocab)
			}
		}
		if mode == 3 { // raw bytes
			b := make([]byte, e.Rand.Intn(40))
			e.Rand.Read(b)
			if e.Rand.Intn(2) == 0 {
				p = string(b)
			} else {
				d = string(b)
			}
		}
		var ch *chan events.Event
		if i%3 == 0 {
			c := make(chan events.Event, 64)
			ch = &c
		}
		var o c17out
		what := ""
		switch i % 4 {
		case 0:
			what = "Validate"
			o = guarded(limit, func() (string, error) { return pkg.Validate(p, d, false, ch) })
		case 1:
			what = "ValidateWithConfiguration"
			o = guarded(limit, func() (string, error) { return pkg.ValidateWithConfiguration(p, d, i%8 == 1, ch, clockA, rc) })
		case 2:
			what = "CompileProfile+ValidateCompiled"
			o = guarded(limit, func() (string, error) {
				q, err := pkg.CompileProfile(p, false, ch)
				if err != nil {
					return "", err
				}
				return pkg.ValidateCompiled(q, d, false, ch)
			})
		case 3:
			what = "ValidateCompiledWithConfiguration"
			q := compiled["ok-levels"]
			o = guarded(limit, func() (string, error) { return pkg.ValidateCompiledWithConfiguration(q, d, false, ch, clockA, rc) })
		}
		check(what, p, d, o)
		if blockedOut() {
			return
		}
		if o.kind == "value" {
			var js any
			if json.Unmarshal([]byte(o.text), &js) != nil {
				res.Violate("impl-violates-property", what+" returns neither a report nor an error", map[string]any{"profile": p, "data": d, "returned": core.Trunc(o.text, 500)})
			}
		}
		res.Case(fmt.Sprintf("mut|%d|%x", i%4, hashString(p+"\x00"+d)), o.kind == "error")
		res.Count("mutation-outcome=" + o.kind)
		res.Count(fmt.Sprintf("mutation-mode=%d", mode))
		if i == 5 {
			res.Sample(map[string]any{"entry": what, "profile": core.Trunc(p, 300), "data": core.Trunc(d, 200), "outcome": o.kind, "text": core.Trunc(o.text, 200)})
		}
	}
	res.Unmodelled = []string{"termination and panic-freedom of yaml.v3, encoding/json, json-gold and OPA are observed (bounded wall clock, recover), not proved",
		"stack exhaustion, out-of-memory and runtime fatal errors cannot be recovered and are outside the model",
		"json-gold fetches remote @context URLs named by the DATA; in this sandbox the attempt is refused at once, elsewhere it can block for the duration of a network timeout"}
}

// C17Storm is the child process of the concurrent stream: one compiled profile shared by 16 goroutines, each validating
// `rounds` times (every 16th call from the profile text); prints the report alone and the differences seen.
func C17Storm(profilePath, dataPath string, rounds int) {
	p, _ := os.ReadFile(profilePath)
	d, _ := os.ReadFile(dataPath)
	rc := config.DefaultReportConfiguration()
	q, err := pkg.CompileProfile(string(p), false, nil)
	if err != nil {
		fmt.Printf("{\"Ref\": %q, \"Diffs\": []}\n", "error: "+err.Error())
		return
	}
	one := func(k int) string {
		var o string
		var err error
		if k%16 == 15 {
			o, err = pkg.ValidateWithConfiguration(string(p), string(d), false, nil, clockA, rc)
		} else {
			o, err = pkg.ValidateCompiledWithConfiguration(q, string(d), false, nil, clockA, rc)
		}
		if err != nil {
			return "error: " + err.Error()
		}
		return o
	}
	ref := one(0)
	diffs := make([]string, 16)
	var wg sync.WaitGroup
	for w := 0; w < 16; w++ {
		wg.Add(1)
		go func(w int) {
			defer wg.Done()
			defer func() {
				if r := recover(); r != nil {
					diffs[w] = fmt.Sprintf("panic: %v", r)
				}
			}()
			for k := 0; k < rounds; k++ {
				if o := one(k + w); o != ref && diffs[w] == "" {
					diffs[w] = firstDiff(ref, o)
				}
			}
		}(w)
	}
	wg.Wait()
	out := []string{}
	for _, x := range diffs {
		if x != "" {
			out = append(out, x)
		}
	}
	enc, _ := json.Marshal(map[string]any{"Ref": ref, "Diffs": out})
	os.Stdout.Write(enc)
}

func hashString(s string) uint64 {
	var h uint64 = 1469598103934665603
	for i := 0; i < len(s); i++ {
		h ^= uint64(s[i])
		h *= 1099511628211
	}
	return h
}

// ------------------------------------------------------------------------------------ C09

func C09(e *core.Env) {
	res := e.Res
	res.Rule = "cases = histories of 1..6 (quick) / 1..25 (thorough) documents through ONE compiled profile, drawn from a pool (passing, failing, several results, no nodes, undecodable, rejected by JSON-LD, starting with a byte order mark, surrounded by blanks, followed by trailing text, repeats, fail-then-pass), with compilations and text validations of OTHER profiles (re-declaring built-in prefixes, same names; in every fourth history 12 distinct other profiles at once) interleaved, under two report configurations (with / without creation time, same schema IRIs); documents with lexical source maps with / without a source-information node; every report / error is compared byte-wise (fixed clock) with the report a FRESH PROCESS makes from the profile text and that document, and with a text validation made AFTER the histories; a 30-validation profile compiled 16 (quick) / 60 (thorough) times WHILE 6 goroutines compile other profiles, each compilation compared with the text validation; " +
		"non-trivial = the history contains two different documents and at least one failing call; distinct by (profile, history)"
	rc := config.DefaultReportConfiguration()
	coreProfile := `#%Validation Profile 1.0
profile: Core Prefix
violation:
  - named
validations:
  named:
    targetClass: core.Thing
    message: "needs a name, has {{core.name}}"
    propertyConstraints:
      core.name:
        minCount: 1
`
	coreData := `{"@graph":[{"@id":"http://example.org/d#a","@type":"http://a.ml/vocabularies/core#Thing"},
 {"@id":"http://example.org/d#b","@type":"http://a.ml/vocabularies/core#Thing","http://a.ml/vocabularies/core#name":"n"},
 {"@id":"http://example.org/d#c","@type":"http://other.org/core#Thing"}]}`
	otherProfiles := []string{
		"#%Validation Profile 1.0\nprofile: Other\nprefixes:\n  core: http://other.org/core#\n  ex: http://other.org/ex#\nviolation:\n  - named\nvalidations:\n  named:\n    targetClass: core.Thing\n    message: other\n    propertyConstraints:\n      ex.name:\n        minCount: 1\n",
		PoolProfileSpecial, evalErrProfile,
	}
	manyOthers := []string{}
	for i := 0; i < 12; i++ {
		manyOthers = append(manyOthers, fmt.Sprintf("#%%Validation Profile 1.0\nprofile: Other %d\nprefixes:\n  ex: http://example.org/ns#\nwarning:\n  - o%d\nvalidations:\n  o%d:\n    targetClass: ex.Thing\n    message: other %d\n    propertyConstraints:\n      ex.o%d:\n        minCount: 1\n", i, i, i, i, i))
	}
	profiles := []string{PoolProfileMin, PoolProfileLevels, coreProfile, evalErrProfile}
	docs := []string{PoolDataGood, PoolDataBad, coreData, PoolDataEmpty, "[]", PoolDataGarbage, PoolDataTruncated, `{"@id": 5}`, `{"@id": "http://example.org/d#a", "@type": 1}`, PoolDataSpecial,
		"\xef\xbb\xbf" + PoolDataBad, "\xef\xbb\xbf" + PoolDataGood, " \n\t" + PoolDataBad + "\n\n", PoolDataBad + " trailing text"}
	// documents with lexical source maps: with the source-information node (root and additional locations), with another
	// root location, and WITHOUT any source-information node (locations with an empty uri)
	lg := RandomEdgeGraph(e.Rand, 4, []string{"a", "b", "name"}, 0.3)
	for i := range lg.Nodes {
		if i%2 == 0 { // nodes without a name: results (with locations) are certain
			kept := []GProp{}
			for _, pr := range lg.Nodes[i].Props {
				if pr.Iri != ExNS+"name" {
					kept = append(kept, pr)
				}
			}
			lg.Nodes[i].Props = kept
		}
	}
	asThing := func(s string) string { return strings.ReplaceAll(s, ExNS+"T\"", ExNS+"Thing\"") }
	docs = append(docs, asThing(withLexical(lg)), asThing(strings.ReplaceAll(withLexical(lg), "file:///root.raml", "file:///elsewhere/other.raml")), asThing(withLexicalOpt(lg, false)))
	fresh := func(p, d string) string {
		o := guarded(30*time.Second, func() (string, error) { return pkg.ValidateWithConfiguration(p, d, false, nil, clockA, rc) })
		return o.kind + ":" + o.text
	}
	// everything that serves as the reference is computed before any other profile or document is seen: each reference is
	// the report of a FRESH PROCESS for (profile text, document) (verifh oneshot), so nothing validated earlier can leak into it
	self, _ := os.Executable()
	cfgs := []int{0, 4} // default configuration; the same IRIs without the creation time
	freshProcess := func(p, d string, cfg int, slot int) (string, bool) {
		pf, df := filepath.Join(e.Scratch, fmt.Sprintf("c09p%d.yaml", slot)), filepath.Join(e.Scratch, fmt.Sprintf("c09d%d.jsonld", slot))
		os.WriteFile(pf, []byte(p), 0o644)
		os.WriteFile(df, []byte(d), 0o644)
		ctx, cancel := context.WithTimeout(context.Background(), 90*time.Second)
		defer cancel()
		out, err := exec.CommandContext(ctx, self, "oneshot", pf, df, fmt.Sprint(cfg)).Output()
		var m map[string]string
		if err != nil || json.Unmarshal(out, &m) != nil {
			return "", false
		}
		if strings.HasPrefix(m["report"], "error: ") {
			return "error:" + strings.TrimPrefix(m["report"], "error: "), true
		}
		return "value:" + m["report"], true
	}
	type refJob struct{ pi, di, ci int }
	refs := make([][][]string, len(profiles))
	jobs := make(chan refJob)
	var rwg sync.WaitGroup
	for w := 0; w < 8; w++ {
		rwg.Add(1)
		go func(w int) {
			defer rwg.Done()
			for j := range jobs {
				if r, ok := freshProcess(profiles[j.pi], docs[j.di], cfgs[j.ci], w); ok {
					refs[j.pi][j.di][j.ci] = r
				}
			}
		}(w)
	}
	for pi := range profiles {
		refs[pi] = make([][]string, len(docs))
		for di := range docs {
			refs[pi][di] = make([]string, len(cfgs))
			for ci := range cfgs {
				jobs <- refJob{pi, di, ci}
			}
		}
	}
	close(jobs)
	rwg.Wait()
	befores := []map[string]string{}
	compileds := []*rego.PreparedEvalQuery{}
	for pi, p := range profiles {
		before := map[string]string{}
		for di, d := range docs {
			for ci := 1; ci < len(cfgs); ci++ {
				if refs[pi][di][ci] != "" {
					before[fmt.Sprintf("cfg%d|", ci)+d] = refs[pi][di][ci]
				}
			}
			if refs[pi][di][0] != "" {
				before[d] = refs[pi][di][0]
				res.Count("reference=fresh-process")
			} else {
				before[d] = fresh(p, d)
				res.Count("reference=in-process")
			}
		}
		befores = append(befores, before)
		q, err := pkg.CompileProfile(p, false, nil)
		if err != nil {
			res.Violate("impl-violates-property", "pool profile does not compile", map[string]any{"profile": p, "error": err.Error()})
			return
		}
		compileds = append(compileds, q)
	}
	for pi, p := range profiles {
		before := befores[pi]
		compiled := compileds[pi]
		for h := 0; h < e.Pick(14, 120); h++ {
			length := 1 + e.Rand.Intn(e.Pick(6, 25))
			hist := []int{}
			for k := 0; k < length; k++ {
				if k > 0 && e.Rand.Intn(4) == 0 {
					hist = append(hist, hist[k-1]) // repeat
				} else {
					hist = append(hist, e.Rand.Intn(len(docs)))
				}
			}
			distinct, failing := map[int]bool{}, false
			log := []string{}
			for k, di := range hist {
				d := docs[di]
				distinct[di] = true
				if k == 1 && h%4 == 0 {
					// many other profiles are compiled while this compiled profile is held
					for _, op := range manyOthers {
						pkg.CompileProfile(op, false, nil)
					}
					log = append(log, fmt.Sprintf("compile-%d-other-profiles", len(manyOthers)))
				}
				if e.Rand.Intn(3) == 0 { // something else happens in the process in between
					op := otherProfiles[e.Rand.Intn(len(otherProfiles))]
					if e.Rand.Intn(2) == 0 {
						pkg.CompileProfile(op, false, nil)
						log = append(log, "compile-other")
					} else {
						guarded(30*time.Second, func() (string, error) { return pkg.Validate(op, docs[e.Rand.Intn(len(docs))], false, nil) })
						log = append(log, "validate-other")
					}
				}
				ci := 0
				if e.Rand.Intn(3) == 0 {
					ci = 1 + e.Rand.Intn(len(cfgs)-1)
				}
				useCfg := c06Configs[cfgs[ci]]
				o := guarded(30*time.Second, func() (string, error) {
					return pkg.ValidateCompiledWithConfiguration(compiled, d, false, nil, clockA, useCfg)
				})
				got := o.kind + ":" + o.text
				log = append(log, fmt.Sprintf("doc%d/cfg%d->%s", di, cfgs[ci], o.kind))
				if o.kind != "value" {
					failing = true
				}
				want, haveRef := before[d], true
				if ci > 0 {
					want, haveRef = before[fmt.Sprintf("cfg%d|", ci)+d]
				}
				if haveRef && got != want {
					before[d+"|shown"] = want
					res.Violate("impl-violates-property", fmt.Sprintf("call %d of a history through one compiled profile differs from a fresh validation of the same document", k),
						map[string]any{"profile": p, "history_documents": histDocs(hist, docs), "history_log": log, "position": k, "document": d,
							"configuration": fmt.Sprintf("%+v", useCfg), "compiled_result": core.Trunc(got, 1500), "fresh_result": core.Trunc(want, 1500)})
					break
				}
			}
			res.Case(fmt.Sprintf("p%d|%v", pi, hist), len(distinct) > 1 && failing)
			res.Count(fmt.Sprintf("history-length=%d", len(hist)))
			if h == 0 && pi == 1 {
				res.Sample(map[string]any{"profile": "Pool Levels", "history": log})
			}
		}
		// the text entry point still agrees afterwards (nothing leaked into shared state)
		for _, d := range docs {
			if after := fresh(p, d); after != before[d] {
				res.Violate("impl-violates-property", "validating the same profile text and document gives a different result after other profiles were compiled in the process",
					map[string]any{"profile": p, "document": d, "before": core.Trunc(before[d], 1500), "after": core.Trunc(after, 1500), "interleaved_profiles": otherProfiles})
			}
			o := guarded(30*time.Second, func() (string, error) {
				return pkg.ValidateCompiledWithConfiguration(compiled, d, false, nil, clockA, rc)
			})
			if o.kind+":"+o.text != before[d] {
				res.Violate("impl-violates-property", "the precompiled profile and the profile text disagree", map[string]any{"profile": p, "document": d,
					"compiled_result": core.Trunc(o.kind+":"+o.text, 1500), "text_result": core.Trunc(before[d], 1500)})
			}
			q2, err := pkg.CompileProfile(p, false, nil)
			if err == nil {
				o2 := guarded(30*time.Second, func() (string, error) { return pkg.ValidateCompiledWithConfiguration(q2, d, false, nil, clockA, rc) })
				if o2.kind+":"+o2.text != before[d] {
					res.Violate("impl-violates-property", "a second compilation of the same profile text behaves differently from the first", map[string]any{"profile": p, "document": d,
						"second_compilation_result": core.Trunc(o2.kind+":"+o2.text, 1500), "first_result": core.Trunc(before[d], 1500)})
				}
			}
		}
	}
	// compiled WHILE other profiles are being compiled: the precompiled profile still equals its source
	{
		victim := c10Multi(30)
		things := c10Datas()[2]
		want := fresh(victim, things)
		stop := make(chan struct{})
		var wg sync.WaitGroup
		for w := 0; w < 6; w++ {
			wg.Add(1)
			go func(w int) {
				defer wg.Done()
				defer func() { recover() }()
				for i := w; ; i++ {
					select {
					case <-stop:
						return
					default:
					}
					pkg.CompileProfile(manyOthers[i%len(manyOthers)], false, nil)
				}
			}(w)
		}
		for round := 0; round < e.Pick(16, 60); round++ {
			q, err := pkg.CompileProfile(victim, false, nil)
			got := ""
			if err != nil {
				got = "error:" + err.Error()
			} else {
				o := guarded(30*time.Second, func() (string, error) {
					return pkg.ValidateCompiledWithConfiguration(q, things, false, nil, clockA, rc)
				})
				got = o.kind + ":" + o.text
			}
			if got != want {
				res.Violate("impl-violates-property", "a profile precompiled while other profiles are being compiled in the process reports differently from its source text",
					map[string]any{"profile": victim, "document": things, "other_profiles_compiled_in_a_loop_by_6_goroutines": manyOthers[:3], "round": round,
						"compiled_result": core.Trunc(got, 1500), "text_result": core.Trunc(want, 1500), "first_diff_line": firstDiff(want, got)})
				break
			}
			res.Case(fmt.Sprintf("compiled-while-others-compile|%d", round), true)
			res.Count("stream=compiled-while-others-compile")
		}
		close(stop)
		wg.Wait()
	}
	res.Unmodelled = []string{"in-place mutation of result maps inside BuildReport, OPA's internal caches and any other Go heap state shared between calls: the model's stages are pure functions, so these can only be exhibited by the histories run here",
		"the Genvar counter advances with every compilation; reports are compared byte-wise, so a leak of generated names into a report would show"}
}

func histDocs(hist []int, docs []string) []string {
	out := []string{}
	for _, i := range hist {
		out = append(out, core.Trunc(docs[i], 120))
	}
	return out
}
