package props

import (
	"encoding/json"
	"fmt"
	"io/fs"
	"os"
	"path/filepath"
	"regexp"
	"sort"
	"strings"

	"github.com/aml-org/amf-custom-validator/internal/validator"
	"github.com/aml-org/amf-custom-validator/pkg"
	"github.com/aml-org/amf-custom-validator/verifh/core"
	"github.com/aml-org/amf-custom-validator/verifh/sx"
	"github.com/open-policy-agent/opa/ast"
)

func c07Validation(name string, expr map[string]any, msg string) string {
	m := map[string]any{}
	for k, v := range expr {
		m[k] = v
	}
	m["targetClass"] = "ex.T"
	if msg != "" {
		m["message"] = msg
	}
	d, _ := json.Marshal(m)
	return fmt.Sprintf("  %s: %s\n", name, d)
}

// moduleVars parses the generated module with the engine's parser and returns every variable name that occurs
// in the bodies of the level rules (violation / warning / info).
func moduleVars(code string) (map[string]bool, error) {
	mod, err := ast.ParseModule("generated.rego", code)
	if err != nil {
		return nil, err
	}
	vars := map[string]bool{}
	for _, r := range mod.Rules {
		n := string(r.Head.Name)
		if n != "violation" && n != "warning" && n != "info" {
			continue
		}
		ast.WalkVars(r, func(v ast.Var) bool {
			vars[string(v)] = true
			return false
		})
	}
	return vars, nil
}

var reQuantified = regexp.MustCompile(`^([a-z]|X[0-9]+)$`)
var reCollection = regexp.MustCompile(`^([a-z]|X[0-9]+)s$`)

func C07(e *core.Env) {
	res := e.Res
	res.Rule = "cases = well-formed declarative profiles that must compile: (a) N nested constraints side by side in one validation, N in 1..40 crossing the 25-letter boundary (quick: 14 values, thorough: all), (b) nesting depth 1..7, (c) 1..30 validations over the three levels, (d) every documented constraint kind x path shape (single, sequence, alternative, inverse, alternative inside a sequence inside an alternative, @type), (e) several constraints of one kind in one rule body (or / if / not-and), with messages of 0..3 placeholders, (f) seeded random formulas; " +
		"for (a) and (b) the quantified variables and collections found in the real module (parsed with the engine's parser) must be exactly the model's var_name / plural; (i) the string literal written for 12 patterns and the set literal written for 6 value lists, text against text with the Coq model; (h) 30 legal but degenerate / unusual arguments (empty lists, zero counts, patterns with a backtick / quote / backslash class / newline, path keys over several lines or with tabs, zero / negative / float bounds, quantifier counts 0 and 10^6) plain and under not; (j) 8 level listings (a validation under two / three levels, twice under one level, a level listing only validations another level lists too); (k) histories: two well-formed profiles compiled three times after each of 6 refused profiles (undeclared prefix in a path / class / placeholder, broken Rego, a non-path, no YAML); (m) the text of whole rules (one-branch validations: a count / length / pattern / datatype / numeric-bound / `in` / containsAll / containsSome / property-pair constraint plain or under `not`, an `or` of two, a conjunction of two (one rule per member) plain and under `not`, over three path shapes, three levels, names with quotes and percent signs, messages with 0-2 placeholders), every line against RuleGen.rule_lines; (l) the text of the path rules (values and nodes mode) of every path with <= 2 leaves and a sample with 3, over regular and custom (api-extension) properties, line by line against PathGen.path_rule_lines; (g) 25 texts (each control / format / astral / quoting character on its own) x {profile name, validation name, message, list value}; (o) 5 profiles whose prefixes, class names and property names hold underscores (legal in the path grammar) in every position an IRI can stand; (n) THE WHOLE MODULE: for every profile above, and for the profile files of the repository's test data, the text generator.Generate writes (name counter reset) against Elab.compile / Compile.module_text, byte for byte; sequences of two and three profiles generated without resetting the counter; non-trivial = every case; distinct by profile text"
	// every profile compiled below is also generated once more and its module compared, byte for byte, with the text the
	// Coq model of the whole generator (Elab.compile) computes from the YAML tree
	tc := newTextChecker(e, res)
	defer func() {
		res.Note(tc.summary())
		res.Distribution["whole-module-text=equal"] = tc.Compared - tc.mismatches
		res.Distribution["whole-module-text=outside-the-model"] = tc.Unsupported
	}()
	compile := func(label, profile string, known func(err error) bool) bool {
		_, err := pkg.CompileProfile(profile, false, nil)
		if tc.check(label, profile) {
			res.Case("module-text|"+label+"|"+profile, true)
		}
		if err == nil {
			return true
		}
		if known != nil && known(err) {
			return false
		}
		replay := map[string]any{"case": label, "profile": profile, "error": core.Trunc(err.Error(), 1500)}
		if unit, gerr := validator.GenerateRego(profile, false, nil); gerr == nil && unit != nil {
			replay["generated_rego_tail"] = core.Trunc(unit.Code[max(0, len(unit.Code)-1500):], 1500)
		}
		res.Violate("impl-violates-property", "a well-formed declarative profile does not compile ("+label+"): "+core.Trunc(err.Error(), 200), replay)
		return false
	}
	checkNames := func(label, profile string, n int, childrenFrom int) {
		unit, err := validator.GenerateRego(profile, false, nil)
		if err != nil {
			return
		}
		vars, err := moduleVars(unit.Code)
		if err != nil {
			return // the compile step already reported it
		}
		ans, derr := e.Driver.Eval(sx.L(sx.A("c07"), sx.A("names"), sx.I(n)))
		if derr != nil {
			res.Violate("harness-error", derr.Error(), map[string]any{"no_failing_input_found": true, "broken": "driver"})
			return
		}
		wantV, wantC := map[string]bool{}, map[string]bool{}
		for i, it := range ans.List {
			wantV[it.List[0].Text()] = true
			if i >= childrenFrom {
				wantC[it.List[1].Text()] = true
			}
		}
		if n >= childrenFrom {
			wantV["n"] = true // the helper variable of the nested-constraint snippet (Names.helper_vars)
		}
		gotV, gotC := map[string]bool{}, map[string]bool{}
		for v := range vars {
			if reQuantified.MatchString(v) {
				gotV[v] = true
			} else if reCollection.MatchString(v) {
				gotC[v] = true
			}
		}
		if strings.Join(sortedKeys(gotV), ",") != strings.Join(sortedKeys(wantV), ",") || strings.Join(sortedKeys(gotC), ",") != strings.Join(sortedKeys(wantC), ",") {
			res.Violate("model-mismatch", "the quantified variables / collections of the generated module differ from the model ("+label+")",
				map[string]any{"no_failing_input_found": true, "broken": "correspondence Names.var_name / plural vs the generated module", "profile": profile,
					"model_variables": sortedKeys(wantV), "module_variables": sortedKeys(gotV), "model_collections": sortedKeys(wantC), "module_collections": sortedKeys(gotC)})
		}
	}
	leafPC := map[string]any{"propertyConstraints": map[string]any{"ex.q": map[string]any{"minCount": 1}}}
	header := ProfileHeader
	// (a) width
	widths := []int{1, 2, 5, 6, 7, 10, 11, 12, 13, 24, 25, 26, 27, 40}
	if !e.Quick() {
		widths = []int{}
		for i := 1; i <= 40; i++ {
			widths = append(widths, i)
		}
	}
	for _, n := range widths {
		pcs := map[string]any{}
		for i := 0; i < n; i++ {
			kind := []string{"nested", "atLeast", "atMost"}[i%3]
			if kind == "nested" {
				pcs[fmt.Sprintf("ex.p%d", i)] = map[string]any{"nested": leafPC}
			} else {
				pcs[fmt.Sprintf("ex.p%d", i)] = map[string]any{kind: map[string]any{"count": 1, "validation": leafPC}}
			}
		}
		p := header + "violation:\n  - v\nvalidations:\n" + c07Validation("v", map[string]any{"propertyConstraints": pcs}, "m {{ex.a}}")
		label := fmt.Sprintf("width %d", n)
		if compile(label, p, nil) {
			checkNames(label, p, n, 1)
		}
		res.Case(label, true)
		res.Count("family=width")
	}
	// (b) depth
	for d := 1; d <= 7; d++ {
		inner := leafPC
		for i := 0; i < d; i++ {
			inner = map[string]any{"propertyConstraints": map[string]any{fmt.Sprintf("ex.n%d", i): map[string]any{"nested": inner}}}
		}
		p := header + "warning:\n  - v\nvalidations:\n" + c07Validation("v", inner, "")
		label := fmt.Sprintf("depth %d", d)
		if compile(label, p, nil) {
			checkNames(label, p, d, 1)
		}
		res.Case(label, true)
		res.Count("family=depth")
	}
	// (c) many validations
	for _, n := range []int{1, 3, 10, 30} {
		var lv [3]strings.Builder
		var vs strings.Builder
		for i := 0; i < n; i++ {
			fmt.Fprintf(&lv[i%3], "  - v%d\n", i)
			vs.WriteString(c07Validation(fmt.Sprintf("v%d", i), map[string]any{"propertyConstraints": map[string]any{
				fmt.Sprintf("ex.p%d", i): map[string]any{"nested": leafPC, "minCount": 1}, "ex.z / ex.y": map[string]any{"maxCount": 3}}}, fmt.Sprintf("m%d {{ex.a}} {{ex.b}}", i)))
		}
		p := header
		for li, l := range []string{"violation", "warning", "info"} {
			if lv[li].Len() > 0 {
				p += l + ":\n" + lv[li].String()
			}
		}
		p += "validations:\n" + vs.String()
		compile(fmt.Sprintf("%d validations", n), p, nil)
		res.Case(fmt.Sprintf("validations %d", n), true)
		res.Count("family=validations")
	}
	// (d) constraint kinds x path shapes
	kinds := map[string]any{"minCount": 1, "maxCount": 2, "exactCount": 1, "minLength": 1, "maxLength": 5, "exactLength": 2, "pattern": "^a", "in": []any{"a", 1, true},
		"containsAll": []any{"a"}, "containsSome": []any{"a", "b"}, "minInclusive": 1, "minExclusive": 1, "maxInclusive": 5, "maxExclusive": 5, "datatype": "xsd.string",
		"lessThanProperty": "ex.o", "lessThanOrEqualsToProperty": "ex.o / ex.a", "equalsToProperty": "ex.o | ex.a", "disjointWithProperty": "ex.o ^", "uniqueValues": true,
		"nested": leafPC, "atLeast": map[string]any{"count": 2, "validation": leafPC}, "atMost": map[string]any{"count": 0, "validation": leafPC}}
	shapes := map[string]string{"single": "ex.a", "sequence": "ex.a / ex.b / ex.c", "alternative": "ex.a | ex.b", "inverse": "ex.a ^", "inverse-seq": "ex.a ^ / ex.b",
		"alt-in-seq-in-alt": "( ex.a / ( ex.b | ex.c ^ ) ) | ex.d", "type": "@type", "seq-then-type": "ex.a / @type", "grouped": "( ex.a | ex.b ) / ( ex.c | ex.d )",
		// custom (annotation) properties of the apiExt vocabulary, forward and inverse, in every position
		"custom": "apiExt.wadus", "custom-inverse": "apiExt.wadus ^", "custom-second": "ex.a / apiExt.wadus", "custom-inverse-second": "ex.a ^ / apiExt.wadus ^ / ex.b",
		"custom-inverse-last": "ex.a / apiExt.wadus ^", "custom-in-alt": "( ex.a | apiExt.wadus ^ ) / ex.b", "custom-after-alt": "( ex.a | ex.b ) / apiExt.wadus ^"}
	knames := []string{}
	for k := range kinds {
		knames = append(knames, k)
	}
	sort.Strings(knames)
	snames := []string{}
	for s := range shapes {
		snames = append(snames, s)
	}
	sort.Strings(snames)
	for _, k := range knames {
		for _, s := range snames {
			for _, neg := range []bool{false, true} {
				expr := map[string]any{"propertyConstraints": map[string]any{shapes[s]: map[string]any{k: kinds[k]}}}
				if neg {
					expr = map[string]any{"not": expr}
				}
				p := header + "violation:\n  - v\nvalidations:\n" + c07Validation("v", expr, "")
				label := fmt.Sprintf("%s on %s neg=%v", k, s, neg)
				compile(label, p, func(err error) bool {
					if k == "uniqueValues" && strings.Contains(shapes[s], "|") && res.KnownClass("uniqueValues-alt-path") {
						res.Known("uniqueValues-alt-path", "uniqueValues over a path with alternatives emits `} {` inside an array comprehension: the module does not parse (e.g. path `"+shapes[s]+"`)")
						return true
					}
					return false
				})
				res.Case(label, true)
				res.Count("family=kind-x-shape")
			}
		}
	}
	// (e) several constraints of one kind in one rule body
	for _, k := range knames {
		mk := func(path string) map[string]any {
			return map[string]any{"propertyConstraints": map[string]any{path: map[string]any{k: kinds[k]}}}
		}
		bodies := map[string]map[string]any{
			"or":       {"or": []any{mk("ex.a"), mk("ex.b"), mk("ex.c")}},
			"if":       {"if": mk("ex.a"), "then": mk("ex.b"), "else": mk("ex.c")},
			"not-and":  {"not": map[string]any{"and": []any{mk("ex.a"), mk("ex.b")}}},
			"same-map": {"propertyConstraints": map[string]any{"ex.a": map[string]any{k: kinds[k]}, "ex.b": map[string]any{k: kinds[k]}}},
			"not-if":   {"not": map[string]any{"if": mk("ex.a"), "then": mk("ex.b"), "else": mk("ex.a")}},
		}
		for bn, body := range bodies {
			for _, msg := range []string{"", "one {{ex.a}}", "three {{ex.a}} {{ex.b}} {{ex.a}}"} {
				if e.Quick() && msg == "one {{ex.a}}" {
					continue
				}
				p := header + "info:\n  - v\nvalidations:\n" + c07Validation("v", body, msg)
				compile(fmt.Sprintf("%s x3 under %s", k, bn), p, nil)
				res.Case(fmt.Sprintf("%s|%s|%s", k, bn, msg), true)
				res.Count("family=repeated-kind")
			}
		}
	}
	// (f) random formulas
	rleaf := func() FForm {
		ks := []FAtom{{Kind: "count", Q: "min", Path: Pr("ex.a", false), K: 1}, {Kind: "in", Path: Pr("ex.b", false), Strs: []string{"x"}},
			{Kind: "pattern", Q: "prefix", Path: PExp{Kind: "or", Kids: []PExp{Pr("ex.a", false), Pr("ex.c", true)}}, S: "a"},
			{Kind: "num", Q: "ge", Path: PExp{Kind: "and", Kids: []PExp{Pr("ex.a", false), Pr("ex.b", false)}}, K: 3}}
		if e.Rand.Intn(3) == 0 {
			return fNested([]string{"all", "atLeast", "atMost"}[e.Rand.Intn(3)], e.Rand.Intn(3), Pr("ex.kid", e.Rand.Intn(4) == 0), fAtom(ks[e.Rand.Intn(len(ks))]))
		}
		return fAtom(ks[e.Rand.Intn(len(ks))])
	}
	for i := 0; i < e.Pick(60, 800); i++ {
		f := randomForm(e.Rand, 4, rleaf)
		if f.dnfSize(false) > 24 {
			i--
			continue
		}
		p := header + "violation:\n  - v\nvalidations:\n" + c07Validation("v", f.Expr(), "r {{ex.a}}")
		compile("random formula", p, nil)
		res.Case("random|"+f.String(), true)
		res.Count("family=random")
	}
	// (g) texts: the translator pastes names, messages and list values into source text; each unusual character on its own
	// (no quote, backslash or newline next to it) in each position
	texts := []string{"plain", "tab\there", "esc\x1b[1mbold", "form\ffeed", "vt\vx", "soh\x01x", "del\x7fx", "nbsp\u00a0x", "zwj\u200dx", "ls\u2028x", "flag \U0001F3F4\U000E0067\U000E0062\U000E0065\U000E006E\U000E0067\U000E007F",
		"pua \U0010FFFD", "cr\rx", "quote\"x", "back\\slash", "percent % d", "brace { } {{", "back`tick", "dollar $node", "é ü 漢字 🎉", "#comment", "a: b", "- item", "ünï-cødé", "bom\ufeffx"}
	for ti, t := range texts {
		for _, pos := range []string{"profile name", "validation name", "message", "list value"} {
			pn, vn, msg, lv := "Texts", "v", "m", "x"
			switch pos {
			case "profile name":
				pn = t
			case "validation name":
				vn = t
			case "message":
				msg = t
			case "list value":
				lv = t
			}
			p := "#%Validation Profile 1.0\nprofile: " + yq(pn) + "\nprefixes:\n  ex: http://example.org/ns#\nviolation:\n  - " + yq(vn) + "\nvalidations:\n  " + yq(vn) +
				":\n    targetClass: ex.T\n    message: " + yq(msg) + "\n    propertyConstraints:\n      ex.a:\n        in: [ " + yq(lv) + ", other ]\n      ex.b:\n        containsSome: [ " + yq(lv) + " ]\n"
			compile(fmt.Sprintf("text %d as %s", ti, pos), p, nil)
			res.Case(fmt.Sprintf("text|%d|%s", ti, pos), true)
			res.Count("family=texts")
		}
	}
	// (h) legal but degenerate or unusual ARGUMENTS of the constraints: empty lists, zero counts, patterns holding the
	// characters that delimit Rego strings, path keys written over several lines, numeric bounds of every kind
	type argCase struct{ name, body string }
	pcb := func(path, constraint string) string {
		return "    propertyConstraints:\n      " + path + ":\n        " + constraint + "\n"
	}
	argCases := []argCase{
		{"in-empty-list", pcb("ex.a", "in: []")},
		{"containsAll-empty-list", pcb("ex.a", "containsAll: []")},
		{"containsSome-empty-list", pcb("ex.a", "containsSome: []")},
		{"in-one-number", pcb("ex.a", "in: [ 0 ]")},
		{"counts-zero", pcb("ex.a", "minCount: 0\n        maxCount: 0")},
		{"exactCount-zero", pcb("ex.a", "exactCount: 0")},
		{"lengths-zero", pcb("ex.a", "minLength: 0\n        maxLength: 0")},
		{"pattern-backtick", pcb("ex.a", "pattern: \"x`y\"")},
		{"pattern-double-quote", pcb("ex.a", "pattern: 'a\"b'")},
		{"pattern-backslash-class", pcb("ex.a", "pattern: '^\\d+\\.\\d+$'")},
		{"pattern-newline", pcb("ex.a", "pattern: \"a\\nb\"")},
		{"pattern-dollar-brace", pcb("ex.a", "pattern: '^\\$\\{[a-z]+\\}$'")},
		{"pattern-empty", pcb("ex.a", "pattern: ''")},
		{"atLeast-and-atMost-under-one-key", pcb("ex.a", "atLeast:\n          count: 3\n          validation:\n            propertyConstraints:\n              ex.b:\n                minCount: 1\n        atMost:\n          count: 2\n          validation:\n            propertyConstraints:\n              ex.c:\n                maxCount: 0")},
		{"pattern-byte-order-mark", pcb("ex.a", "pattern: \"a\\uFEFFb\"")},
		{"path-over-two-lines", pcb("\"ex.a /\\n ex.b\"", "minCount: 1")},
		{"path-with-tabs", pcb("\"ex.a\\t/\\tex.b\"", "minCount: 1")},
		{"path-padded", pcb("\"  ex.a  |  ex.b  \"", "minCount: 1")},
		{"path-alternative-over-lines", pcb("\"ex.a |\\n ex.b |\\n ex.c\"", "in: [ a ]")},
		{"path-folded-scalar", "    propertyConstraints:\n      ? >-\n        ex.a /\n        ex.b\n      :\n        minCount: 1\n"},
		{"bounds-zero", pcb("ex.a", "minInclusive: 0\n        maxExclusive: 0")},
		{"bounds-negative", pcb("ex.a", "minInclusive: -5\n        maxInclusive: -1")},
		{"bounds-float", pcb("ex.a", "minExclusive: 0.5\n        maxInclusive: 1.5e3")},
		{"atLeast-zero", pcb("ex.a", "atLeast:\n          count: 0\n          validation:\n            propertyConstraints:\n              ex.b:\n                minCount: 1")},
		{"atMost-large", pcb("ex.a", "atMost:\n          count: 1000000\n          validation:\n            propertyConstraints:\n              ex.b:\n                minCount: 1")},
		{"datatype-integer", pcb("ex.a", "datatype: xsd.integer")},
		{"datatype-custom", pcb("ex.a", "datatype: ex.myType")},
		{"in-mixed-scalars", pcb("ex.a", "in: [ a, 1, 1.5, true, \"\", ' ' ]")},
		{"message-only-placeholders", "    message: \"{{ex.a}}{{ex.b}}\"\n" + pcb("ex.a", "minCount: 1")},
		{"same-path-two-spellings", "    propertyConstraints:\n      ex.a:\n        minCount: 1\n      \"ex.a \":\n        maxCount: 3\n"},
	}
	for _, ac := range argCases {
		for _, neg := range []bool{false, true} {
			body := ac.body
			if neg {
				// the same body under `not`
				lines := strings.Split(strings.TrimRight(body, "\n"), "\n")
				if strings.HasPrefix(strings.TrimSpace(lines[0]), "message:") {
					continue
				}
				for i := range lines {
					lines[i] = "  " + lines[i]
				}
				body = "    not:\n" + strings.Join(lines, "\n") + "\n"
			}
			p := header + "violation:\n  - v\nvalidations:\n  v:\n    targetClass: ex.T\n" + body
			if !strings.Contains(body, "message:") {
				p = header + "violation:\n  - v\nvalidations:\n  v:\n    targetClass: ex.T\n    message: m\n" + body
			}
			compile(fmt.Sprintf("argument %s neg=%v", ac.name, neg), p, nil)
			res.Case(fmt.Sprintf("arg|%s|%v", ac.name, neg), true)
			res.Count("family=arguments")
		}
	}
	// (i) the two literals of the repaired defects, text against text: what the generator writes for a pattern and for a value
	// list must be exactly what the Coq model writes (Escape.pattern_literal / string_set_literal, theorems C07_pattern_literal
	// and C07_value_list_is_a_set)
	rePat := regexp.MustCompile("(?s)regex\\.match\\((.*?),gen_[A-Za-z0-9_]*\\)")
	reSet := regexp.MustCompile(`^\s*[A-Za-z0-9_]+ = (set\(\)|\{ .*\})\s*$`)
	for pi, pat := range []string{"^a", "x`y", "``", "a\"b", "^\\d+\\.\\d+$", "a\nb", "tab\there", "`\"\\`", "", "é`ü", "$message", "%v`%d"} {
		p := header + "violation:\n  - v\nvalidations:\n  v:\n    targetClass: ex.T\n    message: m\n    propertyConstraints:\n      ex.a:\n        pattern: " + yq(pat) + "\n"
		res.Case(fmt.Sprintf("pattern-literal|%d", pi), true)
		res.Count("family=literals")
		unit, err := validator.GenerateRego(p, false, nil)
		if err != nil || unit == nil {
			res.Violate("impl-violates-property", "a profile with the pattern "+fmt.Sprintf("%q", pat)+" is not translated: "+fmt.Sprint(err), map[string]any{"profile": p})
			continue
		}
		got := ""
		if ms := rePat.FindAllStringSubmatch(unit.Code, -1); len(ms) > 0 {
			got = ms[len(ms)-1][1]
		}
		want := e.Driver.MustEval(sx.L(sx.A("c07"), sx.A("pattern-literal"), sx.S(pat))).Text()
		if got != want {
			res.Violate("model-mismatch", "the literal the generator writes for the pattern "+fmt.Sprintf("%q", pat)+" differs from Escape.pattern_literal",
				map[string]any{"no_failing_input_found": true, "broken": "correspondence Escape.pattern_literal vs generator/pattern.go", "profile": p, "impl_literal": got, "model_literal": want})
		}
	}
	for li, vals := range [][]string{{}, {"a"}, {"a", "b"}, {"x\"y", "back\\slash", "new\nline"}, {"`", "$message", "%"}, {""}} {
		for _, kind := range []string{"containsAll", "containsSome"} {
			items := []string{}
			for _, v := range vals {
				items = append(items, yq(v))
			}
			p := header + "violation:\n  - v\nvalidations:\n  v:\n    targetClass: ex.T\n    message: m\n    propertyConstraints:\n      ex.a:\n        " + kind + ": [ " + strings.Join(items, ", ") + " ]\n"
			res.Case(fmt.Sprintf("set-literal|%d|%s", li, kind), true)
			res.Count("family=literals")
			unit, err := validator.GenerateRego(p, false, nil)
			if err != nil || unit == nil {
				res.Violate("impl-violates-property", "a profile with the value list "+fmt.Sprintf("%q", vals)+" is not translated: "+fmt.Sprint(err), map[string]any{"profile": p})
				continue
			}
			got := ""
			for _, line := range strings.Split(unit.Code, "\n") {
				if m := reSet.FindStringSubmatch(line); m != nil {
					got = m[1]
				}
			}
			vs := []sx.V{}
			for _, v := range vals {
				vs = append(vs, sx.S(v))
			}
			want := e.Driver.MustEval(sx.L(sx.A("c07"), sx.A("set-literal"), sx.L(vs...))).Text()
			if got != want {
				res.Violate("model-mismatch", "the set literal the generator writes for "+kind+" "+fmt.Sprintf("%q", vals)+" differs from Escape.string_set_literal",
					map[string]any{"no_failing_input_found": true, "broken": "correspondence Escape.string_set_literal vs generator/quote.go", "profile": p, "impl_literal": got, "model_literal": want})
			}
		}
	}
	// (j) level listings: a validation listed under two or three levels, twice under one level, a level that lists only
	// validations another level lists too
	{
		va := c07Validation("a", map[string]any{"propertyConstraints": map[string]any{"ex.p": map[string]any{"minCount": 1}}}, "a {{ex.a}}")
		vb := c07Validation("b", map[string]any{"propertyConstraints": map[string]any{"ex.q": map[string]any{"nested": leafPC}}}, "b")
		for li, listing := range []string{"violation:\n  - a\nwarning:\n  - a\n", "warning:\n  - a\nviolation:\n  - a\n", "violation:\n  - a\n  - b\ninfo:\n  - a\n", "violation:\n  - a\nwarning:\n  - a\ninfo:\n  - a\n",
			"info:\n  - a\n  - a\n", "violation:\n  - b\nwarning:\n  - a\n  - b\ninfo:\n  - b\n", "info:\n  - a\nwarning:\n  - b\n  - a\n", "violation:\n  - a\n  - b\n  - a\nwarning:\n  - b\n"} {
			compile(fmt.Sprintf("level listing %d", li), header+listing+"validations:\n"+va+vb, nil)
			res.Case(fmt.Sprintf("level-listing %d", li), true)
			res.Count("family=level-listings")
		}
	}
	// (k) histories: a well-formed profile compiles whatever was submitted to the process before it - a profile refused by the
	// parser, by the code generator (undeclared prefix), by the engine's compiler (broken embedded Rego), or another good one
	{
		good := header + "violation:\n  - g\nvalidations:\n" + c07Validation("g", map[string]any{"propertyConstraints": map[string]any{"ex.p / ex.q": map[string]any{"minCount": 1, "nested": leafPC}}}, "g {{ex.a}}")
		good2 := header + "warning:\n  - h\nvalidations:\n" + c07Validation("h", map[string]any{"or": []any{leafPC, map[string]any{"propertyConstraints": map[string]any{"ex.r": map[string]any{"in": []any{"x"}}}}}}, "h")
		refused := map[string]string{
			"undeclared prefix in a path":        strings.Replace(good, "ex.p / ex.q", "acme.p / ex.q", 1),
			"undeclared prefix in targetClass":   strings.Replace(good, "targetClass: ex.", "targetClass: acme.", 1),
			"broken embedded Rego":               header + "violation:\n  - r\nvalidations:\n  r:\n    targetClass: ex.T\n    message: r\n    rego: |\n      this is ( not rego\n",
			"not a path":                         strings.Replace(good, "ex.p / ex.q", "ex.p / / ex.q", 1),
			"no YAML at all":                     "profile: [unclosed\n  - : :\n",
			"undeclared prefix in a placeholder": strings.Replace(good, "{{ex.a}}", "{{acme.a}}", 1),
		}
		rnames := []string{}
		for n := range refused {
			rnames = append(rnames, n)
		}
		sort.Strings(rnames)
		hist := []string{}
		for _, n := range rnames {
			func() {
				defer func() { recover() }()
				pkg.CompileProfile(refused[n], false, nil)
			}()
			hist = append(hist, "CompileProfile(a profile with "+n+")")
			for k, g := range []string{good, good2, good} {
				_, err := pkg.CompileProfile(g, false, nil)
				hist = append(hist, fmt.Sprintf("CompileProfile(well-formed profile %d)", k%2+1))
				if err != nil {
					res.Violate("impl-violates-property", "a well-formed declarative profile does not compile after a profile with "+n+" was submitted: "+core.Trunc(err.Error(), 200),
						map[string]any{"history": append([]string{}, hist...), "refused_profile": refused[n], "profile": g, "error": core.Trunc(err.Error(), 1500)})
					break
				}
			}
			res.Case("history after "+n, true)
			res.Count("family=histories")
		}
	}
	// (l) the text of the path rules: every path with <= 2 leaves (forward / inverse predicates, @type; sequences, alternatives) and
	// a few deeper shapes - the clauses of the real module against PathGen.path_rule_lines, whose clauses are proved safe
	{
		lv := []PExp{Pr("ex.a", false), Pr("ex.b", false), Pr("ex.c", true), Pr("@type", false)}
		ps := append(EnumPaths(1, lv, 1<<30), EnumPaths(2, lv, 1<<30)...)
		p3 := EnumPaths(3, lv, 1<<30)
		for i := 0; i < len(p3); i += e.Pick(9, 1) {
			ps = append(ps, p3[i])
		}
		// custom (annotation) properties of the api-extension vocabulary, forward and inverse, in every position
		cv := []PExp{Pr("ex.a", false), Pr("apiExt.wadus", false), Pr("apiExt.wadus", true), Pr("ex.b", true)}
		ps = append(ps, EnumPaths(1, cv, 1<<30)...)
		ps = append(ps, EnumPaths(2, cv, 1<<30)...)
		c3 := EnumPaths(3, cv, 1<<30)
		for i := 0; i < len(c3); i += e.Pick(7, 1) {
			ps = append(ps, c3[i])
		}
		for _, pth := range ps {
			if !pathRuleText(e, res, pth) {
				break
			}
			res.Case("path-rule-text|"+pth.Canon(), true)
			res.Count("family=path-rule-text")
		}
	}
	// (m) the TEXT of whole rules: one validation whose failure has one branch - a single constraint, plain or under `not`, or an
	// `or` of two constraints of different kinds - over count / length / pattern / datatype constraints; every line of every
	// rule of the real module against RuleGen.rule_lines (the numbers in generated names, the path comment and the trace path are
	// read off the real text; everything else comes from the profile), whose bodies are proved safe
	{
		type ratom struct {
			key, val, kind string
			perValue       bool
			cond           string
			k              int
			pat, dt        string
			cid, ktext     string
			vals           []string
		}
		atomsR := []ratom{
			{key: "minCount", val: "2", kind: "count", cond: ">=", k: 2}, {key: "maxCount", val: "0", kind: "count", cond: "<=", k: 0}, {key: "exactCount", val: "1", kind: "count", cond: "==", k: 1},
			{key: "minLength", val: "3", kind: "count", perValue: true, cond: ">=", k: 3}, {key: "maxLength", val: "7", kind: "count", perValue: true, cond: "<=", k: 7}, {key: "exactLength", val: "1", kind: "count", perValue: true, cond: "==", k: 1},
			{key: "pattern", val: `"^[a-z]+$"`, kind: "pattern", pat: "^[a-z]+$"}, {key: "pattern", val: `'a` + "`" + `b "q" \\d'`, kind: "pattern", pat: "a`b \"q\" \\\\d"},
			{key: "minInclusive", val: "5", kind: "numeric", cid: "minimumInclusive", cond: ">=", ktext: "5"}, {key: "maxExclusive", val: "-3", kind: "numeric", cid: "maximumExclusive", cond: "<", ktext: "-3"},
			{key: "minExclusive", val: "0", kind: "numeric", cid: "minimumExclusive", cond: ">", ktext: "0"}, {key: "maxInclusive", val: "1000000", kind: "numeric", cid: "maximumInclusive", cond: "<=", ktext: "1000000"},
			{key: "in", val: `[ a, "b c", 3, "quo\"te", 'back\slash', "100%" ]`, kind: "in", vals: []string{"a", "b c", "3", "quo\"te", "back\\slash", "100%"}}, {key: "in", val: "[ only ]", kind: "in", vals: []string{"only"}},
			{key: "datatype", val: "xsd.string", kind: "datatype", dt: "http://www.w3.org/2001/XMLSchema#string"},
			{key: "containsAll", val: `[ a, "b c", "quo\"te" ]`, kind: "containsAll", vals: []string{"a", "b c", "quo\"te"}}, {key: "containsSome", val: "[ a ]", kind: "containsSome", vals: []string{"a"}},
			{key: "lessThanProperty", val: "ex.other", kind: "cmp", cid: "lessThan", cond: "<"}, {key: "lessThanOrEqualsToProperty", val: `"ex.o1 / ex.o2"`, kind: "cmp", cid: "lessThanOrEqualsTo", cond: "<="},
			{key: "equalsToProperty", val: "ex.other", kind: "cmp", cid: "equalsTo", cond: "="}, {key: "disjointWithProperty", val: `"ex.o1 | ex.o2 ^"`, kind: "cmp", cid: "disjointWith", cond: "!="},
			{key: "containsAll", val: "[]", kind: "containsAll", vals: []string{}}, {key: "containsSome", val: `[ x, y, "100%" ]`, kind: "containsSome", vals: []string{"x", "y", "100%"}}, {key: "datatype", val: "xsd.integer", kind: "datatype", dt: "http://www.w3.org/2001/XMLSchema#integer"},
		}
		pathsR := []string{"ex.a", "ex.a / ex.b", "( ex.a | ex.b ^ ) / ex.c"}
		msgs := []struct {
			text string
			iris []string
		}{{"plain message", nil}, {"m {{ex.a}}", []string{ExNS + "a"}}, {"{{ex.a}} and {{ ex.b }}: 100% \"sure\"", []string{ExNS + "a", ExNS + "b"}}}
		reRuleHead := regexp.MustCompile(`^(violation|warning|info)\[matches\] \{$`)
		reTrace := regexp.MustCompile(`^_result_\d+ := trace\("([^"]*)","([^"]*)",`)
		reCount := regexp.MustCompile(`^gen_propValues_(\d+) = (gen_path_set_rule_\d+) with `)
		rePat := regexp.MustCompile(`^gen_(gen_path_set_rule_\d+)_node_(\d+)_array = `)
		reDt := regexp.MustCompile(`^gen_datatype_check_(\d+)_elem = (gen_path_set_rule_\d+) with `)
		reNum := regexp.MustCompile(`^gen_numeric_comparison_(\d+)_elem = (gen_path_set_rule_\d+) with `)
		reIn := regexp.MustCompile(`^gen_x_check_(\d+)_array = (gen_path_set_rule_\d+) with `)
		reInSet := regexp.MustCompile(`^gen_inValues_(\d+) = `)
		reCmpA := regexp.MustCompile(`^(gen_path_set_rule_\d+)As = `)
		reCmpB := regexp.MustCompile(`^(gen_path_set_rule_\d+)Bs = `)
		reContains := regexp.MustCompile(`^gen_(containsAll|containsSome)_(\d+) = `)
		type rcase struct {
			label, body string
			atoms       []ratom
			negated     bool
			split       bool // one rule per constraint (a conjunction fails in as many ways as it has members)
		}
		cases := []rcase{}
		n := 0
		for ai, a := range atomsR {
			for pi, pth := range pathsR {
				if e.Quick() && (ai+pi)%2 != 0 {
					continue
				}
				pc := fmt.Sprintf("    propertyConstraints:\n      %s:\n        %s: %s\n", yamlQuote(pth), a.key, a.val)
				cases = append(cases, rcase{a.key + " on " + pth, pc, []ratom{a}, false, false})
				cases = append(cases, rcase{"not " + a.key + " on " + pth, "    not:\n  " + strings.ReplaceAll(pc, "\n    ", "\n      "), []ratom{a}, true, false})
			}
		}
		for _, ij := range [][2]int{{0, 6}, {4, 12}, {2, 7}, {5, 13}, {8, 14}, {9, 6}, {1, 15}, {10, 13}, {11, 3}, {16, 0}, {17, 14}, {23, 6}, {18, 2}, {21, 12}} {
			a, b := atomsR[ij[0]], atomsR[ij[1]]
			cases = append(cases, rcase{"or of " + a.key + " and " + b.key, fmt.Sprintf("    or:\n      - propertyConstraints:\n          ex.a:\n            %s: %s\n      - propertyConstraints:\n          ex.b / ex.c:\n            %s: %s\n", a.key, a.val, b.key, b.val), []ratom{a, b}, false, false})
		}
		// conjunctions: one rule per member; a negated conjunction: one rule holding all members, negated
		for _, ij := range [][2]int{{0, 6}, {3, 12}, {8, 16}, {18, 14}, {17, 9}} {
			a, b := atomsR[ij[0]], atomsR[ij[1]]
			pc := fmt.Sprintf("    propertyConstraints:\n      ex.a:\n        %s: %s\n      ex.b / ex.c:\n        %s: %s\n", a.key, a.val, b.key, b.val)
			cases = append(cases, rcase{"and of " + a.key + " and " + b.key, pc, []ratom{a, b}, false, true})
			cases = append(cases, rcase{"not and of " + a.key + " and " + b.key, "    not:\n  " + strings.ReplaceAll(pc, "\n    ", "\n      "), []ratom{a, b}, true, false})
		}
		for ci, c := range cases {
			m := msgs[ci%len(msgs)]
			level := []string{"violation", "warning", "info"}[ci%3]
			name := []string{"v", "rule with \"quotes\" and 100%", "ünï-rule"}[ci%3]
			profile := header + level + ":\n  - " + yamlQuote(name) + "\nvalidations:\n  " + yamlQuote(name) + ":\n    targetClass: ex.T\n    message: " + yamlQuote(m.text) + "\n" + c.body
			unit, gerr := validator.GenerateRego(profile, false, nil)
			if gerr != nil || unit == nil {
				res.Violate("impl-violates-property", "a well-formed declarative profile is not translated ("+c.label+"): "+fmt.Sprint(gerr), map[string]any{"profile": profile})
				continue
			}
			// the rules of the module
			var rules [][]string
			var cur []string
			in := false
			for _, raw := range strings.Split(unit.Code, "\n") {
				switch {
				case reRuleHead.MatchString(raw):
					in, cur = true, []string{raw}
				case in && raw == "}" && len(cur) > 0 && strings.HasPrefix(cur[len(cur)-1], "  matches := "):
					in = false
					rules = append(rules, append(cur, raw))
				case in:
					cur = append(cur, raw)
				}
			}
			wantRules, perRule := 1, len(c.atoms)
			if c.split {
				wantRules, perRule = len(c.atoms), 1
			}
			if len(rules) != wantRules {
				res.Violate("harness-error", fmt.Sprintf("%d rules where %d were expected (%s)", len(rules), wantRules, c.label), map[string]any{"no_failing_input_found": true, "broken": "C07 rule-text generator", "profile": profile, "rego_tail": core.Trunc(unit.Code[max(0, len(unit.Code)-1200):], 1200)})
				continue
			}
			for _, rule := range rules {
				// the snippets in the order of the real text: kind and numbers from the binding line, path comment, trace path
				snips := []sx.V{}
				var src string
				var pending *sx.V
				okShape := true
				for _, raw := range rule {
					line := strings.TrimSpace(raw)
					if strings.HasPrefix(line, "#  querying path: ") {
						src = strings.TrimPrefix(line, "#  querying path: ")
					}
					byKind := func(kind string) (ratom, bool) {
						for _, a := range c.atoms {
							if a.kind == kind {
								return a, true
							}
						}
						return ratom{}, false
					}
					if mm := reCount.FindStringSubmatch(line); mm != nil {
						a, ok := byKind("count")
						okShape = okShape && ok
						v := sx.L(sx.A("count"), sx.S(src), sx.S(mm[2]), sx.A(mm[1]), sx.B(a.perValue), sx.B(c.negated), sx.S(a.cond), sx.I(a.k), sx.S(a.key))
						pending = &v
					} else if mm := rePat.FindStringSubmatch(line); mm != nil {
						a, ok := byKind("pattern")
						okShape = okShape && ok
						shown, _ := json.Marshal(a.pat)
						v := sx.L(sx.A("pattern"), sx.S(src), sx.S(mm[1]), sx.A(mm[2]), sx.B(c.negated), sx.S(a.pat), sx.S(string(shown)))
						pending = &v
					} else if mm := reDt.FindStringSubmatch(line); mm != nil {
						a, ok := byKind("datatype")
						okShape = okShape && ok
						v := sx.L(sx.A("datatype"), sx.S(src), sx.S(mm[2]), sx.A(mm[1]), sx.B(c.negated), sx.S(a.dt))
						pending = &v
					} else if mm := reCmpA.FindStringSubmatch(line); mm != nil {
						a, ok := byKind("cmp")
						okShape = okShape && ok
						// (cmp srcA ruleA srcB ruleB negated cid op): srcB / ruleB are filled in at the second binding line
						v := sx.L(sx.A("cmp"), sx.S(src), sx.S(mm[1]), sx.S(""), sx.S(""), sx.B(c.negated), sx.S(a.cid), sx.S(a.cond))
						pending = &v
					} else if mm := reCmpB.FindStringSubmatch(line); mm != nil && pending != nil && pending.List[0].Atom == "cmp" {
						pending.List[3], pending.List[4] = sx.S(src), sx.S(mm[1])
					} else if mm := reNum.FindStringSubmatch(line); mm != nil {
						a, ok := byKind("numeric")
						okShape = okShape && ok
						v := sx.L(sx.A("numeric"), sx.S(src), sx.S(mm[2]), sx.A(mm[1]), sx.B(c.negated), sx.S(a.cid), sx.S(a.cond), sx.S(a.ktext))
						pending = &v
					} else if mm := reIn.FindStringSubmatch(line); mm != nil {
						a, _ := byKind("in") // (a containsAll / containsSome snippet starts with the same line; decided below)
						vs := []sx.V{}
						for _, x := range a.vals {
							vs = append(vs, sx.S(x))
						}
						// (in src rule n1 n2 negated vals): n1 is filled in when the line binding the value set is met
						v := sx.L(sx.A("in"), sx.S(src), sx.S(mm[2]), sx.A("0"), sx.A(mm[1]), sx.B(c.negated), sx.L(vs...))
						pending = &v
					} else if mm := reInSet.FindStringSubmatch(line); mm != nil && pending != nil && pending.List[0].Atom == "in" {
						pending.List[3] = sx.A(mm[1])
					} else if mm := reContains.FindStringSubmatch(line); mm != nil && pending != nil && pending.List[0].Atom == "in" {
						// the binding line looked like the one of `in`; the value set tells containsAll / containsSome
						a, ok := byKind(mm[1])
						okShape = okShape && ok
						vs := []sx.V{}
						for _, x := range a.vals {
							vs = append(vs, sx.S(x))
						}
						v := sx.L(sx.A("contains"), sx.B(mm[1] == "containsAll"), pending.List[1], pending.List[2], pending.List[4], sx.A(mm[2]), sx.B(c.negated), sx.L(vs...))
						pending = &v
					} else if mm := reTrace.FindStringSubmatch(line); mm != nil && pending != nil {
						pending.List = append(pending.List, sx.S(mm[2]))
						snips = append(snips, *pending)
						pending = nil
					}
				}
				iris := []sx.V{}
				for _, i := range m.iris {
					iris = append(iris, sx.S(i))
				}
				replay := map[string]any{"profile": profile, "case": c.label, "impl_rule": strings.Join(rule, "\n")}
				if !okShape || len(snips) != perRule {
					replay["no_failing_input_found"] = true
					replay["broken"] = "correspondence RuleGen.rule_lines vs generator (the rule does not have the snippets of the profile's constraints)"
					res.Violate("model-mismatch", "the rule generated for "+c.label+" does not have the shape RuleGen models", replay)
					continue
				}
				ans, derr := e.Driver.Eval(sx.L(sx.A("c07"), sx.A("rule-lines"), sx.S(level), sx.S("x"), sx.S(ExNS+"T"), sx.S(name), sx.L(snips...), sx.L(iris...), sx.S(m.text)))
				if derr != nil {
					res.Violate("harness-error", derr.Error(), map[string]any{"no_failing_input_found": true, "broken": "driver"})
					break
				}
				model := []string{}
				for _, l := range ans.List {
					model = append(model, l.Text())
				}
				if strings.Join(model, "\n") != strings.Join(rule, "\n") {
					replay["no_failing_input_found"] = true
					replay["broken"] = "correspondence RuleGen.rule_lines vs generator/expression.go + count.go / pattern.go / datatype.go"
					replay["model_rule"] = strings.Join(model, "\n")
					replay["first_diff_line"] = firstDiff(strings.Join(model, "\n"), strings.Join(rule, "\n"))
					res.Violate("model-mismatch", "the text of the rule generated for "+c.label+" differs from RuleGen.rule_lines", replay)
				}
			}
			n++
			res.Case("rule-text|"+c.label+"|"+level+"|"+m.text, true)
			res.Count("family=rule-text")
		}
	}
	// (o) underscores, which the path grammar accepts in prefixes and local names, in every position an IRI can stand
	{
		for ui, u := range []struct{ pfx, cls, prop, other string }{
			{"ex", "T", "my_prop", "other_prop"}, {"my_ns", "T", "name", "b"}, {"my_ns", "My_T", "my_prop", "_x"}, {"_p", "T_", "a_", "b__c"}, {"a-b_c", "T", "p-q_r", "s"},
		} {
			profile := fmt.Sprintf("#%%Validation Profile 1.0\nprofile: underscores %d\nprefixes:\n  %s: http://example.org/u#\nviolation:\n  - v1\nwarning:\n  - v2\nvalidations:\n"+
				"  v1:\n    targetClass: %s.%s\n    message: \"value {{%s.%s}} and {{%s.%s}}\"\n    propertyConstraints:\n      %s.%s:\n        minCount: 1\n        lessThanProperty: %s.%s\n      %s.%s / %s.%s ^:\n        nested:\n          propertyConstraints:\n            \"%s.%s | %s.%s\":\n              pattern: ^a\n"+
				"  v2:\n    targetClass: %s.%s\n    not:\n      propertyConstraints:\n        %s.%s:\n          in: [ a_b ]\n",
				ui, u.pfx, u.pfx, u.cls, u.pfx, u.prop, u.pfx, u.other, u.pfx, u.prop, u.pfx, u.other, u.pfx, u.prop, u.pfx, u.other, u.pfx, u.prop, u.pfx, u.other, u.pfx, u.cls, u.pfx, u.prop)
			compile(fmt.Sprintf("underscores %d", ui), profile, nil)
			res.Case(fmt.Sprintf("underscores|%d", ui), true)
			res.Count("family=underscores")
		}
	}
	// (n) the whole module for the profile files of the repository's test data, alone and in sequences that share the name counter
	{
		files := []string{}
		filepath.WalkDir(filepath.Join(e.Repo, "test", "data"), func(p string, d fs.DirEntry, err error) error {
			if err == nil && !d.IsDir() && strings.HasPrefix(filepath.Base(p), "profile") && strings.HasSuffix(p, ".yaml") {
				files = append(files, p)
			}
			return nil
		})
		sort.Strings(files)
		texts := []string{}
		for _, f := range files {
			data, err := os.ReadFile(f)
			if err != nil {
				continue
			}
			rel, _ := filepath.Rel(e.Repo, f)
			if tc.check("repository profile "+rel, string(data)) {
				texts = append(texts, string(data))
				res.Case("module-text|file|"+rel, true)
				res.Count("family=module-text-of-repository-profiles")
			}
		}
		for i := 0; i+2 < len(texts); i += e.Pick(9, 3) {
			if tc.checkSeq(fmt.Sprintf("repository profiles %d..%d in sequence", i, i+2), texts[i:i+3]) {
				res.Case(fmt.Sprintf("module-text|sequence|%d", i), true)
				res.Count("family=module-text-sequences")
			}
		}
	}
	// the model's declaration list, for the record
	ans := e.Driver.MustEval(sx.L(sx.A("c07"), sx.A("declared"), sx.I(3), sx.I(2)))
	res.Sample(map[string]any{"declared_names_of_a_body_with_3_constraints_and_2_placeholders": ans.String()})
	res.Sample(map[string]any{"family": "width", "widths": widths})
}
