package props

import (
	"fmt"
	"os"
	"strconv"
	"strings"

	"github.com/aml-org/amf-custom-validator/internal/parser/profile"
	"github.com/aml-org/amf-custom-validator/internal/validator"
	"github.com/aml-org/amf-custom-validator/verifh/core"
	"github.com/aml-org/amf-custom-validator/verifh/sx"
	yaml3 "gopkg.in/yaml.v3"
)

// textChecker compares the module the code generator writes for a profile, byte for byte, with the text the Coq model of the
// whole generator computes from the YAML tree (Elab.compile = the profile parser that keeps what the generator reads, then
// Compile.module_text).  The name counter is reset before every generation so that both start from 0; `after` profiles are
// generated with the counter left where the previous one stopped (the model is given the value its own previous answer named).
type textChecker struct {
	e        *core.Env
	res      *core.Result
	preamble string
	defaults []sx.V
	ok       bool
	// statistics
	Compared, Unsupported, BothRefuse int
	mismatches                        int
	Declarative, DeclarativeRejected  int // profiles the model calls declarative and well scoped (the premise of the safety theorem)
}

func newTextChecker(e *core.Env, res *core.Result) *textChecker {
	t := &textChecker{e: e, res: res, defaults: amfDefaultsSx()}
	profile.GenReset()
	unit, err := validator.GenerateRego("profile: P\nvalidations: {}\n", false, nil)
	head := "package profile_p\n\nreport[\"profile\"] = \"P\"\n"
	tail := "\n\ndefault violation = []\n\ndefault warning = []\n\ndefault info = []"
	if err != nil || unit == nil || !strings.HasPrefix(unit.Code, head) || !strings.HasSuffix(unit.Code, tail) {
		res.Violate("model-mismatch", "the module of a profile without validations is not `package`, `report[\"profile\"]`, preamble, three defaults",
			map[string]any{"no_failing_input_found": true, "broken": "correspondence Compile.module_text vs generator.Generate (frame of the module)"})
		return t
	}
	t.preamble = unit.Code[len(head) : len(unit.Code)-len(tail)]
	t.ok = true
	return t
}

// model answers (text, counter after, status) with status ok | error | unsupported | broken
func (t *textChecker) model(y sx.V, c0 int) (string, int, string) {
	ans, err := t.e.Driver.Eval(sx.L(sx.A("compile"), sx.A("text"), sx.L(t.defaults...), sx.S(t.preamble), y, sx.I(c0)))
	if err != nil {
		return "", 0, "broken"
	}
	if ans.IsL && len(ans.List) == 3 && ans.List[0].Text() == "ok" {
		c1, _ := strconv.Atoi(ans.List[2].Text())
		return ans.List[1].Text(), c1, "ok"
	}
	if ans.IsAtom() && (ans.Atom == "error" || ans.Atom == "unsupported") {
		return "", 0, ans.Atom
	}
	return "", 0, "broken"
}

func firstDifference(a, b string) (int, string, string) {
	la, lb := strings.Split(a, "\n"), strings.Split(b, "\n")
	for i := 0; i < len(la) || i < len(lb); i++ {
		x, y := "<end of text>", "<end of text>"
		if i < len(la) {
			x = la[i]
		}
		if i < len(lb) {
			y = lb[i]
		}
		if x != y {
			return i + 1, x, y
		}
	}
	return 0, "", ""
}

// check compares one profile (counter reset first); it answers whether the texts were compared and equal.
func (t *textChecker) check(label, text string) bool {
	return t.checkSeq(label, []string{text})
}

// checkSeq generates the profiles one after the other without resetting the counter in between.
func (t *textChecker) checkSeq(label string, texts []string) bool {
	if !t.ok {
		return false
	}
	profile.GenReset()
	c := 0
	all := true
	for i, text := range texts {
		var doc yaml3.Node
		if yaml3.Unmarshal([]byte(text), &doc) != nil || len(doc.Content) == 0 {
			return false
		}
		y, yok := yamlSx(doc.Content[0])
		if !yok {
			return false
		}
		unit, gerr := validator.GenerateRego(text, false, nil)
		want, c1, status := t.model(y, c)
		switch {
		case status == "unsupported":
			t.Unsupported++
			return false // the counter of the model is lost from here on
		case status == "broken":
			t.res.Violate("harness-error", "the driver did not answer a compile request ("+label+")", map[string]any{"no_failing_input_found": true, "broken": "driver", "profile": text})
			return false
		case status == "error" && gerr != nil:
			t.BothRefuse++
			return false
		case status == "error" || gerr != nil || unit == nil:
			t.mismatches++
			if t.mismatches <= 5 {
				ge := "<nil>"
				if gerr != nil {
					ge = core.Trunc(gerr.Error(), 300)
				}
				t.res.Violate("model-mismatch", fmt.Sprintf("the generator and its Coq model disagree on whether a profile can be translated (%s, profile %d of %d): model %s, generator error %s", label, i+1, len(texts), status, ge),
					map[string]any{"no_failing_input_found": true, "broken": "correspondence Elab.compile vs validator.GenerateRego (accept / refuse)", "profiles": texts, "model": status, "generator_error": ge})
			}
			return false
		}
		t.Compared++
		// the premise of C07_declarative_profile_bodies_are_safe, evaluated by the model on the rule it built: such a module must be
		// accepted by the engine (known finding uniqueValues-alt-path apart, which is a parse error of one snippet)
		if ans, derr := t.e.Driver.Eval(sx.L(sx.A("compile"), sx.A("declarative"), sx.L(t.defaults...), y)); derr == nil && ans.IsAtom() && ans.Atom == "1" {
			t.Declarative++
			if unit.Code == want {
				if _, cerr := validator.CompileRego(unit, nil); cerr != nil && !strings.Contains(cerr.Error(), "rego_parse_error") && !strings.Contains(cerr.Error(), "gen_path_array_rule") {
					t.DeclarativeRejected++
					if t.DeclarativeRejected <= 3 {
						t.res.Violate("impl-violates-property", "a declarative, well-scoped profile (the premise of the safety theorem holds on the rule the model built, and the module is the model's text) is refused by the engine ("+label+"): "+core.Trunc(cerr.Error(), 300),
							map[string]any{"case": label, "profile": text, "error": core.Trunc(cerr.Error(), 1500)})
					}
				}
			}
		}
		if unit.Code != want {
			all = false
			t.mismatches++
			if t.mismatches <= 5 {
				line, got, exp := firstDifference(unit.Code, want)
				t.res.Violate("model-mismatch", fmt.Sprintf("the text of the generated module differs from the Coq model of the generator (%s, profile %d of %d) at line %d", label, i+1, len(texts), line),
					map[string]any{"no_failing_input_found": true, "broken": "correspondence Compile.module_text vs generator.Generate (text of the module)", "profiles": texts,
						"line": line, "generated": core.Trunc(got, 600), "model": core.Trunc(exp, 600), "counter_before": c})
			}
		}
		c = c1
	}
	return all
}

func (t *textChecker) summary() string {
	return fmt.Sprintf("whole-module text: %d modules equal to Compile.module_text byte for byte, %d profiles outside the modelled language, %d refused by both; %d of the compared profiles are declarative and well scoped (Compile.profile_scoped), %d of them refused by the engine", t.Compared-t.mismatches, t.Unsupported, t.BothRefuse, t.Declarative, t.DeclarativeRejected)
}

// ModText is the debugging entry point `verifh modtext FILE...`.
func ModText(e *core.Env, files []string) {
	t := newTextChecker(e, e.Res)
	for _, f := range files {
		data, err := os.ReadFile(f)
		if err != nil {
			fmt.Println(f, err)
			continue
		}
		before := t.Compared
		ok := t.check(f, string(data))
		fmt.Printf("%s: equal=%v compared=%v\n", f, ok, t.Compared > before)
		if !ok && t.Compared > before {
			profile.GenReset()
			unit, _ := validator.GenerateRego(string(data), false, nil)
			var doc yaml3.Node
			yaml3.Unmarshal(data, &doc)
			y, _ := yamlSx(doc.Content[0])
			want, _, _ := t.model(y, 0)
			line, got, exp := firstDifference(unit.Code, want)
			fmt.Printf("  line %d\n  generated: %q\n  model:     %q\n", line, got, exp)
		}
	}
	fmt.Println(t.summary())
}

// one text checker per run, shared by the streams of a property
var textCheckers = map[*core.Env]*textChecker{}

func tcFor(e *core.Env) *textChecker {
	if t, ok := textCheckers[e]; ok {
		return t
	}
	t := newTextChecker(e, e.Res)
	textCheckers[e] = t
	return t
}
