package props

import (
	"bytes"
	"encoding/json"
	"fmt"
	"github.com/aml-org/amf-custom-validator/pkg/config"
	"strings"
	"time"

	"github.com/aml-org/amf-custom-validator/internal/validator"
	"github.com/aml-org/amf-custom-validator/pkg"
	"github.com/aml-org/amf-custom-validator/verifh/core"
	"github.com/aml-org/amf-custom-validator/verifh/sx"
)

// yq renders a string as a YAML double-quoted scalar (JSON string syntax is a subset of it).
func yq(s string) string {
	var b bytes.Buffer
	enc := json.NewEncoder(&b)
	enc.SetEscapeHTML(false)
	enc.Encode(s)
	// DEL is legal raw in JSON but not in YAML
	return strings.ReplaceAll(strings.TrimRight(b.String(), "\n"), "\x7f", "\\u007f")
}

func c13Strings(e *core.Env) []string {
	tokens := []string{"\"", "'", "\\", "%", "{", "}", "`", "$", "\n", "\t", "é", "🎉", "#", ":", " ", "a", "Z9", "%v", "%d", "%%", "%!v(MISSING)",
		"{{ex.a}}", "{{ ex.b }}", "{{ex.zz}}", "{{foo.bar}}", "{{", "}}", "{{ex.a}", "{{ ex . a }}", "$message", "$node", "not", "targetClass", "\\n", "\\\"", "\\u0041",
		"\") ; x := http.send({", "\"] = 1 #", "- ", "&a", "*", "|", ">", "~", "null", "true", "1e3",
		// characters that need care when pasted into source text: other controls, DEL, no-break space, zero-width joiner, line separator,
		// an emoji flag spelt with astral TAG characters, a plane-16 private-use character, an ANSI colour sequence
		"\x1b[31m", "\f", "\v", "\x01", "\x7f", "\u00a0", "\u200d", "\u2028", "\U0001F3F4\U000E0067\U000E0062\U000E0065\U000E006E\U000E0067\U000E007F", "\U0010FFFD", "\r",
		// a byte-order mark (the engine refuses it unescaped anywhere in a module), the paragraph separator, and the TEXT of the
		// escapes the report encoder writes for such characters
		"\ufeff", "\u2029", "\\u2028", "\\ufeff", "\\u0000"}
	out := []string{}
	seen := map[string]bool{}
	add := func(s string) {
		if s != "" && strings.TrimSpace(s) != "" && !seen[s] {
			seen[s] = true
			out = append(out, s)
		}
	}
	for _, t := range tokens {
		add(t)
		add("x" + t + "y")
	}
	// directed combinations: repeated placeholders (same and different spelling), placeholders next to percent signs and quotes
	for _, t := range []string{"{{ex.a}} and {{ex.a}}", "{{ex.a}}{{ex.a}}{{ex.b}}{{ex.a}}", "{{ ex.b }} x {{ ex.b }} y {{ex.b}}", "'{{ex.a}}' is \"{{ex.a}}\"",
		"100% {{ex.a}} 50% {{ex.a}} %", "{{ex.zz}}{{ex.zz}}", "%v{{ex.a}}%d{{ex.a}}%%", "{{ex.a}}\n{{ex.a}}"} {
		add(t)
	}
	for i := 0; i < e.Pick(260, 4000); i++ {
		n := 2 + e.Rand.Intn(5)
		s := ""
		for k := 0; k < n; k++ {
			s += tokens[e.Rand.Intn(len(tokens))]
		}
		add(s)
	}
	return out
}

const c13Data = `{"@graph":[{"@id":"http://example.org/d#a","@type":"http://example.org/ns#T","http://example.org/ns#a":"va","http://example.org/ns#b":7}]}`

func C13(e *core.Env) {
	res := e.Res
	res.Rule = "cases = (string, position) with position in {profile name, validation name, message, value of an in / containsAll / containsSome list}, plus 5 prefix namespaces holding percent escapes / formatting verbs / quotes behind a message placeholder; strings: every token of a 58-item alphabet (quotes, control characters other than newline and tab, DEL, no-break space, zero-width joiner, line separator, an emoji flag spelt with astral TAG characters, a plane-16 private-use character, backslash, percent, braces, backtick, dollar, newline, tab, non-ASCII BMP and astral, sprintf verbs, well-formed / malformed / repeated / absent placeholders, key names, YAML indicators, an injection attempt) alone and embedded, plus seeded concatenations of 2-6 tokens (260 quick / 4000 thorough); " +
		"each must compile, and profileName / sourceShapeName / resultMessage in the report must equal the text the Coq model says must be shown (message: placeholders replaced by the node's values, null when absent, double quotes as single quotes); non-trivial = the string contains a character outside [A-Za-z0-9 ]; distinct by (string, position)"
	strs := c13Strings(e)
	nontrivial := func(s string) bool {
		for _, r := range s {
			if !(r == ' ' || (r >= '0' && r <= '9') || (r >= 'a' && r <= 'z') || (r >= 'A' && r <= 'Z')) {
				return true
			}
		}
		return false
	}
	vals := sx.L(sx.L(sx.S("ex.a"), sx.S("va")), sx.L(sx.S("ex.b"), sx.S("7")))
	check := func(position, s, profile string, names []string, msgs map[string]string, pname string) {
		if tcFor(e).check("C13 "+position, profile) {
			res.Count("whole-module-text=equal")
		}
		out, err := pkg.Validate(profile, c13Data, false, nil)
		replay := map[string]any{"position": position, "string": s, "profile": profile, "data": c13Data}
		if err == nil && reportTextCheckProfile(e, "C13 "+position, profile, c13Data, time.Time{}, true, config.DefaultReportConfiguration(), out, replay) {
			res.Count("report-bytes=equal")
		}
		if err != nil {
			replay["error"] = core.Trunc(err.Error(), 1500)
			if unit, gerr := validator.GenerateRego(profile, false, nil); gerr == nil && unit != nil {
				replay["generated_rego_tail"] = core.Trunc(unit.Code[max(0, len(unit.Code)-900):], 900)
			}
			res.Violate("impl-violates-property", "a profile whose "+position+" is "+core.Trunc(fmt.Sprintf("%q", s), 80)+" does not compile / validate: "+core.Trunc(err.Error(), 160), replay)
			return
		}
		rep, err := ParseReport(out)
		if err != nil {
			replay["report"] = core.Trunc(out, 1500)
			res.Violate("impl-violates-property", "report does not parse", replay)
			return
		}
		if got, _ := rep.Node["profileName"].(string); got != pname {
			replay["expected"], replay["actual"] = pname, got
			res.Violate("impl-violates-property", "profileName is not the profile's name verbatim", replay)
		}
		gotNames := map[string]string{}
		for _, r := range rep.Results {
			gotNames[r.Name] = r.Message
		}
		for _, n := range names {
			msg, ok := gotNames[n]
			if !ok {
				replay["expected_validation_name"] = n
				replay["actual_names"] = fmt.Sprint(gotNames)
				res.Violate("impl-violates-property", "no result carries the validation name verbatim: "+core.Trunc(fmt.Sprintf("%q", n), 80), replay)
				continue
			}
			ans, derr := e.Driver.Eval(sx.L(sx.A("c13"), sx.A("message"), sx.S(msgs[n]), vals))
			if derr != nil {
				res.Violate("harness-error", derr.Error(), map[string]any{"no_failing_input_found": true, "broken": "driver", "message": msgs[n]})
				continue
			}
			want := ans.List[0].Text()
			if msg != want {
				r2 := map[string]any{"position": "message", "message_as_written": msgs[n], "expected_resultMessage": want, "actual_resultMessage": msg, "profile": profile, "data": c13Data,
					"model_pasted_literal": ans.List[1].Text()}
				res.Violate("impl-violates-property", "resultMessage is not the message as written with placeholders substituted: "+core.Trunc(fmt.Sprintf("%q", msgs[n]), 80), r2)
			}
		}
	}
	header := func(pname string) string {
		return "#%Validation Profile 1.0\nprofile: " + yq(pname) + "\nprefixes:\n  ex: http://example.org/ns#\n"
	}
	validation := func(name, msg string) string {
		return "  " + yq(name) + ":\n    targetClass: ex.T\n    message: " + yq(msg) + "\n    propertyConstraints:\n      ex.nope:\n        minCount: 1\n"
	}
	// profile names: one profile each
	for i, s := range strs {
		if e.Quick() && i >= 140 && i%3 != 0 {
			continue
		}
		p := header(s) + "violation:\n  - v\nvalidations:\n" + validation("v", "m")
		check("profile name", s, p, []string{"v"}, map[string]string{"v": "m"}, s)
		res.Case("pname|"+s, nontrivial(s))
		res.Count("position=profile-name")
	}
	// validation names and messages: batches
	batch := 12
	for start := 0; start < len(strs); start += batch {
		end := start + batch
		if end > len(strs) {
			end = len(strs)
		}
		var lv, vs strings.Builder
		names := []string{}
		msgs := map[string]string{}
		for i := start; i < end; i++ {
			s := strs[i]
			n1 := s                     // the string as validation name, plain message
			n2 := fmt.Sprintf("m%d", i) // plain name, the string as message
			for _, n := range []string{n1, n2} {
				lv.WriteString("  - " + yq(n) + "\n")
				names = append(names, n)
			}
			msgs[n1] = "plain message"
			msgs[n2] = s
			vs.WriteString(validation(n1, msgs[n1]))
			vs.WriteString(validation(n2, msgs[n2]))
			res.Case("vname|"+s, nontrivial(s))
			res.Case("message|"+s, nontrivial(s))
			res.Count("position=validation-name")
			res.Count("position=message")
		}
		p := header("Batch") + "violation:\n" + lv.String() + "validations:\n" + vs.String()
		out, err := pkg.Validate(p, c13Data, false, nil)
		_ = out
		if err != nil {
			// find the culprit one by one
			for i := start; i < end; i++ {
				s := strs[i]
				check("validation name", s, header("One")+"violation:\n  - "+yq(s)+"\nvalidations:\n"+validation(s, "plain message"), []string{s}, map[string]string{s: "plain message"}, "One")
				check("message", s, header("One")+"violation:\n  - v\nvalidations:\n"+validation("v", s), []string{"v"}, map[string]string{"v": s}, "One")
			}
			continue
		}
		check("validation names / messages", fmt.Sprintf("batch %d..%d", start, end), p, names, msgs, "Batch")
	}
	// namespaces with characters that matter to string formatting (percent escapes, verbs, quotes): a placeholder of such a
	// prefix is still replaced by the node's value
	for ni, ns := range []string{"file:///C:/Users/me/My%20vocabularies/movie.yaml#", "http://example.org/n%s/v#", "http://example.org/100%25/", "http://example.org/q'uote#", "http://example.org/v%d%v#"} {
		profile := "#%Validation Profile 1.0\nprofile: Namespaces\nprefixes:\n  mv: " + yq(ns) + "\nviolation:\n  - v\nvalidations:\n  v:\n    targetClass: mv.T\n    message: " + yq("Movie '{{mv.title}}' has {{ mv.count }} reviews, 100% sure") +
			"\n    propertyConstraints:\n      mv.nope:\n        minCount: 1\n"
		dj, _ := json.Marshal(map[string]any{"@graph": []any{map[string]any{"@id": "http://example.org/d#m", "@type": ns + "T", ns + "title": "Disaster Movie", ns + "count": 5}}})
		out, err := pkg.Validate(profile, string(dj), false, nil)
		replay := map[string]any{"position": "namespace of a placeholder's prefix", "namespace": ns, "profile": profile, "data": string(dj)}
		res.Case(fmt.Sprintf("namespace|%d", ni), true)
		res.Count("position=placeholder-namespace")
		if err != nil {
			replay["error"] = core.Trunc(err.Error(), 1200)
			res.Violate("impl-violates-property", "a profile whose prefix namespace is "+fmt.Sprintf("%q", ns)+" does not validate: "+core.Trunc(err.Error(), 160), replay)
			continue
		}
		rep, perr := ParseReport(out)
		got := ""
		if perr == nil && len(rep.Results) == 1 {
			got = rep.Results[0].Message
		}
		want := "Movie 'Disaster Movie' has 5 reviews, 100% sure"
		if got != want {
			replay["expected_resultMessage"], replay["actual_resultMessage"] = want, got
			res.Violate("impl-violates-property", "a placeholder whose prefix is bound to "+fmt.Sprintf("%q", ns)+" is not replaced by the node's value", replay)
		}
	}
	// the message of a validation next to a Rego constraint that sets its own message ($message): each result shows the text
	// that belongs to the rule that produced it
	for vi, shape := range []string{"two-properties", "and", "else"} {
		regoC := "rego: |\n              $message = \"custom: a must be x\"\n              $result = ($node == [\"x\"])\n"
		body := ""
		switch shape {
		case "two-properties":
			body = "    propertyConstraints:\n      ex.a:\n        " + strings.ReplaceAll(regoC, "              ", "          ") + "      ex.b:\n        minCount: 1\n"
		case "and":
			body = "    and:\n      - propertyConstraints:\n          ex.a:\n            " + regoC + "      - propertyConstraints:\n          ex.b:\n            minCount: 1\n"
		case "else":
			body = "    if:\n      propertyConstraints:\n        ex.c:\n          minCount: 1\n    then:\n      propertyConstraints:\n        ex.a:\n          " + strings.ReplaceAll(regoC, "              ", "            ") + "    else:\n      propertyConstraints:\n        ex.b:\n          minCount: 1\n"
		}
		profile := header("Rego message") + "violation:\n  - v\nvalidations:\n  v:\n    targetClass: ex.T\n    message: " + yq("the plain message of v, 100%") + "\n" + body
		data := `{"@graph":[{"@id":"http://example.org/d#noB","@type":"http://example.org/ns#T","http://example.org/ns#a":"x"},{"@id":"http://example.org/d#badA","@type":"http://example.org/ns#T","http://example.org/ns#a":"y","http://example.org/ns#b":"b","http://example.org/ns#c":"c"}]}`
		out, err := pkg.Validate(profile, data, false, nil)
		replay := map[string]any{"position": "message next to a Rego constraint with $message (" + shape + ")", "profile": profile, "data": data}
		res.Case(fmt.Sprintf("rego-message|%d", vi), true)
		res.Count("position=next-to-rego-message")
		if err != nil {
			replay["error"] = core.Trunc(err.Error(), 1200)
			res.Violate("impl-violates-property", "a validation whose message stands next to a Rego constraint that sets $message does not validate: "+core.Trunc(err.Error(), 160), replay)
			continue
		}
		rep, perr := ParseReport(out)
		if perr != nil {
			continue
		}
		for _, r := range rep.Results {
			want := "the plain message of v, 100%"
			if strings.Contains(fmt.Sprint(r.Raw["trace"]), "component:rego") {
				want = "custom: a must be x" // the result of the Rego rule
			}
			if r.Message != want {
				replay["focus"], replay["expected_resultMessage"], replay["actual_resultMessage"] = r.Focus, want, r.Message
				res.Violate("impl-violates-property", "a result does not show the message of the rule that produced it", replay)
			}
		}
	}
	// values of in / containsAll / containsSome lists: the text is data. For each string s a node holding exactly s must
	// pass `in: [s]`, `containsAll: [s]`, `containsSome: [s]` and a node holding s~ must fail all three.
	kinds := []string{"in", "containsAll", "containsSome"}
	for start := 0; start < len(strs); start += batch {
		end := start + batch
		if end > len(strs) {
			end = len(strs)
		}
		run := func(lo, hi int) (bool, map[string]any) {
			var lv, vs strings.Builder
			good := map[string]any{"@id": "http://example.org/d#good", "@type": "http://example.org/ns#T"}
			bad := map[string]any{"@id": "http://example.org/d#bad", "@type": "http://example.org/ns#T"}
			for i := lo; i < hi; i++ {
				for ki, k := range kinds {
					name := fmt.Sprintf("l%d-%s", i, k)
					lv.WriteString("  - " + name + "\n")
					prop := fmt.Sprintf("q%dk%d", i, ki)
					vs.WriteString("  " + name + ":\n    targetClass: ex.T\n    message: m\n    propertyConstraints:\n      ex." + prop + ":\n        " + k + ": [ " + yq(strs[i]) + " ]\n")
					good["http://example.org/ns#"+prop] = strs[i]
					bad["http://example.org/ns#"+prop] = strs[i] + "~"
				}
			}
			p := header("Lists") + "violation:\n" + lv.String() + "validations:\n" + vs.String()
			dj, _ := json.Marshal(map[string]any{"@graph": []any{good, bad}})
			replay := map[string]any{"position": "list value", "profile": p, "data": string(dj), "strings": strs[lo:hi]}
			out, err := pkg.Validate(p, string(dj), false, nil)
			if err != nil {
				replay["error"] = core.Trunc(err.Error(), 1200)
				return false, replay
			}
			rep, err := ParseReport(out)
			if err != nil {
				replay["error"] = "report does not parse"
				return false, replay
			}
			got := map[string]bool{}
			for _, r := range rep.Results {
				got[r.Name+"|"+r.Focus] = true
			}
			wrong := []string{}
			for i := lo; i < hi; i++ {
				for _, k := range kinds {
					name := fmt.Sprintf("l%d-%s", i, k)
					if got[name+"|http://example.org/d#good"] {
						wrong = append(wrong, fmt.Sprintf("%s: the node holding exactly %q is reported", k, strs[i]))
					}
					if !got[name+"|http://example.org/d#bad"] {
						wrong = append(wrong, fmt.Sprintf("%s: the node holding %q is not reported", k, strs[i]+"~"))
					}
				}
			}
			if len(wrong) > 0 {
				replay["wrong"] = wrong
				return false, replay
			}
			return true, nil
		}
		if ok, _ := run(start, end); !ok {
			// one by one, to name the string
			for i := start; i < end; i++ {
				if ok1, rp := run(i, i+1); !ok1 {
					what := "a list value is not treated as the text it is"
					if e, has := rp["error"]; has {
						what = "a profile with this list value does not validate: " + core.Trunc(fmt.Sprint(e), 160)
					}
					res.Violate("impl-violates-property", what+": "+core.Trunc(fmt.Sprintf("%q", strs[i]), 80), rp)
				}
			}
		}
		for i := start; i < end; i++ {
			res.Case("listvalue|"+strs[i], nontrivial(strs[i]))
			res.Count("position=list-value")
		}
	}
	if len(strs) > 60 {
		res.Sample(map[string]any{"strings": []string{strs[0], strs[21], strs[57], strs[len(strs)-1]}, "positions": "profile name, validation name, message, list value"})
	}
	// the model's own pipeline agrees with its specification on every string used (theorem C13_message, evaluated)
	for _, s := range strs {
		ans := e.Driver.MustEval(sx.L(sx.A("c13"), sx.A("message"), sx.S(s), vals))
		if ans.List[3].Atom != "1" {
			res.Violate("model-mismatch", "Escape.rendered differs from Escape.display", map[string]any{"no_failing_input_found": true, "broken": "C13_message on " + s})
		}
	}
}

func max(a, b int) int {
	if a > b {
		return a
	}
	return b
}
