package props

import "github.com/aml-org/amf-custom-validator/verifh/core"

// Checks maps a property id to its correspondence check.
var Checks = map[string]func(*core.Env){
	"C18": C18,
	"C16": C16,
	"C02": C02,
	"C01": C01,
	"C03": C03,
	"C12": C12,
	"C04": C04,
	"C09": C09,
	"C11": C11,
	"C17": C17,
	"C13": C13,
	"C14": C14,
	"C06": C06,
	"C10": C10,
	"C08": C08,
	"C07": C07,
	"C05": C05,
	"C15": C15,
}
