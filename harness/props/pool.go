package props

// Small fixed pool of profiles and data documents used by the checks that are not about the
// profile language itself (C18, C09, C04, C11, ...). Everything uses the ex: namespace.

const ExNS = "http://example.org/ns#"

const PoolProfileMin = `#%Validation Profile 1.0
profile: Pool Min
prefixes:
  ex: http://example.org/ns#
violation:
  - needs-name
validations:
  needs-name:
    targetClass: ex.Thing
    message: Things need a name
    propertyConstraints:
      ex.name:
        minCount: 1
`

const PoolProfileLevels = `#%Validation Profile 1.0
profile: Pool Levels
prefixes:
  ex: http://example.org/ns#
violation:
  - needs-name
warning:
  - short-name
info:
  - has-child
validations:
  needs-name:
    targetClass: ex.Thing
    message: Things need a name
    propertyConstraints:
      ex.name:
        minCount: 1
  short-name:
    targetClass: ex.Thing
    message: "Name {{ex.name}} is too long"
    propertyConstraints:
      ex.name:
        maxLength: 3
  has-child:
    targetClass: ex.Thing
    message: children must be leaves
    propertyConstraints:
      ex.child:
        nested:
          propertyConstraints:
            ex.child:
              maxCount: 0
`

// special characters in texts that travel to the outputs (percent signs, quotes, non-ASCII)
const PoolProfileSpecial = `#%Validation Profile 1.0
profile: Pool Special 100% (%d %s %v) é
prefixes:
  ex: http://example.org/ns#
violation:
  - pct
validations:
  pct:
    targetClass: ex.Thing
    message: Names must be 100% fine, not %d or %s or %v - naïve 'quoted' text
    propertyConstraints:
      ex.name:
        pattern: "^[a-z%]+$"
`

const PoolProfileBroken = `#%Validation Profile 1.0
profile: Broken
violation:
  - v
validations:
  v:
    message: no target class here
`

const PoolProfileBadYaml = "profile: [unclosed\n  - : :\n"

const PoolDataGood = `{"@graph":[
 {"@id":"http://example.org/d#a","@type":"http://example.org/ns#Thing","http://example.org/ns#name":"abc"},
 {"@id":"http://example.org/d#b","@type":["http://example.org/ns#Thing"],"http://example.org/ns#name":"b"}
]}`

const PoolDataBad = `{"@graph":[
 {"@id":"http://example.org/d#a","@type":"http://example.org/ns#Thing","http://example.org/ns#name":"abcdefgh",
  "http://example.org/ns#child":[{"@id":"http://example.org/d#b"},{"@id":"http://example.org/d#c"}]},
 {"@id":"http://example.org/d#b","@type":["http://example.org/ns#Thing"],
  "http://example.org/ns#child":{"@id":"http://example.org/d#c"}},
 {"@id":"http://example.org/d#c","@type":["http://example.org/ns#Thing","http://example.org/ns#Other"],"http://example.org/ns#name":["x","a longer name"]},
 {"@id":"http://example.org/d#d","@type":"http://example.org/ns#Thing"}
]}`

const PoolDataSpecial = `{"@graph":[
 {"@id":"http://example.org/d#my%20api.raml","@type":"http://example.org/ns#Thing","http://example.org/ns#name":["100%","50%d off","naïve"]},
 {"@id":"http://example.org/d#b","@type":["http://example.org/ns#Thing"],"http://example.org/ns#name":"ok%"}
]}`

const PoolDataEmpty = `{"@graph":[]}`

const PoolDataGarbage = "#%RAML 1.0\ntitle: not json at all\n"

const PoolDataTruncated = `{"@graph":[{"@id":"http://example.org/d#a","@type":"http://exa`
