package props

import (
	"crypto/sha256"
	"encoding/hex"
	"encoding/json"
	"fmt"
	"os"
	"os/exec"
	"path/filepath"
	"strings"
	"sync"

	"github.com/aml-org/amf-custom-validator/internal/validator"
	"github.com/aml-org/amf-custom-validator/pkg"
	"github.com/aml-org/amf-custom-validator/pkg/config"
	"github.com/aml-org/amf-custom-validator/verifh/core"
)

// OneShot is what a fresh process computes for (profile file, data file): generated Rego and the report with a fixed clock.
// c06Configs: report configurations that share / differ in each of their three fields.
var c06Configs = []config.ReportConfiguration{
	config.DefaultReportConfiguration(),
	{IncludeReportCreationTime: true, ReportSchemaIri: "file:///dialects/validation-report.yaml", LexicalSchemaIri: "file:///dialects/lexical-2.0.yaml"},
	{IncludeReportCreationTime: false, ReportSchemaIri: "file:///other/report.yaml", LexicalSchemaIri: "file:///dialects/lexical.yaml"},
	{IncludeReportCreationTime: true, ReportSchemaIri: "file:///other/report.yaml", LexicalSchemaIri: "file:///other/lexical.yaml"},
}

func OneShot(profilePath, dataPath string, cfg int) {
	p, _ := os.ReadFile(profilePath)
	d, _ := os.ReadFile(dataPath)
	out := map[string]string{}
	unit, err := validator.GenerateRego(string(p), false, nil)
	if err != nil {
		out["rego"] = "error: " + err.Error()
	} else {
		out["rego"] = unit.Code
	}
	rep, err := pkg.ValidateWithConfiguration(string(p), string(d), false, nil, clockA, c06Configs[cfg%len(c06Configs)])
	if err != nil {
		out["report"] = "error: " + err.Error()
	} else {
		out["report"] = rep
	}
	enc, _ := json.Marshal(out)
	os.Stdout.Write(enc)
}

func sha(s string) string {
	h := sha256.Sum256([]byte(s))
	return hex.EncodeToString(h[:8])
}

func c06Profiles(e *core.Env) map[string]string {
	ps := map[string]string{"pool-levels": PoolProfileLevels, "pool-special": PoolProfileSpecial}
	// several quantified constraints under one propertyConstraints, several properties per map, several prefixes
	ps["many-quantified"] = `#%Validation Profile 1.0
profile: Many quantified
prefixes:
  ex: http://example.org/ns#
  zz: http://example.org/zz#
  aa: http://example.org/aa#
  core: http://example.org/core-redeclared#
violation:
  - v1
  - v2
warning:
  - v3
validations:
  v1:
    targetClass: ex.Thing
    message: v1
    propertyConstraints:
      ex.child:
        nested:
          propertyConstraints:
            ex.name:
              minCount: 1
            zz.other:
              maxCount: 3
      zz.friend / ex.child:
        atLeast:
          count: 1
          validation:
            propertyConstraints:
              ex.name:
                pattern: ^a
      aa.peer | ex.child:
        atMost:
          count: 2
          validation:
            propertyConstraints:
              aa.x:
                in: [ 1, 2 ]
      ex.name:
        minCount: 1
        maxLength: 20
        pattern: "[a-z]+"
  v2:
    targetClass: ex.Thing
    message: "v2 {{ex.name}} {{zz.other}}"
    or:
      - propertyConstraints:
          ex.a:
            minCount: 1
          ex.b:
            minCount: 1
          ex.c:
            nested:
              propertyConstraints:
                ex.d:
                  nested:
                    propertyConstraints:
                      ex.e:
                        minCount: 1
      - not:
          propertyConstraints:
            zz.a:
              lessThanProperty: zz.b
            aa.a:
              containsSome: [ x, y ]
  v3:
    targetClass: ex.Thing
    message: v3
    if:
      propertyConstraints:
        ex.child:
          minCount: 1
    then:
      propertyConstraints:
        ex.child:
          nested:
            propertyConstraints:
              ex.child:
                maxCount: 0
    else:
      propertyConstraints:
        ex.name:
          exactCount: 1
`
	// more validations than any fixture has (a translator that treats large profiles differently must still be deterministic)
	{
		var b strings.Builder
		b.WriteString("#%Validation Profile 1.0\nprofile: Many validations\nprefixes:\n  ex: http://example.org/ns#\n  zz: http://example.org/zz#\n")
		nv := 48
		for li, l := range []string{"violation", "warning", "info"} {
			b.WriteString(l + ":\n")
			for i := li; i < nv; i += 3 {
				fmt.Fprintf(&b, "  - v%d\n", i)
			}
		}
		b.WriteString("validations:\n")
		bodies := []string{
			"    propertyConstraints:\n      ex.name:\n        minCount: 1\n        pattern: ^a\n",
			"    propertyConstraints:\n      ex.child / ex.name | zz.other:\n        maxCount: 2\n      ex.child:\n        nested:\n          propertyConstraints:\n            ex.name:\n              minCount: 1\n",
			"    or:\n      - propertyConstraints:\n          ex.name:\n            in: [ a, b ]\n      - not:\n          propertyConstraints:\n            ex.child:\n              atLeast:\n                count: 1\n                validation:\n                  propertyConstraints:\n                    zz.other:\n                      minCount: 1\n",
			"    if:\n      propertyConstraints:\n        ex.name:\n          minLength: 2\n    then:\n      propertyConstraints:\n        ex.child ^:\n          maxCount: 0\n",
		}
		for i := 0; i < nv; i++ {
			fmt.Fprintf(&b, "  v%d:\n    targetClass: ex.Thing\n    message: m%d\n%s", i, i, bodies[i%len(bodies)])
		}
		ps["many-validations"] = b.String()
	}
	// repository fixtures
	for _, rel := range []string{"test/data/integration/profile1/profile.yaml", "test/data/production/best-practices/profile.yaml", "test/data/basic/profile2.yaml"} {
		if b, err := os.ReadFile(filepath.Join(e.Repo, rel)); err == nil {
			ps["fixture:"+rel] = string(b)
		}
	}
	return ps
}

func C06(e *core.Env) {
	res := e.Res
	res.Rule = "cases = (profile, data): generated Rego and report (fixed clock) computed by N fresh processes (quick 10, thorough 40), by repeated calls in one process, and by 8 goroutines at once; all bytes must be identical; profiles: several quantified constraints and properties per propertyConstraints map, several prefixes incl. a redeclared built-in one, deep nesting, 48 validations, repository fixtures; a history of 10 validations cycling through 4 report configurations (sharing / differing in each field) against the fresh-process report of each configuration; data: failing documents with lexical source maps, with TWO source-information nodes, with several results per level; " +
		"non-trivial = the report has results; distinct by (profile, data, mode)"
	self, _ := os.Executable()
	g := RandomEdgeGraph(e.Rand, 5, []string{"a", "b", "c"}, 0.4)
	twoInfos := lexCase{g: g, sourceMaps: [][]lexEntry{{{NodeID(0), rng("1", "2", "3", "4")}, {NodeID(1), rng("5", "6", "7", "8")}, {NodeID(2), rng("9", "1", "9", "2")}}}}
	r1 := "file:///api/root.raml"
	twoInfos.root = &r1
	twoInfos.extraInfos = []string{"file:///api/library.raml", "file:///api/third.raml"}
	thingData := strings.ReplaceAll(twoInfos.jsonld(), ExNS+"T", ExNS+"Thing")
	datas := map[string]string{"pool-bad": PoolDataBad, "two-source-infos": thingData, "pool-special": PoolDataSpecial}
	n := e.Pick(10, 40)
	rc := config.DefaultReportConfiguration()
	for pname, p := range c06Profiles(e) {
		for dname, d := range datas {
			if strings.HasPrefix(pname, "fixture:") && dname != "pool-bad" {
				continue
			}
			pf := filepath.Join(e.Scratch, "c06p.yaml")
			df := filepath.Join(e.Scratch, "c06d.jsonld")
			os.WriteFile(pf, []byte(p), 0o644)
			os.WriteFile(df, []byte(d), 0o644)
			type shot struct{ Rego, Report string }
			var first shot
			var mu sync.Mutex
			var wg sync.WaitGroup
			outs := make([]shot, n)
			sem := make(chan struct{}, 8)
			for i := 0; i < n; i++ {
				wg.Add(1)
				go func(i int) {
					defer wg.Done()
					sem <- struct{}{}
					defer func() { <-sem }()
					out, err := exec.Command(self, "oneshot", pf, df).Output()
					var m map[string]string
					if err != nil || json.Unmarshal(out, &m) != nil {
						mu.Lock()
						res.Violate("harness-error", fmt.Sprintf("fresh process failed: %v", err), map[string]any{"no_failing_input_found": true, "broken": "oneshot subprocess"})
						mu.Unlock()
						return
					}
					outs[i] = shot{m["rego"], m["report"]}
				}(i)
			}
			wg.Wait()
			first = outs[0]
			replay := map[string]any{"profile": p, "data": d, "profile_name": pname, "data_name": dname}
			for i := 1; i < n; i++ {
				if outs[i].Rego != first.Rego {
					replay["mode"] = "fresh processes: generated Rego"
					replay["first_sha"], replay["other_sha"] = sha(first.Rego), sha(outs[i].Rego)
					replay["first_diff_line"] = firstDiff(first.Rego, outs[i].Rego)
					res.Violate("impl-violates-property", "two fresh processes generate different Rego for the same profile ("+pname+")", replay)
					break
				}
				if outs[i].Report != first.Report {
					replay["mode"] = "fresh processes: report"
					replay["first_diff_line"] = firstDiff(first.Report, outs[i].Report)
					res.Violate("impl-violates-property", "two fresh processes produce different reports for the same inputs ("+pname+", "+dname+")", replay)
					break
				}
			}
			res.Case(pname+"|"+dname+"|fresh", strings.Contains(first.Report, "\"result\""))
			// repeated calls in this process, then 8 goroutines at once
			ref, err := pkg.ValidateWithConfiguration(p, d, false, nil, clockA, rc)
			refs := ref
			if err != nil {
				refs = "error: " + err.Error()
			}
			if refs != first.Report {
				replay["mode"] = "in-process vs fresh process"
				replay["first_diff_line"] = firstDiff(first.Report, refs)
				res.Violate("impl-violates-property", "the report of a later call in a long-running process differs from the one of a fresh process ("+pname+", "+dname+")", replay)
			}
			for i := 0; i < 3; i++ {
				o, err := pkg.ValidateWithConfiguration(p, d, false, nil, clockA, rc)
				if err != nil {
					o = "error: " + err.Error()
				}
				if o != refs {
					replay["mode"] = "repeated calls"
					replay["first_diff_line"] = firstDiff(refs, o)
					res.Violate("impl-violates-property", "repeated validation of the same inputs gives different bytes ("+pname+", "+dname+")", replay)
					break
				}
			}
			res.Case(pname+"|"+dname+"|repeat", strings.Contains(refs, "\"result\""))
			var cwg sync.WaitGroup
			diffs := make([]string, 8)
			for w := 0; w < 8; w++ {
				cwg.Add(1)
				go func(w int) {
					defer cwg.Done()
					defer func() {
						if r := recover(); r != nil {
							diffs[w] = fmt.Sprintf("panic: %v", r)
						}
					}()
					for k := 0; k < e.Pick(3, 10); k++ {
						o, err := pkg.ValidateWithConfiguration(p, d, false, nil, clockA, rc)
						if err != nil {
							o = "error: " + err.Error()
						}
						if o != refs {
							diffs[w] = firstDiff(refs, o)
						}
					}
				}(w)
			}
			cwg.Wait()
			for w, df := range diffs {
				if df != "" {
					replay["mode"] = fmt.Sprintf("8 goroutines at once (worker %d)", w)
					replay["first_diff_line"] = df
					res.Violate("impl-violates-property", "concurrent validation of the same inputs gives different bytes ("+pname+", "+dname+")", replay)
					break
				}
			}
			res.Case(pname+"|"+dname+"|concurrent", strings.Contains(refs, "\"result\""))
			res.Count("profile=" + pname)
			if pname == "many-quantified" && dname == "pool-bad" {
				res.Sample(map[string]any{"profile": pname, "data": dname, "fresh_processes": n, "rego_sha": sha(first.Rego), "report_sha": sha(first.Report)})
			}
		}
	}
	// configuration histories: the report for (inputs, configuration) made after other configurations were used equals
	// the one a fresh process makes for that configuration
	{
		p, d := PoolProfileLevels, thingData
		pf := filepath.Join(e.Scratch, "c06p.yaml")
		df := filepath.Join(e.Scratch, "c06d.jsonld")
		os.WriteFile(pf, []byte(p), 0o644)
		os.WriteFile(df, []byte(d), 0o644)
		freshOf := map[int]string{}
		for k := range c06Configs {
			out, err := exec.Command(self, "oneshot", pf, df, fmt.Sprint(k)).Output()
			var m map[string]string
			if err != nil || json.Unmarshal(out, &m) != nil {
				res.Violate("harness-error", fmt.Sprintf("fresh process failed: %v", err), map[string]any{"no_failing_input_found": true, "broken": "oneshot subprocess"})
				continue
			}
			freshOf[k] = m["report"]
		}
		order := []int{0, 1, 0, 3, 2, 1, 3, 0, 2, 1}
		for step, k := range order {
			o, err := pkg.ValidateWithConfiguration(p, d, false, nil, clockA, c06Configs[k])
			if err != nil {
				o = "error: " + err.Error()
			}
			if fr, ok := freshOf[k]; ok && o != fr {
				res.Violate("impl-violates-property", fmt.Sprintf("the report made with configuration %d after other configurations were used differs from a fresh process's", k),
					map[string]any{"profile": p, "data": d, "configurations": fmt.Sprintf("%+v", c06Configs), "history_of_configuration_indices": order[:step+1], "first_diff_line": firstDiff(fr, o), "mode": "configuration history"})
				break
			}
			res.Case(fmt.Sprintf("config-history|%d|%d", step, k), strings.Contains(o, "\"result\""))
			res.Count("stream=configuration-history")
		}
	}
	res.Unmodelled = []string{"determinism of yaml.v3, json-gold (blank-node naming, sorted keys), OPA (set ordering) and encoding/json (sorted keys) is measured across processes, not proved",
		"Go's randomised map iteration and goroutine scheduling are exercised by the repetitions; the theorems cover the owned loops (classified range sites) and the counter"}
}

func firstDiff(a, b string) string {
	la, lb := strings.Split(a, "\n"), strings.Split(b, "\n")
	for i := 0; i < len(la) && i < len(lb); i++ {
		if la[i] != lb[i] {
			return fmt.Sprintf("line %d: %q vs %q", i+1, core.Trunc(la[i], 200), core.Trunc(lb[i], 200))
		}
	}
	return fmt.Sprintf("lengths %d vs %d lines", len(la), len(lb))
}
