package props

import (
	"bytes"
	"context"
	"crypto/sha256"
	"encoding/hex"
	"encoding/json"
	"fmt"
	"os"
	"os/exec"
	"path/filepath"
	"strings"
	"sync"
	"time"

	"github.com/aml-org/amf-custom-validator/internal/validator"
	"github.com/aml-org/amf-custom-validator/pkg"
	"github.com/aml-org/amf-custom-validator/pkg/config"
	"github.com/aml-org/amf-custom-validator/pkg/events"
	"github.com/aml-org/amf-custom-validator/verifh/core"
)

// OneShot is what a fresh process computes for (profile file, data file): generated Rego and the report with a fixed clock.
// c06Configs: report configurations that share / differ in each of their three fields.
var c06Configs = []config.ReportConfiguration{
	config.DefaultReportConfiguration(),
	{IncludeReportCreationTime: true, ReportSchemaIri: "file:///dialects/validation-report.yaml", LexicalSchemaIri: "file:///dialects/lexical-2.0.yaml"},
	{IncludeReportCreationTime: false, ReportSchemaIri: "file:///other/report.yaml", LexicalSchemaIri: "file:///dialects/lexical.yaml"},
	{IncludeReportCreationTime: true, ReportSchemaIri: "file:///other/report.yaml", LexicalSchemaIri: "file:///other/lexical.yaml"},
	{IncludeReportCreationTime: false, ReportSchemaIri: "file:///dialects/validation-report.yaml", LexicalSchemaIri: "file:///dialects/lexical.yaml"},
}

func OneShot(profilePath, dataPath string, cfg int) {
	p, _ := os.ReadFile(profilePath)
	d, _ := os.ReadFile(dataPath)
	out := map[string]string{}
	unit, err := validator.GenerateRego(string(p), false, nil)
	if err != nil {
		out["rego"] = "error: " + err.Error()
	} else {
		out["rego"] = unit.Code
	}
	rep, err := pkg.ValidateWithConfiguration(string(p), string(d), false, nil, clockA, c06Configs[cfg%len(c06Configs)])
	if err != nil {
		out["report"] = "error: " + err.Error()
	} else {
		out["report"] = rep
	}
	enc, _ := json.Marshal(out)
	os.Stdout.Write(enc)
}

// C06Conc is the child process of the concurrent phase: the report alone, then 8 goroutines x rounds; prints JSON.
func C06Conc(profilePath, dataPath string, rounds int) {
	p, _ := os.ReadFile(profilePath)
	d, _ := os.ReadFile(dataPath)
	rc := config.DefaultReportConfiguration()
	one := func() string {
		o, err := pkg.ValidateWithConfiguration(string(p), string(d), false, nil, clockA, rc)
		if err != nil {
			return "error: " + err.Error()
		}
		return o
	}
	// cold start: the first thing this process does with these inputs is to validate them from 8 goroutines: each is started
	// when the one before has parsed the profile and stands before Rego generation, then all 8 enter Rego generation together
	// (steered through the event channel); only then the report alone
	coldDiffs := []string{}
	var ref string
	for k, gap := range []time.Duration{0, 20 * time.Microsecond, 100 * time.Microsecond, 400 * time.Microsecond, 2 * time.Millisecond} {
		text := string(p)
		if k > 0 {
			text += fmt.Sprintf("\n# cold start %d\n", k) // a text new to the process, the same profile
		}
		cold := startedThenStaggered(events.ProfileParsingDone, 10*time.Second, 8, gap, func(w int, ch *chan events.Event) (string, error) {
			return pkg.ValidateWithConfiguration(text, string(d), false, ch, clockA, rc)
		})
		if k == 0 {
			ref = one()
		}
		for w, o := range cold {
			if o != ref && len(coldDiffs) < 4 {
				coldDiffs = append(coldDiffs, fmt.Sprintf("cold start %d (8 calls parsed one after the other, released %v apart), goroutine %d: %s", k, gap, w, firstDiff(ref, o)))
			}
			for v := 0; v < w; v++ {
				if cold[v] != o && len(coldDiffs) < 4 {
					coldDiffs = append(coldDiffs, fmt.Sprintf("cold start %d (released %v apart), goroutines %d and %d differ: %s", k, gap, v, w, firstDiff(cold[v], o)))
				}
			}
		}
	}
	diffs := make([]string, 8)
	var wg sync.WaitGroup
	for w := 0; w < 8; w++ {
		wg.Add(1)
		go func(w int) {
			defer wg.Done()
			defer func() {
				if r := recover(); r != nil {
					diffs[w] = fmt.Sprintf("panic: %v", r)
				}
			}()
			for k := 0; k < rounds; k++ {
				if o := one(); o != ref {
					diffs[w] = firstDiff(ref, o)
				}
			}
		}(w)
	}
	wg.Wait()
	out := coldDiffs
	for _, x := range diffs {
		if x != "" {
			out = append(out, x)
		}
	}
	enc, _ := json.Marshal(map[string]any{"Ref": ref, "Diffs": out})
	os.Stdout.Write(enc)
}

func sha(s string) string {
	h := sha256.Sum256([]byte(s))
	return hex.EncodeToString(h[:8])
}

func c06Profiles(e *core.Env) map[string]string {
	ps := map[string]string{"pool-levels": PoolProfileLevels, "pool-special": PoolProfileSpecial,
		// 40 sibling constraints and 10 alternatives written in descending order
		"wide-descending": coldProfile(40, "C06")}
	// several quantified constraints under one propertyConstraints, several properties per map, several prefixes
	ps["many-quantified"] = `#%Validation Profile 1.0
profile: Many quantified
prefixes:
  ex: http://example.org/ns#
  zz: http://example.org/zz#
  aa: http://example.org/aa#
  core: http://example.org/core-redeclared#
violation:
  - v1
  - v2
warning:
  - v3
validations:
  v1:
    targetClass: ex.Thing
    message: v1
    propertyConstraints:
      ex.child:
        nested:
          propertyConstraints:
            ex.name:
              minCount: 1
            zz.other:
              maxCount: 3
      zz.friend / ex.child:
        atLeast:
          count: 1
          validation:
            propertyConstraints:
              ex.name:
                pattern: ^a
      aa.peer | ex.child:
        atMost:
          count: 2
          validation:
            propertyConstraints:
              aa.x:
                in: [ 1, 2 ]
      ex.name:
        minCount: 1
        maxLength: 20
        pattern: "[a-z]+"
  v2:
    targetClass: ex.Thing
    message: "v2 {{ex.name}} {{zz.other}}"
    or:
      - propertyConstraints:
          ex.a:
            minCount: 1
          ex.b:
            minCount: 1
          ex.c:
            nested:
              propertyConstraints:
                ex.d:
                  nested:
                    propertyConstraints:
                      ex.e:
                        minCount: 1
      - not:
          propertyConstraints:
            zz.a:
              lessThanProperty: zz.b
            aa.a:
              containsSome: [ x, y ]
  v3:
    targetClass: ex.Thing
    message: v3
    if:
      propertyConstraints:
        ex.child:
          minCount: 1
    then:
      propertyConstraints:
        ex.child:
          nested:
            propertyConstraints:
              ex.child:
                maxCount: 0
    else:
      propertyConstraints:
        ex.name:
          exactCount: 1
`
	// alternations nested in alternations, followed by further steps (the traversal forks more than once)
	ps["nested-alternation-paths"] = `#%Validation Profile 1.0
profile: Nested alternations
prefixes:
  ex: http://example.org/ns#
  zz: http://example.org/zz#
violation:
  - v1
warning:
  - v2
validations:
  v1:
    targetClass: ex.Thing
    message: v1
    propertyConstraints:
      ( ( ex.child / ( ex.name | zz.other ) ) | ex.friend ) / ex.name:
        minCount: 1
      ( ex.child | ( zz.friend / ( ex.child | zz.other ) ) ) / ( ex.name | zz.other ) / ex.name:
        maxCount: 2
  v2:
    targetClass: ex.Thing
    message: v2
    propertyConstraints:
      ex.child / ( ( ex.a | ex.b ) | ( ex.c / ( ex.d | ex.e ) ) ) / ex.name:
        nested:
          propertyConstraints:
            ( ex.name | ( zz.other / ( ex.a | ex.b ) ) ) / ex.c:
              maxCount: 0
`
	// more validations than any fixture has (a translator that treats large profiles differently must still be deterministic)
	{
		var b strings.Builder
		b.WriteString("#%Validation Profile 1.0\nprofile: Many validations\nprefixes:\n  ex: http://example.org/ns#\n  zz: http://example.org/zz#\n")
		nv := 48
		for li, l := range []string{"violation", "warning", "info"} {
			b.WriteString(l + ":\n")
			for i := li; i < nv; i += 3 {
				fmt.Fprintf(&b, "  - v%d\n", i)
			}
		}
		b.WriteString("validations:\n")
		bodies := []string{
			"    propertyConstraints:\n      ex.name:\n        minCount: 1\n        pattern: ^a\n",
			"    propertyConstraints:\n      ex.child / ex.name | zz.other:\n        maxCount: 2\n      ex.child:\n        nested:\n          propertyConstraints:\n            ex.name:\n              minCount: 1\n",
			"    or:\n      - propertyConstraints:\n          ex.name:\n            in: [ a, b ]\n      - not:\n          propertyConstraints:\n            ex.child:\n              atLeast:\n                count: 1\n                validation:\n                  propertyConstraints:\n                    zz.other:\n                      minCount: 1\n",
			"    if:\n      propertyConstraints:\n        ex.name:\n          minLength: 2\n    then:\n      propertyConstraints:\n        ex.child ^:\n          maxCount: 0\n",
		}
		for i := 0; i < nv; i++ {
			fmt.Fprintf(&b, "  v%d:\n    targetClass: ex.Thing\n    message: m%d\n%s", i, i, bodies[i%len(bodies)])
		}
		ps["many-validations"] = b.String()
	}
	// repository fixtures
	for _, rel := range []string{"test/data/integration/profile1/profile.yaml", "test/data/production/best-practices/profile.yaml", "test/data/basic/profile2.yaml"} {
		if b, err := os.ReadFile(filepath.Join(e.Repo, rel)); err == nil {
			ps["fixture:"+rel] = string(b)
		}
	}
	return ps
}

func C06(e *core.Env) {
	res := e.Res
	res.Rule = "cases = (profile, data): generated Rego and report (fixed clock) computed by N fresh processes (quick 10, thorough 40), by repeated calls in one process, and by 8 goroutines at once (a child process whose FIRST use of the inputs is 8 goroutines that parse the profile one after the other and then enter Rego generation together or 20 us .. 2 ms apart (five cold starts: the text, and the text with a fresh comment), then repeated concurrent calls); all bytes must be identical; profiles: several quantified constraints and properties per propertyConstraints map, several prefixes incl. a redeclared built-in one, deep nesting, alternations nested in alternations followed by further steps, 48 validations, repository fixtures; a profile relying on a built-in prefix before / after a profile that rebinds it, against the fresh-process report; a history of 13 validations cycling through 5 report configurations (sharing / differing in each field) against the fresh-process report of each configuration; four constant clocks (incl. the zero time.Time and a zoned instant), each used twice 1.1 s apart; data: failing documents with lexical source maps, with TWO source-information nodes, with several results per level; " +
		"non-trivial = the report has results; distinct by (profile, data, mode)"
	self, _ := os.Executable()
	g := RandomEdgeGraph(e.Rand, 5, []string{"a", "b", "c"}, 0.4)
	twoInfos := lexCase{g: g, sourceMaps: [][]lexEntry{{{NodeID(0), rng("1", "2", "3", "4")}, {NodeID(1), rng("5", "6", "7", "8")}, {NodeID(2), rng("9", "1", "9", "2")}}}}
	r1 := "file:///api/root.raml"
	twoInfos.root = &r1
	twoInfos.extraInfos = []string{"file:///api/library.raml", "file:///api/third.raml"}
	thingData := strings.ReplaceAll(twoInfos.jsonld(), ExNS+"T", ExNS+"Thing")
	datas := map[string]string{"pool-bad": PoolDataBad, "two-source-infos": thingData, "pool-special": PoolDataSpecial}
	n := e.Pick(10, 40)
	rc := config.DefaultReportConfiguration()
	for pname, p := range c06Profiles(e) {
		for dname, d := range datas {
			if strings.HasPrefix(pname, "fixture:") && dname != "pool-bad" {
				continue
			}
			pf := filepath.Join(e.Scratch, "c06p.yaml")
			df := filepath.Join(e.Scratch, "c06d.jsonld")
			os.WriteFile(pf, []byte(p), 0o644)
			os.WriteFile(df, []byte(d), 0o644)
			type shot struct{ Rego, Report string }
			var first shot
			var mu sync.Mutex
			var wg sync.WaitGroup
			outs := make([]shot, n)
			sem := make(chan struct{}, 8)
			for i := 0; i < n; i++ {
				wg.Add(1)
				go func(i int) {
					defer wg.Done()
					sem <- struct{}{}
					defer func() { <-sem }()
					out, err := exec.Command(self, "oneshot", pf, df).Output()
					var m map[string]string
					if err != nil || json.Unmarshal(out, &m) != nil {
						mu.Lock()
						res.Violate("harness-error", fmt.Sprintf("fresh process failed: %v", err), map[string]any{"no_failing_input_found": true, "broken": "oneshot subprocess"})
						mu.Unlock()
						return
					}
					outs[i] = shot{m["rego"], m["report"]}
				}(i)
			}
			wg.Wait()
			first = outs[0]
			replay := map[string]any{"profile": p, "data": d, "profile_name": pname, "data_name": dname}
			for i := 1; i < n; i++ {
				if outs[i].Rego != first.Rego {
					replay["mode"] = "fresh processes: generated Rego"
					replay["first_sha"], replay["other_sha"] = sha(first.Rego), sha(outs[i].Rego)
					replay["first_diff_line"] = firstDiff(first.Rego, outs[i].Rego)
					res.Violate("impl-violates-property", "two fresh processes generate different Rego for the same profile ("+pname+")", replay)
					break
				}
				if outs[i].Report != first.Report {
					replay["mode"] = "fresh processes: report"
					replay["first_diff_line"] = firstDiff(first.Report, outs[i].Report)
					res.Violate("impl-violates-property", "two fresh processes produce different reports for the same inputs ("+pname+", "+dname+")", replay)
					break
				}
			}
			res.Case(pname+"|"+dname+"|fresh", strings.Contains(first.Report, "\"result\""))
			// repeated calls in this process, then 8 goroutines at once
			ref, err := pkg.ValidateWithConfiguration(p, d, false, nil, clockA, rc)
			refs := ref
			if err != nil {
				refs = "error: " + err.Error()
			}
			if refs != first.Report {
				replay["mode"] = "in-process vs fresh process"
				replay["first_diff_line"] = firstDiff(first.Report, refs)
				res.Violate("impl-violates-property", "the report of a later call in a long-running process differs from the one of a fresh process ("+pname+", "+dname+")", replay)
			}
			for i := 0; i < 3; i++ {
				o, err := pkg.ValidateWithConfiguration(p, d, false, nil, clockA, rc)
				if err != nil {
					o = "error: " + err.Error()
				}
				if o != refs {
					replay["mode"] = "repeated calls"
					replay["first_diff_line"] = firstDiff(refs, o)
					res.Violate("impl-violates-property", "repeated validation of the same inputs gives different bytes ("+pname+", "+dname+")", replay)
					break
				}
			}
			res.Case(pname+"|"+dname+"|repeat", strings.Contains(refs, "\"result\""))
			// 8 goroutines at once, in a child process: a shared map written concurrently ends the process with a fatal error
			// that cannot be recovered, and must be reported as what it is
			{
				ctx, cancel := context.WithTimeout(context.Background(), 300*time.Second)
				cmd := exec.CommandContext(ctx, self, "c06conc", pf, df, fmt.Sprint(e.Pick(3, 10)))
				var so, se bytes.Buffer
				cmd.Stdout, cmd.Stderr = &so, &se
				cerr := cmd.Run()
				cancel()
				var cr struct {
					Ref   string
					Diffs []string
				}
				if cerr != nil || json.Unmarshal(so.Bytes(), &cr) != nil {
					replay["mode"] = "8 goroutines at once (child process)"
					replay["stderr_head"] = core.Trunc(se.String(), 1500)
					res.Violate("impl-violates-property", "the process ends abnormally when the same inputs are validated by 8 goroutines at once ("+pname+", "+dname+"): "+core.Trunc(firstLineWith(se.String(), "fatal error", "panic:"), 160), replay)
				} else {
					if cr.Ref != refs {
						replay["mode"] = "child process vs this process"
						replay["first_diff_line"] = firstDiff(refs, cr.Ref)
						res.Violate("impl-violates-property", "the report differs between two processes ("+pname+", "+dname+")", replay)
					}
					for _, df := range cr.Diffs {
						replay["mode"] = "8 goroutines at once"
						replay["first_diff_line"] = df
						res.Violate("impl-violates-property", "concurrent validation of the same inputs gives different bytes ("+pname+", "+dname+")", replay)
						break
					}
				}
			}
			res.Case(pname+"|"+dname+"|concurrent", strings.Contains(refs, "\"result\""))
			res.Count("profile=" + pname)
			if pname == "many-quantified" && dname == "pool-bad" {
				res.Sample(map[string]any{"profile": pname, "data": dname, "fresh_processes": n, "rego_sha": sha(first.Rego), "report_sha": sha(first.Report)})
			}
		}
	}
	// profile histories: the report of a profile that relies on a built-in prefix, made after a profile that binds that
	// prefix name to something else was validated, equals the report a fresh process makes
	{
		pB := "#%Validation Profile 1.0\nprofile: Core Prefix\nviolation:\n  - named\nvalidations:\n  named:\n    targetClass: core.Thing\n    message: \"needs a name, has {{core.name}}\"\n    propertyConstraints:\n      core.name:\n        minCount: 1\n"
		dB := `{"@graph":[{"@id":"http://example.org/d#a","@type":"http://a.ml/vocabularies/core#Thing"},{"@id":"http://example.org/d#b","@type":"http://a.ml/vocabularies/core#Thing","http://a.ml/vocabularies/core#name":"n"},{"@id":"http://example.org/d#c","@type":"http://other.org/core#Thing"}]}`
		pA := "#%Validation Profile 1.0\nprofile: Other\nprefixes:\n  core: http://other.org/core#\n  data: http://other.org/data#\nviolation:\n  - named\nvalidations:\n  named:\n    targetClass: core.Thing\n    message: other\n    propertyConstraints:\n      data.name:\n        minCount: 1\n"
		pf := filepath.Join(e.Scratch, "c06p.yaml")
		df := filepath.Join(e.Scratch, "c06d.jsonld")
		os.WriteFile(pf, []byte(pB), 0o644)
		os.WriteFile(df, []byte(dB), 0o644)
		out, err := exec.Command(self, "oneshot", pf, df).Output()
		var m map[string]string
		if err != nil || json.Unmarshal(out, &m) != nil {
			res.Violate("harness-error", fmt.Sprintf("fresh process failed: %v", err), map[string]any{"no_failing_input_found": true, "broken": "oneshot subprocess"})
		} else {
			run := func(p, d string) string {
				o, err := pkg.ValidateWithConfiguration(p, d, false, nil, clockA, rc)
				if err != nil {
					return "error: " + err.Error()
				}
				return o
			}
			first := run(pB, dB)
			run(pA, dB)
			pkg.CompileProfile(pA, false, nil)
			second := run(pB, dB)
			for i, o := range []string{first, second} {
				if o != m["report"] {
					res.Violate("impl-violates-property", []string{"the report of a profile that relies on a built-in prefix differs from a fresh process's", "the report of a profile that relies on a built-in prefix differs from a fresh process's after another profile that rebinds that prefix was validated"}[i],
						map[string]any{"profile": pB, "data": dB, "other_profile_validated_before": pA, "first_diff_line": firstDiff(m["report"], o), "mode": "profile history"})
					break
				}
			}
			res.Case("profile-history|builtin-prefix", strings.Contains(first, "\"result\""))
			res.Count("stream=profile-history")
		}
	}
	// configuration histories: the report for (inputs, configuration) made after other configurations were used equals
	// the one a fresh process makes for that configuration
	{
		p, d := PoolProfileLevels, thingData
		pf := filepath.Join(e.Scratch, "c06p.yaml")
		df := filepath.Join(e.Scratch, "c06d.jsonld")
		os.WriteFile(pf, []byte(p), 0o644)
		os.WriteFile(df, []byte(d), 0o644)
		freshOf := map[int]string{}
		for k := range c06Configs {
			out, err := exec.Command(self, "oneshot", pf, df, fmt.Sprint(k)).Output()
			var m map[string]string
			if err != nil || json.Unmarshal(out, &m) != nil {
				res.Violate("harness-error", fmt.Sprintf("fresh process failed: %v", err), map[string]any{"no_failing_input_found": true, "broken": "oneshot subprocess"})
				continue
			}
			freshOf[k] = m["report"]
		}
		order := []int{0, 1, 0, 3, 2, 1, 4, 0, 3, 0, 2, 4, 1}
		for step, k := range order {
			o, err := pkg.ValidateWithConfiguration(p, d, false, nil, clockA, c06Configs[k])
			if err != nil {
				o = "error: " + err.Error()
			}
			if fr, ok := freshOf[k]; ok && o != fr {
				res.Violate("impl-violates-property", fmt.Sprintf("the report made with configuration %d after other configurations were used differs from a fresh process's", k),
					map[string]any{"profile": p, "data": d, "configurations": fmt.Sprintf("%+v", c06Configs), "history_of_configuration_indices": order[:step+1], "first_diff_line": firstDiff(fr, o), "mode": "configuration history"})
				break
			}
			res.Case(fmt.Sprintf("config-history|%d|%d", step, k), strings.Contains(o, "\"result\""))
			res.Count("stream=configuration-history")
		}
	}
	// clocks: the same inputs with the same constant clock, a second apart on the wall clock, give the same bytes - for ordinary
	// instants, for the zero instant (the zero value of time.Time, what an unset field holds) and for a zoned one
	{
		p, d := PoolProfileLevels, thingData
		clocks := []struct {
			name string
			c    fixedClock
		}{{"2031-03-04T05:06:07Z", clockA}, {"the zero time.Time", fixedClock{time.Time{}}}, {"1999-01-01T00:00:01-03:00", clockC}, {"the Unix epoch", fixedClock{time.Unix(0, 0).UTC()}}}
		firsts := make([]string, len(clocks))
		run := func(k int) string {
			o, err := pkg.ValidateWithConfiguration(p, d, false, nil, clocks[k].c, c06Configs[0])
			if err != nil {
				return "error: " + err.Error()
			}
			return o
		}
		for k := range clocks {
			firsts[k] = run(k)
		}
		time.Sleep(1100 * time.Millisecond)
		for k := range clocks {
			if o := run(k); o != firsts[k] {
				res.Violate("impl-violates-property", "the same profile, data, configuration and constant clock ("+clocks[k].name+") give two different reports 1.1 s apart",
					map[string]any{"profile": p, "data": d, "clock": clocks[k].name, "configuration": fmt.Sprintf("%+v", c06Configs[0]), "first_diff_line": firstDiff(firsts[k], o), "mode": "constant clock, two calls 1.1 s apart"})
			}
			res.Case("clock|"+clocks[k].name, true)
			res.Count("stream=constant-clock")
		}
	}
	// a data text the decoder rejects far from its end (a source file sent by mistake, a body damaged in the middle), then the valid
	// pair again: the report of the valid pair must be the same bytes as before, every time, in this process
	{
		p, d := PoolProfileLevels, thingData
		ref, err := pkg.ValidateWithConfiguration(p, d, false, nil, clockA, c06Configs[0])
		if err == nil {
			garbage := []string{
				"#%RAML 1.0\ntitle: sent by mistake\n" + strings.Repeat("/resource:\n  get:\n    description: not JSON at all\n", 60),
				"{\"@id\": \"http://example.org/d#a\", \"broken\": here " + strings.Repeat("{\"k\": [1, 2, 3], \"more\": \"text that follows the damage\"} ", 40),
				"[1, 2, " + strings.Repeat("x", 3000),
			}
			for round := 0; round < 12; round++ {
				g := garbage[round%len(garbage)]
				_, gerr := pkg.ValidateWithConfiguration(p, g, false, nil, clockA, c06Configs[0])
				o, err := pkg.ValidateWithConfiguration(p, d, false, nil, clockA, c06Configs[0])
				if err != nil {
					o = "error: " + err.Error()
				}
				if gerr == nil || o != ref {
					what := "the report of a valid (profile, data) pair differs after a call whose data text was rejected far from its end"
					if gerr == nil {
						what = "a data text that is not JSON got a report"
					}
					res.Violate("impl-violates-property", what, map[string]any{"profile": p, "data": d, "rejected_data_before": core.Trunc(g, 400), "rejected_data_length": len(g), "round": round,
						"first_diff_line": firstDiff(ref, o), "mode": "valid pair after a rejected text, same process"})
					break
				}
				res.Case(fmt.Sprintf("after-rejected-text|%d", round), true)
				res.Count("stream=after-rejected-text")
			}
		}
	}
	res.Unmodelled = []string{"determinism of yaml.v3, json-gold (blank-node naming, sorted keys), OPA (set ordering) and encoding/json (sorted keys) is measured across processes, not proved",
		"Go's randomised map iteration and goroutine scheduling are exercised by the repetitions; the theorems cover the owned loops (classified range sites) and the counter"}
}

func firstDiff(a, b string) string {
	la, lb := strings.Split(a, "\n"), strings.Split(b, "\n")
	for i := 0; i < len(la) && i < len(lb); i++ {
		if la[i] != lb[i] {
			return fmt.Sprintf("line %d: %q vs %q", i+1, core.Trunc(la[i], 200), core.Trunc(lb[i], 200))
		}
	}
	return fmt.Sprintf("lengths %d vs %d lines", len(la), len(lb))
}
