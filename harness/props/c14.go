package props

import (
	"encoding/json"
	"fmt"
	"github.com/aml-org/amf-custom-validator/pkg/config"
	"math/big"
	"strings"
	"time"

	"github.com/aml-org/amf-custom-validator/pkg"
	"github.com/aml-org/amf-custom-validator/verifh/core"
	"github.com/aml-org/amf-custom-validator/verifh/sx"
)

const smNS = "http://a.ml/vocabularies/document-source-maps#"
const docNS = "http://a.ml/vocabularies/document#"

type lexEntry struct{ element, value string }
type locNode struct {
	location string
	elements []string
}
type lexCase struct {
	g          Graph
	sourceMaps [][]lexEntry
	root       *string
	additional []locNode
	extraInfos []string // further BaseUnitSourceInformation nodes (their root locations); the first one decides
}

func (c lexCase) sx() sx.V {
	sms := []sx.V{}
	for _, sm := range c.sourceMaps {
		es := []sx.V{}
		for _, e := range sm {
			es = append(es, sx.L(sx.S(e.element), sx.S(e.value)))
		}
		sms = append(sms, sx.L(es...))
	}
	root := sx.A("none")
	if c.root != nil {
		root = sx.S(*c.root)
	}
	adds := []sx.V{}
	for _, a := range c.additional {
		adds = append(adds, sx.L(sx.S(a.location), strsSx(a.elements)))
	}
	return sx.L(sx.A("lex"), strsSx(c.allIDs()), sx.L(sms...), root, sx.L(adds...))
}

// allIDs: every node id of the flattened document (graph nodes and the source-map machinery itself)
func (c lexCase) allIDs() []string {
	ids := c.g.IDs()
	for i, sm := range c.sourceMaps {
		ids = append(ids, fmt.Sprintf("%ssm%d", DataNS, i))
		for j := range sm {
			ids = append(ids, fmt.Sprintf("%ssm%d/lex%d", DataNS, i, j))
		}
	}
	if c.root != nil {
		ids = append(ids, DataNS+"info0")
		for i := range c.additional {
			ids = append(ids, fmt.Sprintf("%sinfo0/loc%d", DataNS, i))
		}
	}
	for i := range c.extraInfos {
		ids = append(ids, fmt.Sprintf("%sinfo%d", DataNS, i+1))
	}
	return ids
}

func (c lexCase) jsonld() string {
	var doc map[string]any
	json.Unmarshal([]byte(c.g.JSONLD()), &doc)
	nodes := doc["@graph"].([]any)
	for i, sm := range c.sourceMaps {
		smID := fmt.Sprintf("%ssm%d", DataNS, i)
		links := []any{}
		for j, e := range sm {
			id := fmt.Sprintf("%s/lex%d", smID, j)
			links = append(links, map[string]any{"@id": id})
			nodes = append(nodes, map[string]any{"@id": id, smNS + "element": e.element, smNS + "value": e.value})
		}
		smNode := map[string]any{"@id": smID, "@type": []any{smNS + "SourceMap"}}
		if len(links) > 0 {
			smNode[smNS+"lexical"] = links
		}
		nodes = append(nodes, smNode)
	}
	if c.root != nil {
		info := map[string]any{"@id": DataNS + "info0", "@type": []any{docNS + "BaseUnitSourceInformation"}, docNS + "rootLocation": *c.root}
		adds := []any{}
		for i, a := range c.additional {
			id := fmt.Sprintf("%sinfo0/loc%d", DataNS, i)
			adds = append(adds, map[string]any{"@id": id})
			els := []any{}
			for _, e := range a.elements {
				els = append(els, map[string]any{"@id": e})
			}
			nodes = append(nodes, map[string]any{"@id": id, "@type": []any{docNS + "LocationInformation"}, docNS + "location": a.location, docNS + "elements": els})
		}
		if len(adds) > 0 {
			info[docNS+"additionalLocations"] = adds
		}
		nodes = append(nodes, info)
	}
	for i, r := range c.extraInfos {
		nodes = append(nodes, map[string]any{"@id": fmt.Sprintf("%sinfo%d", DataNS, i+1), "@type": []any{docNS + "BaseUnitSourceInformation"}, docNS + "rootLocation": r})
	}
	out, _ := json.Marshal(map[string]any{"@graph": nodes})
	return string(out)
}

func rng(a, b, c, d string) string { return fmt.Sprintf("[(%s,%s)-(%s,%s)]", a, b, c, d) }

// locationOf renders the location object of a result / trace as (uri l1 c1 l2 c2) or none.
func locationOf(m map[string]any) string {
	loc, ok := m["location"].(map[string]any)
	if !ok {
		return "none"
	}
	r, _ := loc["range"].(map[string]any)
	st, _ := r["start"].(map[string]any)
	en, _ := r["end"].(map[string]any)
	num := func(v any) string {
		switch x := v.(type) {
		case json.Number:
			if f, ok := new(big.Float).SetString(x.String()); ok {
				if i, acc := f.Int(nil); acc == big.Exact {
					return i.String()
				}
			}
			return x.String()
		case float64:
			return fmt.Sprintf("%.0f", x)
		}
		return fmt.Sprint(v)
	}
	uri, _ := loc["uri"].(string)
	return sx.L(sx.S(uri), sx.S(num(st["line"])), sx.S(num(st["column"])), sx.S(num(en["line"])), sx.S(num(en["column"]))).String()
}

const c14Profile = `#%Validation Profile 1.0
profile: Lexical
prefixes:
  ex: http://example.org/ns#
violation:
  - always
warning:
  - kids
validations:
  always:
    targetClass: ex.T
    message: every node is reported
    propertyConstraints:
      ex.never:
        minCount: 1
  kids:
    targetClass: ex.T
    message: children are reported too
    propertyConstraints:
      ex.kid:
        nested:
          propertyConstraints:
            ex.never:
              minCount: 1
`

func C14(e *core.Env) {
	res := e.Res
	res.Rule = "cases = (document with generated lexical source maps, node): ranges with magnitudes 0, 1, 9/10, 2^31, 2^53+1, 2^64 and random; 0..3 additional files with 1..3 elements each (a single-element file, a node listed by two files), nodes without any entry, nodes with a property-level entry only, entries whose element is not a node, two source maps for one node, several entries in one source map, no source information at all, two source information nodes, file names with spaces / non-ASCII letters / dot segments / a relative reference / a query, three consecutive units with one root location whose nodes move between the included files, hierarchical ids (a child's id extends its parent's by a `/` segment) with parents / children listed under different files; " +
		"the location of every result, sub-result and trace about a node is compared with Lexical.result_location for the document as built; non-trivial = the node has a lexical entry; distinct by (document, node)"
	magnitudes := []string{"0", "1", "9", "10", "99", "100", "2147483647", "2147483648", "9007199254740993", "18446744073709551616", "123456789012345678901234567890"}
	pick := func() string {
		if e.Rand.Intn(3) == 0 {
			return magnitudes[e.Rand.Intn(len(magnitudes))]
		}
		return fmt.Sprint(e.Rand.Intn(5000))
	}
	mkGraph := func(n int) Graph {
		g := Graph{}
		for i := 0; i < n; i++ {
			node := GNode{ID: NodeID(i), Types: []string{ExNS + "T"}}
			kids := []GVal{}
			for _, j := range []int{i + 1, i + 3} {
				if j < n {
					kids = append(kids, VR(NodeID(j)))
				}
			}
			if len(kids) > 0 {
				node.Props = append(node.Props, GProp{Iri: ExNS + "kid", Vals: kids})
			}
			g.Nodes = append(g.Nodes, node)
		}
		return g
	}
	cases := []lexCase{}
	root := "file:///api/root.raml"
	// hand-made: one of each situation
	g6 := mkGraph(6)
	cases = append(cases, lexCase{g: g6, root: &root,
		sourceMaps: [][]lexEntry{
			{{NodeID(0), rng("3", "0", "12", "4")}, {ExNS + "kid", rng("1", "1", "1", "2")}},                           // node entry + property-level entry
			{{NodeID(1), rng("2147483648", "0", "18446744073709551616", "9")}, {NodeID(2), rng("9", "10", "10", "9")}}, // several entries in one map
			{{NodeID(2), rng("7", "7", "8", "8")}},                                                                     // a second map for node 2: last wins
			{{DataNS + "not-a-node", rng("5", "5", "5", "5")}, {NodeID(4), rng("0", "0", "0", "0")}},
			{},
		},
		additional: []locNode{{"file:///api/lib/single.raml", []string{NodeID(1)}}, {"file:///api/lib/two.raml", []string{NodeID(2), NodeID(4)}}, {"file:///api/lib/again.raml", []string{NodeID(4)}}}})
	cases = append(cases, lexCase{g: g6, sourceMaps: [][]lexEntry{{{NodeID(0), rng("1", "2", "3", "4")}, {NodeID(3), rng("5", "6", "7", "8")}}}})                                 // no source information
	cases = append(cases, lexCase{g: g6, root: &root})                                                                                                                            // source information, no source maps
	cases = append(cases, lexCase{g: g6})                                                                                                                                         // nothing
	cases = append(cases, lexCase{g: g6, root: &root, extraInfos: []string{"file:///api/other.raml"}, sourceMaps: [][]lexEntry{{{NodeID(5), rng("1", "1", "2", "2")}}}})          // two source-information nodes
	cases = append(cases, lexCase{g: g6, root: &root, sourceMaps: [][]lexEntry{{{NodeID(0), "[(1,2)-(3)]"}, {NodeID(1), "no digits"}, {NodeID(2), "(1,2)-(3,4) trailing 5 6"}}}}) // fewer than four numbers, leading zeros, more than four
	// file names that are not plain ASCII paths: a space, non-ASCII letters, dot segments, a relative reference, a query
	sp := "file:///api/my api/root file.raml"
	cases = append(cases, lexCase{g: g6, root: &sp,
		sourceMaps: [][]lexEntry{{{NodeID(0), rng("1", "1", "1", "9")}, {NodeID(1), rng("2", "1", "2", "9")}, {NodeID(2), rng("3", "1", "3", "9")}, {NodeID(3), rng("4", "1", "4", "9")}, {NodeID(4), rng("5", "1", "5", "9")}}},
		additional: []locNode{{"file:///api/my api/lib one.raml", []string{NodeID(1)}}, {"file:///api/lib/../shared/ünï-códe.raml", []string{NodeID(2)}},
			{"lib/relative.raml", []string{NodeID(3)}}, {"file:///api/lib.raml?version=2#frag", []string{NodeID(4)}}}})
	// two units with the SAME root location and the same number of included files, validated one after the other, in which
	// the nodes belong to different files (an editor re-validating after a declaration was moved to a library)
	moved := func(els [][]string) lexCase {
		return lexCase{g: g6, root: &root,
			sourceMaps: [][]lexEntry{{{NodeID(0), rng("1", "0", "1", "5")}, {NodeID(1), rng("2", "0", "2", "5")}, {NodeID(2), rng("3", "0", "3", "5")}, {NodeID(3), rng("4", "0", "4", "5")}}},
			additional: []locNode{{"file:///api/lib/types.raml", els[0]}, {"file:///api/lib/traits.raml", els[1]}}}
	}
	cases = append(cases, moved([][]string{{NodeID(1)}, {NodeID(2)}}), moved([][]string{{NodeID(2), NodeID(3)}, {NodeID(0)}}), moved([][]string{{NodeID(1)}, {NodeID(2)}}))
	// hierarchical ids (the id of a child extends the id of its parent with a `/` segment, as AMF writes them): a parent listed
	// under an included file, its children declared in the root file (an overlay adding members to an element it extends)
	{
		hid := []string{DataNS + "api", DataNS + "api/endpoint", DataNS + "api/endpoint/get", DataNS + "api/endpoint/get/response", DataNS + "api/other", DataNS + "api/endpoint/get/response/payload"}
		hg := Graph{}
		for i, id := range hid {
			node := GNode{ID: id, Types: []string{ExNS + "T"}}
			if i+1 < len(hid) {
				node.Props = append(node.Props, GProp{Iri: ExNS + "kid", Vals: []GVal{VR(hid[i+1])}})
			}
			hg.Nodes = append(hg.Nodes, node)
		}
		sm := []lexEntry{}
		for i, id := range hid {
			sm = append(sm, lexEntry{id, rng(fmt.Sprint(10+i), "2", fmt.Sprint(10+i), "40")})
		}
		cases = append(cases,
			lexCase{g: hg, root: &root, sourceMaps: [][]lexEntry{sm}, additional: []locNode{{"file:///api/lib/base.raml", []string{hid[1]}}}},
			lexCase{g: hg, root: &root, sourceMaps: [][]lexEntry{sm}, additional: []locNode{{"file:///api/lib/base.raml", []string{hid[0]}}, {"file:///api/lib/response.raml", []string{hid[3]}}}},
			lexCase{g: hg, root: &root, sourceMaps: [][]lexEntry{sm[2:]}, additional: []locNode{{"file:///api/lib/deep.raml", []string{hid[5], hid[2]}}}})
	}
	for i := 0; i < e.Pick(25, 300); i++ {
		n := 3 + e.Rand.Intn(6)
		c := lexCase{g: mkGraph(n)}
		if e.Rand.Intn(6) != 0 {
			r := fmt.Sprintf("file:///gen/root%d.raml", i)
			c.root = &r
			for k := 0; k < e.Rand.Intn(4); k++ {
				els := []string{}
				for m := 0; m <= e.Rand.Intn(3); m++ {
					els = append(els, NodeID(e.Rand.Intn(n)))
				}
				c.additional = append(c.additional, locNode{fmt.Sprintf("file:///gen/lib%d_%d.raml", i, k), els})
			}
		}
		for k := 0; k < e.Rand.Intn(4); k++ {
			sm := []lexEntry{}
			for m := 0; m < e.Rand.Intn(4); m++ {
				el := NodeID(e.Rand.Intn(n))
				if e.Rand.Intn(5) == 0 {
					el = ExNS + "kid"
				}
				sm = append(sm, lexEntry{el, rng(pick(), pick(), pick(), pick())})
			}
			c.sourceMaps = append(c.sourceMaps, sm)
		}
		cases = append(cases, c)
	}
	for ci, c := range cases {
		data := c.jsonld()
		out, err := pkg.Validate(c14Profile, data, false, nil)
		if err == nil && reportTextCheckProfile(e, "C14 lexical", c14Profile, data, time.Time{}, true, config.DefaultReportConfiguration(), out, map[string]any{"profile": c14Profile, "data": core.Trunc(data, 4000)}) {
			res.Count("report-bytes=equal")
		}
		replay := map[string]any{"profile": c14Profile, "data": data}
		if err != nil {
			replay["error"] = err.Error()
			res.Violate("impl-violates-property", "a document with lexical source maps is rejected: "+core.Trunc(err.Error(), 200), replay)
			continue
		}
		dec := json.NewDecoder(strings.NewReader(out))
		dec.UseNumber()
		var doc []map[string]any
		if err := dec.Decode(&doc); err != nil || len(doc) != 1 {
			res.Violate("impl-violates-property", "report does not parse", replay)
			continue
		}
		ids := c.g.IDs()
		ans, derr := e.Driver.Eval(sx.L(sx.A("c14"), sx.A("locate"), c.sx(), idsSx(ids)))
		if derr != nil {
			res.Violate("harness-error", derr.Error(), map[string]any{"no_failing_input_found": true, "broken": "driver"})
			return
		}
		want := map[string]string{}
		for i, id := range ids {
			if ans.List[i].IsL {
				want[id] = ans.List[i].String()
			} else {
				want[id] = "none"
			}
		}
		seen := map[string]bool{}
		var walkResult func(m map[string]any, where string)
		walkResult = func(m map[string]any, where string) {
			focus, _ := m["focusNode"].(string)
			got := locationOf(m)
			seen[focus] = true
			if got != want[focus] && beyond64(want[focus]) && res.KnownClass("range-number-beyond-64-bits") {
				res.Known("range-number-beyond-64-bits", "a recorded line/column number of 2^64 or more is rounded by the engine's to_number (e.g. "+core.Trunc(want[focus], 120)+" reported as "+core.Trunc(got, 120)+")")
			} else if got != want[focus] {
				r2 := map[string]any{"profile": c14Profile, "data": data, "node": focus, "where": where, "expected_location(uri,l1,c1,l2,c2)": want[focus], "actual_location": got}
				res.Violate("impl-violates-property", "the location of a result about "+focus+" is not the one its lexical entry records", r2)
			}
			trs, _ := m["trace"].([]any)
			for ti, t := range trs {
				tm, _ := t.(map[string]any)
				// a trace is about the node the constraint was evaluated at: the same focus node here
				if gotT := locationOf(tm); gotT != want[focus] && !(beyond64(want[focus]) && res.KnownClass("range-number-beyond-64-bits")) {
					r2 := map[string]any{"profile": c14Profile, "data": data, "node": focus, "where": fmt.Sprintf("%s trace %d", where, ti), "expected_location": want[focus], "actual_location": gotT}
					res.Violate("impl-violates-property", "the location of a trace about "+focus+" is not the one its lexical entry records", r2)
				}
				if tv, ok := tm["traceValue"].(map[string]any); ok {
					if subs, ok := tv["subResult"].([]any); ok {
						for si, s := range subs {
							if smap, ok := s.(map[string]any); ok {
								walkResult(smap, fmt.Sprintf("%s/sub %d", where, si))
							}
						}
					}
				}
			}
		}
		enc, _ := doc[0]["doc:encodes"].([]any)
		if len(enc) == 1 {
			if node, ok := enc[0].(map[string]any); ok {
				if rs, ok := node["result"].([]any); ok {
					for ri, r := range rs {
						if rm, ok := r.(map[string]any); ok {
							walkResult(rm, fmt.Sprintf("result %d", ri))
						}
					}
				}
			}
		}
		for _, id := range ids {
			if !seen[id] {
				res.Violate("harness-error", "node "+id+" was not reported by the always-failing validation", map[string]any{"no_failing_input_found": true, "broken": "C14 generator", "data": data})
			}
			res.Case(fmt.Sprintf("d%d|%s", ci, id), want[id] != "none")
		}
		res.Count(fmt.Sprintf("source-maps=%d", len(c.sourceMaps)))
		res.Count(fmt.Sprintf("additional-files=%d", len(c.additional)))
		if ci == 0 {
			res.Sample(map[string]any{"data": core.Trunc(data, 2500), "expected": want})
		}
	}
}

// beyond64: the expected location holds a number of 2^64 or more (the recorded defect class)
func beyond64(loc string) bool {
	limit, _ := new(big.Int).SetString("18446744073709551616", 10)
	v, err := sx.Parse(loc)
	if err != nil || !v.IsL {
		return false
	}
	for _, item := range v.List[1:] {
		if n, ok := new(big.Int).SetString(item.Text(), 10); ok && n.Cmp(limit) >= 0 {
			return true
		}
	}
	return false
}
