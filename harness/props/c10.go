package props

import (
	"bytes"
	"encoding/json"
	"fmt"
	"math/rand"
	"os"
	"os/exec"
	"path/filepath"
	"strings"
	"sync"

	"github.com/aml-org/amf-custom-validator/pkg"
	"github.com/aml-org/amf-custom-validator/pkg/config"
	"github.com/aml-org/amf-custom-validator/verifh/core"
	"github.com/open-policy-agent/opa/rego"
)

type c10job struct {
	Kind    string // compile+validate | validate-text | validate-compiled
	Profile int
	Data    int
	Config  int
}

func c10Profiles() []string {
	multi := func(k int) string {
		var b strings.Builder
		b.WriteString(ProfileHeader + "violation:\n")
		for i := 0; i < k; i++ {
			fmt.Fprintf(&b, "  - v%d\n", i)
		}
		b.WriteString("validations:\n")
		for i := 0; i < k; i++ {
			fmt.Fprintf(&b, "  v%d:\n    targetClass: ex.Thing\n    message: p%d must be ok\n    propertyConstraints:\n      ex.p%d:\n        in: [ ok ]\n      ex.q%d / ex.p%d:\n        maxCount: %d\n", i, i, i, i, i, i)
		}
		return b.String()
	}
	return []string{PoolProfileMin, PoolProfileLevels, multi(4), multi(7), PoolProfileSpecial}
}

func c10Datas() []string {
	things := `{"@graph":[{"@id":"http://example.org/d#a","@type":"http://example.org/ns#Thing","http://example.org/ns#p0":"ok","http://example.org/ns#p1":"bad","http://example.org/ns#p2":"ok","http://example.org/ns#p3":"ok","http://example.org/ns#p5":"nope","http://example.org/ns#name":"a"},
 {"@id":"http://example.org/d#b","@type":"http://example.org/ns#Thing","http://example.org/ns#p0":"ok","http://example.org/ns#p1":"ok","http://example.org/ns#p2":"ok","http://example.org/ns#p3":"bad","http://example.org/ns#p4":"ok","http://example.org/ns#p6":"ok"}]}`
	return []string{PoolDataGood, PoolDataBad, things, PoolDataEmpty, PoolDataGarbage}
}

func c10Configs() []config.ReportConfiguration {
	return []config.ReportConfiguration{config.DefaultReportConfiguration(),
		{IncludeReportCreationTime: true, ReportSchemaIri: "http://tenant-a.example/report.yaml", LexicalSchemaIri: "http://tenant-a.example/lexical.yaml"},
		{IncludeReportCreationTime: false, ReportSchemaIri: "http://tenant-b.example/report.yaml", LexicalSchemaIri: "http://tenant-b.example/lexical.yaml"}}
}

// C10Load is run by a -race build of this binary: serial baseline, then the same jobs from 8 goroutines; prints JSON.
func C10Load(seed int64, rounds int) {
	r := rand.New(rand.NewSource(seed))
	profiles, datas, configs := c10Profiles(), c10Datas(), c10Configs()
	shared := make([]*rego.PreparedEvalQuery, len(profiles))
	for i, p := range profiles {
		q, err := pkg.CompileProfile(p, false, nil)
		if err != nil {
			fmt.Printf("{\"fatal\": %q}\n", err.Error())
			return
		}
		shared[i] = q
	}
	solo := func(j c10job) string {
		var out string
		var err error
		switch j.Kind {
		case "compile+validate":
			var q *rego.PreparedEvalQuery
			q, err = pkg.CompileProfile(profiles[j.Profile], false, nil)
			if err == nil {
				out, err = pkg.ValidateCompiledWithConfiguration(q, datas[j.Data], false, nil, clockA, configs[j.Config])
			}
		case "validate-text":
			out, err = pkg.ValidateWithConfiguration(profiles[j.Profile], datas[j.Data], false, nil, clockA, configs[j.Config])
		default:
			out, err = pkg.ValidateCompiledWithConfiguration(shared[j.Profile], datas[j.Data], false, nil, clockA, configs[j.Config])
		}
		if err != nil {
			return "error: " + err.Error()
		}
		return out
	}
	kinds := []string{"compile+validate", "validate-text", "validate-compiled"}
	jobs := []c10job{}
	for i := 0; i < rounds*8; i++ {
		jobs = append(jobs, c10job{kinds[r.Intn(3)], r.Intn(len(profiles)), r.Intn(len(datas)), r.Intn(len(configs))})
	}
	// what each call returns when it runs alone
	alone := map[c10job]string{}
	for _, j := range jobs {
		if _, ok := alone[j]; !ok {
			alone[j] = solo(j)
		}
	}
	type mismatch struct {
		Job        c10job
		Alone, Got string
	}
	var mu sync.Mutex
	mism := []mismatch{}
	var wg sync.WaitGroup
	for w := 0; w < 8; w++ {
		wg.Add(1)
		go func(w int) {
			defer wg.Done()
			for k := w; k < len(jobs); k += 8 {
				j := jobs[k]
				got := func() (s string) {
					defer func() {
						if r := recover(); r != nil {
							s = fmt.Sprintf("panic: %v", r)
						}
					}()
					return solo(j)
				}()
				if got != alone[j] {
					mu.Lock()
					if len(mism) < 5 {
						mism = append(mism, mismatch{j, alone[j], got})
					}
					mu.Unlock()
				}
			}
		}(w)
	}
	wg.Wait()
	out, _ := json.Marshal(map[string]any{"jobs": len(jobs), "distinct_jobs": len(alone), "mismatches": mism})
	fmt.Println(string(out))
}

func C10(e *core.Env) {
	res := e.Res
	res.Rule = "cases = concurrent calls: 8 goroutines x rounds of jobs drawn from {CompileProfile+ValidateCompiled, ValidateWithConfiguration from text, ValidateCompiledWithConfiguration sharing ONE compiled profile} x 5 profiles (incl. profiles with 8 and 14 path rules) x 5 documents (incl. unreadable) x 3 report configurations with different schema IRIs, in a -race build of the harness; every returned report / error is compared byte-wise (fixed clock) with what the same call returns when it runs alone; any data race reported by the race detector is a violation; " +
		"non-trivial = the job compiles a profile or uses a non-default configuration; distinct by (kind, profile, data, configuration)"
	raceBin := filepath.Join(e.Scratch, "verifh-race")
	cmd := exec.Command("go", "build", "-race", "-o", raceBin, "./cmd/verifh")
	cmd.Dir = filepath.Join(e.Verif, "harness")
	cmd.Env = append(os.Environ(), "GOFLAGS=-mod=mod", "GOPROXY=off", "GOSUMDB=off", "GOTOOLCHAIN=local")
	if out, err := cmd.CombinedOutput(); err != nil {
		res.Violate("harness-error", "the -race build of the harness fails: "+core.Trunc(string(out), 800), map[string]any{"no_failing_input_found": true, "broken": "race build"})
		return
	}
	rounds := e.Pick(12, 120)
	for run := 0; run < e.Pick(2, 6); run++ {
		c := exec.Command(raceBin, "c10load", fmt.Sprint(e.Seed+int64(run)), fmt.Sprint(rounds))
		c.Env = append(os.Environ(), "GORACE=halt_on_error=0 exitcode=0")
		var so, se bytes.Buffer
		c.Stdout, c.Stderr = &so, &se
		err := c.Run()
		var result struct {
			Jobs, Distinct int `json:"-"`
			JobsN          int `json:"jobs"`
			DistinctN      int `json:"distinct_jobs"`
			Fatal          string
			Mismatches     []struct {
				Job        c10job
				Alone, Got string
			}
		}
		line := strings.TrimSpace(so.String())
		if i := strings.LastIndex(line, "\n"); i >= 0 {
			line = line[i+1:]
		}
		if jerr := json.Unmarshal([]byte(line), &result); jerr != nil || result.Fatal != "" {
			crash := core.Trunc(se.String(), 3000)
			if strings.Contains(se.String(), "fatal error") || strings.Contains(se.String(), "panic:") {
				res.Violate("impl-violates-property", "the process crashed under concurrent load: "+core.Trunc(firstLineWith(se.String(), "fatal error", "panic:"), 200),
					map[string]any{"seed": e.Seed + int64(run), "rounds": rounds, "stderr": crash, "how": "8 goroutines of mixed compile / validate jobs, see harness/props/c10.go C10Load"})
			} else {
				res.Violate("harness-error", fmt.Sprintf("load worker failed: %v %v %s", err, jerr, result.Fatal), map[string]any{"no_failing_input_found": true, "broken": "c10 worker", "stderr": crash, "stdout": core.Trunc(so.String(), 500)})
			}
			continue
		}
		if strings.Contains(se.String(), "DATA RACE") {
			res.Violate("impl-violates-property", "the race detector reports a data race under concurrent validation / compilation",
				map[string]any{"seed": e.Seed + int64(run), "rounds": rounds, "race_report": core.Trunc(se.String(), 6000), "how": "go build -race; 8 goroutines of mixed compile / validate jobs (harness/props/c10.go C10Load)"})
		}
		profiles, datas, configs := c10Profiles(), c10Datas(), c10Configs()
		for _, m := range result.Mismatches {
			res.Violate("impl-violates-property", "a concurrent "+m.Job.Kind+" call returns something else than the same call alone",
				map[string]any{"job": m.Job, "profile": profiles[m.Job.Profile], "data": datas[m.Job.Data], "configuration": fmt.Sprintf("%+v", configs[m.Job.Config]),
					"alone": core.Trunc(m.Alone, 2500), "concurrent": core.Trunc(m.Got, 2500), "first_difference": firstDiff(m.Alone, m.Got), "seed": e.Seed + int64(run), "rounds": rounds})
		}
		res.Evaluations += result.JobsN
		res.DistinctNontrivial += result.DistinctN
		res.Count(fmt.Sprintf("run-%d-jobs=%d", run, result.JobsN))
		if run == 0 {
			res.Sample(map[string]any{"jobs": result.JobsN, "distinct_jobs": result.DistinctN, "goroutines": 8, "race_detector": "on", "mismatches": len(result.Mismatches)})
		}
	}
	res.Unmodelled = []string{"data-race freedom in the sense of the Go memory model is decided by the race detector on the executions run here, not by proof",
		"thread-safety of OPA's PreparedEvalQuery, yaml.v3 and json-gold is exercised (shared compiled profile, concurrent parsing), not modelled"}
}

func firstLineWith(s string, needles ...string) string {
	for _, l := range strings.Split(s, "\n") {
		for _, n := range needles {
			if strings.Contains(l, n) {
				return l
			}
		}
	}
	return ""
}
