package props

import (
	"bytes"
	"context"
	"encoding/json"
	"fmt"
	"github.com/aml-org/amf-custom-validator/internal/parser/profile"
	"github.com/aml-org/amf-custom-validator/internal/validator"
	"github.com/aml-org/amf-custom-validator/pkg/events"
	"github.com/aml-org/amf-custom-validator/verifh/sx"
	"math/rand"
	"os"
	"os/exec"
	"path/filepath"
	"regexp"
	"sort"
	"strconv"
	"strings"
	"sync"
	"sync/atomic"
	"time"

	"github.com/aml-org/amf-custom-validator/pkg"
	"github.com/aml-org/amf-custom-validator/pkg/config"
	"github.com/aml-org/amf-custom-validator/verifh/core"
	"github.com/open-policy-agent/opa/rego"
)

type c10job struct {
	Kind    string // compile+validate | validate-text | validate-compiled
	Profile int
	Data    int
	Config  int
}

func c10Multi(k int) string {
	return c10Profiles2(k)
}

func c10Profiles() []string {
	// the last one parses but fails in code generation (undeclared prefix): an error for its caller, nothing for anyone else
	return []string{PoolProfileMin, PoolProfileLevels, c10Multi(4), c10Multi(7), PoolProfileSpecial, c10BuiltinCore, c10ShadowCore,
		strings.Replace(PoolProfileMin, "targetClass: ex.Thing", "targetClass: acme.Thing", 1)}
}

// two tenants' profiles that spell their vocabulary with the same prefix name: one relies on the built-in prefix `core`,
// the other declares `core` for a namespace of its own (profiles 5 and 6; document 9 holds nodes of both vocabularies)
const c10BuiltinCore = "#%Validation Profile 1.0\nprofile: Builtin core\nviolation:\n  - named\nvalidations:\n  named:\n    targetClass: core.Thing\n    message: \"{{core.name}} needs a description\"\n    propertyConstraints:\n      core.description:\n        minCount: 1\n"
const c10ShadowCore = "#%Validation Profile 1.0\nprofile: Own core\nprefixes:\n  core: http://tenant-b.example/core#\nviolation:\n  - named\nvalidations:\n  named:\n    targetClass: core.Thing\n    message: \"{{core.name}} needs a description\"\n    propertyConstraints:\n      core.description:\n        minCount: 1\n"
const c10CoreData = `{"@graph":[{"@id":"http://example.org/d#amf1","@type":"http://a.ml/vocabularies/core#Thing","http://a.ml/vocabularies/core#name":"amf one"},
 {"@id":"http://example.org/d#amf2","@type":"http://a.ml/vocabularies/core#Thing","http://a.ml/vocabularies/core#name":"amf two","http://a.ml/vocabularies/core#description":"d"},
 {"@id":"http://example.org/d#own1","@type":"http://tenant-b.example/core#Thing","http://tenant-b.example/core#name":"own one","http://a.ml/vocabularies/core#description":"wrong vocabulary"},
 {"@id":"http://example.org/d#own2","@type":"http://tenant-b.example/core#Thing","http://tenant-b.example/core#name":"own two","http://tenant-b.example/core#description":"d"}]}`

func c10Profiles2(k int) string {
	multi := func(k int) string {
		var b strings.Builder
		b.WriteString(ProfileHeader + "violation:\n")
		for i := 0; i < k; i++ {
			fmt.Fprintf(&b, "  - v%d\n", i)
		}
		b.WriteString("validations:\n")
		for i := 0; i < k; i++ {
			fmt.Fprintf(&b, "  v%d:\n    targetClass: ex.Thing\n    message: p%d must be ok\n    propertyConstraints:\n      ex.p%d:\n        in: [ ok ]\n      ex.q%d / ex.p%d:\n        maxCount: %d\n", i, i, i, i, i, i)
		}
		return b.String()
	}
	return multi(k)
}

// c10CtxPath: a JSON-LD context file the last two documents refer to with @import (written by C10 into its scratch directory;
// the load process gets the path through the environment).
func c10CtxPath() string { return os.Getenv("VERIF_C10_CTX") }

func c10Datas() []string {
	things := `{"@graph":[{"@id":"http://example.org/d#a","@type":"http://example.org/ns#Thing","http://example.org/ns#p0":"ok","http://example.org/ns#p1":"bad","http://example.org/ns#p2":"ok","http://example.org/ns#p3":"ok","http://example.org/ns#p5":"nope","http://example.org/ns#name":"a"},
 {"@id":"http://example.org/d#b","@type":"http://example.org/ns#Thing","http://example.org/ns#p0":"ok","http://example.org/ns#p1":"ok","http://example.org/ns#p2":"ok","http://example.org/ns#p3":"bad","http://example.org/ns#p4":"ok","http://example.org/ns#p6":"ok"}]}`
	// two large documents (> 64 KiB each) over the same node ids: one conforming, one with violations
	large := func(bad bool) string {
		var b strings.Builder
		b.WriteString(`{"@graph":[`)
		for i := 0; i < 300; i++ {
			if i > 0 {
				b.WriteString(",\n")
			}
			name := fmt.Sprintf(`,"http://example.org/ns#name":"thing number %d with a reasonably long name to make the document large"`, i)
			if bad && i%60 == 7 {
				name = ""
			}
			fmt.Fprintf(&b, `{"@id":"http://example.org/d#n%d","@type":"http://example.org/ns#Thing","http://example.org/ns#p0":"ok","http://example.org/ns#p1":"ok","http://example.org/ns#p2":"ok","http://example.org/ns#p3":"ok"%s}`, i, name)
		}
		b.WriteString("]}")
		return b.String()
	}
	ctx := c10CtxPath()
	named := fmt.Sprintf(`{"@context": {"@import": %q, "name": "ex:name"}, "@id": "http://example.org/d#imported-a", "@type": "Thing", "name": "A"}`, ctx)
	unnamed := fmt.Sprintf(`{"@context": {"@import": %q}, "@id": "http://example.org/d#imported-b", "@type": "Thing", "name": "B"}`, ctx)
	return []string{PoolDataGood, PoolDataBad, things, PoolDataEmpty, PoolDataGarbage, large(false), large(true), named, unnamed, c10CoreData}
}

func c10Configs() []config.ReportConfiguration {
	return []config.ReportConfiguration{config.DefaultReportConfiguration(),
		{IncludeReportCreationTime: true, ReportSchemaIri: "http://tenant-a.example/report.yaml", LexicalSchemaIri: "http://tenant-a.example/lexical.yaml"},
		{IncludeReportCreationTime: false, ReportSchemaIri: "http://tenant-b.example/report.yaml", LexicalSchemaIri: "http://tenant-b.example/lexical.yaml"}}
}

// C10Load is run by a -race build of this binary: serial baseline, then the same jobs from 8 goroutines; prints JSON.
func C10Load(seed int64, rounds int) {
	r := rand.New(rand.NewSource(seed))
	profiles, datas, configs := c10Profiles(), c10Datas(), c10Configs()
	shared := make([]*rego.PreparedEvalQuery, len(profiles))
	for i, p := range profiles {
		q, err := pkg.CompileProfile(p, false, nil)
		if err != nil {
			if i == len(profiles)-1 {
				continue // the profile that is meant not to compile
			}
			fmt.Printf("{\"fatal\": %q}\n", err.Error())
			return
		}
		shared[i] = q
	}
	var blocked int32
	var soloRaw func(j c10job) string
	solo := func(j c10job) string {
		if atomic.LoadInt32(&blocked) >= 3 {
			return "skipped: earlier calls blocked"
		}
		done := make(chan string, 1)
		go func() {
			defer func() {
				if r := recover(); r != nil {
					done <- fmt.Sprintf("panic: %v", r)
				}
			}()
			done <- soloRaw(j)
		}()
		select {
		case o := <-done:
			return o
		case <-time.After(45 * time.Second):
			atomic.AddInt32(&blocked, 1)
			return "blocked: the call did not return within 45 s"
		}
	}
	soloRaw = func(j c10job) string {
		var out string
		var err error
		if j.Kind == "validate-compiled" && shared[j.Profile] == nil {
			j.Kind = "validate-text"
		}
		switch j.Kind {
		case "compile+validate":
			var q *rego.PreparedEvalQuery
			q, err = pkg.CompileProfile(profiles[j.Profile], false, nil)
			if err == nil {
				out, err = pkg.ValidateCompiledWithConfiguration(q, datas[j.Data], false, nil, clockA, configs[j.Config])
			}
		case "validate-text":
			out, err = pkg.ValidateWithConfiguration(profiles[j.Profile], datas[j.Data], false, nil, clockA, configs[j.Config])
		default:
			out, err = pkg.ValidateCompiledWithConfiguration(shared[j.Profile], datas[j.Data], false, nil, clockA, configs[j.Config])
		}
		if err != nil {
			return "error: " + err.Error()
		}
		return out
	}
	kinds := []string{"compile+validate", "validate-text", "validate-compiled"}
	jobs := []c10job{}
	for i := 0; i < rounds*8; i++ {
		di := r.Intn(5)
		if r.Intn(10) == 0 {
			di = 5 + r.Intn(2) // the large documents: mostly exercised by the aligned rounds below
		} else if r.Intn(6) == 0 {
			di = 7 + r.Intn(2) // the documents that import a context file
		}
		pi := r.Intn(len(profiles))
		if (pi == 5 || pi == 6) && r.Intn(3) != 0 {
			di = 9 // the document holding both vocabularies called `core`
		}
		jobs = append(jobs, c10job{kinds[r.Intn(3)], pi, di, r.Intn(len(configs))})
	}
	// what each call returns when it runs alone
	alone := map[c10job]string{}
	blockedJobs := []c10job{}
	history := []c10job{}
	for _, j := range jobs {
		if _, ok := alone[j]; !ok {
			alone[j] = solo(j)
			if strings.HasPrefix(alone[j], "blocked:") && len(blockedJobs) < 3 {
				blockedJobs = append(blockedJobs, j)
			}
			if len(blockedJobs) == 0 {
				history = append(history, j)
				if len(history) > 6 {
					history = history[len(history)-6:]
				}
			}
		}
	}
	if len(blockedJobs) > 0 {
		// calls made one after the other already block: nothing concurrent is needed to show it
		out, _ := json.Marshal(map[string]any{"jobs": len(jobs), "distinct_jobs": len(alone), "mismatches": []int{}, "blocked": blockedJobs, "before_the_first_blocked_call": history})
		fmt.Println(string(out))
		return
	}
	type mismatch struct {
		Job        c10job
		Alone, Got string
	}
	var mu sync.Mutex
	mism := []mismatch{}
	var wg sync.WaitGroup
	for w := 0; w < 8; w++ {
		wg.Add(1)
		go func(w int) {
			defer wg.Done()
			for k := w; k < len(jobs); k += 8 {
				j := jobs[k]
				got := func() (s string) {
					defer func() {
						if r := recover(); r != nil {
							s = fmt.Sprintf("panic: %v", r)
						}
					}()
					return solo(j)
				}()
				if got != alone[j] {
					mu.Lock()
					if len(mism) < 5 {
						mism = append(mism, mismatch{j, alone[j], got})
					}
					mu.Unlock()
				}
			}
		}(w)
	}
	wg.Wait()
	// aligned rounds: the listener of every call stops receiving after the event that precedes a stage until all 8 calls are
	// inside the send of that stage's start event, so the 8 calls enter the stage together (only the public event channel is
	// used to steer them)
	aligned := func(stage events.EventType, call func(w int, ch *chan events.Event) (string, error)) []string {
		return alignedCalls(stage, 8, call)
	}
	things := datas[2]
	genProfiles := []string{}
	for w := 0; w < 8; w++ {
		genProfiles = append(genProfiles, c10Multi(3+w))
	}
	genAlone := make([]string, 8)
	for w := range genProfiles {
		o, err := pkg.ValidateWithConfiguration(genProfiles[w], things, false, nil, clockA, configs[0])
		if err != nil {
			o = "error: " + err.Error()
		}
		genAlone[w] = o
	}
	largeAlone := []string{}
	for _, d := range datas[5:7] {
		o, err := pkg.ValidateCompiledWithConfiguration(shared[0], d, false, nil, clockA, configs[0])
		if err != nil {
			o = "error: " + err.Error()
		}
		largeAlone = append(largeAlone, o)
	}
	// cold rounds: 8 calls submit the SAME profile text, one the process has never seen (a fresh comment); each is started when
	// the one before has parsed it and stands before Rego generation, then all enter Rego generation together; the profile has 40 sibling constraints and 10 alternatives written in descending order
	coldAlone, err := pkg.ValidateWithConfiguration(coldProfile(40, "reference"), things, false, nil, clockA, configs[0])
	if err != nil {
		coldAlone = "error: " + err.Error()
	}
	for round := 0; round < rounds/2+2; round++ {
		coldText := coldProfile(40, fmt.Sprintf("cold round %d", round))
		couts := startedThenStaggered(events.ProfileParsingDone, 10*time.Second, 8, []time.Duration{0, 20 * time.Microsecond, 100 * time.Microsecond, 400 * time.Microsecond}[round%4], func(w int, ch *chan events.Event) (string, error) {
			return pkg.ValidateWithConfiguration(coldText, things, false, ch, clockA, configs[0])
		})
		for _, o := range couts {
			if o != coldAlone && len(mism) < 8 {
				mism = append(mism, mismatch{c10job{Kind: fmt.Sprintf("validate-text, 8 calls submitting the same profile text (new to the process: 40 sibling constraints, 10 alternatives, a fresh comment `# cold round %d`) enter Rego generation together; alone = the same profile with another comment", round), Profile: -100, Data: 2}, coldAlone, o})
			}
		}
		if o, err := pkg.ValidateWithConfiguration(coldText, things, false, nil, clockA, configs[0]); (err != nil || o != coldAlone) && len(mism) < 8 {
			mism = append(mism, mismatch{c10job{Kind: fmt.Sprintf("validate-text alone, the profile text that 8 calls submitted together in cold round %d", round), Profile: -100, Data: 2}, coldAlone, o})
		}
		outs := aligned(events.ProfileParsingDone, func(w int, ch *chan events.Event) (string, error) {
			return pkg.ValidateWithConfiguration(genProfiles[w], things, false, ch, clockA, configs[0])
		})
		for w, o := range outs {
			if o != genAlone[w] && len(mism) < 8 {
				mism = append(mism, mismatch{c10job{Kind: fmt.Sprintf("validate-text, 8 calls entering Rego generation together (profile: %d validations of the multi family)", 3+w), Profile: -1 - (3 + w), Data: 2}, genAlone[w], o})
			}
		}
		outs = aligned(events.InputDataParsingDone, func(w int, ch *chan events.Event) (string, error) {
			return pkg.ValidateCompiledWithConfiguration(shared[0], datas[5+(w+round)%2], false, ch, clockA, configs[0])
		})
		for w, o := range outs {
			if o != largeAlone[(w+round)%2] && len(mism) < 8 {
				mism = append(mism, mismatch{c10job{Kind: "validate-compiled, 8 calls entering normalisation together on two large documents", Profile: 0, Data: 5 + (w+round)%2}, largeAlone[(w+round)%2], o})
			}
		}
		// and alone right afterwards (a wrong pairing left behind shows in the NEXT call)
		for k, d := range datas[5:7] {
			o, err := pkg.ValidateCompiledWithConfiguration(shared[0], d, false, nil, clockA, configs[0])
			if err != nil {
				o = "error: " + err.Error()
			}
			if o != largeAlone[k] && len(mism) < 8 {
				mism = append(mism, mismatch{c10job{Kind: "validate-compiled alone, right after 8 calls entered normalisation together on two large documents", Profile: 0, Data: 5 + k}, largeAlone[k], o})
			}
		}
	}
	// afterwards, alone again: nothing the concurrent phase left behind may change what a call returns
	for j, want := range alone {
		if got := solo(j); got != want && len(mism) < 8 {
			j2 := j
			j2.Kind = j.Kind + " (alone again, after the concurrent phase)"
			mism = append(mism, mismatch{j2, want, got})
		}
	}
	// the numbers in the generated names (gen_<hint>_<n>) of modules generated at the same moment: C10_numbers_disjoint /
	// C10_unique say, for every schedule, that no number is handed to two calls and none twice to one call - so no number
	// appears in two of the modules, and within a module a number belongs to one name only
	reGen := regexp.MustCompile(`\bgen_([A-Za-z_]+?)_(\d+)\b`)
	for round := 0; round < 3 && len(mism) < 8; round++ {
		units := alignedCalls(events.ProfileParsingDone, 6, func(w int, ch *chan events.Event) (string, error) {
			u, err := validator.GenerateRego(c10Multi(2+w+round), false, ch)
			close(*ch)
			if err != nil || u == nil {
				return "", err
			}
			return u.Code, nil
		})
		owner := map[string]int{}
		for w, code := range units {
			nameOf := map[string]string{}
			for _, m := range reGen.FindAllStringSubmatch(code, -1) {
				if prev, ok := nameOf[m[2]]; ok && prev != m[1] && len(mism) < 8 {
					mism = append(mism, mismatch{c10job{Kind: fmt.Sprintf("generate, 6 profiles entering Rego generation together: in the module of profile multi(%d) the number %s is part of two generated names (gen_%s_%s and gen_%s_%s)", 2+w+round, m[2], prev, m[2], m[1], m[2]), Profile: -1 - (2 + w + round), Data: 2}, "every generated name of a module carries a number of its own", "gen_" + prev + "_" + m[2] + " and gen_" + m[1] + "_" + m[2]})
				}
				nameOf[m[2]] = m[1]
			}
			for n := range nameOf {
				if o, ok := owner[n]; ok && o != w && len(mism) < 8 {
					mism = append(mism, mismatch{c10job{Kind: fmt.Sprintf("generate, 6 profiles entering Rego generation together: the number %s is in the generated names of two modules (profiles multi(%d) and multi(%d))", n, 2+o+round, 2+w+round), Profile: -1 - (2 + w + round), Data: 2}, "no number is handed to two compilations", "number " + n + " in both modules"})
				}
				owner[n] = w
			}
		}
	}
	// three generations steered to run one after the other in a chosen order (each call is started when the one before is held
	// inside the send of its RegoGenerationStart event, then they are released one by one): the numbers found in each module go to the parent,
	// which compares them with Interleave.handed for that schedule
	steered := []map[string]any{}
	for _, order := range [][]int{{0, 1, 2}, {2, 0, 1}, {1, 2, 0}} {
		n0 := 0
		fmt.Sscanf(strings.TrimPrefix(profileGenvar("probe"), "gen_probe_"), "%d", &n0)
		// the fourth "call" is started when the three generations are parked and only reads the counter: the parking point is
		// before any code of Rego generation (Rendezvous: C10_parked_before_generation), so the counter has not moved
		codes := startedThenSerial(events.ProfileParsingDone, 5*time.Second, []int{0, 1, 2, 3}, append(append([]int{}, order...), 3), []func(ch *chan events.Event) (string, error){
			func(ch *chan events.Event) (string, error) { return genCode(c10Multi(3), ch) },
			func(ch *chan events.Event) (string, error) { return genCode(c10Multi(5), ch) },
			func(ch *chan events.Event) (string, error) { return genCode(coldProfile(6, "steered"), ch) },
			func(ch *chan events.Event) (string, error) { close(*ch); return profileGenvar("probe"), nil },
		})
		whileParked := 0
		fmt.Sscanf(strings.TrimPrefix(codes[3], "gen_probe_"), "%d", &whileParked)
		if whileParked != n0+1 && len(mism) < 8 {
			mism = append(mism, mismatch{c10job{Kind: fmt.Sprintf("generate: three calls parked inside the send of RegoGenerationStart (their listeners stop receiving after ProfileParsingDone) - the name counter read at that moment is %d, it was %d before they started: code of Rego generation has run before the event was delivered", whileParked, n0), Profile: -4, Data: 2}, fmt.Sprint(n0 + 1), fmt.Sprint(whileParked)})
		}
		n0 = whileParked
		nums := [][]int{}
		for _, code := range codes[:3] {
			seen := map[int]bool{}
			l := []int{}
			for _, m := range reGen.FindAllStringSubmatch(code, -1) {
				n, _ := strconv.Atoi(m[2])
				if !seen[n] {
					seen[n] = true
					l = append(l, n)
				}
			}
			sort.Ints(l)
			nums = append(nums, l)
		}
		steered = append(steered, map[string]any{"counter_before": n0, "release_order": order, "numbers": nums})
	}
	// the two profiles that share a prefix name, alone at the end: the parent compares these with a fresh process's reports
	prefixAlone := map[string]string{}
	for _, pi := range []int{5, 6} {
		prefixAlone[fmt.Sprint(pi)] = solo(c10job{Kind: "validate-text", Profile: pi, Data: 9, Config: 0})
	}
	out, _ := json.Marshal(map[string]any{"jobs": len(jobs), "distinct_jobs": len(alone), "mismatches": mism, "prefix_alone": prefixAlone, "steered": steered})
	fmt.Println(string(out))
}

func profileGenvar(hint string) string { return profile.Genvar(hint) }

func genCode(p string, ch *chan events.Event) (string, error) {
	u, err := validator.GenerateRego(p, false, ch)
	close(*ch)
	if err != nil || u == nil {
		return "", err
	}
	return u.Code, nil
}

func C10(e *core.Env) {
	res := e.Res
	res.Rule = "cases = concurrent calls: 8 goroutines x rounds of jobs drawn from {CompileProfile+ValidateCompiled, ValidateWithConfiguration from text, ValidateCompiledWithConfiguration sharing ONE compiled profile} x 8 profiles (one of which fails in code generation, two that use the prefix name `core` for different namespaces - their answers alone in the loaded process are compared with a fresh process's) x 10 documents (incl. two that @import one context file, unreadable, and two documents larger than 64 KiB over the same node ids, one conforming and one not) x 3 report configurations with different schema IRIs, in a -race build of the harness; every returned report / error is compared byte-wise (fixed clock) with what the same call returns when it runs alone, and every distinct call is repeated alone after the concurrent phase; aligned rounds: 8 calls whose listeners stop receiving after the preceding event until all are inside the send of the stage-start event enter Rego generation together (8 different profiles; and 8 calls submitting ONE profile text new to the process, with 40 sibling constraints and 10 alternatives in descending order, parsed one after the other and generated together or 20 - 400 us apart) and enter normalisation together (two large documents), each compared with the call alone, followed by the same calls alone; three generations steered to run one after the other in three orders: the numbers in each module are among those Interleave.handed gives that call for the schedule; 6 modules generated together: no number of a generated name in two modules, none in two names of one module (what C10_unique / C10_numbers_disjoint state for every schedule); any data race reported by the race detector is a violation; " +
		"non-trivial = the job compiles a profile or uses a non-default configuration; distinct by (kind, profile, data, configuration)"
	raceBin := filepath.Join(e.Scratch, "verifh-race")
	cmd := exec.Command("go", "build", "-race", "-o", raceBin, "./cmd/verifh")
	cmd.Dir = filepath.Join(e.Verif, "harness")
	cmd.Env = append(os.Environ(), "GOFLAGS=-mod=mod", "GOPROXY=off", "GOSUMDB=off", "GOTOOLCHAIN=local")
	if out, err := cmd.CombinedOutput(); err != nil {
		res.Violate("harness-error", "the -race build of the harness fails: "+core.Trunc(string(out), 800), map[string]any{"no_failing_input_found": true, "broken": "race build"})
		return
	}
	rounds := e.Pick(12, 120)
	ctxFile := filepath.Join(e.Scratch, "c10ctx.jsonld")
	os.WriteFile(ctxFile, []byte(`{"@context": {"ex": "http://example.org/ns#", "Thing": "ex:Thing"}}`), 0o644)
	os.Setenv("VERIF_C10_CTX", ctxFile)
	for run := 0; run < e.Pick(2, 6); run++ {
		cctx, ccancel := context.WithTimeout(context.Background(), 40*time.Minute)
		c := exec.CommandContext(cctx, raceBin, "c10load", fmt.Sprint(e.Seed+int64(run)), fmt.Sprint(rounds))
		defer ccancel()
		c.Env = append(os.Environ(), "GORACE=halt_on_error=0 exitcode=0", "VERIF_C10_CTX="+ctxFile)
		var so, se bytes.Buffer
		c.Stdout, c.Stderr = &so, &se
		err := c.Run()
		var result struct {
			Blocked        []c10job
			Before         []c10job `json:"before_the_first_blocked_call"`
			Jobs, Distinct int      `json:"-"`
			JobsN          int      `json:"jobs"`
			DistinctN      int      `json:"distinct_jobs"`
			Fatal          string
			PrefixAlone    map[string]string `json:"prefix_alone"`
			Steered        []struct {
				CounterBefore int     `json:"counter_before"`
				ReleaseOrder  []int   `json:"release_order"`
				Numbers       [][]int `json:"numbers"`
			} `json:"steered"`
			Mismatches []struct {
				Job        c10job
				Alone, Got string
			}
		}
		line := strings.TrimSpace(so.String())
		if i := strings.LastIndex(line, "\n"); i >= 0 {
			line = line[i+1:]
		}
		if jerr := json.Unmarshal([]byte(line), &result); jerr != nil || result.Fatal != "" {
			crash := core.Trunc(se.String(), 3000)
			if strings.Contains(se.String(), "fatal error") || strings.Contains(se.String(), "panic:") {
				res.Violate("impl-violates-property", "the process crashed under concurrent load: "+core.Trunc(firstLineWith(se.String(), "fatal error", "panic:"), 200),
					map[string]any{"seed": e.Seed + int64(run), "rounds": rounds, "stderr": crash, "how": "8 goroutines of mixed compile / validate jobs, see harness/props/c10.go C10Load"})
			} else {
				res.Violate("harness-error", fmt.Sprintf("load worker failed: %v %v %s", err, jerr, result.Fatal), map[string]any{"no_failing_input_found": true, "broken": "c10 worker", "stderr": crash, "stdout": core.Trunc(so.String(), 500)})
			}
			continue
		}
		if strings.Contains(se.String(), "DATA RACE") {
			res.Violate("impl-violates-property", "the race detector reports a data race under concurrent validation / compilation",
				map[string]any{"seed": e.Seed + int64(run), "rounds": rounds, "race_report": core.Trunc(se.String(), 6000), "how": "go build -race; 8 goroutines of mixed compile / validate jobs (harness/props/c10.go C10Load)"})
		}
		profiles, datas, configs := c10Profiles(), c10Datas(), c10Configs()
		for _, bj := range result.Blocked {
			hist := []map[string]any{}
			for _, h := range result.Before {
				hist = append(hist, map[string]any{"kind": h.Kind, "profile": core.Trunc(profiles[h.Profile], 400), "data_index": h.Data})
			}
			res.Violate("impl-violates-property", "a "+bj.Kind+" call made alone, after a few other calls in the process, does not return (45 s)",
				map[string]any{"job": bj, "profile": profiles[bj.Profile], "data": core.Trunc(datas[bj.Data], 2000), "calls_made_before_in_this_process": hist,
					"note": "the same call returns at once in a fresh process: an earlier call left something locked", "seed": e.Seed + int64(run), "rounds": rounds})
		}
		for _, m := range result.Mismatches {
			ptext := ""
			if m.Job.Profile >= 0 {
				ptext = profiles[m.Job.Profile]
			} else if m.Job.Profile == -100 {
				ptext = coldProfile(40, "cold round <n>")
			} else {
				ptext = c10Multi(-1 - m.Job.Profile)
			}
			res.Violate("impl-violates-property", "a concurrent "+m.Job.Kind+" call returns something else than the same call alone",
				map[string]any{"job": m.Job, "profile": ptext, "data": core.Trunc(datas[m.Job.Data], 3000), "configuration": fmt.Sprintf("%+v", configs[m.Job.Config]),
					"alone": core.Trunc(m.Alone, 2500), "concurrent": core.Trunc(m.Got, 2500), "first_difference": firstDiff(m.Alone, m.Got), "seed": e.Seed + int64(run), "rounds": rounds})
		}
		// steered generations against the model: the schedule is "all the Genvar calls of the first released call, then all of the
		// second, then all of the third" (as many calls each as the largest number of its module says); Interleave.handed gives
		// the numbers each call is handed - every number found in a module must be one of them
		for si, st := range result.Steered {
			steps := []sx.V{}
			prev := st.CounterBefore
			okShape := len(st.Numbers) == 3 && len(st.ReleaseOrder) == 3
			for _, t := range st.ReleaseOrder {
				if !okShape || len(st.Numbers[t]) == 0 {
					okShape = false
					break
				}
				top := st.Numbers[t][len(st.Numbers[t])-1]
				for k := prev; k < top; k++ {
					steps = append(steps, sx.L(sx.I(t), sx.A("gen")))
				}
				if top > prev {
					prev = top
				}
			}
			replay := map[string]any{"counter_before": st.CounterBefore, "release_order": st.ReleaseOrder, "numbers_found_in_each_module": st.Numbers,
				"how": "verifh c10load: three GenerateRego calls held inside the send of RegoGenerationStart and released one after the other in this order; profiles multi(3), multi(5), coldProfile(6)"}
			if !okShape {
				res.Violate("impl-violates-property", "a generation steered to run after another one produced a module without generated names", replay)
				continue
			}
			for t := 0; t < 3; t++ {
				ans, derr := e.Driver.Eval(sx.L(sx.A("c10"), sx.A("handed"), sx.I(st.CounterBefore), sx.I(t), sx.L(steps...)))
				if derr != nil {
					res.Violate("harness-error", derr.Error(), map[string]any{"no_failing_input_found": true, "broken": "driver"})
					break
				}
				model := map[int]bool{}
				for _, a := range ans.List {
					n, _ := strconv.Atoi(a.Atom)
					model[n] = true
				}
				for _, n := range st.Numbers[t] {
					if !model[n] {
						replay["call"] = t
						replay["number_not_handed_to_this_call_by_the_model"] = n
						replay["model_handed"] = ans.String()
						res.Violate("impl-violates-property", fmt.Sprintf("generations run one after the other: the module of call %d carries the number %d, which the counter handed to another call (or before the calls began)", t, n), replay)
						break
					}
				}
			}
			res.Case(fmt.Sprintf("steered-generations|run%d|%d", run, si), true)
		}
		// the profiles that share a prefix name: what the loaded process answers for each, alone, equals a fresh process's answer
		for _, pi := range []int{5, 6} {
			pf, df := filepath.Join(e.Scratch, "c10p.yaml"), filepath.Join(e.Scratch, "c10d.jsonld")
			os.WriteFile(pf, []byte(profiles[pi]), 0o644)
			os.WriteFile(df, []byte(datas[9]), 0o644)
			self, _ := os.Executable()
			fo, ferr := exec.Command(self, "oneshot", pf, df, "0").Output()
			var fm map[string]string
			if ferr != nil || json.Unmarshal(fo, &fm) != nil {
				res.Violate("harness-error", fmt.Sprintf("fresh process failed: %v", ferr), map[string]any{"no_failing_input_found": true, "broken": "oneshot subprocess"})
				continue
			}
			got := result.PrefixAlone[fmt.Sprint(pi)]
			if got != fm["report"] {
				res.Violate("impl-violates-property", "a validation made alone in a process that served other tenants' profiles (one of which uses the same prefix name for another namespace) differs from a fresh process's",
					map[string]any{"profile": profiles[pi], "other_profile_served_by_the_process": profiles[11-pi], "data": datas[9], "loaded_process": core.Trunc(got, 2500), "fresh_process": core.Trunc(fm["report"], 2500),
						"first_difference": firstDiff(fm["report"], got), "seed": e.Seed + int64(run), "rounds": rounds, "how": "verifh c10load: 8 goroutines of mixed jobs over 8 profiles, then this call alone; verifh oneshot: the same call in a fresh process"})
			}
			res.Case(fmt.Sprintf("shared-prefix-name|run%d|profile%d", run, pi), true)
		}
		res.Evaluations += result.JobsN
		res.DistinctNontrivial += result.DistinctN
		res.Count(fmt.Sprintf("run-%d-jobs=%d", run, result.JobsN))
		if run == 0 {
			res.Sample(map[string]any{"jobs": result.JobsN, "distinct_jobs": result.DistinctN, "goroutines": 8, "race_detector": "on", "mismatches": len(result.Mismatches)})
		}
	}
	res.Unmodelled = []string{"data-race freedom in the sense of the Go memory model is decided by the race detector on the executions run here, not by proof",
		"thread-safety of OPA's PreparedEvalQuery, yaml.v3 and json-gold is exercised (shared compiled profile, concurrent parsing), not modelled"}
}

func firstLineWith(s string, needles ...string) string {
	for _, l := range strings.Split(s, "\n") {
		for _, n := range needles {
			if strings.Contains(l, n) {
				return l
			}
		}
	}
	return ""
}
