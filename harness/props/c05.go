package props

import (
	"encoding/json"
	"fmt"
	"math/big"
	"math/rand"
	"sort"
	"strings"

	"github.com/aml-org/amf-custom-validator/internal/validator"
	"github.com/aml-org/amf-custom-validator/pkg"
	"github.com/aml-org/amf-custom-validator/pkg/config"
	"github.com/aml-org/amf-custom-validator/verifh/core"
	"github.com/aml-org/amf-custom-validator/verifh/sx"
)

// ------------------------------------------------------------------------------------ surface documents

type sID struct {
	kind string // abs | compact | rel
	a, b string
}
type sVal struct {
	kind string // s i b ref embed
	s    string
	i    int
	b    bool
	id   sID
	node *sNode
}
type sProp struct {
	p    sID
	vals []sVal
	// rendering choice: a single value written bare (not in an array)
	bare bool
}
type sNode struct {
	id       sID
	types    []sID
	props    []sProp
	typeBare bool
}
type sDoc struct {
	ctxExpanded map[string]bool // prefixes declared with an expanded term definition {"@id": ns, "@prefix": true}
	ctx         [][2]string
	base        string
	nodes       []*sNode
	wrapper     string // graph | array | single
	indent      bool
}

func (i sID) text() string {
	switch i.kind {
	case "compact":
		return i.a + ":" + i.b
	case "rel":
		return i.a
	}
	return i.a
}
func (i sID) sx() sx.V {
	switch i.kind {
	case "compact":
		return sx.L(sx.A("compact"), sx.S(i.a), sx.S(i.b))
	case "rel":
		return sx.L(sx.A("rel"), sx.S(i.a))
	case "vocab":
		return sx.L(sx.A("vocab"), sx.S(i.a))
	}
	return sx.L(sx.A("abs"), sx.S(i.a))
}
func (v sVal) sx() sx.V {
	switch v.kind {
	case "s":
		return sx.L(sx.A("s"), sx.S(v.s))
	case "i":
		return sx.L(sx.A("i"), sx.I(v.i))
	case "b":
		return sx.L(sx.A("b"), sx.B(v.b))
	case "ref":
		return sx.L(sx.A("ref"), v.id.sx())
	}
	return sx.L(sx.A("embed"), v.node.sx())
}
func (n *sNode) sx() sx.V {
	ts := []sx.V{sx.A("types")}
	for _, t := range n.types {
		ts = append(ts, t.sx())
	}
	ps := []sx.V{sx.A("props")}
	for _, p := range n.props {
		vs := []sx.V{sx.A("vals")}
		for _, v := range p.vals {
			vs = append(vs, v.sx())
		}
		ps = append(ps, sx.L(p.p.sx(), sx.L(vs...)))
	}
	return sx.L(sx.A("node"), n.id.sx(), sx.L(ts...), sx.L(ps...))
}
func (d sDoc) sx() sx.V {
	cs := []sx.V{sx.A("ctx")}
	for _, c := range d.ctx {
		cs = append(cs, sx.L(sx.S(c[0]), sx.S(c[1])))
	}
	ns := []sx.V{sx.A("nodes")}
	for _, n := range d.nodes {
		ns = append(ns, n.sx())
	}
	return sx.L(sx.A("doc"), sx.L(cs...), sx.S(d.base), sx.L(ns...))
}

// ordered JSON writer (key order is one of the axes)
type kv struct {
	k string
	v any
}
type omap []kv

func writeJSON(b *strings.Builder, v any, indent string, level int) {
	nl := func(l int) {
		if indent != "" {
			b.WriteString("\n" + strings.Repeat(indent, l))
		}
	}
	switch x := v.(type) {
	case omap:
		b.WriteString("{")
		for i, e := range x {
			if i > 0 {
				b.WriteString(",")
			}
			nl(level + 1)
			k, _ := json.Marshal(e.k)
			b.Write(k)
			b.WriteString(":")
			if indent != "" {
				b.WriteString(" ")
			}
			writeJSON(b, e.v, indent, level+1)
		}
		if len(x) > 0 {
			nl(level)
		}
		b.WriteString("}")
	case []any:
		b.WriteString("[")
		for i, e := range x {
			if i > 0 {
				b.WriteString(",")
			}
			nl(level + 1)
			writeJSON(b, e, indent, level+1)
		}
		if len(x) > 0 {
			nl(level)
		}
		b.WriteString("]")
	case rawNum:
		b.WriteString(string(x))
	default:
		e, _ := json.Marshal(x)
		b.Write(e)
	}
}

// rawNum: a JSON number written with a chosen spelling (2, 2.0, 2e0, 20E-1 are one number, and one JSON-LD value)
type rawNum string

// one spelling per (document, number): every occurrence of a number in one document is written the same way (two
// spellings of one number repeated under one property are the finding number-respelled-duplicate, exercised on its own)
var c05NumSalt int64

func spellInt(r *rand.Rand, n int64) any {
	style := (n*7 + c05NumSalt) % 8
	if style < 0 {
		style = -style
	}
	switch style {
	case 0:
		return rawNum(fmt.Sprintf("%d.0", n))
	case 1:
		return rawNum(fmt.Sprintf("%de0", n))
	case 2:
		if n != 0 {
			return rawNum(fmt.Sprintf("%d0E-1", n))
		}
		return rawNum("0.0e3")
	case 3:
		return rawNum(fmt.Sprintf("%d.000", n))
	}
	return n
}

func (v sVal) json(r *rand.Rand) any {
	switch v.kind {
	case "s":
		return v.s
	case "i":
		return spellInt(r, int64(v.i))
	case "b":
		return v.b
	case "ref":
		return omap{{"@id", v.id.text()}}
	}
	return v.node.json(r)
}
func (n *sNode) json(r *rand.Rand) any {
	m := omap{}
	if n.id.kind != "blank" {
		m = append(m, kv{"@id", n.id.text()})
	}
	if len(n.types) > 0 {
		if n.typeBare && len(n.types) == 1 {
			m = append(m, kv{"@type", n.types[0].text()})
		} else {
			ts := []any{}
			for _, t := range n.types {
				ts = append(ts, t.text())
			}
			m = append(m, kv{"@type", ts})
		}
	}
	for _, p := range n.props {
		if p.bare && len(p.vals) == 1 {
			m = append(m, kv{p.p.text(), p.vals[0].json(r)})
		} else {
			vs := []any{}
			for _, v := range p.vals {
				vs = append(vs, v.json(r))
			}
			m = append(m, kv{p.p.text(), vs})
		}
	}
	r.Shuffle(len(m), func(i, j int) { m[i], m[j] = m[j], m[i] })
	return m
}
func (d sDoc) text(r *rand.Rand) string {
	c05NumSalt = int64(r.Intn(8))
	nodes := []any{}
	for _, n := range d.nodes {
		nodes = append(nodes, n.json(r))
	}
	var top any
	ctx := omap{}
	for _, c := range d.ctx {
		if d.ctxExpanded[c[0]] {
			ctx = append(ctx, kv{c[0], omap{{"@id", c[1]}, {"@prefix", true}}})
		} else {
			ctx = append(ctx, kv{c[0], c[1]})
		}
	}
	if d.base != "" {
		ctx = append(ctx, kv{"@base", d.base})
	}
	switch {
	case d.wrapper == "single" && len(nodes) == 1:
		m := nodes[0].(omap)
		if len(ctx) > 0 {
			m = append(omap{{"@context", ctx}}, m...)
		}
		top = m
	case d.wrapper == "array" && len(ctx) == 0:
		top = nodes
	default:
		m := omap{}
		if len(ctx) > 0 {
			m = append(m, kv{"@context", ctx})
		}
		m = append(m, kv{"@graph", nodes})
		if r.Intn(2) == 0 && len(m) == 2 {
			m[0], m[1] = m[1], m[0]
		}
		top = m
	}
	var b strings.Builder
	ind := ""
	if d.indent {
		ind = []string{"  ", "\t", " "}[r.Intn(3)]
	}
	writeJSON(&b, top, ind, 0)
	return b.String()
}

const c05Base = "http://example.org/d"

// c05ForceEmbed makes serialise embed every node it may embed (used for the deep-chain documents).
var c05ForceEmbed bool

// serialise draws one surface form of g: independent random choices on every axis the property lists.
func serialise(r *rand.Rand, g Graph, plain bool) sDoc {
	d := sDoc{wrapper: "graph"}
	hasBlank := false
	for _, n := range g.Nodes {
		if strings.HasPrefix(n.ID, DataNS+"blank") {
			hasBlank = true
		}
	}
	if plain && !hasBlank {
		// the form AMF emits: absolute IRIs, flat, arrays everywhere
		for _, n := range g.Nodes {
			sn := &sNode{id: sID{kind: "abs", a: n.ID}}
			for _, t := range n.Types {
				sn.types = append(sn.types, sID{kind: "abs", a: t})
			}
			for _, p := range n.Props {
				sp := sProp{p: sID{kind: "abs", a: p.Iri}}
				for _, v := range p.Vals {
					sp.vals = append(sp.vals, plainVal(v))
				}
				sn.props = append(sn.props, sp)
			}
			d.nodes = append(d.nodes, sn)
		}
		return d
	}
	useCtx := r.Intn(4) != 0
	forceArray := hasBlank && r.Intn(2) == 0
	if forceArray {
		useCtx = false // a top-level array of node objects carries no shared @context
	}
	useBase := useCtx && r.Intn(2) == 0
	prefixes := map[string]string{}
	if useCtx {
		names := [][2]string{{"ex", ExNS}, {"d", DataNS}, {"vocab", ExNS}}
		for _, p := range names {
			if r.Intn(3) != 0 {
				prefixes[p[0]] = p[1]
				d.ctx = append(d.ctx, [2]string{p[0], p[1]})
				if r.Intn(4) == 0 {
					if d.ctxExpanded == nil {
						d.ctxExpanded = map[string]bool{}
					}
					d.ctxExpanded[p[0]] = true
				}
			}
		}
		r.Shuffle(len(d.ctx), func(i, j int) { d.ctx[i], d.ctx[j] = d.ctx[j], d.ctx[i] })
	}
	if useBase {
		d.base = c05Base
	}
	// @vocab: predicates and classes of the vocabulary namespace may be written as bare terms
	useVocab := useCtx && r.Intn(2) == 0
	if useVocab {
		d.ctx = append(d.ctx, [2]string{"@vocab", ExNS})
		r.Shuffle(len(d.ctx), func(i, j int) { d.ctx[i], d.ctx[j] = d.ctx[j], d.ctx[i] })
	}
	mkID := func(iri string, node bool) sID {
		if node && strings.HasPrefix(iri, DataNS+"blank") {
			return sID{kind: "blank", a: iri}
		}
		if node && useBase && strings.HasPrefix(iri, c05Base) && r.Intn(2) == 0 {
			return sID{kind: "rel", a: strings.TrimPrefix(iri, c05Base)}
		}
		if !node && useVocab && strings.HasPrefix(iri, ExNS) && r.Intn(2) == 0 {
			local := strings.TrimPrefix(iri, ExNS)
			if _, clash := prefixes[local]; !clash && !strings.ContainsAny(local, ":/#@") {
				return sID{kind: "vocab", a: local}
			}
		}
		cands := []string{}
		for p, ns := range prefixes {
			if strings.HasPrefix(iri, ns) {
				cands = append(cands, p)
			}
		}
		sort.Strings(cands)
		if len(cands) > 0 && r.Intn(3) != 0 {
			p := cands[r.Intn(len(cands))]
			return sID{kind: "compact", a: p, b: strings.TrimPrefix(iri, prefixes[p])}
		}
		return sID{kind: "abs", a: iri}
	}
	// which nodes may be embedded: referenced exactly once overall, not self, and embedding must not create a cycle
	refCount := map[string]int{}
	for _, n := range g.Nodes {
		for _, p := range n.Props {
			for _, v := range p.Vals {
				if v.Kind == "r" {
					refCount[v.S]++
				}
			}
		}
	}
	byID := map[string]GNode{}
	for _, n := range g.Nodes {
		byID[n.ID] = n
	}
	embedded := map[string]bool{}
	described := map[string]bool{} // every node is described once (a second description would have to name its @id-less children)
	var build func(n GNode, ancestors map[string]bool) *sNode
	build = func(n GNode, ancestors map[string]bool) *sNode {
		described[n.ID] = true
		sn := &sNode{id: mkID(n.ID, true), typeBare: r.Intn(2) == 0}
		for _, t := range n.Types {
			// @type values are vocabulary IRIs: absolute or compact, never relative
			sn.types = append(sn.types, mkID(t, false))
		}
		r.Shuffle(len(sn.types), func(i, j int) { sn.types[i], sn.types[j] = sn.types[j], sn.types[i] })
		props := append([]GProp{}, n.Props...)
		r.Shuffle(len(props), func(i, j int) { props[i], props[j] = props[j], props[i] })
		for _, p := range props {
			sp := sProp{p: mkID(p.Iri, false), bare: r.Intn(2) == 0}
			vals := append([]GVal{}, p.Vals...)
			r.Shuffle(len(vals), func(i, j int) { vals[i], vals[j] = vals[j], vals[i] })
			for _, v := range vals {
				reps := 1
				if r.Intn(5) == 0 {
					reps = 2 // a repeated value
				}
				for k := 0; k < reps; k++ {
					if v.Kind == "r" {
						target, known := byID[v.S]
						mustEmbed := strings.HasPrefix(v.S, DataNS+"blank")
						if mustEmbed && k > 0 {
							continue // a node without @id cannot be stated twice
						}
						if known && k == 0 && refCount[v.S] == 1 && v.S != n.ID && !ancestors[v.S] && !embedded[v.S] && !described[v.S] && (mustEmbed || c05ForceEmbed || r.Intn(2) == 0) {
							embedded[v.S] = true
							anc := map[string]bool{n.ID: true}
							for a := range ancestors {
								anc[a] = true
							}
							sp.vals = append(sp.vals, sVal{kind: "embed", node: build(target, anc)})
						} else {
							sp.vals = append(sp.vals, sVal{kind: "ref", id: mkID(v.S, true)})
						}
					} else {
						sp.vals = append(sp.vals, plainVal(v))
					}
				}
			}
			sn.props = append(sn.props, sp)
		}
		return sn
	}
	// embedding decisions depend on the order of traversal: decide top-level order first
	order := r.Perm(len(g.Nodes))
	if c05ForceEmbed {
		for i := range order {
			order[i] = i // start from the head of the chain so that everything below it gets embedded
		}
	}
	tops := []*sNode{}
	for _, i := range order {
		n := g.Nodes[i]
		if embedded[n.ID] || strings.HasPrefix(n.ID, DataNS+"blank") {
			continue
		}
		tops = append(tops, build(n, map[string]bool{}))
	}
	// nodes embedded after they had already been emitted at top level: drop the top-level copy? No - a node may be
	// described in several places; but then its values are stated twice, which is fine (same triples).
	d.nodes = tops
	d.wrapper = []string{"graph", "array", "single"}[r.Intn(3)]
	if forceArray {
		d.wrapper = "array"
	}
	d.indent = r.Intn(2) == 0
	return d
}

// splitDescriptions: some top-level nodes with an @id are described by TWO node objects (each holding part of the
// properties), placed apart in the document: the same triples, stated in two places.
func splitDescriptions(r *rand.Rand, d *sDoc) {
	out := []*sNode{}
	extra := []*sNode{}
	for _, n := range d.nodes {
		if n.id.kind != "blank" && len(n.props) >= 2 && r.Intn(2) == 0 {
			cut := 1 + r.Intn(len(n.props)-1)
			second := &sNode{id: n.id, props: append([]sProp{}, n.props[cut:]...)}
			if r.Intn(2) == 0 {
				second.types = n.types // stating the types twice is the same graph
				second.typeBare = n.typeBare
			}
			first := *n
			first.props = append([]sProp{}, n.props[:cut]...)
			// the values of ONE property stated partly here, partly there (embedded nodes without @id included: each is
			// still stated once)
			nFirst, nSecond := len(first.props), len(second.props)
			for pi := 0; pi < nFirst; pi++ {
				if vs := first.props[pi].vals; len(vs) >= 2 && r.Intn(2) == 0 {
					k := 1 + r.Intn(len(vs)-1)
					second.props = append(second.props, sProp{p: first.props[pi].p, vals: append([]sVal{}, vs[k:]...)})
					first.props[pi].vals = append([]sVal{}, vs[:k]...)
					first.props[pi].bare = false
				}
			}
			for pi := 0; pi < nSecond; pi++ {
				if vs := second.props[pi].vals; len(vs) >= 2 && r.Intn(2) == 0 {
					k := 1 + r.Intn(len(vs)-1)
					first.props = append(first.props, sProp{p: second.props[pi].p, vals: append([]sVal{}, vs[k:]...)})
					second.props[pi].vals = append([]sVal{}, vs[:k]...)
					second.props[pi].bare = false
				}
			}
			out = append(out, &first)
			extra = append(extra, second)
		} else {
			out = append(out, n)
		}
	}
	for _, x := range extra {
		pos := r.Intn(len(out) + 1)
		out = append(out[:pos], append([]*sNode{x}, out[pos:]...)...)
	}
	d.nodes = out
	if len(extra) > 0 && d.wrapper == "single" {
		d.wrapper = "graph"
	}
}

func plainVal(v GVal) sVal {
	switch v.Kind {
	case "s":
		return sVal{kind: "s", s: v.S}
	case "i":
		return sVal{kind: "i", i: v.I}
	case "b":
		return sVal{kind: "b", b: v.B}
	}
	return sVal{kind: "ref", id: sID{kind: "abs", a: v.S}}
}

// canonIndex renders input["@ids"] of the real normaliser like glue_c05 renders the model's graph.
func canonIndex(norm any) string {
	m, _ := norm.(map[string]any)
	ids, _ := m["@ids"].(map[string]any)
	nodes := []string{}
	names := []string{}
	for id := range ids {
		names = append(names, id)
	}
	sort.Strings(names)
	for _, id := range names {
		n, _ := ids[id].(map[string]any)
		props := []string{}
		keys := []string{}
		for k := range n {
			if k != "@id" {
				keys = append(keys, k)
			}
		}
		sort.Strings(keys)
		for _, k := range keys {
			vals := []string{}
			var add func(v any)
			add = func(v any) {
				switch x := v.(type) {
				case []any:
					for _, e := range x {
						add(e)
					}
				case string:
					vals = append(vals, "s:"+x)
				case json.Number:
					if q, ok := new(big.Rat).SetString(x.String()); ok && q.IsInt() {
						vals = append(vals, "i:"+q.Num().String())
					} else {
						vals = append(vals, "i:"+x.String())
					}
				case float64:
					vals = append(vals, fmt.Sprintf("i:%v", x))
				case bool:
					vals = append(vals, fmt.Sprintf("b:%v", x))
				case map[string]any:
					if rid, ok := x["@id"].(string); ok && len(x) == 1 {
						vals = append(vals, "r:"+rid)
					} else if val, ok := x["@value"]; ok {
						add(val)
					} else {
						b, _ := json.Marshal(x)
						vals = append(vals, "o:"+string(b))
					}
				default:
					vals = append(vals, fmt.Sprintf("?:%v", x))
				}
			}
			add(n[k])
			sort.Strings(vals)
			q := []sx.V{}
			for _, v := range vals {
				q = append(q, sx.S(v))
			}
			props = append(props, sx.L(sx.S(k), sx.L(q...)).String())
		}
		nodes = append(nodes, "("+sx.S(id).String()+" ("+strings.Join(props, " ")+"))")
	}
	return "(" + strings.Join(nodes, " ") + ")"
}

const c05Profile = `#%Validation Profile 1.0
profile: Serialisations
prefixes:
  ex: http://example.org/ns#
violation:
  - count-a
  - in-b
  - nested-a
  - inverse-c
warning:
  - pattern-any
  - typed
info:
  - not-length
  - all-b
  - some-b
  - min-b
  - msg-multi
  - named-data
  - named-core
validations:
  named-data:
    targetClass: ex.T
    message: data
    propertyConstraints:
      ex.data:
        minCount: 1
  named-core:
    targetClass: ex.doc
    message: core
    propertyConstraints:
      ex.core:
        maxCount: 0
  all-b:
    targetClass: ex.T
    message: all
    propertyConstraints:
      ex.b:
        containsAll: [ "1", lit-b0 ]
  some-b:
    targetClass: ex.T
    message: some
    propertyConstraints:
      ex.b:
        containsSome: [ "2", "7", lit-b1 ]
  min-b:
    targetClass: ex.T
    message: "at least 2, got {{ex.single}}"
    propertyConstraints:
      ex.b | ex.single:
        minInclusive: 2
  msg-multi:
    targetClass: ex.T
    message: "values {{ex.b}}"
    propertyConstraints:
      ex.never:
        minCount: 1
  count-a:
    targetClass: ex.T
    message: "a of {{ex.single}} and {{ex.absent}}"
    propertyConstraints:
      ex.a:
        maxCount: 1
  in-b:
    targetClass: ex.T
    message: b
    propertyConstraints:
      ex.b:
        in: [ lit-b0, lit-b1, 1, 2, true ]
  nested-a:
    targetClass: ex.T
    message: nested
    propertyConstraints:
      ex.a / ex.b | ex.c:
        nested:
          propertyConstraints:
            ex.a:
              minCount: 1
  inverse-c:
    targetClass: ex.U
    message: inverse
    propertyConstraints:
      ex.c ^:
        atLeast:
          count: 1
          validation:
            propertyConstraints:
              ex.b:
                minCount: 1
  pattern-any:
    targetClass: ex.T
    message: pattern
    propertyConstraints:
      ex.a | ex.b | ex.c:
        pattern: "^lit"
  typed:
    targetClass: ex.T
    message: types
    propertyConstraints:
      "@type":
        exactCount: 1
  not-length:
    targetClass: ex.T
    message: length
    not:
      propertyConstraints:
        ex.b:
          maxLength: 4
`

func C05(e *core.Env) {
	res := e.Res
	res.Rule = "cases = (abstract graph, serialisation): two chains of 40 and 75 nodes written flat and fully embedded (JSON nesting depth 80 / 150), graphs of 2-7 nodes with cycles, shared and single-parent children, literals of three kinds, dangling links and several types; each is written k times (quick 5, thorough 14) with independent random choices on every axis the property lists: @context prefixes (several prefixes for one namespace) or absolute IRIs, @vocab with bare terms for predicates and classes (some named like the built-in prefixes: data, core, doc), @base-relative ids, nodes embedded in their (only) parent or listed flat, @graph wrapper / top-level array / single object, node order, key order, one node described by two node objects with the same @id (also in the plain flat form AMF emits), single value vs one-element array, @type as string vs array, repeated values, indentation, the spelling of a number (2, 2.0, 2e0, 20E-1, 2.000: one JSON number, one JSON-LD value); " +
		"(a) the real ProcessInput index of each text must equal JsonLd.flatten of the document structure that was written, (b) the reports of a 13-validation profile (counts, sets, containsAll / containsSome over numbers and strings, a numeric bound, patterns, nested over sequence / alternative / inverse paths, @type, negation, messages with placeholders) must agree across the k texts in conforms and in the set of (severity, validation, focus, message); non-trivial = the graph yields at least one result; distinct by text"
	k := e.Pick(5, 14)
	rc := config.DefaultReportConfiguration()
	compiled, err := pkg.CompileProfile(c05Profile, false, nil)
	if err != nil {
		res.Violate("harness-error", "C05 profile does not compile: "+err.Error(), map[string]any{"no_failing_input_found": true, "broken": "C05 profile"})
		return
	}
	summary := func(report string) (string, int) {
		rep, err := ParseReport(report)
		if err != nil {
			return "unparsable: " + err.Error(), 0
		}
		items := []string{}
		for _, r := range rep.Results {
			msg := r.Message
			if r.Name == "msg-multi" {
				msg = "" // compared separately (known finding: value order of a multi-valued placeholder)
			}
			items = append(items, r.Severity+"|"+r.Name+"|"+r.Focus+"|"+msg)
		}
		sort.Strings(items)
		// a set
		out := []string{}
		for i, s := range items {
			if i == 0 || s != items[i-1] {
				out = append(out, s)
			}
		}
		return fmt.Sprintf("conforms=%v\n", rep.Conforms) + strings.Join(out, "\n"), len(out)
	}
	nGraphs := e.Pick(40, 400)
	for gi := 0; gi < nGraphs+2; gi++ {
		n := 2 + e.Rand.Intn(6)
		g := RandomEdgeGraph(e.Rand, n, []string{"a", "b", "c"}, 0.12+0.25*e.Rand.Float64())
		chain := gi >= nGraphs
		if chain {
			// a long chain n0 -a-> n1 -a-> ... : written flat, or with every node embedded in its predecessor (deep nesting)
			g = Graph{}
			length := []int{40, 75}[gi-nGraphs]
			for i := 0; i < length; i++ {
				node := GNode{ID: NodeID(i), Types: []string{ExNS + "T"}}
				if i+1 < length {
					node.Props = append(node.Props, GProp{Iri: ExNS + "a", Vals: []GVal{VR(NodeID(i + 1))}})
				}
				if i%2 == 0 {
					node.Props = append(node.Props, GProp{Iri: ExNS + "b", Vals: []GVal{VS("lit-b0")}})
				}
				g.Nodes = append(g.Nodes, node)
			}
		}
		blanks := 0
		firstParent, firstPn := 0, "a"
		if gi%3 == 2 {
			// leaf nodes without @id: each is the value of exactly one property of one named node
			for i := 0; i < 2+e.Rand.Intn(3); i++ {
				id := fmt.Sprintf("%sblank%d", DataNS, i)
				leaf := GNode{ID: id, Types: []string{ExNS + "Leaf"}}
				if i%2 == 0 {
					leaf.Props = append(leaf.Props, GProp{Iri: ExNS + "a", Vals: []GVal{VS(fmt.Sprintf("lit-leaf%d", i))}})
				}
				leaf.Props = append(leaf.Props, GProp{Iri: ExNS + "b", Vals: []GVal{VI(i)}})
				parent := e.Rand.Intn(len(g.Nodes))
				pn := []string{"a", "b", "c"}[e.Rand.Intn(3)]
				if i == 1 {
					parent, pn = firstParent, firstPn // two leaves without @id under one property of one node
				}
				firstParent, firstPn = parent, pn
				found := false
				for pi := range g.Nodes[parent].Props {
					if g.Nodes[parent].Props[pi].Iri == ExNS+pn {
						g.Nodes[parent].Props[pi].Vals = append(g.Nodes[parent].Props[pi].Vals, VR(id))
						found = true
					}
				}
				if !found {
					g.Nodes[parent].Props = append(g.Nodes[parent].Props, GProp{Iri: ExNS + pn, Vals: []GVal{VR(id)}})
				}
				g.Nodes = append(g.Nodes, leaf)
				blanks++
			}
		}
		multiB := map[string]bool{}
		for i := range g.Nodes {
			g.Nodes[i].Props = append(g.Nodes[i].Props, GProp{Iri: ExNS + "single", Vals: []GVal{VS(fmt.Sprintf("only-%d", i))}})
			// predicates and a class whose local names are also names of the built-in AMF prefixes (data, core, doc)
			if (i+gi)%2 == 0 {
				g.Nodes[i].Props = append(g.Nodes[i].Props, GProp{Iri: ExNS + "data", Vals: []GVal{VS(fmt.Sprintf("d-%d", i))}})
			}
			if (i+gi)%3 == 0 && !strings.HasPrefix(g.Nodes[i].ID, DataNS+"blank") { // (a node without @id has no stable name to report)
				g.Nodes[i].Props = append(g.Nodes[i].Props, GProp{Iri: ExNS + "core", Vals: []GVal{VI(i)}})
				g.Nodes[i].Types = append(g.Nodes[i].Types, ExNS+"doc")
			}
			for _, p := range g.Nodes[i].Props {
				if p.Iri == ExNS+"b" && (len(p.Vals) > 1 || blanks > 0) {
					multiB[g.Nodes[i].ID] = true
				}
			}
		}
		var refText, refSummary string
		refMulti := map[string]string{}
		for si := 0; si < k; si++ {
			c05ForceEmbed = chain && si%2 == 0
			d := serialise(e.Rand, g, si <= 1 && !c05ForceEmbed)
			c05ForceEmbed = false
			if si == 1 || (si > 1 && e.Rand.Intn(3) == 0) {
				splitDescriptions(e.Rand, &d) // one node described by two node objects with the same @id
			}
			text := d.text(e.Rand)
			replay := map[string]any{"serialisation": text, "graph_index": gi, "serialisation_index": si}
			// (a) the normaliser against the model
			norm, nerr := validator.ProcessInput(text, false, nil)
			if nerr != nil {
				replay["error"] = nerr.Error()
				res.Violate("impl-violates-property", "a serialisation inside the fragment is rejected: "+core.Trunc(nerr.Error(), 200), replay)
				continue
			}
			ans := sx.V{}
			implIdx := ""
			if blanks == 0 {
				var derr error
				ans, derr = e.Driver.Eval(sx.L(sx.A("c05"), sx.A("flatten"), d.sx()))
				if derr != nil {
					res.Violate("harness-error", derr.Error(), map[string]any{"no_failing_input_found": true, "broken": "driver", "doc": d.sx().String()})
					return
				}
				implIdx = canonIndex(norm)
			} else {
				res.Count("with-blank-leaves (verdicts only)")
			}
			if blanks == 0 && implIdx != ans.String() {
				mm := map[string]any{}
				for k, v := range replay {
					mm[k] = v
				}
				mm["no_failing_input_found"] = true
				mm["broken"] = "correspondence JsonLd.flatten vs ProcessInput (json-gold flatten + Index)"
				mm["impl_index"] = core.Trunc(implIdx, 3000)
				mm["model_index"] = core.Trunc(ans.String(), 3000)
				res.Violate("model-mismatch", "the index of a serialisation differs from the model's", mm)
			}
			// (b) verdicts across serialisations
			out, verr := pkg.ValidateCompiledWithConfiguration(compiled, text, false, nil, clockA, rc)
			if verr != nil {
				replay["error"] = verr.Error()
				res.Violate("impl-violates-property", "validation of a serialisation fails: "+core.Trunc(verr.Error(), 200), replay)
				continue
			}
			sum, nres := summary(out)
			multi := map[string]string{}
			if rep, perr := ParseReport(out); perr == nil {
				for _, r := range rep.Results {
					if r.Name == "msg-multi" {
						multi[r.Focus] = r.Message
					}
				}
			}
			if si == 0 {
				refText, refSummary = text, sum
				refMulti = multi
			} else {
				for focus, msg := range multi {
					if refMulti[focus] != msg {
						if multiB[focus] && res.KnownClass("message-placeholder-multivalued-order") {
							res.Known("message-placeholder-multivalued-order", "a {{placeholder}} whose property has several values prints them in the order of the data document, so two serialisations of one graph get different message texts (e.g. "+core.Trunc(refMulti[focus], 90)+" vs "+core.Trunc(msg, 90)+")")
						} else {
							replay["reference_serialisation"] = refText
							replay["focus"] = focus
							replay["reference_message"] = refMulti[focus]
							replay["message"] = msg
							res.Violate("impl-violates-property", "two serialisations of the same graph get different messages for a single-valued placeholder", replay)
						}
					}
				}
			}
			if si > 0 && sum != refSummary {
				replay["reference_serialisation"] = refText
				replay["reference_results"] = refSummary
				replay["results"] = sum
				replay["profile"] = c05Profile
				res.Violate("impl-violates-property", "two serialisations of the same graph get different verdicts", replay)
			}
			res.Case(fmt.Sprintf("g%d|%x", gi, hashString(text)), nres > 0)
			res.Count("wrapper=" + d.wrapper)
			if len(d.ctx) > 0 {
				res.Count("with-context")
			}
			if d.base != "" {
				res.Count("with-base")
			}
			if strings.Contains(d.sx().String(), "(vocab ") {
				res.Count("with-vocab-term")
			}
			if strings.Contains(d.sx().String(), "(embed ") {
				res.Count("with-embedded-node")
			}
			if gi == 1 && si == 2 {
				res.Sample(map[string]any{"reference": core.Trunc(refText, 900), "serialisation": core.Trunc(text, 1200), "results": strings.Count(sum, "\n")})
			}
		}
	}
	// directed: one number repeated under one property with two spellings (a repeated value, which JSON-LD states once)
	{
		mk := func(vals string) string {
			return `{"@id":"` + NodeID(0) + `","@type":"` + ExNS + `T","` + ExNS + `a":[` + vals + `],"` + ExNS + `b":[` + vals + `],"` + ExNS + `single":[` + vals + `]}`
		}
		one, two, same := mk("4"), mk("4, 4.000"), mk("4, 4")
		run := func(text string) string {
			out, err := pkg.ValidateCompiledWithConfiguration(compiled, text, false, nil, clockA, rc)
			if err != nil {
				return "error: " + err.Error()
			}
			sm, _ := summary(out)
			if rep, perr := ParseReport(out); perr == nil {
				for _, r := range rep.Results {
					if r.Name == "msg-multi" {
						sm += "\nmsg-multi: " + r.Message
					}
				}
			}
			return sm
		}
		ref := run(one)
		if got := run(same); got != ref {
			res.Violate("impl-violates-property", "a value repeated under one property changes the verdict", map[string]any{"serialisation": same, "reference_serialisation": one, "results": got, "reference_results": ref, "profile": c05Profile})
		}
		if got := run(two); got != ref {
			if res.KnownClass("number-respelled-duplicate") {
				res.Known("number-respelled-duplicate", "one number stated twice under one property with two spellings (4 and 4.000) is kept as two values, so the document differs from the one that states the number once ("+firstDiff(ref, got)+")")
			} else {
				res.Violate("impl-violates-property", "one number stated twice under one property with two spellings changes the verdict", map[string]any{"serialisation": two, "reference_serialisation": one, "results": got, "reference_results": ref, "profile": c05Profile})
			}
		}
		res.Case("directed|number-respelled-duplicate", true)
	}
}
