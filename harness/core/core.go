// Package core holds what every property check shares: the driver client, the result record,
// the known-findings file, the seeded PRNG and replay-file writing.
package core

import (
	"bufio"
	"encoding/json"
	"fmt"
	"io"
	"math/rand"
	"os"
	"os/exec"
	"path/filepath"
	"sort"
	"strings"
	"sync"

	"github.com/aml-org/amf-custom-validator/verifh/sx"
)

// ---------------------------------------------------------------------------------- driver

type Driver struct {
	cmd *exec.Cmd
	in  io.WriteCloser
	out *bufio.Reader
	mu  sync.Mutex
}

func StartDriver(path string) (*Driver, error) {
	// the extracted functions are not tail recursive (char lists, deep report trees): give the driver a large stack where the
	// hard limit allows it, the default otherwise
	cmd := exec.Command("/bin/sh", "-c", `ulimit -s 4000000 2>/dev/null || ulimit -s unlimited 2>/dev/null; exec "$0"`, path)
	in, err := cmd.StdinPipe()
	if err != nil {
		return nil, err
	}
	out, err := cmd.StdoutPipe()
	if err != nil {
		return nil, err
	}
	cmd.Stderr = os.Stderr
	if err := cmd.Start(); err != nil {
		return nil, err
	}
	return &Driver{cmd: cmd, in: in, out: bufio.NewReaderSize(out, 1<<20)}, nil
}

// Eval sends one case to the extracted Coq model and returns its answer.
func (d *Driver) Eval(v sx.V) (sx.V, error) {
	d.mu.Lock()
	defer d.mu.Unlock()
	if _, err := io.WriteString(d.in, v.String()+"\n"); err != nil {
		return sx.V{}, err
	}
	line, err := d.out.ReadString('\n')
	if err != nil {
		return sx.V{}, fmt.Errorf("driver: %v", err)
	}
	r, err := sx.Parse(strings.TrimRight(line, "\n"))
	if err != nil {
		return sx.V{}, err
	}
	if r.IsL && len(r.List) > 0 && r.List[0].Atom == "error" {
		return r, fmt.Errorf("driver error: %s on %s", r.String(), v.String())
	}
	return r, nil
}

func (d *Driver) MustEval(v sx.V) sx.V {
	r, err := d.Eval(v)
	if err != nil {
		panic(err)
	}
	return r
}

func (d *Driver) Close() {
	d.in.Close()
	d.cmd.Wait()
}

// ---------------------------------------------------------------------------------- results

type Violation struct {
	Kind    string `json:"kind"`    // impl-violates-property | model-mismatch | unknown-defect-class
	Summary string `json:"summary"` // one line
	Replay  string `json:"replay"`  // path of the replay file
	NoInput bool   `json:"no_failing_input_found"`
}

type Result struct {
	Property           string         `json:"property"`
	Tier               string         `json:"tier"`
	Seed               int64          `json:"seed"`
	Evaluations        int            `json:"evaluations"`
	DistinctNontrivial int            `json:"distinct_nontrivial"`
	Rule               string         `json:"rule"`
	Samples            []any          `json:"samples"`
	Distribution       map[string]int `json:"distribution"`
	Exhaustive         bool           `json:"exhaustive"`
	Violations         []Violation    `json:"violations"`
	KnownFindingsSeen  []string       `json:"known_findings_seen"`
	Unmodelled         []string       `json:"unmodelled,omitempty"`
	Notes              []string       `json:"notes,omitempty"`

	nontrivial map[string]bool
	known      map[string]bool
	findings   []Finding
	replayDir  string
	nreplay    int
	mu         sync.Mutex
}

type Finding struct {
	Property  string `json:"property"`
	Class     string `json:"class"`
	Status    string `json:"status"` // finding | fixed
	Signature string `json:"signature"`
	Witness   string `json:"witness"`
	Commit    string `json:"commit,omitempty"`
	What      string `json:"what"`
}

type Env struct {
	Repo    string
	Verif   string
	Tier    string
	Seed    int64
	Rand    *rand.Rand
	Driver  *Driver
	Facts   map[string]any
	Scratch string // removed by the caller at exit
	Res     *Result
}

func (e *Env) Quick() bool { return e.Tier != "thorough" }

// Pick returns q in the quick tier and t in the thorough tier.
func (e *Env) Pick(q, t int) int {
	if e.Quick() {
		return q
	}
	return t
}

func NewResult(property, tier string, seed int64, verif string) *Result {
	r := &Result{Property: property, Tier: tier, Seed: seed, Distribution: map[string]int{},
		nontrivial: map[string]bool{}, known: map[string]bool{}, Samples: []any{}, Violations: []Violation{},
		KnownFindingsSeen: []string{}}
	r.replayDir = filepath.Join(verif, "replays", property)
	data, err := os.ReadFile(filepath.Join(verif, "known_findings.json"))
	if err == nil {
		var all struct {
			Findings []Finding `json:"findings"`
		}
		if json.Unmarshal(data, &all) == nil {
			for _, f := range all.Findings {
				if f.Property == property {
					r.findings = append(r.findings, f)
				}
			}
		}
	}
	return r
}

// Case counts one explored case; key identifies it for distinctness; nontrivial per the property's rule.
func (r *Result) Case(key string, nontrivial bool) {
	r.mu.Lock()
	defer r.mu.Unlock()
	r.Evaluations++
	if nontrivial && !r.nontrivial[key] {
		r.nontrivial[key] = true
		r.DistinctNontrivial++
	}
}

func (r *Result) Count(kind string) {
	r.mu.Lock()
	defer r.mu.Unlock()
	r.Distribution[kind]++
}

func (r *Result) Sample(s any) {
	r.mu.Lock()
	defer r.mu.Unlock()
	if len(r.Samples) < 6 {
		r.Samples = append(r.Samples, s)
	}
}

// KnownClass reports whether a defect class is a listed (unrepaired) finding of this property.
func (r *Result) KnownClass(class string) bool {
	for _, f := range r.findings {
		if f.Class == class && f.Status == "finding" {
			return true
		}
	}
	return false
}

// Known records that a listed finding was reproduced on this run.
func (r *Result) Known(class, what string) {
	r.mu.Lock()
	defer r.mu.Unlock()
	if !r.known[class] {
		r.known[class] = true
		r.KnownFindingsSeen = append(r.KnownFindingsSeen, class+": "+what)
		sort.Strings(r.KnownFindingsSeen)
	}
}

// Violate records a violation with a replay file holding the concrete input and both outputs.
func (r *Result) Violate(kind, summary string, replay map[string]any) {
	r.mu.Lock()
	defer r.mu.Unlock()
	// at most 5 replays of a kind; a correspondence mismatch never uses up the room of a property violation
	same := 0
	for _, v := range r.Violations {
		if v.Kind == kind {
			same++
		}
	}
	limit := 5
	if kind != "impl-violates-property" {
		limit = 3
	}
	if v := os.Getenv("VERIF_MAX_VIOLATIONS"); v != "" { // for exploring: list every violation, not only the first few
		fmt.Sscan(v, &limit)
	}
	if same >= limit {
		return
	}
	// the caller may reuse one map for several reports: work on a copy; a property violation with its concrete input never
	// carries the marks of a correspondence mismatch recorded earlier on the same map
	cp := map[string]any{}
	for k, v := range replay {
		cp[k] = v
	}
	replay = cp
	if kind == "impl-violates-property" {
		delete(replay, "no_failing_input_found")
		delete(replay, "broken")
	}
	os.MkdirAll(r.replayDir, 0o755)
	r.nreplay++
	path := filepath.Join(r.replayDir, fmt.Sprintf("%s_%s_%d_%d.json", r.Property, r.Tier, r.Seed, r.nreplay))
	replay["property"] = r.Property
	replay["kind"] = kind
	replay["summary"] = summary
	data, _ := json.MarshalIndent(replay, "", " ")
	os.WriteFile(path, data, 0o644)
	_, noInput := replay["no_failing_input_found"]
	r.Violations = append(r.Violations, Violation{Kind: kind, Summary: summary, Replay: path, NoInput: noInput})
}

// Full reports whether enough property violations with concrete inputs have been collected to stop exploring.
func (r *Result) Full() bool {
	r.mu.Lock()
	defer r.mu.Unlock()
	n := 0
	for _, v := range r.Violations {
		if v.Kind == "impl-violates-property" {
			n++
		}
	}
	return n >= 5
}

func (r *Result) Note(s string) {
	r.mu.Lock()
	defer r.mu.Unlock()
	if len(r.Notes) < 40 {
		r.Notes = append(r.Notes, s)
	}
}

func (r *Result) Write(path string) error {
	data, err := json.MarshalIndent(r, "", " ")
	if err != nil {
		return err
	}
	return os.WriteFile(path, data, 0o644)
}

// Trunc shortens long strings for samples.
func Trunc(s string, n int) string {
	if len(s) <= n {
		return s
	}
	return s[:n] + fmt.Sprintf("...(+%d bytes)", len(s)-n)
}
