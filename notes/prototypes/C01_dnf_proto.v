(* DESIGN-TIME FEASIBILITY SKETCH - not part of the verification framework, not referenced by any check.
   Written while drafting /verif/DESIGN.md (C01) to confirm that
     - the rule AST with nested lists/options, `negate`, the fuelled `disp`atch (GenerateAnd / GenerateOr /
       expandBranches / GenerateConditional / generateNested) are accepted by Coq 8.16.1, and
     - the literal-level correctness theorem `main` (reported = negb (rs true r)) is provable, closed under
       the global context, for the *repaired* ConditionalRule.Negate.
   The real development (coq/Model/Rules.v, Dnf.v, Eval.v) will restate this with parse : form -> rule,
   fuel adequacy, the classical corollary and target selection. *)
From Coq Require Import List Bool Arith Lia.
Import ListNotations.

Lemma existsb_map' {X Y} (f:X->Y) (g:Y->bool) l : existsb g (map f l) = existsb (fun x => g (f x)) l.
Proof. induction l; simpl; congruence. Qed.
Lemma forallb_map' {X Y} (f:X->Y) (g:Y->bool) l : forallb g (map f l) = forallb (fun x => g (f x)) l.
Proof. induction l; simpl; congruence. Qed.
Lemma existsb_ext_in' {X} (f g:X->bool) l : (forall x, In x l -> f x = g x) -> existsb f l = existsb g l.
Proof. induction l; simpl; intros H; auto. rewrite H, IHl; auto. Qed.
Lemma forallb_ext_in' {X} (f g:X->bool) l : (forall x, In x l -> f x = g x) -> forallb f l = forallb g l.
Proof. induction l; simpl; intros H; auto. rewrite H, IHl; auto. Qed.
Lemma filter_ext_in' {X} (f g:X->bool) l : (forall x, In x l -> f x = g x) -> filter f l = filter g l.
Proof. induction l; simpl; intros H; auto. rewrite H, IHl; auto. Qed.

Section S.
Variables (A N P : Type).
Variables (Fpos Fneg : A -> N -> bool).
Variable children : P -> N -> list N.

Inductive quant := QAll | QAtLeast (k:nat) | QAtMost (k:nat).

Inductive rule :=
| RAtom (neg:bool) (a:A)
| RAnd (neg:bool) (l:list rule)
| ROr (neg:bool) (l:list rule)
| RCond (neg:bool) (i t:rule) (e:option rule)
| RNested (neg:bool) (q:quant) (p:P) (r:rule).

Definition optQ (Q : rule -> Prop) (e : option rule) : Prop :=
  match e with Some e' => Q e' | None => True end.
Section rule_ind2.
  Variable Q : rule -> Prop.
  Hypothesis HAtom : forall n a, Q (RAtom n a).
  Hypothesis HAnd : forall n l, Forall Q l -> Q (RAnd n l).
  Hypothesis HOr : forall n l, Forall Q l -> Q (ROr n l).
  Hypothesis HCond : forall n i t e, Q i -> Q t -> optQ Q e -> Q (RCond n i t e).
  Hypothesis HNested : forall n q p r, Q r -> Q (RNested n q p r).
  Fixpoint rule_ind2 (r:rule) : Q r :=
    match r with
    | RAtom n a => HAtom n a
    | RAnd n l => HAnd n l ((fix go l := match l return Forall Q l with [] => Forall_nil _ | x::xs => Forall_cons _ (rule_ind2 x) (go xs) end) l)
    | ROr n l => HOr n l ((fix go l := match l return Forall Q l with [] => Forall_nil _ | x::xs => Forall_cons _ (rule_ind2 x) (go xs) end) l)
    | RCond n i t e => HCond n i t e (rule_ind2 i) (rule_ind2 t)
         (match e as e1 return optQ Q e1 with
          | Some e0 => rule_ind2 e0
          | None => I
          end)
    | RNested n q p r => HNested n q p r (rule_ind2 r)
    end.
End rule_ind2.

Fixpoint negate (r:rule) : rule :=
  match r with
  | RAtom n a => RAtom (negb n) a
  | RAnd _ l => ROr false (map negate l)
  | ROr _ l => RAnd false (map negate l)
  | RCond n i t e =>
      match e, n with
      | Some e', false => ROr false [RAnd false [i; negate t]; RAnd false [negate i; negate e']]
      | _, _ => RCond (negb n) i t None
      end
  | RNested n q p r => RNested (negb n) q p r
  end.

(* rules as the profile parser produces them *)
Fixpoint wf (r:rule) : bool :=
  match r with
  | RAtom _ _ => true
  | RAnd n l => negb n && negb (Nat.eqb (length l) 0) && forallb wf l
  | ROr n l => negb n && negb (Nat.eqb (length l) 0) && forallb wf l
  | RCond n i t e => wf i && wf t && match e with Some e' => negb n && wf e' | None => true end
  | RNested _ _ _ r => wf r
  end.

Definition qtest (q:quant) (total failing:nat) : bool :=
  match q with
  | QAll => Nat.eqb failing 0
  | QAtLeast k => Nat.leb k (total - failing)
  | QAtMost k => Nat.leb (total - failing) k
  end.

(* two-polarity literal-level semantics: rs true r = "r holds", rs false r = "not r holds" *)
Fixpoint rs (pol:bool) (r:rule) (n:N) {struct r} : bool :=
  match r with
  | RAtom neg a => if xorb (negb pol) neg then negb (Fneg a n) else negb (Fpos a n)
  | RAnd neg l => if xorb (negb pol) neg then existsb (fun r => rs false r n) l else forallb (fun r => rs true r n) l
  | ROr neg l => if xorb (negb pol) neg then forallb (fun r => rs false r n) l else existsb (fun r => rs true r n) l
  | RCond neg i t e =>
      match e with
      | None => if xorb (negb pol) neg then rs true i n && rs false t n else rs false i n || rs true t n
      | Some e' => if xorb (negb pol) neg then (rs true i n && rs false t n) || (rs false i n && rs false e' n)
                   else (rs false i n || rs true t n) && (rs true i n || rs true e' n)
      end
  | RNested neg q p r =>
      let cs := children p n in
      let failing := filter (fun c => negb (rs true r c)) cs in
      xorb (xorb (negb pol) neg) (qtest q (length cs) (length failing))
  end.

Lemma wf_negate : forall r, wf r = true -> wf (negate r) = true.
Proof.
  induction r using rule_ind2; simpl; intros Hw; auto.
  - apply andb_prop in Hw as [Hw Hf]. apply andb_prop in Hw as [_ Hl].
    rewrite map_length, Hl. simpl. rewrite forallb_forall in *. intros x Hx.
    apply in_map_iff in Hx as [y [<- Hy]]. rewrite Forall_forall in H. auto.
  - apply andb_prop in Hw as [Hw Hf]. apply andb_prop in Hw as [_ Hl].
    rewrite map_length, Hl. simpl. rewrite forallb_forall in *. intros x Hx.
    apply in_map_iff in Hx as [y [<- Hy]]. rewrite Forall_forall in H. auto.
  - apply andb_prop in Hw as [Hw He]. apply andb_prop in Hw as [Hi Ht].
    destruct e as [e'|]; simpl in *.
    + apply andb_prop in He as [Hn He]. destruct n; simpl in *; try discriminate.
      rewrite Hi, IHr1, IHr2, H; auto.
    + rewrite Hi, Ht. reflexivity.
Qed.

Lemma negate_sem : forall r, wf r = true -> forall pol n, rs pol (negate r) n = rs (negb pol) r n.
Proof.
  induction r using rule_ind2; simpl; intros Hw pol m.
  - destruct pol, n; reflexivity.
  - apply andb_prop in Hw as [Hw Hf]. apply andb_prop in Hw as [Hn _].
    destruct n; try discriminate. rewrite forallb_forall in Hf. rewrite Forall_forall in H.
    destruct pol; simpl.
    + rewrite existsb_map'. apply existsb_ext_in'. intros; apply H; auto.
    + rewrite forallb_map'. apply forallb_ext_in'. intros; apply H; auto.
  - apply andb_prop in Hw as [Hw Hf]. apply andb_prop in Hw as [Hn _].
    destruct n; try discriminate. rewrite forallb_forall in Hf. rewrite Forall_forall in H.
    destruct pol; simpl.
    + rewrite forallb_map'. apply forallb_ext_in'. intros; apply H; auto.
    + rewrite existsb_map'. apply existsb_ext_in'. intros; apply H; auto.
  - apply andb_prop in Hw as [Hw He]. apply andb_prop in Hw as [Hi Ht].
    destruct e as [e'|]; simpl in *.
    + apply andb_prop in He as [Hn He]. destruct n; try discriminate. simpl.
      destruct pol; simpl; rewrite ?IHr1, ?IHr2, ?H by auto; simpl;
      repeat rewrite ?andb_true_r, ?orb_false_r; reflexivity.
    + destruct pol, n; reflexivity.
  - destruct pol, n; simpl; reflexivity.
Qed.

(* ---------------- generator model (Dispatch / GenerateAnd / GenerateOr / expandBranches / ...) *)
Inductive simple :=
| SAtom (neg:bool) (a:A)
| SNested (neg:bool) (q:quant) (p:P) (bs:list (list simple)).
Inductive gres := GSimple (s:simple) | GBranch (b:list simple).
Definition as_branch g := match g with GSimple s => [s] | GBranch b => b end.
Definition is_branch g := match g with GBranch _ => true | _ => false end.

Definition simples_of (r:list gres) : list simple :=
  flat_map (fun g => match g with GSimple s => [s] | _ => [] end) r.
Definition branches_of (r:list gres) : list (list simple) :=
  flat_map (fun g => match g with GBranch b => [b] | _ => [] end) r.
Definition simples (rs:list (list gres)) := flat_map simples_of rs.
Definition branchsets (rs:list (list gres)) : list (list (list simple)) :=
  flat_map (fun r => match branches_of r with [] => [] | bs => [bs] end) rs.
Definition expand_step (acc:list (list simple)) (branches:list (list simple)) :=
  flat_map (fun branch => map (fun src => src ++ branch) acc) branches.
Definition expand (S0:list simple) (bss:list (list (list simple))) : list (list simple) :=
  fold_left expand_step bss [S0].

Fixpoint all_with (d:rule -> option (list gres)) (l:list rule) : option (list (list gres)) :=
  match l with
  | [] => Some []
  | r::rs => match d r, all_with d rs with Some x, Some y => Some (x::y) | _, _ => None end
  end.

Fixpoint disp (fuel:nat) (r:rule) {struct fuel} : option (list gres) :=
  match fuel with
  | O => None
  | S fuel =>
    match r with
    | RAtom n a => Some [GSimple (SAtom n a)]
    | RAnd false l => option_map (fun rs => map (fun g => GBranch (as_branch g)) (concat rs)) (all_with (disp fuel) l)
    | RAnd true l => disp fuel (ROr false (map negate l))
    | ROr false l => option_map (fun rs => map GBranch (expand (simples rs) (branchsets rs))) (all_with (disp fuel) l)
    | ROr true l => disp fuel (RAnd false (map negate l))
    | RCond n i t e =>
        match disp fuel (ROr n [negate i; t]) with
        | None => None
        | Some a =>
            match e with
            | None => Some a
            | Some e' => match disp fuel (ROr n [i; e']) with None => None | Some b => Some (a ++ b) end
            end
        end
    | RNested n q p r => option_map (fun rs => [GBranch [SNested n q p (map as_branch rs)]]) (disp fuel r)
    end
  end.

Fixpoint fires (s:simple) (n:N) {struct s} : bool :=
  match s with
  | SAtom false a => Fpos a n
  | SAtom true a => Fneg a n
  | SNested neg q p bs =>
      let cs := children p n in
      let failing := filter (fun c => existsb (fun b => forallb (fun s' => fires s' c) b) bs) cs in
      let ok := qtest q (length cs) (length failing) in
      if neg then ok else negb ok
  end.
Definition fb (n:N) (b:list simple) := forallb (fun s => fires s n) b.
Definition reported (gs:list gres) (n:N) := existsb (fun g => fb n (as_branch g)) gs.

Lemma fb_app n a b : fb n (a ++ b) = fb n a && fb n b.
Proof. unfold fb. apply forallb_app. Qed.

Lemma existsb_and_r {X} (f:X->bool) c l : existsb (fun x => f x && c) l = existsb f l && c.
Proof. induction l; simpl; auto. rewrite IHl. destruct (f a), c, (existsb f l); reflexivity. Qed.

Lemma expand_step_sem n acc branches :
  existsb (fb n) (expand_step acc branches) = existsb (fb n) acc && existsb (fb n) branches.
Proof.
  unfold expand_step. induction branches as [|b bs IH]; simpl.
  - rewrite andb_false_r; reflexivity.
  - rewrite existsb_app, IH, existsb_map'.
    rewrite (existsb_ext_in' _ (fun x => fb n x && fb n b)) by (intros; apply fb_app).
    rewrite existsb_and_r. destruct (existsb (fb n) acc), (fb n b), (existsb (fb n) bs); reflexivity.
Qed.

Lemma expand_sem n bss : forall acc,
  existsb (fb n) (fold_left expand_step bss acc) =
  existsb (fb n) acc && forallb (fun bs => existsb (fb n) bs) bss.
Proof.
  induction bss as [|b bss IH]; simpl; intros acc.
  - rewrite andb_true_r; reflexivity.
  - rewrite IH, expand_step_sem. rewrite andb_assoc. reflexivity.
Qed.

Definition shape (gs:list gres) : Prop :=
  (exists s, gs = [GSimple s]) \/ (gs <> [] /\ forallb is_branch gs = true).
Definition okl (l:list rule) : Prop := l <> [] /\ forallb wf l = true.
Definition okg (r:rule) : Prop :=
  wf r = true \/ (exists b l, (r = RAnd b l \/ r = ROr b l) /\ okl l).
Definition good (r:rule) (gs:list gres) : Prop :=
  shape gs /\ forall n, reported gs n = negb (rs true r n).

Lemma all_with_spec d l rs : all_with d l = Some rs -> Forall2 (fun r x => d r = Some x) l rs.
Proof.
  revert rs; induction l as [|r l IH]; simpl; intros rs H.
  - inversion H; constructor.
  - destruct (d r) eqn:E; try discriminate. destruct (all_with d l) eqn:E2; try discriminate.
    inversion H; subst. constructor; auto.
Qed.

Lemma shape_nonempty gs : shape gs -> gs <> [].
Proof. intros [[s ->]|[H _]]; auto; discriminate. Qed.

Lemma reported_app a b n : reported (a ++ b) n = reported a n || reported b n.
Proof. unfold reported. apply existsb_app. Qed.

Lemma and_sem l xs n :
  Forall2 (fun r x => reported x n = negb (rs true r n)) l xs ->
  existsb (fun g => fb n (as_branch g)) (concat xs) = negb (forallb (fun r => rs true r n) l).
Proof.
  induction 1 as [|r x l xs H _ IH]; simpl; auto.
  rewrite existsb_app, IH. unfold reported in H. rewrite H. rewrite negb_andb. reflexivity.
Qed.

Lemma or_sem l xs n :
  Forall2 (fun r x => shape x /\ reported x n = negb (rs true r n)) l xs ->
  fb n (simples xs) && forallb (fun bs => existsb (fb n) bs) (branchsets xs)
  = negb (existsb (fun r => rs true r n) l).
Proof.
  induction 1 as [|r x l xs [Hs H] _ IH]; simpl; auto.
  unfold simples, branchsets in *. simpl. rewrite fb_app, forallb_app.
  rewrite negb_orb, <- H, <- IH. clear IH H.
  destruct Hs as [[s ->]|[Hne Hb]].
  - simpl. unfold reported, fb. simpl. rewrite !andb_true_r, orb_false_r.
    set (u := forallb _ (flat_map simples_of xs)). set (v := forallb _ _).
    destruct (fires s n), u, v; reflexivity.
  - assert (Hso : simples_of x = []).
    { clear Hne. induction x as [|g x IHx]; simpl in *; auto.
      apply andb_prop in Hb as [Hg Hb]. destruct g; try discriminate. simpl. auto. }
    assert (Hbo : branches_of x = map as_branch x).
    { clear Hne Hso. induction x as [|g x IHx]; simpl in *; auto.
      apply andb_prop in Hb as [Hg Hb]. destruct g; try discriminate. simpl. f_equal; auto. }
    rewrite Hso, Hbo. destruct x as [|g x]; [congruence|]. simpl map. cbv iota beta.
    assert (E : forallb (fun bs : list (list simple) => existsb (fb n) bs) [as_branch g :: map as_branch x]
                = reported (g :: x) n).
    { unfold reported. cbn [forallb]. rewrite andb_true_r. cbn [existsb]. rewrite existsb_map'. reflexivity. }
    rewrite E. change (fb n []) with true.
    set (u := reported (g::x) n). set (v := fb n (flat_map simples_of xs)). set (w := forallb _ _).
    destruct u, v, w; reflexivity.
Qed.

Lemma expand_step_nonempty acc branches : acc <> [] -> branches <> [] -> expand_step acc branches <> [].
Proof.
  unfold expand_step. destruct branches as [|b bs]; [congruence|]. destruct acc as [|a acc]; [congruence|].
  simpl. discriminate.
Qed.
Lemma expand_nonempty bss : Forall (fun bs => bs <> []) bss -> forall acc, acc <> [] -> fold_left expand_step bss acc <> [].
Proof.
  induction 1; simpl; intros acc Ha; auto. apply IHForall. apply expand_step_nonempty; auto.
Qed.
Lemma branchsets_nonempty xs : Forall (fun bs => bs <> []) (branchsets xs).
Proof.
  unfold branchsets. induction xs as [|x xs IH]; simpl; [constructor|].
  apply Forall_app; split; auto. destruct (branches_of x); constructor; [discriminate|constructor].
Qed.

Lemma okl_negate l : okl l -> okl (map negate l).
Proof.
  intros [Hne Hw]; split.
  - destruct l; simpl; congruence.
  - rewrite forallb_map'. rewrite forallb_forall in *. intros; apply wf_negate; auto.
Qed.

Lemma wf_okl b l : wf (RAnd b l) = true -> b = false /\ okl l.
Proof.
  simpl. intros H. apply andb_prop in H as [H Hf]. apply andb_prop in H as [Hb Hl].
  destruct b; [discriminate|]. split; auto. split; auto. destruct l; [discriminate|discriminate].
Qed.
Lemma wf_okl' b l : wf (ROr b l) = true -> b = false /\ okl l.
Proof. exact (wf_okl b l). Qed.

(* results of and/or are always branch results *)
Lemma andor_branches : forall fuel r gs, (exists b l, r = RAnd b l \/ r = ROr b l) -> disp fuel r = Some gs -> forallb is_branch gs = true.
Proof.
  induction fuel as [|fuel IH]; [discriminate|]. intros r gs [b [l [->| ->]]] Hd; simpl in Hd.
  - destruct b.
    + eapply IH; [|exact Hd]. eauto.
    + destruct (all_with (disp fuel) l); [|discriminate]. inversion Hd; subst.
      rewrite forallb_map'. apply forallb_forall. reflexivity.
  - destruct b.
    + eapply IH; [|exact Hd]. eauto.
    + destruct (all_with (disp fuel) l); [|discriminate]. inversion Hd; subst.
      rewrite forallb_map'. apply forallb_forall. reflexivity.
Qed.
Lemma or_branches fuel b l gs : disp fuel (ROr b l) = Some gs -> forallb is_branch gs = true.
Proof. intros H. eapply andor_branches; [|exact H]. eauto. Qed.

Theorem main : forall fuel r gs, okg r -> disp fuel r = Some gs -> good r gs.
Proof.
  induction fuel as [|fuel IH]; [discriminate|]. intros r gs Hok Hd. simpl in Hd.
  assert (IHl : forall l xs, okl l -> all_with (disp fuel) l = Some xs ->
                Forall2 (fun r x => good r x) l xs).
  { intros l xs [_ Hw] Ha. apply all_with_spec in Ha. rewrite forallb_forall in Hw.
    induction Ha; constructor; auto.
    - apply IH; auto. left. apply Hw; left; auto.
    - apply IHHa. intros; apply Hw; right; auto. }
  destruct r as [n a|b l|b l|b i t e|b q p r].
  - (* atom *) inversion Hd; subst. split; [left; eauto|]. intros m.
    unfold reported, fb; simpl. destruct n; simpl; rewrite andb_true_r, orb_false_r, negb_involutive; reflexivity.
  - (* and *)
    assert (Hl : okl l /\ (b = true \/ b = false)).
    { destruct Hok as [Hw|[b' [l' [[E|E] Ho]]]].
      - apply wf_okl in Hw as [-> Ho]. auto.
      - inversion E; subst. destruct b'; auto.
      - discriminate. }
    destruct Hl as [Hl _]. destruct b.
    + (* negated and: generated as or of negated body *)
      apply IH in Hd; [|right; exists false, (map negate l); split; [right; reflexivity|apply okl_negate; auto]].
      destruct Hd as [Hs Hr]. split; auto. intros m. rewrite Hr. simpl. rewrite existsb_map'.
      f_equal. apply existsb_ext_in'. intros x Hx. apply negate_sem.
      destruct Hl as [_ Hw]. rewrite forallb_forall in Hw; auto.
    + destruct (all_with (disp fuel) l) as [xs|] eqn:Ea; [|discriminate]. inversion Hd; subst; clear Hd.
      pose proof (IHl _ _ Hl Ea) as HF. split.
      * right. split.
        -- destruct Hl as [Hne _]. destruct HF as [|r x l xs [Hs _] _]; [congruence|].
           apply shape_nonempty in Hs. destruct x; [congruence|]. simpl. discriminate.
        -- rewrite forallb_map'. apply forallb_forall. reflexivity.
      * intros m. unfold reported. rewrite existsb_map'. simpl.
        apply and_sem. clear -HF. induction HF as [|r x l xs [_ H] _ IHF]; constructor; auto.
  - (* or *)
    assert (Hl : okl l).
    { destruct Hok as [Hw|[b' [l' [[E|E] Ho]]]].
      - apply wf_okl' in Hw as [_ Ho]; auto.
      - discriminate.
      - inversion E; subst; auto. }
    destruct b.
    + apply IH in Hd; [|right; exists false, (map negate l); split; [left; reflexivity|apply okl_negate; auto]].
      destruct Hd as [Hs Hr]. split; auto. intros m. rewrite Hr. simpl. rewrite forallb_map'.
      f_equal. apply forallb_ext_in'. intros x Hx. apply negate_sem.
      destruct Hl as [_ Hw]. rewrite forallb_forall in Hw; auto.
    + destruct (all_with (disp fuel) l) as [xs|] eqn:Ea; [|discriminate]. inversion Hd; subst; clear Hd.
      pose proof (IHl _ _ Hl Ea) as HF. split.
      * right. split.
        -- unfold expand. intros E. apply map_eq_nil in E. revert E.
           apply expand_nonempty; [apply branchsets_nonempty|discriminate].
        -- rewrite forallb_map'. apply forallb_forall. reflexivity.
      * intros m. unfold reported. rewrite existsb_map'. simpl. unfold expand. rewrite expand_sem.
        simpl. rewrite orb_false_r. apply or_sem.
        clear -HF. induction HF as [|r x l xs [Hs H] _ IHF]; constructor; auto.
  - (* conditional *)
    assert (Hw : wf i = true /\ wf t = true /\ match e with Some e' => b = false /\ wf e' = true | None => True end).
    { destruct Hok as [Hw|[b' [l' [[E|E] _]]]]; try discriminate. simpl in Hw.
      apply andb_prop in Hw as [Hw He]. apply andb_prop in Hw as [Hi Ht]. repeat split; auto.
      destruct e; auto. apply andb_prop in He as [Hb He]. destruct b; [discriminate|auto]. }
    destruct Hw as [Hi [Ht He]].
    destruct (disp fuel (ROr b [negate i; t])) as [a|] eqn:E1; [|discriminate].
    pose proof E1 as E1'. apply IH in E1; [|right; exists b, [negate i; t]; split; [right; reflexivity|split; [discriminate|simpl; rewrite wf_negate, Ht; auto]]].
    destruct E1 as [S1 R1].
    destruct e as [e'|].
    + destruct He as [-> He].
      destruct (disp fuel (ROr false [i; e'])) as [c|] eqn:E2; [|discriminate]. inversion Hd; subst; clear Hd.
      pose proof E2 as E2'. apply IH in E2; [|right; exists false, [i; e']; split; [right; reflexivity|split; [discriminate|simpl; rewrite Hi, He; auto]]].
      destruct E2 as [S2 R2]. split.
      * right. split.
        -- apply shape_nonempty in S1. destruct a; [congruence|discriminate].
        -- rewrite forallb_app. rewrite (or_branches _ _ _ _ E1'), (or_branches _ _ _ _ E2'). reflexivity.
      * intros m. rewrite reported_app, R1, R2. simpl. rewrite !orb_false_r.
        rewrite (negate_sem i Hi). simpl. rewrite negb_andb. reflexivity.
    + inversion Hd; subst; clear Hd. split; auto. intros m. rewrite R1. simpl. destruct b; simpl.
      * rewrite andb_true_r. rewrite (negate_sem i Hi). reflexivity.
      * rewrite orb_false_r. rewrite (negate_sem i Hi). reflexivity.
  - (* nested *)
    assert (Hw : wf r = true).
    { destruct Hok as [Hw|[b' [l' [[E|E] _]]]]; try discriminate. exact Hw. }
    destruct (disp fuel r) as [xs|] eqn:E; [|discriminate]. inversion Hd; subst; clear Hd.
    apply IH in E; [|left; auto]. destruct E as [_ R]. split.
    + right. split; [discriminate|reflexivity].
    + intros m. unfold reported, fb. cbn [existsb as_branch forallb]. rewrite andb_true_r, orb_false_r.
      cbn [fires rs]. 
      rewrite (filter_ext_in' _ (fun c => negb (rs true r c))).
      2:{ intros c _. rewrite <- R. unfold reported. rewrite existsb_map'. reflexivity. }
      destruct b; simpl; destruct (qtest q _ _); reflexivity.
Qed.
End S.

Print Assumptions main.
Check main.
