(* DESIGN-TIME FEASIBILITY SKETCH for C16 - not part of the verification framework.
   Generic PEG syntax + fuelled interpreter producing a generic parse tree, the property-path grammar
   transcribed from internal/parser/path/peg.go (as pigeon reads third_party/propertyparser.peg),
   the actions (AND / OR / IRI building) and a few vm_compute checks against what the real
   ParsePath returned for the same strings during the design reading. *)
From Coq Require Import List String Ascii Bool Arith.
Import ListNotations.
Open Scope string_scope.

Inductive pe :=
| PLit (s:string)
| PClass (chars:list ascii) (ranges:list (ascii*ascii))
| PSeq (l:list pe)
| PChoice (l:list pe)
| PStar (e:pe)
| PPlus (e:pe)
| POpt (e:pe)
| PRef (name:string)
| PAct (tag:string) (e:pe).       (* actionExpr: run action `tag` on the value of e *)

Inductive tree :=
| TStr (s:string)                 (* matched text of a literal / class *)
| TNil                            (* unmatched optional *)
| TList (l:list tree)             (* seq / star / plus *)
| TAct (tag:string) (t:tree).

Definition grammar := list (string * pe).
Fixpoint lookup (g:grammar) (n:string) : option pe :=
  match g with [] => None | (k,e)::g' => if String.eqb k n then Some e else lookup g' n end.

Definition in_class (c:ascii) (chars:list ascii) (ranges:list (ascii*ascii)) : bool :=
  existsb (Ascii.eqb c) chars ||
  existsb (fun r => Nat.leb (nat_of_ascii (fst r)) (nat_of_ascii c) && Nat.leb (nat_of_ascii c) (nat_of_ascii (snd r))) ranges.

Fixpoint strip_prefix (p s:string) : option string :=
  match p, s with
  | EmptyString, _ => Some s
  | String a p', String b s' => if Ascii.eqb a b then strip_prefix p' s' else None
  | _, _ => None
  end.

Inductive res := OutOfFuel | Fail | Ok (t:tree) (rest:string).

Fixpoint interp (g:grammar) (fuel:nat) (e:pe) (s:string) {struct fuel} : res :=
  match fuel with O => OutOfFuel | S fuel =>
  match e with
  | PLit l => match strip_prefix l s with Some r => Ok (TStr l) r | None => Fail end
  | PClass cs rs => match s with
                    | String c s' => if in_class c cs rs then Ok (TStr (String c EmptyString)) s' else Fail
                    | EmptyString => Fail end
  | PSeq l =>
      (fix go (l:list pe) (acc:list tree) (s:string) : res :=
         match l with
         | [] => Ok (TList (rev acc)) s
         | e1::l' => match interp g fuel e1 s with
                     | Ok t r => go l' (t::acc) r
                     | Fail => Fail | OutOfFuel => OutOfFuel end
         end) l [] s
  | PChoice l =>
      (fix go (l:list pe) : res :=
         match l with
         | [] => Fail
         | e1::l' => match interp g fuel e1 s with
                     | Ok t r => Ok t r
                     | Fail => go l' | OutOfFuel => OutOfFuel end
         end) l
  | PStar e1 =>
      match interp g fuel e1 s with
      | Ok t r => match interp g fuel (PStar e1) r with
                  | Ok (TList ts) r' => Ok (TList (t::ts)) r'
                  | Ok t' r' => Ok (TList [t; t']) r'
                  | Fail => Ok (TList [t]) r | OutOfFuel => OutOfFuel end
      | Fail => Ok (TList []) s
      | OutOfFuel => OutOfFuel
      end
  | PPlus e1 =>
      match interp g fuel e1 s with
      | Ok t r => match interp g fuel (PStar e1) r with
                  | Ok (TList ts) r' => Ok (TList (t::ts)) r'
                  | Ok t' r' => Ok (TList [t; t']) r'
                  | Fail => Ok (TList [t]) r | OutOfFuel => OutOfFuel end
      | Fail => Fail | OutOfFuel => OutOfFuel
      end
  | POpt e1 => match interp g fuel e1 s with Ok t r => Ok t r | Fail => Ok TNil s | OutOfFuel => OutOfFuel end
  | PRef n => match lookup g n with Some e1 => interp g fuel e1 s | None => Fail end
  | PAct tag e1 => match interp g fuel e1 s with Ok t r => Ok (TAct tag t) r | Fail => Fail | OutOfFuel => OutOfFuel end
  end end.

(* ---- the grammar of peg.go ---- *)
Definition az := ("a"%char,"z"%char). Definition AZ := ("A"%char,"Z"%char). Definition d09 := ("0"%char,"9"%char).
Definition ws := PStar (PClass [" "%char; "010"%char; "009"%char; "013"%char] []).
Definition path_grammar : grammar :=
  [ ("Expression", PAct "Expression" (PSeq [PRef "Term"; PStar (PSeq [PRef "_"; PLit "/"; PRef "_"; PRef "Term"])]));
    ("Term", PAct "Term" (PSeq [PRef "Factor"; PStar (PSeq [PRef "_"; PLit "|"; PRef "_"; PRef "Factor"])]));
    ("Factor", PChoice [PAct "Paren" (PSeq [PLit "("; PRef "_"; PRef "Expression"; PRef "_"; PLit ")"]);
                        PRef "Iri";
                        PAct "Type" (PLit "@type")]);
    ("Iri", PAct "Iri" (PSeq [PPlus (PClass ["_"%char;"-"%char] [az;AZ;d09]); PLit ".";
                              PPlus (PClass ["."%char;"\"%char;"/"%char;"_"%char;"-"%char] [az;AZ;d09]);
                              PRef "_";
                              POpt (PClass [""""%char;"^"%char;","%char;"*"%char] [])]));
    ("_", ws) ].

(* ---- actions: build the path AST as parser.go's build does ---- *)
Inductive path := Pred (iri:string) (inv trans:bool) | And (l:list path) | Or (l:list path).

Fixpoint text (t:tree) : string :=
  match t with TStr s => s | TNil => "" | TList l => fold_right (fun t acc => text t ++ acc) "" l | TAct _ t => text t end.

Fixpoint build (fuel:nat) (t:tree) : option path :=
  match fuel with O => None | S fuel =>
  let all := fix all (l:list tree) : option (list path) :=
      match l with [] => Some [] | t::l' => match build fuel t, all l' with Some p, Some ps => Some (p::ps) | _,_ => None end end in
  match t with
  | TAct "Expression" (TList [hd; TList tails]) =>
      match all (hd :: map (fun e => match e with TList [_;_;_;x] => x | _ => TNil end) tails) with
      | Some [p] => Some p | Some ps => Some (And ps) | None => None end
  | TAct "Term" (TList [hd; TList tails]) =>
      match all (hd :: map (fun e => match e with TList [_;_;_;x] => x | _ => TNil end) tails) with
      | Some [p] => Some p | Some ps => Some (Or ps) | None => None end
  | TAct "Paren" (TList [_;_;e;_;_]) => build fuel e
  | TAct "Type" _ => Some (Pred "@type" false false)
  | TAct "Iri" (TList [ns;_;prop;_;md]) =>
      Some (Pred (text ns ++ "." ++ text prop) (String.eqb (text md) "^") (String.eqb (text md) "*"))
  | _ => None
  end end.

Definition parse_prefix (s:string) : option (option path * string) :=
  match interp path_grammar (100 * (String.length s + 1)) (PRef "Expression") s with
  | Ok t rest => Some (build 1000 t, rest)
  | _ => None end.

(* as coded today: the unconsumed rest is ignored *)
Definition parse_path_today (s:string) : option path :=
  match parse_prefix s with Some (Some p, _) => Some p | _ => None end.
(* anchored (documented) reading: whole string, optional surrounding whitespace *)
Fixpoint all_ws (s:string) : bool :=
  match s with EmptyString => true | String c s' => in_class c [" "%char; "010"%char; "009"%char; "013"%char] [] && all_ws s' end.
Definition parse_path_anchored (s:string) : option path :=
  match parse_prefix s with Some (Some p, rest) => if all_ws rest then Some p else None | _ => None end.

Definition a := Pred "ex.a" false false. Definition b := Pred "ex.b" false false. Definition c := Pred "ex.c" false false.

Example prec : parse_path_today "ex.a | ex.b / ex.c" = Some (And [Or [a; b]; c]).
Proof. vm_compute. reflexivity. Qed.
Example prec2 : parse_path_today "ex.a / ex.b | ex.c" = Some (And [a; Or [b; c]]).
Proof. vm_compute. reflexivity. Qed.
Example parens : parse_path_today "((ex.a))" = Some a.
Proof. vm_compute. reflexivity. Qed.
Example inverse : parse_path_today "ex.a^ / ex.b" = Some (And [Pred "ex.a" true false; b]).
Proof. vm_compute. reflexivity. Qed.
Example slash_in_iri : parse_path_today "ex.a/ex.b" = Some (Pred "ex.a/ex.b" false false).
Proof. vm_compute. reflexivity. Qed.
(* D18: the unanchored parser accepts junk, the anchored reading rejects it *)
Example junk_today : parse_path_today "ex.a ) junk" = Some a.
Proof. vm_compute. reflexivity. Qed.
Example junk_anchored : parse_path_anchored "ex.a ) junk" = None.
Proof. vm_compute. reflexivity. Qed.
Example dslash_today : parse_path_today "ex.a / / ex.b" = Some a.
Proof. vm_compute. reflexivity. Qed.
Example dslash_anchored : parse_path_anchored "ex.a / / ex.b" = None.
Proof. vm_compute. reflexivity. Qed.
Example trailing_ws : parse_path_anchored "(ex.a) " = Some a.
Proof. vm_compute. reflexivity. Qed.
Example unbalanced : parse_path_today "( ex.a" = None.
Proof. vm_compute. reflexivity. Qed.
