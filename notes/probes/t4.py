from t3 import *
import itertools
# enumerate small paths systematically
atoms=[('p','a',False),('p','b',True),('p','c',False)]
def paths(d):
    if d==0:
        for a in atoms: yield a
        return
    for a in atoms: yield a
    subs=list(paths(d-1))
    for k in ('seq','alt'):
        for x in subs:
            for y in subs:
                yield (k,[x,y])
random.seed(5)
gs=[rgraph() for _ in range(3)]
seen=set();n=0;bad=0
for p in paths(2):
    s=show(p)
    if s in seen: continue
    seen.add(s); n+=1
    if n%7!=0 and len(s)>40: continue
    for g in gs[:1]:
        got=reached(prof(s),g)
        exp={}
        for nd in g['@graph']:
            d=den(p,g,nd['@id'])
            if d: exp[nd['@id']]=d
        if got!=exp:
            bad+=1
            print("MISMATCH",s, (got[1][:120] if isinstance(got,tuple) else ''))
print(n,bad)
