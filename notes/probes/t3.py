from run import *
import random, json, sys
NS="http://ex.org#"
def prof(path):
    return HDR+"violation:\n  - v1\nvalidations:\n  v1:\n    targetClass: ex.T\n    propertyConstraints:\n      %s:\n        in: [ __none__ ]\n"%path
def reached(profile,g):
    with open('/tmp/probe/_p.yaml','w') as f: f.write(profile)
    with open('/tmp/probe/_d.jsonld','w') as f: f.write(json.dumps(g))
    r=subprocess.run([ACV,'validate','/tmp/probe/_p.yaml','/tmp/probe/_d.jsonld'],capture_output=True,text=True)
    if r.returncode!=0: return ('ERR',r.stderr[:300])
    rep=json.loads(r.stdout); enc=rep[0]['doc:encodes'][0]
    out={}
    for x in enc.get('result',[]):
        for t in x['trace']:
            out.setdefault(x['focusNode'],set()).add(t['traceValue']['actual'])
    return out
# path AST: ('p',name,inv) | ('seq',[..]) | ('alt',[..])
def show(p,top=True):
    if p[0]=='p': return "ex.%s%s"%(p[1],'^' if p[2] else '')
    if p[0]=='seq': s=" / ".join(show(q,False) for q in p[1])
    else: s=" | ".join(show(q,False) for q in p[1])
    return s if top else "( %s )"%s
def den(p,g,n):  # n: node id or literal; returns set of values (ids as 'id:..', literals as str)
    idx={x['@id']:x for x in g['@graph']}
    if p[0]=='p':
        if p[2]:
            if n not in idx: return set()
            return {s['@id'] for s in g['@graph'] if any(isinstance(v,dict) and v.get('@id')==n for v in s.get(NS+p[1],[]))}
        if n not in idx: return set()
        out=set()
        for v in idx[n].get(NS+p[1],[]):
            out.add(v['@id'] if isinstance(v,dict) else v)
        return out
    if p[0]=='alt':
        o=set()
        for q in p[1]: o|=den(q,g,n)
        return o
    cur={n}
    for q in p[1]:
        nxt=set()
        for m in cur: nxt|=den(q,g,m)
        cur=nxt
    return cur
def rpath(d):
    r=random.random()
    if d==0 or r<0.35: return ('p',random.choice('abc'),random.random()<0.3)
    k=random.choice([2,2,3])
    return (random.choice(['seq','alt']),[rpath(d-1) for _ in range(k)])
def norm(p):
    # flatten nested same-kind? keep as is (parenthesised)
    return p
def rgraph():
    n=random.randint(2,5)
    ids=["http://ex.org/n%d"%i for i in range(n)]
    nodes=[]
    for i in ids:
        nd={"@id":i,"@type":[NS+"T"]}
        for pr in 'abc':
            vals=[]
            for j in ids:
                if random.random()<0.3: vals.append({"@id":j})
            if random.random()<0.2: vals.append("lit_"+pr)
            if vals: nd[NS+pr]=vals
        nodes.append(nd)
    return {"@graph":nodes}
if __name__=="__main__":
    random.seed(int(sys.argv[1]) if len(sys.argv)>1 else 1)
    bad=0
    for it in range(int(sys.argv[2]) if len(sys.argv)>2 else 60):
        p=rpath(3); g=rgraph()
        got=reached(prof(show(p)),g)
        exp={}
        for nd in g['@graph']:
            d=den(p,g,nd['@id'])
            if d: exp[nd['@id']]=d
        if got!=exp:
            bad+=1
            print("MISMATCH",show(p)); 
            if isinstance(got,tuple): print(got)
            else:
                for k in sorted(set(got)|set(exp)):
                    if got.get(k)!=exp.get(k): print("  ",k,"got",sorted(got.get(k,[])),"exp",sorted(exp.get(k,[])))
            if bad>6: break
    print("bad",bad)
