from run import *
p=HDR+"violation:\n  - v1\nvalidations:\n  v1:\n    targetClass: ex.T\n    propertyConstraints:\n      ex.a:\n        minCount: 1\n"
for d in ["", "{", "not json", "#%RAML 1.0\ntitle: x\n", "[1,2", '{"@id": "x", "@type": "http://ex.org#T"} trailing', "[]", "{}", "null", "1", '"str"', '{"@graph": []}', '[{"@id":"http://ex.org/x","@type":["http://ex.org#T"]}]','{"@context": 5}', '{"@id": 5}', '{"@context": {"@base": 1}}', '\xff\xfe', '{"@type": 1}', '{"@id":"http://ex.org/x","@type":["http://ex.org#T"]}{"@id":"http://ex.org/y"}','true','{"@context":"http://remote.example/ctx"}']:
    r=validate(p,d)
    print(repr(d)[:70],'=>',str(r)[:230].replace('\n',' | '))
