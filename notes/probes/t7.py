from run import *
g={"@graph":[
 {"@id":"http://ex.org/n1","@type":["http://ex.org#T"],"http://ex.org#a":"xx","http://ex.org#my_prop":"v"},
]}
def P(body,hdr=HDR,levels="violation:\n  - v1\n"):
    return hdr+levels+"validations:\n  v1:\n    targetClass: ex.T\n"+body
tests={
 'underscore-local': P("    propertyConstraints:\n      ex.my_prop:\n        minCount: 2\n"),
 'underscore-prefix': P("    propertyConstraints:\n      my_ns.a:\n        minCount: 2\n",hdr="#%Validation Profile 1.0\nprofile: t\nprefixes:\n  ex: http://ex.org#\n  my_ns: http://ex.org#\n"),
 'unknown-prefix': P("    propertyConstraints:\n      zz.a:\n        minCount: 2\n"),
 'leading-space-path': P("    propertyConstraints:\n      ' ex.a':\n        minCount: 2\n"),
 'trailing-junk': P("    propertyConstraints:\n      'ex.a ) junk':\n        minCount: 2\n"),
 'double-slash': P("    propertyConstraints:\n      'ex.a / / ex.b':\n        minCount: 2\n"),
 'comma-mod': P("    propertyConstraints:\n      'ex.a,':\n        minCount: 2\n"),
 'nospace-seq': P("    propertyConstraints:\n      'ex.a/ex.b':\n        minCount: 2\n"),
 'uniq-alt': P("    propertyConstraints:\n      ex.a | ex.b:\n        uniqueValues: true\n"),
 'quote-name': P("    propertyConstraints:\n      ex.a:\n        minCount: 2\n",hdr="#%Validation Profile 1.0\nprofile: 'my \"quoted\" name'\nprefixes:\n  ex: http://ex.org#\n"),
 'backslash-msg': P("    message: 'a \\ b'\n    propertyConstraints:\n      ex.a:\n        minCount: 2\n"),
 'percent-msg': P("    message: '100% {{ex.a}} done'\n    propertyConstraints:\n      ex.a:\n        minCount: 2\n"),
 'percent-msg-noplaceholder': P("    message: '100% done %s'\n    propertyConstraints:\n      ex.a:\n        minCount: 2\n"),
 'empty-msg': P("    message: ''\n    propertyConstraints:\n      ex.a:\n        minCount: 2\n"),
 'warn-only': P("    propertyConstraints:\n      ex.a:\n        minCount: 2\n",levels="warning:\n  - v1\n"),
 'undefined-listed': P("    propertyConstraints:\n      ex.a:\n        minCount: 2\n",levels="violation:\n  - v1\n  - nothere\ninfo:\n  - v1\n"),
 'empty-yaml': '',
 'scalar-yaml': 'hello',
 'no-levels': P("    propertyConstraints:\n      ex.a:\n        minCount: 2\n",levels=""),
}
for k,p in tests.items():
    r=validate(p,g,raw=True)
    if isinstance(r,tuple): print(k,'=>',str(r)[:260].replace('\\n',' | '))
    else:
        rep=json.loads(r); enc=rep[0]['doc:encodes'][0]
        print(k,'=>',enc['conforms'],enc['profileName'],[(x['resultSeverity'].split('#')[1],x['sourceShapeName'],x['focusNode'],x['resultMessage'],[t['traceValue'].get('actual') for t in x['trace']]) for x in enc.get('result',[])])
