from run import *
import subprocess
def compile_ok(p):
    with open('/tmp/probe/_p.yaml','w') as f: f.write(p)
    r=subprocess.run([ACV,'compile','/tmp/probe/_p.yaml'],capture_output=True,text=True)
    return r.returncode==0, r.stderr[:400].replace('\n',' | ')
def flat(n):
    s=HDR+"violation:\n  - v1\nvalidations:\n  v1:\n    targetClass: ex.T\n    propertyConstraints:\n"
    for i in range(n):
        s+="      ex.p%d:\n        nested:\n          propertyConstraints:\n            ex.v:\n              minCount: 1\n"%i
    return s
def deep(d):
    s=HDR+"violation:\n  - v1\nvalidations:\n  v1:\n    targetClass: ex.T\n"
    ind="    "
    for i in range(d):
        s+=ind+"propertyConstraints:\n"+ind+"  ex.p%d:\n"%i+ind+"    nested:\n"
        ind+="      "
    s+=ind+"propertyConstraints:\n"+ind+"  ex.v:\n"+ind+"    minCount: 1\n"
    return s
if __name__=="__main__":
    for n in [1,5,10,11,12]:
        print("flat",n,compile_ok(flat(n)))
