from run import *
import hashlib,collections
p=HDR+"""violation:
  - v1
validations:
  v1:
    targetClass: ex.T
    propertyConstraints:
      ex.a:
        nested:
          propertyConstraints:
            ex.v:
              minCount: 1
      ex.b:
        nested:
          propertyConstraints:
            ex.v:
              minCount: 1
      ex.c:
        atLeast:
          count: 1
          validation:
            propertyConstraints:
              ex.v:
                minCount: 1
"""
g={"@graph":[
 {"@id":"http://ex.org/n1","@type":["http://ex.org#T"],"http://ex.org#a":{"@id":"http://ex.org/k1"},"http://ex.org#b":{"@id":"http://ex.org/k2"},"http://ex.org#c":{"@id":"http://ex.org/k3"}},
 {"@id":"http://ex.org/k1"},{"@id":"http://ex.org/k2"},{"@id":"http://ex.org/k3"}]}
c=collections.Counter(); gc=collections.Counter(); first={}
for i in range(30):
    r=validate(p,g,raw=True)
    import re
    r=re.sub(r'"dateCreated": "[^"]*"','',r)
    h=hashlib.md5(r.encode()).hexdigest()[:8]; c[h]+=1; first.setdefault(h,r)
    gen=generate(p); gh=hashlib.md5(gen.encode()).hexdigest()[:8]; gc[gh]+=1
print(c,gc)
ks=list(first)
if len(ks)>1:
    import difflib
    for l in list(difflib.unified_diff(first[ks[0]].splitlines(),first[ks[1]].splitlines(),lineterm='',n=1))[:60]: print(l)
