from run import *
P=HDR+"""violation:
  - v1
  - v2
  - v3
validations:
  v1:
    targetClass: ex.T
    propertyConstraints:
      ex.a:
        maxCount: 0
  v2:
    targetClass: ex.T
    propertyConstraints:
      ex.k / ex.v:
        in: [ zz ]
  v3:
    targetClass: ex.U
    propertyConstraints:
      ex.k^:
        maxCount: 0
"""
A="http://ex.org#"; 
docs={
 'flat-abs': {"@graph":[{"@id":"http://ex.org/n1","@type":[A+"T"],A+"a":["s",1,True],A+"k":[{"@id":"http://ex.org/k1"}]},{"@id":"http://ex.org/k1","@type":[A+"U"],A+"v":["w"]}]},
 'embedded-ctx': {"@context":{"ex":A,"@base":"http://ex.org/"},"@id":"n1","@type":"ex:T","ex:a":["s",1,True],"ex:k":{"@id":"k1","@type":"ex:U","ex:v":"w"}},
 'array-top-reordered': [{"@id":"http://ex.org/k1","@type":A+"U",A+"v":"w"},{A+"k":{"@id":"http://ex.org/k1"},A+"a":[True,1,"s","s"],"@type":[A+"T"],"@id":"http://ex.org/n1"}],
 'split-node': {"@context":{"ex":A},"@graph":[{"@id":"http://ex.org/n1","@type":"ex:T","ex:a":"s"},{"@id":"http://ex.org/n1","ex:a":[1,True],"ex:k":{"@id":"http://ex.org/k1"}},{"@id":"http://ex.org/k1","@type":["ex:U"],"ex:v":["w","w"]}]},
 'value-objects': {"@graph":[{"@id":"http://ex.org/n1","@type":[A+"T"],A+"a":[{"@value":"s"},{"@value":1},{"@value":True}],A+"k":[{"@id":"http://ex.org/k1"}]},{"@id":"http://ex.org/k1","@type":[A+"U"],A+"v":[{"@value":"w"}]}]},
}
import re
for k,d in docs.items():
    r=validate(P,d,raw=True)
    if isinstance(r,tuple): print(k,'ERR',r[2][:300]); continue
    enc=json.loads(r)[0]['doc:encodes'][0]
    print(k,enc['conforms'],sorted((x['sourceShapeName'],x['focusNode'],str([t['traceValue'].get('actual') for t in x['trace']])) for x in enc.get('result',[])))
