from run import *
g={"@graph":[
 {"@id":"http://ex.org/n1","@type":["http://ex.org#T"],"http://ex.org#a":[{"@id":"http://ex.org/k1"},{"@id":"http://ex.org/dangling"},"lit",5]},
 {"@id":"http://ex.org/k1","http://ex.org#v":1},
 {"@id":"http://ex.org/n2","@type":["http://ex.org#T"],"http://ex.org#a":["lit"]},
 {"@id":"http://ex.org/n3","@type":["http://ex.org#T"]},
]}
def P(body): return HDR+"violation:\n  - v1\nvalidations:\n  v1:\n    targetClass: ex.T\n"+body
nested=lambda q,c: "    propertyConstraints:\n      ex.a:\n        %s\n"%q + c
inner="            propertyConstraints:\n              ex.v:\n                minCount: 1\n"
cases={
 'nested': P("    propertyConstraints:\n      ex.a:\n        nested:\n          propertyConstraints:\n            ex.v:\n              minCount: 1\n"),
 'nested-fail': P("    propertyConstraints:\n      ex.a:\n        nested:\n          propertyConstraints:\n            ex.v:\n              minCount: 2\n"),
 'atLeast1': P("    propertyConstraints:\n      ex.a:\n        atLeast:\n          count: 1\n          validation:\n"+inner),
 'atLeast2': P("    propertyConstraints:\n      ex.a:\n        atLeast:\n          count: 2\n          validation:\n"+inner),
 'atMost0': P("    propertyConstraints:\n      ex.a:\n        atMost:\n          count: 0\n          validation:\n"+inner),
 'count': P("    propertyConstraints:\n      ex.a:\n        maxCount: 0\n"),
 'a/v': P("    propertyConstraints:\n      ex.a / ex.v:\n        maxCount: 0\n"),
 'in': P("    propertyConstraints:\n      ex.a:\n        in: [zz]\n"),
}
for k,p in cases.items():
    r=validate(p,g,raw=True)
    if isinstance(r,tuple): print(k,'=> ERR',r[2][:300].replace('\n',' | '))
    else:
        enc=json.loads(r)[0]['doc:encodes'][0]
        print(k,'=>',[(x['focusNode'].split('/')[-1],[ {kk:vv for kk,vv in t['traceValue'].items() if kk in('actual','failedNodes','successfulNodes')} for t in x['trace']]) for x in enc.get('result',[])])
