from run import *
g={"@graph":[
 {"@id":"http://ex.org/n1","@type":["http://ex.org#T"],"http://ex.org#a":{"@id":"http://ex.org/n2"}},
 {"@id":"http://ex.org/n2","@type":["http://ex.org#U"],"http://ex.org#b":{"@id":"http://ex.org/n1"}},
]}
def P(path,c="maxCount: 0"):
    return HDR+"violation:\n  - v1\nvalidations:\n  v1:\n    targetClass: ex.T\n    propertyConstraints:\n      %s:\n        %s\n"%(path,c)
for path in ["ex.a","ex.b^","ex.a | ex.b^", "ex.a | ex.a", "( ex.a | ex.b^ ) / @type", "@type", "ex.a / @type","@type / ex.a", "ex.a / ex.b / ex.a"]:
    r=validate(P(path),g,raw=True)
    if isinstance(r,tuple): print(path,r[2][:200]); continue
    enc=json.loads(r)[0]['doc:encodes'][0]
    print(path,[ (x['focusNode'],[t['traceValue'].get('actual') for t in x['trace']]) for x in enc.get('result',[])])
