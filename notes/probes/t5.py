from run import *
p=HDR+"violation:\n  - v1\nvalidations:\n  v1:\n    targetClass: ex.T\n    propertyConstraints:\n      ( ex.a / ex.a ) / ( ex.a | ex.c ):\n        in: [ __none__ ]\n"
out=generate(p)
i=out.index('# Path rules')
print(out[i:])
