from t10 import compile_ok
from run import HDR
def P(rego_body, ext=""):
    return HDR+ext+"violation:\n  - v1\nvalidations:\n  v1:\n    targetClass: ex.T\n    rego: |\n"+"".join("      "+l+"\n" for l in rego_body.splitlines())
calls={'http.send':'http.send({"method":"get","url":"http://example.com"})','net.lookup_ip_addr':'net.lookup_ip_addr("example.com")','opa.runtime':'opa.runtime()','rego.parse_module':'rego.parse_module("x.rego","package x")'}
for b,c in calls.items():
    print(b,'stmt',compile_ok(P("r = %s\n$result = true"%c))[0],
          'compr',compile_ok(P("rs = [y | y = %s]\n$result = true"%c))[0],
          'helper',compile_ok(P("$result = helper(1)", ext="rego_extensions: |\n  helper(x) = y {\n    y = %s\n  }\n"%c))[0],
          'with-value',compile_ok(P("r = count([1]) with count as %s\n$result = true"%b))[0],
          )
print('walk stmt',compile_ok(P("walk($node, [p, v])\n$result = true"))[0], 'helper', compile_ok(P("$result = helper($node)", ext="rego_extensions: |\n  helper(x) = true {\n    walk(x, [p, v])\n  }\n"))[0])
print('benign',compile_ok(P("$result = true")))
# injection via profile name
inj="#%Validation Profile 1.0\nprofile: \"x\\\"\\nleak = net.lookup_ip_addr(\\\"example.com\\\")\\nfoo = \\\"\"\nprefixes:\n  ex: http://ex.org#\nviolation:\n  - v1\nvalidations:\n  v1:\n    targetClass: ex.T\n    propertyConstraints:\n      ex.a:\n        minCount: 1\n"
print('name-injection net.lookup', compile_ok(inj))
inj2=inj.replace('net.lookup_ip_addr(\\"example.com\\")','opa.runtime()')
print('name-injection opa.runtime', compile_ok(inj2)[0])
