from run import *
# pattern with zero / two values, and negation
def prof(body):
    return HDR+"violation:\n  - v1\nvalidations:\n  v1:\n    targetClass: ex.T\n"+body
g={"@graph":[
 {"@id":"http://ex.org/zero","@type":["http://ex.org#T"]},
 {"@id":"http://ex.org/one_m","@type":["http://ex.org#T"],"http://ex.org#a":"xx"},
 {"@id":"http://ex.org/one_n","@type":["http://ex.org#T"],"http://ex.org#a":"yy"},
 {"@id":"http://ex.org/two","@type":["http://ex.org#T"],"http://ex.org#a":["xx","yy"]},
]}
pos=prof("    propertyConstraints:\n      ex.a:\n        pattern: ^x\n")
neg=prof("    not:\n      propertyConstraints:\n        ex.a:\n          pattern: ^x\n")
print(validate(pos,g)); print(validate(neg,g))
