from run import *
g={"@graph":[{"@id":"http://ex.org/n1","@type":["http://ex.org#T"],"http://ex.org#a":"xx"}]}
cases={
 'in-$message': HDR+"violation:\n  - v1\nvalidations:\n  v1:\n    targetClass: ex.T\n    propertyConstraints:\n      ex.a:\n        in: [ '$message' ]\n",
 'msg-not-before': HDR+"violation:\n  - v1\nvalidations:\n  v1:\n    message: not\n    targetClass: ex.T\n    not:\n      propertyConstraints:\n        ex.a:\n          minCount: 1\n",
 'msg-not-after': HDR+"violation:\n  - v1\nvalidations:\n  v1:\n    targetClass: ex.T\n    not:\n      propertyConstraints:\n        ex.a:\n          minCount: 1\n    message: not\n",
 'msg-targetClass-before': HDR+"violation:\n  - v1\nvalidations:\n  v1:\n    message: targetClass\n    targetClass: ex.T\n    propertyConstraints:\n      ex.a:\n        minCount: 2\n",
 'msg-propertyConstraints': HDR+"violation:\n  - v1\nvalidations:\n  v1:\n    targetClass: ex.T\n    message: propertyConstraints\n    propertyConstraints:\n      ex.a:\n        minCount: 2\n",
 'msg-pc-last': HDR+"violation:\n  - v1\nvalidations:\n  v1:\n    targetClass: ex.T\n    propertyConstraints:\n      ex.a:\n        minCount: 2\n    message: propertyConstraints\n",
}
for k,p in cases.items():
    r=validate(p,g,raw=True)
    if isinstance(r,tuple): print(k,'=> ERR',r[2][:220].replace('\n',' | '))
    else:
        enc=json.loads(r)[0]['doc:encodes'][0]
        print(k,'=>',enc['conforms'],[(x['sourceShapeName'],x['focusNode'],x['resultMessage']) for x in enc.get('result',[])])
