import json,subprocess,sys,tempfile,os
ACV=os.environ.get('ACV','/tmp/probe/acv')
def validate(profile, graph, raw=False):
    with open('/tmp/probe/_p.yaml','w') as f: f.write(profile)
    with open('/tmp/probe/_d.jsonld','w') as f:
        f.write(graph if isinstance(graph,str) else json.dumps(graph))
    r=subprocess.run([ACV,'validate','/tmp/probe/_p.yaml','/tmp/probe/_d.jsonld'],capture_output=True,text=True)
    if r.returncode!=0:
        return ('ERR',r.returncode,r.stderr[:1500])
    if raw: return r.stdout
    rep=json.loads(r.stdout)
    enc=rep[0]['doc:encodes'][0]
    return (enc['conforms'],[(x['resultSeverity'].split('#')[1],x['sourceShapeName'],x['focusNode']) for x in enc.get('result',[])])
def generate(profile):
    with open('/tmp/probe/_p.yaml','w') as f: f.write(profile)
    r=subprocess.run([ACV,'generate','/tmp/probe/_p.yaml'],capture_output=True,text=True)
    return r.stdout if r.returncode==0 else ('ERR',r.stderr[:1500])
HDR="#%Validation Profile 1.0\nprofile: t\nprefixes:\n  ex: http://ex.org#\n"
