from run import *
P=HDR+"""violation:
  - v1
warning:
  - v2
validations:
  v1:
    targetClass: ex.T
    or:
      - propertyConstraints:
          ex.k:
            nested:
              or:
                - propertyConstraints:
                    ex.k:
                      nested:
                        propertyConstraints:
                          ex.v:
                            minCount: 1
                          ex.w:
                            pattern: ^z
                - propertyConstraints:
                    ex.v:
                      minCount: 5
      - propertyConstraints:
          ex.a:
            minCount: 1
  v2:
    targetClass: ex.T
    propertyConstraints:
      ex.k:
        atLeast:
          count: 3
          validation:
            propertyConstraints:
              ex.v:
                in: [ q ]
"""
A="http://ex.org#"
g={"@graph":[{"@id":"http://ex.org/t%d"%i,"@type":[A+"T"],A+"k":[{"@id":"http://ex.org/k%d"%j} for j in range(3)]} for i in range(2)]+
 [{"@id":"http://ex.org/k%d"%j,A+"k":[{"@id":"http://ex.org/m%d"%(j*2)},{"@id":"http://ex.org/m%d"%(j*2+1)}],A+"v":["a","b"]} for j in range(3)]+
 [{"@id":"http://ex.org/m%d"%j,A+"w":["a","b"]} for j in range(6)]}
r=validate(P,g,raw=True)
rep=json.loads(r)
ids=[]
def walk(x):
    if isinstance(x,dict):
        if '@id' in x and '@type' in x: ids.append(x['@id'])
        for v in x.values(): walk(v)
    elif isinstance(x,list):
        for v in x: walk(v)
walk(rep)
import collections
c=collections.Counter(ids)
print('nodes',len(ids),'dups',[k for k,v in c.items() if v>1][:10])
enc=rep[0]['doc:encodes'][0]
print(enc['conforms'],len(enc['result']))
print([i for i in ids if i.count('_')>=6][:5])
nodeids={n['@id'] for n in g['@graph']}
def focus(x,acc):
    if isinstance(x,dict):
        if 'focusNode' in x: acc.append(x['focusNode'])
        for v in x.values(): focus(v,acc)
    elif isinstance(x,list):
        for v in x: focus(v,acc)
acc=[];focus(enc,acc); print('focus grounded',all(a in nodeids for a in acc),len(acc))
