from run import *
g={"@graph":[{"@id":"http://ex.org/n1","@type":["http://ex.org#T"],"http://ex.org#a":"x\"y\\z","http://ex.org#b":5}]}
def P(msg_yaml, name="v1", extra=""):
    return HDR+"violation:\n  - %s\nvalidations:\n  %s:\n    targetClass: ex.T\n    message: %s\n    propertyConstraints:\n      ex.zz:\n        minCount: 1\n%s"%(name,name,msg_yaml,extra)
cases={
 'tab': P('"a\\tb"'),
 'cr': P('"a\\rb"'),
 'nul': P('"a\\0b"'),
 'unicode': P('"héllo ✓ 日本"'),
 'newline': P('"a\\nb"'),
 'squote': P('"it\'s"'),
 'dquote': P("'say \"hi\"'"),
 'braces': P("'{{ not a var }} { } {{ex.a}} }}'"),
 'placeholder-val-with-quote': P("'val={{ex.a}} n={{ex.b}} missing={{ex.none}}'"),
 'same-placeholder-twice': P("'{{ex.b}} and {{ex.b}}'"),
 'backtick': P("'a ` b'"),
 'dollar-message': P("'costs $message now'"),
 'name-quote': P("m", name="'v\"1'"),
 'name-space': P("m", name="'my rule #1 (x)'"),
 'name-backslash': P("m", name="'a\\b'"),
}
for k,p in cases.items():
    r=validate(p,g,raw=True)
    if isinstance(r,tuple): print(k,'=> ERR',r[2][:200].replace('\n',' | '))
    else:
        enc=json.loads(r)[0]['doc:encodes'][0]
        print(k,'=>',[(x['sourceShapeName'],x['resultMessage']) for x in enc.get('result',[])])
