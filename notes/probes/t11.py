from t10 import flat, deep
import subprocess,time,os,sys
ACV=os.environ.get('ACV','/tmp/probe/acv')
def t(p):
    open('/tmp/probe/_p.yaml','w').write(p)
    t0=time.time()
    try:
        r=subprocess.run([ACV,'compile','/tmp/probe/_p.yaml'],capture_output=True,text=True,timeout=60)
        return r.returncode, round(time.time()-t0,2), r.stderr[:200].replace('\n',' | ')
    except subprocess.TimeoutExpired:
        return 'TIMEOUT',60,''
for d in [6,8,9,10,11,12,13]:
    print('deep',d,t(deep(d)),flush=True)
for n in [11,12,20,30]:
    print('flat',n,t(flat(n)),flush=True)
