
(** val negb : bool -> bool **)

let negb = function
| true -> false
| false -> true

type nat =
| O
| S of nat


