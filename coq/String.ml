open Datatypes

(** val append : char list -> char list -> char list **)

let rec append s1 s2 =
  match s1 with
  | [] -> s2
  | c::s1' -> c::(append s1' s2)

(** val length : char list -> nat **)

let rec length = function
| [] -> O
| _::s' -> S (length s')
