open Ascii
open Datatypes
open List
open PeanoNat
open String
open Strs

type fcell =
| Absent
| Dir
| File of bool * char list

type lib_out =
| LibOk of char list
| LibErr

type exitc =
| Exit0
| Exit1
| Exit2

type outcome = { o_stdout : char list; o_exit : exitc; o_cell : fcell }

type command =
| CValidate
| CGenerate
| CNormalize
| CCompile
| CHelp
| COther

val nargs_ok : command -> nat -> bool

val write_at0 : char list -> char list -> char list

val open_write : bool -> fcell -> char list -> fcell option

val newline : char list

val println : char list -> char list

val run : bool -> command -> nat -> bool -> lib_out -> fcell -> outcome

val run_file : bool -> fcell -> lib_out -> fcell

val run_history : bool -> fcell -> lib_out list -> fcell

val last_ok : lib_out list -> char list option -> char list option
