(* Small string/list helpers shared by the models. Strings are Coq [string]s = byte sequences. *)
From Coq Require Export List String Ascii Bool Arith Lia.
Export ListNotations.
Open Scope string_scope.

Fixpoint sdrop (n : nat) (s : string) : string :=
  match n, s with
  | O, _ => s
  | S n', EmptyString => EmptyString
  | S n', String _ s' => sdrop n' s'
  end.

Lemma sdrop_all : forall s n, String.length s <= n -> sdrop n s = "".
Proof.
  induction s as [|c s IH]; intros [|n] H; simpl in *; try reflexivity; try lia.
  apply IH. lia.
Qed.

Lemma append_nil_r : forall s, s ++ "" = s.
Proof. induction s as [|c s IH]; simpl; [reflexivity|now rewrite IH]. Qed.

Lemma append_length : forall a b, String.length (a ++ b) = String.length a + String.length b.
Proof. induction a as [|c a IH]; simpl; intros b; [reflexivity|now rewrite IH]. Qed.

Lemma sdrop_app_exact : forall a b, sdrop (String.length a) (a ++ b) = b.
Proof. induction a as [|c a IH]; simpl; intros b; [reflexivity|apply IH]. Qed.

Definition in_strs (x : string) (l : list string) : bool := existsb (String.eqb x) l.

Lemma in_strs_In x l : in_strs x l = true <-> In x l.
Proof.
  unfold in_strs. rewrite existsb_exists. split.
  - intros [y [Hy He]]. apply String.eqb_eq in He. now subst.
  - intros H. exists x. split; [assumption|apply String.eqb_refl].
Qed.

Lemma sappend_assoc : forall a b c : string, (a ++ b) ++ c = a ++ (b ++ c).
Proof. induction a as [|x a IH]; intros b c; simpl; [reflexivity|now rewrite IH]. Qed.
