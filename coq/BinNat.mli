open BinNums
open BinPos
open Datatypes

module N :
 sig
  val of_nat : nat -> coq_N
 end
