open BinNat
open BinNums
open Datatypes

val zero : char

val one : char

val shift : bool -> char -> char

val ascii_of_pos : positive -> char

val ascii_of_N : coq_N -> char

val ascii_of_nat : nat -> char
