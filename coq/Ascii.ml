open BinNat
open BinNums
open Datatypes

(** val zero : char **)

let zero = '\000'

(** val one : char **)

let one = '\001'

(** val shift : bool -> char -> char **)

let shift = fun b c -> Char.chr (((Char.code c) lsl 1) land 255 + if b then 1 else 0)

(** val ascii_of_pos : positive -> char **)

let ascii_of_pos =
  let rec loop n p =
    match n with
    | O -> zero
    | S n' ->
      (match p with
       | Coq_xI p' -> shift true (loop n' p')
       | Coq_xO p' -> shift false (loop n' p')
       | Coq_xH -> one)
  in loop (S (S (S (S (S (S (S (S O))))))))

(** val ascii_of_N : coq_N -> char **)

let ascii_of_N = function
| N0 -> zero
| Npos p -> ascii_of_pos p

(** val ascii_of_nat : nat -> char **)

let ascii_of_nat a =
  ascii_of_N (N.of_nat a)
