(* GENERATED on every check run by `verifh facts` from the current /repo sources - do not edit. *)
From Coq Require Import List String Ascii ZArith.
Import ListNotations.
Open Scope string_scope.
Definition map_range_sites : list string := ["internal/generator/generator.go:IriExpanderFrom"; "internal/parser/path/peg.go:Discard"; "internal/parser/path/peg.go:cloneState"; "internal/parser/path/peg.go:parse"; "internal/types/object.go:MergeObjectMap"; "internal/types/object.go:MergeStringMap"; "internal/validator/report.go:defineIdRecursively"].
