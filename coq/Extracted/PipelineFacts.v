(* GENERATED on every check run by `verifh facts` from the current /repo sources - do not edit. *)
From Coq Require Import List String Ascii ZArith.
Import ListNotations.
Open Scope string_scope.
Definition event_names : list string := ["ProfileParsingStart"; "ProfileParsingDone"; "InputDataParsingStart"; "InputDataParsingDone"; "InputDataNormalizationStart"; "InputDataNormalizationDone"; "RegoGenerationStart"; "RegoGenerationDone"; "RegoCompilationStart"; "RegoCompilationDone"; "OpaValidationStart"; "OpaValidationDone"; "BuildReportStart"; "BuildReportDone"].
Definition sk_generate_rego : string := "defer recoverAsError; send ProfileParsingStart; call Parse; send ProfileParsingDone; if err != nil { return }; send RegoGenerationStart; call Generate; send RegoGenerationDone; return".
Definition sk_compile_rego : string := "send RegoCompilationStart; call PrepareForEval; send RegoCompilationDone; return".
Definition sk_process_profile : string := "call GenerateRego; if err != nil { return }; return call CompileRego".
Definition sk_process_input : string := "defer recoverAsError; send InputDataParsingStart; call NewDecoder; call ?; call UseNumber; call Decode; if err != nil { return }; send InputDataParsingDone; send InputDataNormalizationStart; call Index; call Normalize; send InputDataNormalizationDone; return".
Definition sk_execute_validation : string := "send OpaValidationStart; call Eval; send OpaValidationDone; return".
Definition sk_process_result : string := "defer recoverAsError; send BuildReportStart; call BuildReport; send BuildReportDone; return".
Definition sk_validate_with_configuration : string := "call ProcessProfile; if err != nil { call CloseEventChan; return }; return call ValidateCompiledWithConfiguration".
Definition sk_validate_compiled_with_configuration : string := "call ProcessInput; if err != nil { call CloseEventChan; return }; call executeValidation; if err != nil { call CloseEventChan; return }; call processResult; if err != nil { call CloseEventChan; return }; call CloseEventChan; return".
Definition sk_validate : string := "return call ValidateWithConfiguration, call DefaultReportConfiguration".
Definition sk_validate_compiled : string := "return call ValidateCompiledWithConfiguration, call DefaultReportConfiguration".
Definition sk_compile_profile : string := "call ProcessProfile; if err != nil { call CloseEventChan; return }; return".
Definition sk_pkg_validate : string := "return call Validate".
Definition sk_pkg_validate_compiled : string := "return call ValidateCompiled".
Definition sk_pkg_validate_with_configuration : string := "return call ValidateWithConfiguration".
Definition sk_pkg_validate_compiled_with_configuration : string := "return call ValidateCompiledWithConfiguration".
Definition sk_recover_as_error : string := "call recover; if r != nil { if isError {  } else { call Errorf } }".
Definition sk_close_event_chan : string := "if eventChan != nil { call close }".
Definition sk_dispatch_event : string := "if eventChan != nil { send }".
Definition sk_milestones : string := "call make; range *eventChan { switch { case e.ProfileParsingStart,e.InputDataParsingStart,e.InputDataNormalizationStart,e.RegoGenerationStart,e.RegoCompilationStart,e.OpaValidationStart,e.BuildReportStart:  | case e.ProfileParsingDone: send | case e.InputDataParsingDone: send | case e.InputDataNormalizationDone: send | case e.RegoGenerationDone: send | case e.RegoCompilationDone: send | case e.OpaValidationDone: send | case e.BuildReportDone: send } }; call close".
Definition sk_index : string := "call make; call make; if isMap {  }; range nodes { typeswitch { case string: if !ok { call make }; call append | case []any: range classes.([]any) { if !ok { call make }; call append } } }; call createLocationIndex; call make; range classIndex[""http://a.ml/vocabularies/document-source-maps#SourceMap""] { call handleSingleOrMultipleNodes; call addLexicalEntryFrom }; return".
Definition sk_add_lexical_entry : string := "if ok { call Location }".
Definition sk_create_location_index : string := "if len(sourceInformation) > 0 { call make; call handleSingleOrMultipleNodes; call addElementsOfLoc; return } else { return call make }".
Definition sk_add_elements_of_loc : string := "call handleSingleOrMultipleNodes".
Definition sk_handle_single_or_multiple : string := "typeswitch { case types.ObjectMap: call operation | case []any: range v { typeswitch { case types.ObjectMap: call operation } } | case default:  }".
Definition sk_location : string := "if exists { return } else { return }".
Definition sk_normalize : string := "call NewJsonLdProcessor; call NewJsonLdOptions; call make; call Flatten; if err != nil { call panic }; return".
