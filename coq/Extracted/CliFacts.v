(* GENERATED on every check run by `verifh facts` from the current /repo sources - do not edit. *)
From Coq Require Import List String Ascii ZArith.
Import ListNotations.
Open Scope string_scope.
Definition open_flags : list string := ["O_RDWR"; "O_TRUNC"].
Definition validate_nargs : list nat := [4; 5].
Definition generate_nargs : list nat := [3].
Definition normalize_nargs : list nat := [3].
Definition compile_nargs : list nat := [3].
