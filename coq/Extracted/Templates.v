(* GENERATED on every check run by `verifh facts` from the current /repo sources - do not edit. *)
From Coq Require Import List String Ascii ZArith.
Import ListNotations.
Open Scope string_scope.
Definition tpl_path_property : list string := ["%d"; "%s_%d"; "%s_%s"; "init_%s = data.sourceNode"; "init_%s"; "search_subjects[%s] with data.predicate as ""%s"" with data.object as %s"; "tmp_%s = nested_nodes with data.nodes as %s[""%s""]"; "%s = tmp_%s[_][_]"; "nodes_tmp = object.get(%s,""%s"",[])"; "nodes_tmp2 = nodes_array with data.nodes as nodes_tmp"; "%s = nodes_tmp2[_]"].
Definition tpl_path_aggregate : list string := ["nodes = %s"; "path_set_rule"; "%s[nodes] {"; "} {"; "  "; "}"; "path_array_rule"; "%s = [ nodes | "; "} {"; "  "; "]"].
Definition tpl_atom_count : list string := [">="; "<="; "=="; "propValues"; "%s_elem"; "#  querying path: "; "%s = %s with data.sourceNode as %s"; "%s = %s[_]"; "count(%s) %s %d"; "not count(%s) %s %d"; """negated"":%t,""condition"":""%s"",""actual"": count(%s),""expected"": %d"].
Definition tpl_atom_pattern : list string := ["#  querying path: "; "%s_node"; "%s_array = %s with data.sourceNode as %s"; "%s = %s_array[_]"; "regex.match(%s,%s)"; "not regex.match(%s,%s)"; "﻿"; "\ufeff"; "pattern"; """negated"":%t,""expected"": %s,""actual"": %s"; "`"; "﻿"; """"; """"; "`"; "`"].
Definition tpl_atom_contains_all : list string := ["%s_check"; "containsAll"; "#  querying path: "; "%s_array = %s with data.sourceNode as %s"; "count(%s_array) != 0 # validation applies if property was defined"; "%s_string_set = { mapped |
"; "    original := %s_array[_]
"; "    mapped := as_string(original)
}
"; "%s = %s"; "count(%s - %s_string_set) == 0"; "count(%s - %s_string_set) != 0"; "%s_quoted = [concat("""", [""\"""", res, ""\""""]) |  res := %s_string_set[_]]"; "%s_string = concat("""", [""["", concat("", "",%s_quoted), ""]""])"; """negated"":%t,""actual"": %s,""expected"": ""%s"""; "%s_string"].
Definition tpl_atom_in : list string := ["inValues"; "%s_check"; "#  querying path: "; "%s_array = %s with data.sourceNode as %s"; "%s_scalar = %s_array[_]"; "%s = as_string(%s_scalar)"; "%s = { %s}"; "%s[%s]"; "not %s[%s]"; """negated"":%t,""actual"": %s,""expected"": ""%s"""; """"; "'"].
Definition tpl_atom_contains_some : list string := ["%s_check"; "containsSome"; "#  querying path: "; "%s_array = %s with data.sourceNode as %s"; "count(%s_array) != 0 # validation applies if property was defined"; "%s_string_set = { mapped |
"; "    original := %s_array[_]
"; "    mapped := as_string(original)
}
"; "%s = %s"; "count(%s - %s_string_set) != count(%s)"; "count(%s - %s_string_set) == count(%s)"; "%s_quoted = [concat("""", [""\"""", res, ""\""""]) |  res := %s_string_set[_]]"; "%s_string = concat("""", [""["", concat("", "",%s_quoted), ""]""])"; """negated"":%t,""actual"": %s,""expected"": ""%s"""; "%s_string"].
Definition tpl_atom_numeric : list string := ["minimumInclusive"; ">="; "minimumExclusive"; ">"; "maximumExclusive"; "<"; "maximumInclusive"; "<="; "cannot generate unknown numeric constraint: %v"; "#  querying path: "; "numeric_comparison"; "%s_elem = %s with data.sourceNode as %s"; "%s = %s_elem[_]"; "%s %s %d"; "%s %s %f"; "not %s %s %d"; "not %s %s %f"; """negated"":%t,""condition"":""%s"",""expected"":%s,""actual"":%s"].
Definition tpl_atom_property_comparison : list string := ["#  querying path: "; "%sA"; "%ss = %s with data.sourceNode as %s"; "#  querying path: "; "%sB"; "%ss = %s with data.sourceNode as %s"; "%s = %ss[_]"; "%s = %ss[_]"; "%s %s %s"; "not %s %s %s"; """negated"":%t, ""condition"":""%s"",""expected"":%s, ""actual"":%s, ""altPath"": ""%s"""].
Definition tpl_atom_datatype : list string := ["#  querying path: "; "datatype_check"; "%s_elem = %s with data.sourceNode as %s"; "%s = %s_elem[_]"; "check_datatype(%s,""%s"")"; "not check_datatype(%s,""%s"")"; "datatype"; """negated"":%t,""actual"": %s,""expected"": ""%s"""].
Definition tpl_atom_unique_values : list string := ["#  querying path: "; "array_values"; "duplicates"; "%s = %s with data.sourceNode as %s"; "
  %s = { duplicate |
    array_value = %s[_]
    indices_for_value := [ idx | array_value == %s[idx]]
    count(indices_for_value) > 1
    duplicate = array_value
  }
"; "count(%s) > 0"; "not count(%s) > 0"; "uniqueValues"; """negated"":%t"].
Definition tpl_nested : list string := ["%ss"; "#  querying path: "; "%s = %s with data.sourceNode as %s"; "nested"; ""].
Definition tpl_expression : list string := ["nested expressions cannot be generated as a top level expression"; "expected expression or top-level expression, got %v"; "nested expressions not supported yet"; "expected expression or top-level expression, got %v"; "%s_errorAcc"; "%s0 = []"; "%s = %s%d"; "# let's accumulate results"; "%s_error_node_variables_agg"; " | "; "%s = %s"; ""; ""; "count(%s) == 0"; "count(%s) > 0"; "nested"; """negated"":%t, ""failedNodes"":count(%s), ""successfulNodes"":(count(%s)-count(%s)),""subResult"": %s"; "count(%s) - count(%s) %s"; "not count(%s) - count(%s) %s"; """negated"":%t, ""failedNodes"":count(%s), ""successfulNodes"":(count(%s)-count(%s)), ""cardinality"":%d, ""subResult"": %s"; "%s"; "%s_br_%d"; "%s_br_%d_errors"; "%s_error"; "%s_inner_error"; "%s = [ %s|"; "  %s = %s[_]"; "error in nested nodes under %s"; "nested"; "  %s = [%s[""@id""],%s]"; "]"; "%s = { nodeId | n = %s[_]; nodeId = n[0] }"; "%s_errors = [ node | n = %s[_]; node = n[1] ]"; "%s%d = array.concat(%s%d,%s_errors)"; "
"; "

"; "%s[matches] {"; "  "; "matches"; "}"; "
"; "

"; "# Path rules"; "# Constraint rules"; "

"; "_result_%d"; "  %s := trace(""%s"",""%s"",%s,%s)"; "rego"; "$message"; "$message"; "message"; "  "; "msg_var_%d"; "  %s := object.get(%s, ""%s"", ""null"")"; "  message_vars := [%s]"; ","; "  message := sprintf(""%s"", message_vars)"; "  message := ""%s"""; "  %s := error(""%s"",%s, message ,[%s])"; ","; """"; "'"].
Definition tpl_normalizer : list string := [""; "@graph"; "@id"; "@type"; "http://a.ml/vocabularies/document-source-maps#SourceMap"; "http://a.ml/vocabularies/document-source-maps#lexical"; "@ids"; "@types"; "@lexical"; "@id"; "http://a.ml/vocabularies/document-source-maps#element"; "http://a.ml/vocabularies/document-source-maps#value"; "range"; "uri"; "http://a.ml/vocabularies/document#BaseUnitSourceInformation"; "http://a.ml/vocabularies/document#rootLocation"; "http://a.ml/vocabularies/document#additionalLocations"; ""; "@id"; "http://a.ml/vocabularies/document#location"; "http://a.ml/vocabularies/document#elements"; "@id"].
Definition tpl_iri_expander : list string := ["@"; "^[a-zA-Z-0-9\-_]+\.[\.(\\/)a-zA-Z-0-9\-_]+$"; "IRI %s is not in compact form"; "."; "\/"; "/"; "Term %s not present in context"].
Definition tpl_quote : list string := ["\\"; "\"""; "\n"; "\r"; "\t"; "\u%04x"; "\ufeff"; """"; """"; ","; "set()"; "{ "; "}"; "["; "]"].
Definition tpl_quote_all_literals : list string := ["'\\'"; "`\\`"; "'""'"; "`\""`"; "'\n'"; "`\n`"; "'\r'"; "`\r`"; "'\t'"; "`\t`"; "0x20"; "0x7f"; "`\u%04x`"; "'\ufeff'"; "`\ufeff`"].
Definition tpl_message : list string := ["\{\{\s*([\w-]+\.[\w-]+)\s*}}"; "%"; "%%"; "%v"; "%"; "%%"].
Definition tpl_names : list string := ["package %s
"; "[^a-zA-Z0-9]+"; "_"; "profile_%s"; "report[""profile""] = ""%s"""].
Definition preamble_sha256 : string := "9cc3607a66284b61b0aec492dfedbd7b302ea5e6abae9eece6426f4e31ed04ad".
