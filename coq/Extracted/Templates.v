(* GENERATED on every check run by `verifh facts` from the current /repo sources - do not edit. *)
From Coq Require Import List String Ascii ZArith.
Import ListNotations.
Open Scope string_scope.
Definition tpl_path_property : list string := ["%d"; "%s_%d"; "%s_%s"; "init_%s = data.sourceNode"; "init_%s"; "search_subjects[%s] with data.predicate as ""%s"" with data.object as %s"; "tmp_%s = nested_nodes with data.nodes as %s[""%s""]"; "%s = tmp_%s[_][_]"; "nodes_tmp = object.get(%s,""%s"",[])"; "nodes_tmp2 = nodes_array with data.nodes as nodes_tmp"; "%s = nodes_tmp2[_]"].
Definition tpl_path_aggregate : list string := ["nodes = %s"; "path_set_rule"; "%s[nodes] {"; "} {"; "  "; "}"; "path_array_rule"; "%s = [ nodes | "; "} {"; "  "; "]"].
Definition preamble_sha256 : string := "9cc3607a66284b61b0aec492dfedbd7b302ea5e6abae9eece6426f4e31ed04ad".
