(* GENERATED on every check run by `verifh facts` from the current /repo sources - do not edit. *)
From Coq Require Import List String Ascii ZArith.
Import ListNotations.
Open Scope string_scope.
From ACV Require Import Model.Peg.
Definition extracted_grammar : grammar :=
  [ ("Expression", (PAct "Expression1" (PSeq [(PRef "Term"); (PStar (PSeq [(PRef "_"); (PLit "/"); (PRef "_"); (PRef "Term")]))])));
    ("Term", (PAct "Term1" (PSeq [(PRef "Factor"); (PStar (PSeq [(PRef "_"); (PLit "|"); (PRef "_"); (PRef "Factor")]))])));
    ("Factor", (PChoice [(PAct "Factor2" (PSeq [(PLit "("); (PRef "_"); (PRef "Expression"); (PRef "_"); (PLit ")")])); (PRef "Iri"); (PAct "Factor11" (PLit "@type"))]));
    ("Iri", (PAct "Iri1" (PSeq [(PPlus (PClass ["_"%char; "-"%char] [("a"%char, "z"%char); ("A"%char, "Z"%char); ("0"%char, "9"%char)])); (PLit "."); (PPlus (PClass ["."%char; "\"%char; "/"%char; "_"%char; "-"%char] [("a"%char, "z"%char); ("A"%char, "Z"%char); ("0"%char, "9"%char)])); (PRef "_"); (POpt (PClass [""""%char; "^"%char; """"%char; ","%char; """"%char; "*"%char; """"%char] []))])));
    ("_", (PStar (PClass [" "%char; "010"%char; "009"%char; "013"%char] []))) ].
Definition parse_path_anchored : bool := true.
Definition parse_path_returns_error : bool := true.
Definition trim_cutset : list Ascii.ascii := [" "%char; "010"%char; "009"%char; "013"%char].
