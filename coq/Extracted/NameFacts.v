(* GENERATED on every check run by `verifh facts` from the current /repo sources - do not edit. *)
From Coq Require Import List String Ascii ZArith.
Import ListNotations.
Open Scope string_scope.
Definition extracted_keywords : list string := ["as"; "contains"; "default"; "else"; "every"; "false"; "if"; "import"; "in"; "not"; "null"; "package"; "some"; "true"; "with"].
Definition extracted_letters : list string := ["x"; "y"; "z"; "p"; "q"; "r"; "s"; "t"; "u"; "v"; "w"; "b"; "c"; "d"; "e"; "f"; "g"; "h"; "i"; "j"; "k"; "l"; "m"; "o"].
Definition extracted_var_formats : list string := ["gen_%s_%d"; "X%d"].
