(* GENERATED on every check run by `verifh facts` from the current /repo sources - do not edit. *)
From Coq Require Import List String Ascii ZArith.
Import ListNotations.
Open Scope string_scope.
Definition package_level_vars : list string := ["internal/parser/profile/vargenerator.go:globalCounter"; "internal/validator/process_profile.go:unsafeBuiltinsMap"; "internal/validator/report_nodes.go:processingDataNode"; "internal/validator/contexts/contexts.go:ApiExtensionUri"; "internal/validator/contexts/contexts.go:DefaultAMFContext"].
Definition genreset_call_sites : list string := ["internal/validator/test_utils.go"].
Definition sk_genvar : string := "return call Sprintf, call AddInt64".
Definition sk_get_map_keys : string := "call Map; if err != nil { return }; call make; for { if pending { call append; call delete } }; return".
Definition sk_yaml_get : string := "if y.data != nil && y.data.Kind == yaml.MappingNode { for { if k.Kind == yaml.ScalarNode && k.Value == key { return } } }; return".
Definition parser_expression_key_order : list string := ["propertyConstraints"; "rego"; "regoModule"; "and"; "or"; "not"; "if"; "then"; "else"].
Definition parser_validation_key_order : list string := ["targetClass"; "message"].
Definition parser_constraint_key_order : list string := ["minCount"; "maxCount"; "exactCount"; "minLength"; "maxLength"; "exactLength"; "pattern"; "in"; "uniqueValues"; "containsAll"; "containsSome"; "lessThanProperty"; "lessThanOrEqualsToProperty"; "equalsToProperty"; "disjointWithProperty"; "moreThanProperty"; "moreThanOrEqualsToProperty"; "atLeast"; "atMost"; "exactly"; "minInclusive"; "minExclusive"; "maxInclusive"; "maxExclusive"; "datatype"; "nested"; "rego"; "regoModule"].
Definition parser_qualified_key_order : list string := ["count"; "validation"].
Definition parser_profile_key_order : list string := ["profile"; "description"; "rego_extensions"; "prefixes"; "validations"].
Definition parser_level_order : list string := ["violation"; "warning"; "info"].
Definition sk_iri_expander_from : string := "call make; call MergeObjectMap; range profile.Prefixes {  }; return".
Definition normalize_options : list string := ["NewJsonLdOptions("""")"; "Flatten(json, context, options)"].
