(* GENERATED on every check run by `verifh facts` from the current /repo sources - do not edit. *)
From Coq Require Import List String Ascii ZArith.
Import ListNotations.
Open Scope string_scope.
Definition conforms_expr : string := "len(violations) == 0".
Definition build_results_loops : list string := ["violations"; "violation"; "violation_"; "warnings"; "warning"; "warning_"; "infos"; "info"; "info_"].
Definition build_validation_strings : list string := ["resultSeverity"; "http://www.w3.org/ns/shacl#"].
Definition define_id_formats : list string := ["@type"; "@id"; "%s_%s"; "%s_%d"].
Definition report_node_conditions : list string := ["reportConfig.IncludeReportCreationTime"; "dateCreated"; "len(results) != 0"; "result"].
Definition date_created_expr : string := "validationConfig.ReportCreationTime().Format(time.RFC3339)".
Definition context_condition : string := "emptyReport".
Definition report_node_strings : list string := ["reportSchema:ReportNode"; "shacl:ValidationReport"; "@id"; "validation-report"; "@type"; "profileName"; "conforms"; "dateCreated"; "result"].
Definition dialect_instance_strings : list string := ["@context"; "@id"; "dialect-instance"; "@type"; "meta:DialectInstance"; "doc:Document"; "doc:Fragment"; "doc:Module"; "doc:Unit"; "doc:encodes"; "doc:processingData"].
