
(** val fold_left : ('a1 -> 'a2 -> 'a1) -> 'a2 list -> 'a1 -> 'a1 **)

let rec fold_left f l a0 =
  match l with
  | [] -> a0
  | b :: t -> fold_left f t (f a0 b)
