open Datatypes

(** val sdrop : nat -> char list -> char list **)

let rec sdrop n s =
  match n with
  | O -> s
  | S n' -> (match s with
             | [] -> []
             | _::s' -> sdrop n' s')
