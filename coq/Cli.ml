open Ascii
open Datatypes
open List
open PeanoNat
open String
open Strs

type fcell =
| Absent
| Dir
| File of bool * char list

type lib_out =
| LibOk of char list
| LibErr

type exitc =
| Exit0
| Exit1
| Exit2

type outcome = { o_stdout : char list; o_exit : exitc; o_cell : fcell }

type command =
| CValidate
| CGenerate
| CNormalize
| CCompile
| CHelp
| COther

(** val nargs_ok : command -> nat -> bool **)

let nargs_ok c nargs =
  match c with
  | CValidate ->
    (||) (Nat.eqb nargs (S (S (S (S O)))))
      (Nat.eqb nargs (S (S (S (S (S O))))))
  | CHelp -> true
  | COther -> true
  | _ -> Nat.eqb nargs (S (S (S O)))

(** val write_at0 : char list -> char list -> char list **)

let write_at0 old new0 =
  append new0 (sdrop (length new0) old)

(** val open_write : bool -> fcell -> char list -> fcell option **)

let open_write trunc c text =
  match c with
  | Absent -> Some (File (true, text))
  | Dir -> None
  | File (writable, old) ->
    if writable
    then Some (File (true, (write_at0 (if trunc then [] else old) text)))
    else None

(** val newline : char list **)

let newline =
  (ascii_of_nat (S (S (S (S (S (S (S (S (S (S O)))))))))))::[]

(** val println : char list -> char list **)

let println s =
  append s newline

(** val run :
    bool -> command -> nat -> bool -> lib_out -> fcell -> outcome **)

let run trunc c nargs inputs_readable lib cell =
  let fail = fun x -> { o_stdout = []; o_exit = x; o_cell = cell } in
  (match c with
   | CHelp ->
     { o_stdout = ('<'::('h'::('e'::('l'::('p'::('>'::[])))))); o_exit =
       Exit0; o_cell = cell }
   | COther -> fail Exit1
   | _ ->
     if negb (nargs_ok c nargs)
     then fail Exit1
     else if negb inputs_readable
          then fail Exit2
          else (match lib with
                | LibOk text ->
                  (match c with
                   | CValidate ->
                     if Nat.eqb nargs (S (S (S (S O))))
                     then { o_stdout = (println text); o_exit = Exit0;
                            o_cell = cell }
                     else (match open_write trunc cell text with
                           | Some cell' ->
                             { o_stdout = []; o_exit = Exit0; o_cell = cell' }
                           | None -> fail Exit2)
                   | CCompile ->
                     { o_stdout =
                       (println
                         ('C'::('o'::('m'::('p'::('i'::('l'::('e'::(' '::('S'::('u'::('c'::('c'::('e'::('s'::('s'::('!'::[])))))))))))))))));
                       o_exit = Exit0; o_cell = cell }
                   | _ ->
                     { o_stdout = (println text); o_exit = Exit0; o_cell =
                       cell })
                | LibErr -> fail Exit2))

(** val run_file : bool -> fcell -> lib_out -> fcell **)

let run_file trunc cell lib =
  (run trunc CValidate (S (S (S (S (S O))))) true lib cell).o_cell

(** val run_history : bool -> fcell -> lib_out list -> fcell **)

let run_history trunc cell libs =
  fold_left (run_file trunc) libs cell

(** val last_ok : lib_out list -> char list option -> char list option **)

let rec last_ok libs dflt =
  match libs with
  | [] -> dflt
  | l :: r ->
    (match l with
     | LibOk t -> last_ok r (Some t)
     | LibErr -> last_ok r dflt)
