open BinNums
open Datatypes

module Pos =
 struct
  (** val succ : positive -> positive **)

  let rec succ = function
  | Coq_xI p -> Coq_xO (succ p)
  | Coq_xO p -> Coq_xI p
  | Coq_xH -> Coq_xO Coq_xH

  (** val of_succ_nat : nat -> positive **)

  let rec of_succ_nat = function
  | O -> Coq_xH
  | S x -> succ (of_succ_nat x)
 end
