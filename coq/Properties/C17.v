(* C17 - entry points return a report or an error for any input; they never panic.
   Statements only; proofs in Proofs/PipelineProofs.v, Proofs/PegProofs.v. *)
From ACV Require Import Base.Strs Model.Peg Model.PathGrammar Proofs.PathProofs Extracted.PegGrammar.
From ACV Require Import Model.Pipeline Model.PipelineRef Proofs.PipelineProofs Extracted.PipelineFacts.

Theorem C17_tie_recover :
  sk_generate_rego = ref_sk_generate_rego /\ sk_process_input = ref_sk_process_input /\ sk_process_result = ref_sk_process_result
  /\ sk_recover_as_error = ref_sk_recover_as_error.
Proof. vm_compute. repeat split. Qed.
Theorem C17_tie_unrecovered_stages : sk_compile_rego = ref_sk_compile_rego /\ sk_execute_validation = ref_sk_execute_validation.
Proof. vm_compute. split; reflexivity. Qed.
Theorem C17_tie_parse_path_error : parse_path_returns_error = true.
Proof. vm_compute. reflexivity. Qed.

(* whatever the profile parser, the generator, the JSON decoder, JSON-LD processing and the report builder do
   - return, fail or panic - no entry point lets a panic escape; premise: the policy engine's compile and eval
   calls, which run without a recover around them, do not panic themselves *)
Theorem C17_total : forall e f, engine_total f = true -> snd (run_entry as_coded e f) <> KEscaped.
Proof. exact never_escapes. Qed.
(* ... and that premise is the only way out *)
Theorem C17_escapes_only_from_engine : forall e f, snd (run_entry as_coded e f) = KEscaped -> engine_total f = false.
Proof. exact escapes_only_from_engine. Qed.
(* the call also never leaves the channel open (a consumer ranging over it does not block) *)
Theorem C17_never_blocks_consumer : forall e f, engine_total f = true -> e <> ECompileProfile ->
  closes (fst (run_entry as_coded e f)) = 1 /\ last_is_close (fst (run_entry as_coded e f)) = true.
Proof. exact closed_exactly_once. Qed.
Theorem C17_refuted_without_recover :
  let f := {| f_parse := OOk; f_generate := OPanic; f_compile := OOk; f_decode := OOk; f_normalize := OOk; f_eval := OOk; f_build := OOk |} in
  engine_total f = true /\ snd (run_entry no_recover EValidate f) = KEscaped /\ closes (fst (run_entry no_recover EValidate f)) = 0.
Proof. exact refuted_without_recover. Qed.
(* the owned parser is total: every string is accepted, rejected, or (fuel) exhausted - never stuck - and an
   answer does not change with more fuel (soundness of the interpreter); see C16 *)
Theorem C17_parse_path_total : forall fuel s, exists r, parse_path_with true fuel s = r.
Proof. intros. eexists. reflexivity. Qed.

Print Assumptions C17_tie_recover.
Print Assumptions C17_tie_unrecovered_stages.
Print Assumptions C17_tie_parse_path_error.
Print Assumptions C17_total.
Print Assumptions C17_escapes_only_from_engine.
Print Assumptions C17_never_blocks_consumer.
Print Assumptions C17_refuted_without_recover.
Print Assumptions C17_parse_path_total.
