(* C04 - unreadable data yields an error, never a verdict.  Statements only; proofs in Proofs/PipelineProofs.v. *)
From ACV Require Import Base.Strs Model.Pipeline Model.PipelineRef Proofs.PipelineProofs Extracted.PipelineFacts.

(* ties: ProcessInput returns the decode error before anything else happens, recovers a JSON-LD rejection into
   an error; the exported functions return on that error without evaluating *)
Theorem C04_tie_process_input : sk_process_input = ref_sk_process_input /\ sk_recover_as_error = ref_sk_recover_as_error.
Proof. vm_compute. split; reflexivity. Qed.
Theorem C04_tie_entry_points :
  sk_validate_compiled_with_configuration = ref_sk_validate_compiled_with_configuration
  /\ sk_validate_with_configuration = ref_sk_validate_with_configuration
  /\ sk_validate = ref_sk_validate /\ sk_validate_compiled = ref_sk_validate_compiled
  /\ sk_pkg_validate = ref_sk_pkg_validate /\ sk_pkg_validate_compiled = ref_sk_pkg_validate_compiled
  /\ sk_pkg_validate_with_configuration = ref_sk_pkg_validate_with_configuration
  /\ sk_pkg_validate_compiled_with_configuration = ref_sk_pkg_validate_compiled_with_configuration.
Proof. vm_compute. repeat split. Qed.

(* every fault assignment: data that cannot be decoded or normalised never produces a value from a validating
   entry point, whatever the other stages do *)
Theorem C04_no_report : forall e f, validating e = true -> data_unreadable f = true -> snd (run_entry as_coded e f) <> KValue.
Proof. exact unreadable_data_no_report. Qed.
(* function level: for all stage oracles, profile texts, compiled profiles, documents and configurations *)
Theorem C04_validate_compiled : forall (Data Q J I R Cfg : Type) (decode : Data -> outcome J) (normalize : J -> outcome I)
    (eval : Q -> I -> outcome R) (build : R -> Cfg -> outcome string) q d c,
  (forall j, decode d <> Ok j) \/ (exists j, decode d = Ok j /\ forall i, normalize j <> Ok i) ->
  forall s, snd (validate_compiled_fn decode normalize eval build as_coded q d c) <> Report s.
Proof. exact C04_compiled. Qed.
Theorem C04_validate : forall (Text Data P M Q J I R Cfg : Type) (parse : Text -> outcome P) (generate : P -> outcome M) (compile : M -> outcome Q)
    (decode : Data -> outcome J) (normalize : J -> outcome I) (eval : Q -> I -> outcome R) (build : R -> Cfg -> outcome string) t d c,
  (forall j, decode d <> Ok j) \/ (exists j, decode d = Ok j /\ forall i, normalize j <> Ok i) ->
  forall s, snd (validate_fn parse generate compile decode normalize eval build as_coded t d c) <> Report s.
Proof. exact C04_text. Qed.
(* the decode error is returned as an error value and the channel is closed: the call does not go on *)
Example C04_example :
  let f := {| f_parse := OOk; f_generate := OOk; f_compile := OOk; f_decode := OErr; f_normalize := OOk; f_eval := OOk; f_build := OOk |} in
  run_entry as_coded EValidateCompiled f = ([Send (Start InputDataParsing); Close], KError).
Proof. vm_compute. reflexivity. Qed.

Print Assumptions C04_tie_process_input.
Print Assumptions C04_tie_entry_points.
Print Assumptions C04_no_report.
Print Assumptions C04_validate_compiled.
Print Assumptions C04_validate.
