(* C01 - reported nodes are exactly the target nodes that fail the constraint formula.
   Statements only; proofs in Proofs/DnfProofs.v (failure DNF), Proofs/DnfFuel.v (termination of
   Dispatch), Proofs/RulesProofs.v (parser, classical reading, spelling).
   [model_reported g fuel f n] = what the generated policy reports for formula f at node n: the profile
   parser's rule (negation pushed to the leaves by Negate()), Dispatch/GenerateAnd/GenerateOr/
   expandBranches/GenerateConditional/nested as coded, each atom's positive/negated Rego snippet read
   as Rules.Fpos/Fneg over the values the path model of C02 yields.  [csat] is the classical reading
   C01 states. *)
From Coq Require Import Permutation.
From ACV Require Import Base.Strs Model.Graph Model.PathGrammar Model.PathSem Model.Dnf Model.Rules Model.TemplatesRef.
From ACV Require Import Proofs.DnfProofs Proofs.DnfFuel Proofs.RulesProofs Extracted.Templates.
From ACV Require Import Model.Report Model.Engine Model.Yaml Model.ProfileParser Proofs.TextSemantics.
From ACV Require Import Model.DnfSorted Model.Compile Proofs.DnfSortedProofs Proofs.CompileProofs.

(* ties: the snippets whose meaning Rules.Fpos / Rules.Fneg / Dnf.fires transcribe *)
Theorem C01_tie_atom_templates :
  tpl_atom_count = ref_atom_count /\ tpl_atom_pattern = ref_atom_pattern /\ tpl_atom_in = ref_atom_in
  /\ tpl_atom_contains_all = ref_atom_contains_all /\ tpl_atom_contains_some = ref_atom_contains_some
  /\ tpl_atom_numeric = ref_atom_numeric /\ tpl_atom_property_comparison = ref_atom_property_comparison
  /\ tpl_atom_datatype = ref_atom_datatype.
Proof. vm_compute. repeat split. Qed.
Theorem C01_tie_nested_templates : tpl_nested = ref_nested /\ tpl_expression = ref_expression.
Proof. vm_compute. repeat split. Qed.
Theorem C01_tie_preamble : preamble_sha256 = ref_preamble_sha256.
Proof. vm_compute. reflexivity. Qed.

(* Dispatch terminates: the fuel the model uses always suffices, for every rule *)
Theorem C01_dispatch_terminates : forall (A P : Type) fuel (r : rule A P), mu r < fuel -> disp fuel r <> None.
Proof. exact fuel_enough. Qed.

(* literal level, no hypothesis on atoms: a node is reported iff the two-polarity reading fails *)
Theorem C01_literal : forall g f n, wf_form f = true ->
  model_reported g (disp_fuel f) f n = Some (negb (lsat g true f n)).
Proof. exact reported_literal. Qed.

(* the property: reported iff target instance and the CLASSICAL formula is not satisfied - and/or/not/
   if-then-else classical, nested = all reached nodes satisfy, atLeast/atMost count those that do -
   wherever the atoms met under negation have complementary snippets (always true of counts and of the
   quantifiers themselves; the complement of this hypothesis is the recorded defect class D2) *)
Theorem C01_classical : forall g f n, wf_form f = true -> compl_ok g true f n = true ->
  model_reported g (disp_fuel f) f n = Some (negb (csat g f n)).
Proof. exact reported_classical. Qed.
Theorem C01_iff : forall g cls f n, wf_form f = true -> compl_ok g true f (nid n) = true ->
  (validation_reports g cls f n = true <-> (has_type n cls = true /\ csat g f (nid n) = false)).
Proof. exact validation_reports_iff. Qed.
Theorem C01_results : forall g cls f, wf_form f = true ->
  forall n, In n (validation_results g cls f) <-> (In n g /\ has_type n cls = true /\ lsat g true f (nid n) = false).
Proof. exact results_exactly. Qed.
(* ... and from the profile TEXT: for a YAML tree the parser model accepts, the verdict holds (level, validation, focus,
   message) exactly for the listed validations and the instances of their target class on which the parsed formula fails
   - the classical formula where the complementarity condition holds *)
Theorem C01_from_text : forall defaults doc g v, verdict defaults doc g = POk v ->
  exists p, parse_profile defaults doc = POk p /\
  forall l nm fo msg,
    In (l, nm, fo, msg) v <->
    exists d n, In (l, nm) (p_listed p) /\ find_def p nm = Some d /\ msg = v_msg d /\
                In n g /\ nid n = fo /\ has_type n (v_class d) = true /\ lsat g true (v_form d) fo = false.
Proof. exact verdict_from_text. Qed.
Theorem C01_from_text_classical : forall defaults doc g v, verdict defaults doc g = POk v ->
  exists p, parse_profile defaults doc = POk p /\
  forall l nm fo d, In (l, nm) (p_listed p) -> find_def p nm = Some d -> compl_ok g true (v_form d) fo = true ->
    (In (l, nm, fo, v_msg d) v <->
     exists n, In n g /\ nid n = fo /\ has_type n (v_class d) = true /\ csat g (v_form d) fo = false).
Proof. exact verdict_from_text_classical. Qed.

Theorem C01_counts_complementary : forall g q p k n, atom_compl g (ACount q p k) n = true.
Proof. exact count_complementary. Qed.

(* the verdict depends only on what the formula means *)
Theorem C01_spelling : forall g f f' n,
  wf_form f = true -> wf_form f' = true -> compl_ok g true f n = true -> compl_ok g true f' n = true ->
  csat g f n = csat g f' n -> model_reported g (disp_fuel f) f n = model_reported g (disp_fuel f') f' n.
Proof. exact same_meaning_same_verdict. Qed.
Theorem C01_rewritings : forall g n,
  (forall l l', Permutation l l' -> csat g (FAnd l) n = csat g (FAnd l') n)
  /\ (forall l l', Permutation l l' -> csat g (FOr l) n = csat g (FOr l') n)
  /\ (forall l1 l2 l3, csat g (FAnd (l1 ++ FAnd l2 :: l3)) n = csat g (FAnd (l1 ++ l2 ++ l3)) n)
  /\ (forall l1 l2 l3, csat g (FOr (l1 ++ FOr l2 :: l3)) n = csat g (FOr (l1 ++ l2 ++ l3)) n)
  /\ (forall f, csat g (FNot (FNot f)) n = csat g f n)
  /\ (forall l, csat g (FNot (FAnd l)) n = csat g (FOr (map FNot l)) n)
  /\ (forall l, csat g (FNot (FOr l)) n = csat g (FAnd (map FNot l)) n)
  /\ (forall i t, csat g (FIf i t None) n = csat g (FOr [FNot i; t]) n)
  /\ (forall i t e, csat g (FIf i t (Some e)) n = csat g (FAnd [FOr [FNot i; t]; FOr [i; e]]) n)
  /\ (forall q p f f', (forall c, csat g f c = csat g f' c) -> csat g (FNested q p f) n = csat g (FNested q p f') n).
Proof.
  intros g n. repeat split; intros.
  - now apply csat_perm_and. - now apply csat_perm_or. - apply csat_flatten_and. - apply csat_flatten_or.
  - apply csat_double_negation. - apply csat_de_morgan_and. - apply csat_de_morgan_or.
  - apply csat_if_then. - apply csat_if_then_else. - now apply csat_nested_ext.
Qed.

(* without the hypothesis the classical statement is false of the faithful model: known finding *)
Theorem C01_classical_refuted_D2 :
  wf_form d2_form = true
  /\ model_reported d2_graph (disp_fuel d2_form) d2_form "n0" = Some false
  /\ csat d2_graph d2_form "n0" = false
  /\ compl_ok d2_graph true d2_form "n0" = false.
Proof. exact classical_refuted_d2. Qed.

(* The TEXT of the module (Model/Compile.v, compared byte for byte with generator.Generate in the C07 run): the branches the
   text generator wraps into rules are, rule for rule, those of the failure DNF under the operand order of the Go code - a
   permutation - so for every reading of the atoms and every value of the name counter they report exactly the nodes at which
   the rule's literal-level reading is false. *)
Theorem C01_operand_sort_only_permutes : forall l : list crule, Permutation (sort_rules l) l.
Proof. exact sort_rules_perm. Qed.
Theorem C01_text_is_generated_from_the_failure_dnf : forall fuel r c,
  match gen fuel r c with
  | Some (ts, _) => dispS sort_rules fuel r = Some (abs_ts ts)
  | None => dispS sort_rules fuel r = None
  end.
Proof. exact gen_abs. Qed.
Theorem C01_sorted_dnf_meets_the_specification : forall (A N P : Type) Fpos Fneg children (srt : list (rule A P) -> list (rule A P)),
  (forall l, Permutation (srt l) l) ->
  forall fuel r gs, okg r -> dispS srt fuel r = Some gs -> good (N:=N) Fpos Fneg children r gs.
Proof. exact mainS. Qed.
Theorem C01_text_branches_report_the_failing_nodes : forall (N : Type) Fpos Fneg children fuel r c ts c',
  okg r -> gen fuel r c = Some (ts, c') ->
  forall n : N, reported Fpos Fneg children (abs_ts ts) n = negb (rs Fpos Fneg children true r n).
Proof. exact gen_meaning. Qed.

(* non-vacuity: a negated if/then/else over counts inside a nested constraint, on a concrete graph *)
Definition ex_g : graph :=
  [ {| nid := "n0"; nprops := [("@type", [VStr "T"]); ("c", [VRef "n1"; VRef "n2"])] |};
    {| nid := "n1"; nprops := [("a", [VStr "x"])] |};
    {| nid := "n2"; nprops := [("b", [VStr "y"])] |} ].
Definition ex_f : form :=
  FAnd [FNested (QAtLeast 1) (Pred "c" false false)
     (FNot (FIf (FAnd [FAtom (ACount CMin (Pred "a" false false) 1)])
                (FAnd [FAtom (ACount CMin (Pred "b" false false) 1)])
                (Some (FAnd [FAtom (ACount CMax (Pred "b" false false) 0)]))))].
Example C01_example :
  wf_form ex_f = true /\ compl_ok ex_g true ex_f "n0" = true
  /\ model_reported ex_g (disp_fuel ex_f) ex_f "n0" = Some false /\ csat ex_g ex_f "n0" = true.
Proof. vm_compute. repeat split. Qed.

Print Assumptions C01_tie_atom_templates.
Print Assumptions C01_tie_nested_templates.
Print Assumptions C01_tie_preamble.
Print Assumptions C01_dispatch_terminates.
Print Assumptions C01_literal.
Print Assumptions C01_classical.
Print Assumptions C01_iff.
Print Assumptions C01_results.
Print Assumptions C01_from_text.
Print Assumptions C01_from_text_classical.
Print Assumptions C01_operand_sort_only_permutes.
Print Assumptions C01_text_is_generated_from_the_failure_dnf.
Print Assumptions C01_sorted_dnf_meets_the_specification.
Print Assumptions C01_text_branches_report_the_failing_nodes.
Print Assumptions C01_counts_complementary.
Print Assumptions C01_spelling.
Print Assumptions C01_rewritings.
Print Assumptions C01_classical_refuted_D2.
