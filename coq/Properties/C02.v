(* C02 - property paths denote composition, union and converse of graph edges.
   Statements only; proofs in Proofs/PathSemProofs.v (and Proofs/PathProofs.v for the grammar side).
   [model_values g p fetch n] is what the generated policy computes for path p from node n: the clauses
   of path.go's traverse* (PathSem.trav), each run from the focus node, united by the partial set rule.
   [den g p n] is the denotation C02 states. *)
From ACV Require Import Base.Strs Model.Graph Model.Peg Model.PathGrammar Model.PathSem Model.TemplatesRef.
From ACV Require Import Proofs.PathSemProofs Extracted.Templates.
From ACV Require Import Model.PathGen.

(* ties: the Rego templates of a path step and of the clause aggregation, and the preamble they call,
   are the ones the model transcribes *)
Theorem C02_tie_step_templates : tpl_path_property = ref_path_property.
Proof. vm_compute. reflexivity. Qed.
Theorem C02_tie_aggregate_templates : tpl_path_aggregate = ref_path_aggregate.
Proof. vm_compute. reflexivity. Qed.
Theorem C02_tie_preamble : preamble_sha256 = ref_preamble_sha256.
Proof. vm_compute. reflexivity. Qed.

(* the values a constraint is applied to are exactly the denotation (a node being its id however reached) *)
Theorem C02_values : forall g p n a, In a (map erase (model_values g p false n)) <-> In a (den g p n).
Proof. exact values_denote. Qed.
(* ... and they form a set: a value reachable by several routes is one value *)
Theorem C02_set : forall g p fetch n, NoDup (model_values g p fetch n).
Proof. exact values_are_a_set. Qed.
(* what string/set constraints see *)
Theorem C02_strings : forall g p n s, In s (model_strings g p n) <-> In s (spec_strings g p n).
Proof. exact strings_denote. Qed.
(* the nodes nested / atLeast / atMost range over: the nodes of the graph in the denotation *)
Theorem C02_nested_nodes : forall g p n x, In x (model_nodes g p n) <-> In x (spec_nodes g p n).
Proof. exact nested_nodes_denote. Qed.
Theorem C02_nodes : forall g p n x,
  In (RNode x) (model_values g p true n) <-> (In (ARef x) (den g p n) /\ in_graph g x = true).
Proof. exact nodes_denote. Qed.
(* counting constraints: the number of distinct values is the size of the denotation, outside the
   recorded defect class (one node reached by a forward AND by an inverse final step) *)
Theorem C02_count_partial : forall g p n,
  mixed_final (model_values g p false n) = false -> model_count g p n = spec_count g p n.
Proof. exact count_denotes. Qed.
(* the full statement (no hypothesis) is false of the faithful model: known finding mixed-final-step-dup *)
Theorem C02_count_refuted :
  model_count d4_graph d4_path "n0" = 2 /\ spec_count d4_graph d4_path "n0" = 1
  /\ mixed_final (model_values d4_graph d4_path false "n0") = true.
Proof. exact count_refuted_mixed. Qed.

(* composition, union, converse and @type, spelled out on the denotation *)
Theorem C02_den_equations : forall g n iri tr p q,
  den g (Pred iri false tr) n = match find_node g n with Some nd => map abs (props nd iri) | None => [] end
  /\ den g (Pred iri true tr) n = match find_node g n with Some _ => map (fun m => ARef (nid m)) (subjects g iri n) | None => [] end
  /\ den g (Or [p; q]) n = (den g p n ++ den g q n ++ [])%list
  /\ den g (And [p; q]) n = flat_map (fun a => match a with ARef x => if in_graph g x then den g q x else [] | ALit _ => [] end) (den g p n).
Proof.
  intros. repeat split; simpl; unfold den_step; destruct (find_node g n); reflexivity.
Qed.

(* `|` binds tighter than `/`, parentheses override: the structure ParsePath hands to the generator *)
Theorem C02_precedence :
  let a := Pred "ex.a" false false in let b := Pred "ex.b" false false in let c := Pred "ex.c" false false in
  parse_path "ex.a / ex.b | ex.c" = Accept (And [a; Or [b; c]])
  /\ parse_path "ex.a | ex.b / ex.c" = Accept (And [Or [a; b]; c])
  /\ parse_path "(ex.a / ex.b) | ex.c" = Accept (Or [And [a; b]; c])
  /\ parse_path "ex.a / ex.b^" = Accept (And [a; Pred "ex.b" true false])
  /\ parse_path "@type" = Accept (Pred "@type" false false).
Proof. vm_compute. repeat split. Qed.

(* non-vacuity: a concrete graph with a cycle, a shared child, a literal and a dangling link mid-path *)
Definition ex_graph : graph :=
  [ {| nid := "n0"; nprops := [("@type", [VStr "T"]); ("a", [VRef "n1"; VRef "n2"; VStr "lit"; VRef "gone"]); ("b", [VRef "n0"])] |};
    {| nid := "n1"; nprops := [("a", [VRef "n3"]); ("b", [VInt 7])] |};
    {| nid := "n2"; nprops := [("a", [VRef "n3"; VRef "n0"])] |};
    {| nid := "n3"; nprops := [("b", [VStr "x"; VStr "y"])] |} ].
Example C02_example :
  model_strings ex_graph (And [Pred "a" false false; Or [Pred "a" false false; Pred "b" true false]]) "n0" = ["n3"; "n0"]
  /\ model_count ex_graph (And [Pred "a" false false; Pred "a" false false]) "n0" = 2
  /\ model_strings ex_graph (Pred "@type" false false) "n0" = ["T"].
Proof. vm_compute. repeat split. Qed.

(* the link between the generated TEXT and the traversal the theorems above are about: the clauses of a path rule are the
   clauses of PathSem.trav, statement by statement (by definition of the text model, which the run compares with the real
   module line by line) *)
Theorem C02_generated_clauses_follow_the_traversal : forall p fetch v,
  path_rule_lines p fetch v = map (fun c => map render (emit v c 0 "")) (trav p fetch []).
Proof. intros. unfold path_rule_lines, path_clauses. now rewrite map_map. Qed.

Print Assumptions C02_tie_step_templates.
Print Assumptions C02_tie_aggregate_templates.
Print Assumptions C02_tie_preamble.
Print Assumptions C02_values.
Print Assumptions C02_set.
Print Assumptions C02_strings.
Print Assumptions C02_nested_nodes.
Print Assumptions C02_nodes.
Print Assumptions C02_count_partial.
Print Assumptions C02_count_refuted.
Print Assumptions C02_den_equations.
Print Assumptions C02_precedence.
Print Assumptions C02_generated_clauses_follow_the_traversal.
