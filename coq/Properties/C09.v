(* C09 - a precompiled profile is equivalent to its source and is reusable.
   Statements only; proofs in Proofs/PipelineProofs.v.  For all stage oracles (functions of their inputs). *)
From ACV Require Import Base.Strs Model.Pipeline Model.PipelineRef Proofs.PipelineProofs Extracted.PipelineFacts.
From ACV Require Model.Interleave Proofs.InterleaveProofs.
Local Open Scope list_scope.

(* ties: validating from text IS compiling and then validating with the compiled profile *)
Theorem C09_tie_validate_is_compile_then_validate :
  sk_validate_with_configuration = ref_sk_validate_with_configuration /\ sk_compile_profile = ref_sk_compile_profile
  /\ sk_process_profile = ref_sk_process_profile /\ sk_validate = ref_sk_validate /\ sk_validate_compiled = ref_sk_validate_compiled.
Proof. vm_compute. repeat split. Qed.

Section C09.
Variables (Text Data P M Q J I R Cfg : Type).
Variable parse : Text -> outcome P.
Variable generate : P -> outcome M.
Variable compile : M -> outcome Q.
Variable decode : Data -> outcome J.
Variable normalize : J -> outcome I.
Variable eval : Q -> I -> outcome R.
Variable build : R -> Cfg -> outcome string.

Theorem C09_equiv : forall rc t q d c, compiled_of parse generate compile t = Ok q ->
  snd (validate_fn parse generate compile decode normalize eval build rc t d c)
  = snd (validate_compiled_fn decode normalize eval build rc q d c).
Proof. intros. now apply C09_equiv_result. Qed.
Theorem C09_events : forall rc t q d c, compiled_of parse generate compile t = Ok q ->
  fst (validate_fn parse generate compile decode normalize eval build rc t d c)
  = map Send profile_order ++ fst (validate_compiled_fn decode normalize eval build rc q d c).
Proof. intros. now apply C09_equiv_trace. Qed.
(* any sequence of documents through one compiled profile: each result is the fresh one *)
Theorem C09_reusable : forall rc t q c (h : list Data), compiled_of parse generate compile t = Ok q ->
  run_history decode normalize eval build rc q c h
  = map (fun d => snd (validate_fn parse generate compile decode normalize eval build rc t d c)) h.
Proof. intros. now apply C09_history. Qed.
Theorem C09_position_irrelevant : forall rc q c (h1 h2 : list Data) d,
  nth_error (run_history decode normalize eval build rc q c (h1 ++ d :: h2)) (List.length h1)
  = Some (snd (validate_compiled_fn decode normalize eval build rc q d c)).
Proof. intros. apply C09_history_prefix_irrelevant. Qed.
End C09.

(* the heap-level reading (Model/Interleave.v): the calls of a history made one after the other, each a program of steps over
   ITS OWN state (what the classification of the package-level variables, C10_tie_globals, says of the real calls) - whatever the
   earlier calls did, call number i ends in the state it reaches by itself; and the same for every interleaving of the calls, not
   only the sequential one *)
Module I := Interleave.
Module IP := InterleaveProofs.
Theorem C09_history_call_as_alone : forall (P : Type) (calls : list (list (I.op P))) (w : I.world P) i,
  IP.no_gen P (nth i calls []) = true ->
  I.priv (I.run w (IP.history P calls)) i = I.alone (I.priv w i) (nth i calls []) [].
Proof. exact IP.history_call_as_alone. Qed.
Theorem C09_any_interleaving_call_as_alone : forall (P : Type) (s : I.schedule P) (w : I.world P) t,
  IP.no_gen P (I.program_of t s) = true -> I.priv (I.run w s) t = I.alone (I.priv w t) (I.program_of t s) [].
Proof. exact IP.validation_noninterference. Qed.

Print Assumptions C09_tie_validate_is_compile_then_validate.
Print Assumptions C09_equiv.
Print Assumptions C09_events.
Print Assumptions C09_reusable.
Print Assumptions C09_position_irrelevant.
Print Assumptions C09_history_call_as_alone.
Print Assumptions C09_any_interleaving_call_as_alone.
