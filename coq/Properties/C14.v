(* C14 - result locations reproduce the input's lexical source maps.
   Statements only; proofs in Proofs/LexicalProofs.v.  [result_location inp id] is the location (uri and
   the four numbers) that error() / trace() attach to a result / trace about node id for the lexical input
   inp (source maps, source information), None = the location-free variant. *)
From Coq Require Import NArith.
From ACV Require Import Base.Strs Model.Lexical Model.TemplatesRef Model.PipelineRef Proofs.LexicalProofs Extracted.Templates Extracted.PipelineFacts.

(* ties: how Index builds @lexical and the location index, and the preamble (location(), error(), trace()) *)
Theorem C14_tie_index :
  sk_index = ref_sk_index /\ sk_add_lexical_entry = ref_sk_add_lexical_entry /\ sk_create_location_index = ref_sk_create_location_index
  /\ sk_add_elements_of_loc = ref_sk_add_elements_of_loc /\ sk_handle_single_or_multiple = ref_sk_handle_single_or_multiple
  /\ sk_location = ref_sk_location /\ tpl_normalizer = ref_normalizer.
Proof. vm_compute. repeat split. Qed.
Theorem C14_tie_preamble : preamble_sha256 = ref_preamble_sha256.
Proof. vm_compute. reflexivity. Qed.

(* the four numbers of a recorded range are read back exactly, whatever their magnitude *)
Theorem C14_extract4_render : forall l1 c1 l2 c2 : N, extract4 (render_range l1 c1 l2 c2) = Some (l1, c1, l2, c2).
Proof. exact extract4_render. Qed.
Theorem C14_range : forall inp id e l1 c1 l2 c2,
  in_strs id (li_ids inp) = true -> entries_for inp id = [e] -> le_value e = render_range l1 c1 l2 c2 ->
  result_location inp id = Some (location_of inp id, (l1, c1, l2, c2)).
Proof. exact range_exact. Qed.
Theorem C14_last_entry_wins : forall inp id, in_strs id (li_ids inp) = true ->
  lexical_lookup inp id = option_map (fun e => (le_value e, location_of inp id))
                                      (last_match (fun e => String.eqb (le_element e) id) (List.concat (li_source_maps inp))).
Proof. exact range_last_entry. Qed.
(* uri = the additional location listing the node, otherwise the root location *)
Theorem C14_uri_listed : forall inp id p, files_listing inp id = [p] -> location_of inp id = snd p.
Proof. exact uri_listed. Qed.
Theorem C14_uri_root : forall inp id, files_listing inp id = [] ->
  location_of inp id = match li_root inp with Some r => r | None => "" end.
Proof. exact uri_root. Qed.
(* no lexical entry / property-level entry only / no source maps: no location *)
Theorem C14_absent : forall inp id,
  (entries_for inp id = [] -> result_location inp id = None)
  /\ (in_strs id (li_ids inp) = false -> result_location inp id = None)
  /\ (li_source_maps inp = [] -> result_location inp id = None).
Proof. intros. repeat split; [apply absent_no_entry|apply absent_not_a_node|apply absent_no_source_maps]. Qed.

Example C14_example :
  let inp := {| li_ids := ["n1"; "n2"; "n3"];
                li_source_maps := [[{| le_element := "n1"; le_value := "[(3,0)-(12,4)]" |}; {| le_element := "http://prop"; le_value := "[(1,1)-(1,2)]" |}];
                                   [{| le_element := "n2"; le_value := render_range 18446744073709551616 0 18446744073709551617 9 |}]];
                li_root := Some "file:///root.raml";
                li_additional := [{| ln_location := "file:///lib.raml"; ln_elements := ["n2"] |}] |} in
  result_location inp "n1" = Some ("file:///root.raml", (3, 0, 12, 4))%N
  /\ result_location inp "n2" = Some ("file:///lib.raml", (18446744073709551616, 0, 18446744073709551617, 9))%N
  /\ result_location inp "n3" = None /\ result_location inp "http://prop" = None.
Proof. vm_compute. repeat split. Qed.

Print Assumptions C14_tie_index.
Print Assumptions C14_tie_preamble.
Print Assumptions C14_extract4_render.
Print Assumptions C14_range.
Print Assumptions C14_last_entry_wins.
Print Assumptions C14_uri_listed.
Print Assumptions C14_uri_root.
Print Assumptions C14_absent.
