(* C18 - the CLI emits exactly the library's output, to stdout or to the file.
   Statements only; proofs live in Proofs/CliProofs.v.  [trunc_flag] is computed from the flags that
   the translator read out of /repo/cmd/commands/helpers/file_helper.go on this run. *)
From ACV Require Import Base.Strs Model.Cli Proofs.CliProofs Extracted.CliFacts.

Definition trunc_flag : bool := in_strs "O_TRUNC" open_flags.

(* tie: helpers.OpenFile opens an existing output file with O_TRUNC *)
Theorem C18_tie_trunc : trunc_flag = true.
Proof. vm_compute. reflexivity. Qed.

(* tie: the argument counts the model uses are the ones in the source *)
Theorem C18_tie_nargs :
  forall n, (nargs_ok CValidate n = existsb (Nat.eqb n) validate_nargs)
         /\ (nargs_ok CGenerate n = existsb (Nat.eqb n) generate_nargs)
         /\ (nargs_ok CNormalize n = existsb (Nat.eqb n) normalize_nargs)
         /\ (nargs_ok CCompile n = existsb (Nat.eqb n) compile_nargs).
Proof. intros n. cbn. rewrite !orb_false_r. auto. Qed.

(* the whole property as one executable specification: every outcome of the model, for every command,
   argument count, readability of the inputs, library result and prior state of the output path,
   satisfies [spec_run]; the harness evaluates the same [spec_run] on the real binary's outcomes *)
Theorem C18_model_meets_spec : forall c nargs readable lib cell,
  spec_run c nargs readable lib cell (run trunc_flag c nargs readable lib cell) = true.
Proof. rewrite C18_tie_trunc. exact spec_run_holds. Qed.

Theorem C18_history_meets_spec : forall libs cell,
  spec_history cell libs (run_history trunc_flag cell libs) = true.
Proof. rewrite C18_tie_trunc. exact spec_history_holds. Qed.

(* `acv validate P D`, `acv generate P`, `acv normalize D`: stdout is exactly the library text + newline *)
Theorem C18_stdout : forall cell text,
  run trunc_flag CValidate 4 true (LibOk text) cell = {| o_stdout := println text; o_exit := Exit0; o_cell := cell |}
  /\ run trunc_flag CGenerate 3 true (LibOk text) cell = {| o_stdout := println text; o_exit := Exit0; o_cell := cell |}
  /\ run trunc_flag CNormalize 3 true (LibOk text) cell = {| o_stdout := println text; o_exit := Exit0; o_cell := cell |}.
Proof. intros; repeat split. Qed.

(* with an output path: whatever the file held before (absent, empty, shorter, longer), it holds
   exactly the report afterwards, and nothing is printed *)
Theorem C18_file : forall cell text,
  usable cell = true ->
  run trunc_flag CValidate 5 true (LibOk text) cell = {| o_stdout := ""; o_exit := Exit0; o_cell := File true text |}.
Proof. rewrite C18_tie_trunc. exact file_exact. Qed.

(* any history of runs into the same path: the file holds the last report that was produced *)
Theorem C18_file_history : forall libs cell,
  usable cell = true ->
  content_of (run_history trunc_flag cell libs) = last_ok libs (content_of cell).
Proof. rewrite C18_tie_trunc. intros libs cell H. exact (proj1 (history_content libs cell H)). Qed.

(* failures: non-zero exit status, nothing on stdout, output file untouched *)
Theorem C18_fail : forall c nargs readable cell,
  c <> CHelp ->
  let o := run trunc_flag c nargs readable LibErr cell in
  o_exit o <> Exit0 /\ o_stdout o = "" /\ o_cell o = cell.
Proof. exact (fail_no_stdout trunc_flag). Qed.

Theorem C18_fail_unreadable_input : forall c nargs lib cell,
  c <> CHelp ->
  let o := run trunc_flag c nargs false lib cell in
  o_exit o <> Exit0 /\ o_stdout o = "" /\ o_cell o = cell.
Proof. exact (unreadable_no_stdout trunc_flag). Qed.

Theorem C18_fail_bad_output_path : forall cell text,
  usable cell = false -> cell <> Absent ->
  let o := run trunc_flag CValidate 5 true (LibOk text) cell in
  o_exit o = Exit2 /\ o_stdout o = "" /\ o_cell o = cell.
Proof. exact (bad_output_path trunc_flag). Qed.

(* the statement is not vacuous and is sensitive to the flag: without O_TRUNC it is false *)
Theorem C18_refuted_without_trunc :
  exists old text, o_cell (run false CValidate 5 true (LibOk text) (File true old)) <> File true text.
Proof. exact no_trunc_refuted. Qed.

Example C18_nonvacuous : usable (File true "old longer content") = true /\ usable Absent = true.
Proof. split; reflexivity. Qed.

Print Assumptions C18_tie_trunc.
Print Assumptions C18_tie_nargs.
Print Assumptions C18_model_meets_spec.
Print Assumptions C18_history_meets_spec.
Print Assumptions C18_stdout.
Print Assumptions C18_file.
Print Assumptions C18_file_history.
Print Assumptions C18_fail.
Print Assumptions C18_fail_unreadable_input.
Print Assumptions C18_fail_bad_output_path.
Print Assumptions C18_refuted_without_trunc.
