(* C16 - a property path is accepted only if the whole string is a path.
   Statements only.  [extracted_grammar], [parse_path_anchored], [parse_path_returns_error] and
   [trim_cutset] are regenerated from internal/parser/path/{peg.go,parser.go} on every run. *)
From ACV Require Import Base.Strs Model.Peg Model.PathGrammar Proofs.PegProofs Proofs.PathProofs Extracted.PegGrammar.

(* ties: the grammar the theorems talk about is the grammar literal in peg.go; ParsePath checks the
   final offset, returns parse errors instead of panicking, trims exactly the grammar's whitespace *)
Theorem C16_tie_grammar : extracted_grammar = path_grammar.
Proof. vm_compute. reflexivity. Qed.
Theorem C16_tie_anchored : parse_path_anchored = true.
Proof. vm_compute. reflexivity. Qed.
Theorem C16_tie_error_returned : parse_path_returns_error = true.
Proof. vm_compute. reflexivity. Qed.
Theorem C16_tie_trim : trim_cutset = ws_chars.
Proof. vm_compute. reflexivity. Qed.

(* the generic interpreter is sound and complete for the relational PEG semantics, for every grammar *)
Theorem C16_interp_sound : forall g fuel e s,
  (forall t r, interp g fuel e s = Ok t r -> ev g e s (OOk t r)) /\ (interp g fuel e s = Fail -> ev g e s OFail).
Proof. exact interp_sound. Qed.
Theorem C16_interp_complete : forall g e s o, ev g e s o -> exists n, forall m, n <= m -> interp g m e s = res_of o.
Proof. exact interp_complete. Qed.

(* acceptance = sentencehood of the WHOLE string, with the structure the grammar's actions assign *)
Theorem C16_accept_is_sentence : forall fuel s p,
  parse_path_with parse_path_anchored fuel s = Accept p -> Sentence s p.
Proof. rewrite C16_tie_anchored. exact accept_is_sentence. Qed.
Theorem C16_sentence_is_accepted : forall s p,
  Sentence s p -> exists n0, forall n, n0 <= n -> parse_path_with parse_path_anchored n s = Accept p.
Proof. rewrite C16_tie_anchored. exact sentence_is_accepted. Qed.
Theorem C16_reject_is_not_sentence : forall fuel s,
  parse_path_with parse_path_anchored fuel s = Reject -> forall p, ~ Sentence s p.
Proof. rewrite C16_tie_anchored. exact reject_is_not_sentence. Qed.
Theorem C16_structure_unique : forall s p q, Sentence s p -> Sentence s q -> p = q.
Proof. exact structure_unique. Qed.
(* nothing is truncated: the parse tree of an accepted string spans all of it but surrounding whitespace *)
Theorem C16_no_truncation : forall fuel s p,
  parse_path_with parse_path_anchored fuel s = Accept p ->
  exists t, text t = trim s /\ build (S (tree_depth t)) t = Some p.
Proof. rewrite C16_tie_anchored. exact accepted_spans_everything. Qed.
(* without the end-of-input check the statement is false (the repaired defect D18) *)
Theorem C16_refuted_unanchored :
  exists s p, parse_path_with false (default_fuel s) s = Accept p /\ ~ Sentence s p.
Proof. exact unanchored_refuted. Qed.

(* structure: `|` binds tighter than `/`, parentheses override and are otherwise redundant,
   whitespace is optional except before a `/` that follows an IRI (where `/` is an IRI character) *)
Definition a := Pred "ex.a" false false.
Definition b := Pred "ex.b" false false.
Definition c := Pred "ex.c" false false.
Example C16_precedence : parse_path "ex.a | ex.b / ex.c" = Accept (And [Or [a; b]; c])
                      /\ parse_path "ex.a / ex.b | ex.c" = Accept (And [a; Or [b; c]])
                      /\ parse_path "ex.a / (ex.b / ex.c)" = Accept (And [a; And [b; c]])
                      /\ parse_path "((ex.a))" = Accept a
                      /\ parse_path "  ( ex.a|ex.b^ ) " = Accept (Or [a; Pred "ex.b" true false])
                      /\ parse_path "ex.a/ex.b" = Accept (Pred "ex.a/ex.b" false false).
Proof. vm_compute. repeat split. Qed.
Example C16_rejections : parse_path "ex.a ) junk" = Reject /\ parse_path "ex.a / / ex.b" = Reject
                      /\ parse_path "ex.a |" = Reject /\ parse_path "( ex.a" = Reject
                      /\ parse_path "()" = Reject /\ parse_path " " = Reject /\ parse_path "" = Null.
Proof. vm_compute. repeat split. Qed.

Print Assumptions C16_tie_grammar.
Print Assumptions C16_tie_anchored.
Print Assumptions C16_tie_error_returned.
Print Assumptions C16_tie_trim.
Print Assumptions C16_interp_sound.
Print Assumptions C16_interp_complete.
Print Assumptions C16_accept_is_sentence.
Print Assumptions C16_sentence_is_accepted.
Print Assumptions C16_reject_is_not_sentence.
Print Assumptions C16_structure_unique.
Print Assumptions C16_no_truncation.
Print Assumptions C16_refuted_unanchored.
