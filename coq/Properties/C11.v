(* C11 - progress events are well-bracketed and the channel is closed exactly once.
   Statements only; proofs in Proofs/PipelineProofs.v.  [run_entry as_coded e f] is the channel trace and the kind
   of result of entry point e when the seven stages end as the fault assignment f says. *)
From Coq Require Import ZArith.
From ACV Require Import Base.Strs Model.Pipeline Model.PipelineRef Proofs.PipelineProofs Extracted.PipelineFacts.
From ACV Require Model.Rendezvous Proofs.RendezvousProofs.
Local Open Scope list_scope.

(* ties: the stage functions send, recover and return as modelled; the exported functions close as modelled *)
Theorem C11_tie_stage_functions :
  sk_generate_rego = ref_sk_generate_rego /\ sk_compile_rego = ref_sk_compile_rego /\ sk_process_profile = ref_sk_process_profile
  /\ sk_process_input = ref_sk_process_input /\ sk_execute_validation = ref_sk_execute_validation /\ sk_process_result = ref_sk_process_result.
Proof. vm_compute. repeat split. Qed.
Theorem C11_tie_entry_points :
  sk_validate_with_configuration = ref_sk_validate_with_configuration
  /\ sk_validate_compiled_with_configuration = ref_sk_validate_compiled_with_configuration
  /\ sk_validate = ref_sk_validate /\ sk_validate_compiled = ref_sk_validate_compiled /\ sk_compile_profile = ref_sk_compile_profile
  /\ sk_pkg_validate = ref_sk_pkg_validate /\ sk_pkg_validate_compiled = ref_sk_pkg_validate_compiled
  /\ sk_pkg_validate_with_configuration = ref_sk_pkg_validate_with_configuration
  /\ sk_pkg_validate_compiled_with_configuration = ref_sk_pkg_validate_compiled_with_configuration.
Proof. vm_compute. repeat split. Qed.
Theorem C11_tie_events : event_names = ref_event_names /\ sk_recover_as_error = ref_sk_recover_as_error
  /\ sk_close_event_chan = ref_sk_close_event_chan /\ sk_dispatch_event = ref_sk_dispatch_event /\ sk_milestones = ref_sk_milestones.
Proof. vm_compute. repeat split. Qed.

(* the whole specification, for every entry point and every way the stages can end *)
Theorem C11_trace_meets_spec : forall e f, engine_total f = true ->
  spec_trace e (fst (run_entry as_coded e f)) (snd (run_entry as_coded e f)) = true.
Proof. exact trace_meets_spec. Qed.
Theorem C11_prefix : forall e f, engine_total f = true -> is_prefix (sends (fst (run_entry as_coded e f))) (order_of e) = true.
Proof. exact sends_prefix. Qed.
Theorem C11_bracketed : forall e f, engine_total f = true -> bracketed None (sends (fst (run_entry as_coded e f))) = true.
Proof. exact sends_bracketed. Qed.
Theorem C11_close_once : forall e f, engine_total f = true -> e <> ECompileProfile ->
  closes (fst (run_entry as_coded e f)) = 1 /\ last_is_close (fst (run_entry as_coded e f)) = true.
Proof. exact closed_exactly_once. Qed.
Theorem C11_compile : forall f, engine_total f = true ->
  (snd (run_entry as_coded ECompileProfile f) = KError -> closes (fst (run_entry as_coded ECompileProfile f)) = 1 /\ last_is_close (fst (run_entry as_coded ECompileProfile f)) = true)
  /\ (snd (run_entry as_coded ECompileProfile f) = KValue -> closes (fst (run_entry as_coded ECompileProfile f)) = 0).
Proof. exact compile_closes_iff_fails. Qed.
Theorem C11_milestones : forall l starts tl, (tl = [] \/ exists s a, tl = [(Start s, a)]) ->
  milestones starts (expand l ++ tl) = map (fun x => match x with (s, a, b) => (s, a, (b - a)%Z) end) l.
Proof. exact milestones_of_bracketed. Qed.
Theorem C11_milestone_durations : forall l : list (stage * Z * Z), Forall (fun x => match x with (_, a, b) => (a <= b)%Z end) l ->
  Forall (fun m => match m with (_, _, d) => (0 <= d)%Z end) (map (fun x => match x with (s, a, b) => (s, a, (b - a)%Z) end) l).
Proof. exact milestone_durations_nonneg. Qed.
Theorem C11_sends_are_stage_pairs : forall e f, engine_total f = true -> pairs_of 20 (sends (fst (run_entry as_coded e f))) <> None.
Proof. exact sends_are_stage_pairs. Qed.
(* before the recover at the stage functions a panic left the channel open (repaired defects D12 / D19) *)
Theorem C11_refuted_without_recover :
  let f := {| f_parse := OOk; f_generate := OPanic; f_compile := OOk; f_decode := OOk; f_normalize := OOk; f_eval := OOk; f_build := OOk |} in
  engine_total f = true /\ snd (run_entry no_recover EValidate f) = KEscaped /\ closes (fst (run_entry no_recover EValidate f)) = 0.
Proof. exact refuted_without_recover. Qed.

Example C11_example :
  let f := {| f_parse := OOk; f_generate := OOk; f_compile := OOk; f_decode := OOk; f_normalize := OPanic; f_eval := OOk; f_build := OOk |} in
  run_entry as_coded EValidate f =
   (map Send (events_of [ProfileParsing; RegoGeneration; RegoCompilation; InputDataParsing]) ++ [Send (Start InputDataNormalization); Close], KError).
Proof. vm_compute. reflexivity. Qed.

(* the channel itself (Model/Rendezvous.v, abbreviated R): dispatchEvent is one blocking send on an unbuffered channel
   (C11_tie_events: `if eventChan != nil { send }`), so the call waits inside the send until the listener takes the event.
   A listener that takes every event - however long it takes over each - sees every event of the program once, in program
   order, and the call does all its work in order: nothing is lost, nothing overtakes *)
Module R := Rendezvous.
Module RP := RendezvousProofs.
Theorem C11_listener_sees_every_event_in_order : forall (E L : Type) (prog : list (R.pstep E L)) d t,
  R.run R.always prog d t = {| R.todo := []; R.did := d ++ R.works prog; R.taken := t ++ R.sends prog |}.
Proof. exact RP.always_runs_to_the_end. Qed.
(* any listener (any rule for when it takes the next event): the call can only ever wait INSIDE A SEND the listener refuses,
   having done exactly the work before it and delivered exactly the events before it; once the listener takes events again
   the rest follows in order *)
Theorem C11_any_listener : forall (E L : Type) (pol : R.policy E) (prog : list (R.pstep E L)),
  let c := R.run pol prog [] [] in
  (R.todo c = [] \/ exists e r, R.todo c = R.PSend e :: r /\ pol (R.taken c) = false)
  /\ (exists pre, prog = pre ++ R.todo c /\ R.did c = R.works pre /\ R.taken c = R.sends pre)
  /\ R.did (R.run R.always (R.todo c) (R.did c) (R.taken c)) = R.works prog
  /\ R.taken (R.run R.always (R.todo c) (R.did c) (R.taken c)) = R.sends prog.
Proof.
  intros E L pol prog c. split; [apply RP.stops_only_inside_a_send|]. split.
  - destruct (RP.run_is_a_cut E L pol prog [] []) as [pre H]. exists pre. exact H.
  - apply RP.parked_then_released.
Qed.
(* the flows of the pipeline model are such programs, and send the model's events in its order *)
Theorem C11_flow_sends_the_modelled_events : R.sends RP.validate_flow = profile_order ++ data_order.
Proof. exact RP.validate_flow_sends. Qed.

Print Assumptions C11_tie_stage_functions.
Print Assumptions C11_tie_entry_points.
Print Assumptions C11_tie_events.
Print Assumptions C11_trace_meets_spec.
Print Assumptions C11_prefix.
Print Assumptions C11_bracketed.
Print Assumptions C11_close_once.
Print Assumptions C11_compile.
Print Assumptions C11_milestones.
Print Assumptions C11_milestone_durations.
Print Assumptions C11_sends_are_stage_pairs.
Print Assumptions C11_refuted_without_recover.
Print Assumptions C11_listener_sees_every_event_in_order.
Print Assumptions C11_any_listener.
Print Assumptions C11_flow_sends_the_modelled_events.
