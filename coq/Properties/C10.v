(* C10 - concurrent validations do not interfere.  Statements only; proofs in Proofs/SchedProofs.v. *)
From Coq Require Import Permutation.
From Coq Require Import Sorted.
From ACV Require Import Base.Strs Model.Sched Model.SharedRef Proofs.SchedProofs Extracted.SharedFacts.
From ACV Require Model.Interleave Proofs.InterleaveProofs Proofs.SchedInterleave Model.Rendezvous Proofs.RendezvousProofs.
From ACV Require Import Model.Pipeline.
Local Open Scope list_scope.

(* ties: the package-level variables are exactly the classified ones, the counter is bumped by one atomic
   add, and nothing outside test helpers resets it *)
Theorem C10_tie_globals : package_level_vars = map fst classified_vars.
Proof. vm_compute. reflexivity. Qed.
Theorem C10_tie_counter : sk_genvar = ref_sk_genvar /\ genreset_call_sites = ref_genreset_call_sites.
Proof. vm_compute. split; reflexivity. Qed.

(* every interleaving of any number of compilations: the numbers handed out are pairwise different ... *)
Theorem C10_unique : forall s c, only_gen s = true -> NoDup (numbers (run {| counter := c; handed := [] |} s)).
Proof. exact atomic_numbers_unique. Qed.
(* ... so the generated names inside each module are pairwise different, as in a solo compilation *)
Theorem C10_unique_per_compilation : forall s c tid, only_gen s = true ->
  NoDup (numbers_of tid (run {| counter := c; handed := [] |} s)).
Proof. exact atomic_thread_numbers_unique. Qed.
(* the unsynchronised counter of the code before the repair, and a reset during a compilation, break it *)
Theorem C10_refuted_nonatomic :
  let s := [(0, AInc); (1, AInc); (0, ARead); (1, ARead)] in
  program_of 0 s = [AInc; ARead] /\ program_of 1 s = [AInc; ARead]
  /\ numbers (run {| counter := 0; handed := [] |} s) = [2; 2].
Proof. exact nonatomic_refuted. Qed.
Theorem C10_refuted_reset :
  let s := [(0, AGen); (0, AGen); (1, AReset); (0, AGen); (0, AGen)] in
  numbers_of 0 (run {| counter := 0; handed := [] |} s) = [1; 2; 1; 2].
Proof. exact reset_refuted. Qed.


(* calls as threads over private state + the atomic counter (Model/Interleave.v, abbreviated I), EVERY schedule: a call
   ends in the state it reaches by itself when fed the numbers it was handed ... *)
Module I := Interleave.
Module IP := InterleaveProofs.
Theorem C10_noninterference : forall (P : Type) (s : I.schedule P) (w : I.world P) (t : nat),
  I.priv (I.run w s) t = I.alone (I.priv w t) (I.program_of t s) (I.handed (I.ctr w) t s).
Proof. exact IP.noninterference. Qed.
(* ... those numbers increase strictly, and no other call holds any of them (so its generated names are as distinct as in a
   compilation by itself, and are not names of another call's module) ... *)
Theorem C10_numbers_increase : forall (P : Type) (s : I.schedule P) c t, StronglySorted lt (I.handed c t s).
Proof. exact IP.handed_increasing. Qed.
Theorem C10_numbers_disjoint : forall (P : Type) (s : I.schedule P) c t u n, In n (I.handed c t s) -> In n (I.handed c u s) -> t = u.
Proof. exact IP.handed_disjoint. Qed.
(* ... and a call that takes no number (a validation with a compiled profile) ends exactly as it does by itself *)
Theorem C10_validation_noninterference : forall (P : Type) (s : I.schedule P) (w : I.world P) t,
  IP.no_gen P (I.program_of t s) = true -> I.priv (I.run w s) t = I.alone (I.priv w t) (I.program_of t s) [].
Proof. exact IP.validation_noninterference. Qed.
(* the two models of the counter agree: the numbers the log of Sched.v records for a compilation are the numbers computed
   from the schedule alone *)
Theorem C10_models_agree : forall s c t, only_gen s = true ->
  numbers_of t (run {| counter := c; handed := [] |} s) = I.handed c t (SchedInterleave.embed s).
Proof. exact SchedInterleave.sched_numbers_are_interleave_handed. Qed.
(* what the classification of the package-level variables (C10_tie_globals) rules out: a cell shared by the calls that one
   step writes and a later step of the same call reads - the schedule write, write, read, read hands the first call the
   second call's text; with the cell inside the call's own state every schedule gives the call its own text *)
Theorem C10_refuted_shared_cell :
  let s := [(0, I.SWrite 10); (1, I.SWrite 20); (0, I.SRead); (1, I.SRead)] in
  I.sprogram_of 0 s = [I.SWrite 10; I.SRead] /\ I.sprogram_of 1 s = [I.SWrite 20; I.SRead]
  /\ I.got (I.srun (I.Build_sworld 0 (fun _ => None)) s) 0 = Some 20
  /\ I.got (I.srun (I.Build_sworld 0 (fun _ => None)) [(0, I.SWrite 10); (0, I.SRead)]) 0 = Some 10.
Proof. exact IP.shared_cell_refuted. Qed.
Theorem C10_private_cell : forall (s : I.schedule (nat * option nat)) w t v,
  I.program_of t s = [IP.own_write v; IP.own_read] -> snd (I.priv (I.run w s) t) = Some v.
Proof. exact IP.private_cell_holds. Qed.

(* how the runs put real calls into chosen schedules (harness/props/sched.go), on the channel model of Model/Rendezvous.v: a
   listener that stops taking events after event w leaves a call  pre ; send w ; mid ; send x ; post  INSIDE the send of x -
   all the work of pre and mid done, none of post - and one that takes nothing leaves it inside its first send *)
Module R := Rendezvous.
Module RP := RendezvousProofs.
Theorem C10_parking_point : forall (E L : Type) (E_eqb : E -> E -> bool), (forall a b, E_eqb a b = true <-> a = b) ->
  forall w x (pre mid post : list (R.pstep E L)) d t,
  R.last_is E_eqb w t = false -> RP.not_sent E L E_eqb w pre -> R.sends mid = [] ->
  R.run (R.stop_after E_eqb w) (pre ++ R.PSend w :: mid ++ R.PSend x :: post) d t
  = {| R.todo := R.PSend x :: post; R.did := d ++ R.works pre ++ R.works mid; R.taken := t ++ R.sends pre ++ [w] |}.
Proof. exact RP.parked_inside_the_next_send. Qed.
Theorem C10_parking_before_the_first_event : forall (E L : Type) x (pre post : list (R.pstep E L)) d t, R.sends pre = [] ->
  R.run R.take_none (pre ++ R.PSend x :: post) d t = {| R.todo := R.PSend x :: post; R.did := d ++ R.works pre; R.taken := t |}.
Proof. exact RP.parked_inside_the_first_send. Qed.
(* on the pipeline's own flow: stopping after "ProfileParsing done" leaves a validation before Rego generation, profile parsed *)
Theorem C10_parked_before_generation :
  R.run (R.stop_after ev_eqb (Done ProfileParsing)) RP.validate_flow [] []
  = {| R.todo := skipn 3 RP.validate_flow; R.did := [ProfileParsing]; R.taken := [Start ProfileParsing; Done ProfileParsing] |}.
Proof. exact RP.parked_before_generation. Qed.

Print Assumptions C10_tie_globals.
Print Assumptions C10_tie_counter.
Print Assumptions C10_unique.
Print Assumptions C10_unique_per_compilation.
Print Assumptions C10_refuted_nonatomic.
Print Assumptions C10_refuted_reset.
Print Assumptions C10_noninterference.
Print Assumptions C10_numbers_increase.
Print Assumptions C10_numbers_disjoint.
Print Assumptions C10_validation_noninterference.
Print Assumptions C10_refuted_shared_cell.
Print Assumptions C10_private_cell.
Print Assumptions C10_models_agree.
Print Assumptions C10_parking_point.
Print Assumptions C10_parking_before_the_first_event.
Print Assumptions C10_parked_before_generation.
