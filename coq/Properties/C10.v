(* C10 - concurrent validations do not interfere.  Statements only; proofs in Proofs/SchedProofs.v. *)
From Coq Require Import Permutation.
From ACV Require Import Base.Strs Model.Sched Model.SharedRef Proofs.SchedProofs Extracted.SharedFacts.
Local Open Scope list_scope.

(* ties: the package-level variables are exactly the classified ones, the counter is bumped by one atomic
   add, and nothing outside test helpers resets it *)
Theorem C10_tie_globals : package_level_vars = map fst classified_vars.
Proof. vm_compute. reflexivity. Qed.
Theorem C10_tie_counter : sk_genvar = ref_sk_genvar /\ genreset_call_sites = ref_genreset_call_sites.
Proof. vm_compute. split; reflexivity. Qed.

(* every interleaving of any number of compilations: the numbers handed out are pairwise different ... *)
Theorem C10_unique : forall s c, only_gen s = true -> NoDup (numbers (run {| counter := c; handed := [] |} s)).
Proof. exact atomic_numbers_unique. Qed.
(* ... so the generated names inside each module are pairwise different, as in a solo compilation *)
Theorem C10_unique_per_compilation : forall s c tid, only_gen s = true ->
  NoDup (numbers_of tid (run {| counter := c; handed := [] |} s)).
Proof. exact atomic_thread_numbers_unique. Qed.
(* the unsynchronised counter of the code before the repair, and a reset during a compilation, break it *)
Theorem C10_refuted_nonatomic :
  let s := [(0, AInc); (1, AInc); (0, ARead); (1, ARead)] in
  program_of 0 s = [AInc; ARead] /\ program_of 1 s = [AInc; ARead]
  /\ numbers (run {| counter := 0; handed := [] |} s) = [2; 2].
Proof. exact nonatomic_refuted. Qed.
Theorem C10_refuted_reset :
  let s := [(0, AGen); (0, AGen); (1, AReset); (0, AGen); (0, AGen)] in
  numbers_of 0 (run {| counter := 0; handed := [] |} s) = [1; 2; 1; 2].
Proof. exact reset_refuted. Qed.

Print Assumptions C10_tie_globals.
Print Assumptions C10_tie_counter.
Print Assumptions C10_unique.
Print Assumptions C10_unique_per_compilation.
Print Assumptions C10_refuted_nonatomic.
Print Assumptions C10_refuted_reset.
