(* C15 - verdicts do not depend on how the profile is written down.
   Statements only; proofs in Proofs/YamlProofs.v, Proofs/RulesProofs.v, Proofs/GraphEquivProofs.v. *)
From Coq Require Import Permutation Relations.
From ACV Require Import Base.Strs Model.Graph Model.PathGrammar Model.Dnf Model.Rules Model.Report Model.Engine Model.Yaml Model.SharedRef Model.TemplatesRef.
From ACV Require Import Model.ProfileParser Proofs.RulesProofs Proofs.YamlProofs Proofs.ParserProofs Proofs.ParserCongruence Model.YamlRespell Proofs.RespellProofs Proofs.RewriteClosure Extracted.SharedFacts Extracted.Templates.
Local Open Scope list_scope.

(* ties: mapping keys are looked up among the KEYS only and listed in document order; the prefix table is the
   built-in one overlaid with the profile's *)
Theorem C15_tie_yaml : sk_get_map_keys = ref_sk_get_map_keys /\ sk_yaml_get = ref_sk_yaml_get.
Proof. vm_compute. split; reflexivity. Qed.
Theorem C15_tie_parser_order :
  parser_expression_key_order = ref_parser_expression_key_order /\ parser_validation_key_order = ref_parser_validation_key_order
  /\ parser_constraint_key_order = ref_parser_constraint_key_order /\ parser_qualified_key_order = ref_parser_qualified_key_order
  /\ parser_profile_key_order = ref_parser_profile_key_order /\ parser_level_order = ref_parser_level_order.
Proof. vm_compute. repeat split; reflexivity. Qed.
Theorem C15_tie_prefixes : tpl_iri_expander = ref_iri_expander /\ sk_iri_expander_from = ref_sk_iri_expander_from.
Proof. vm_compute. split; reflexivity. Qed.

(* reordering the keys of any mapping: every lookup gives the same node, the key list is a permutation *)
Theorem C15_get_perm : forall k l l', NoDup (map fst l) -> Permutation l l' -> yget k (YMap l) = yget k (YMap l').
Proof. exact get_perm. Qed.
Theorem C15_keys_perm : forall l l', Permutation l l' -> Permutation (ykeys (YMap l)) (ykeys (YMap l')).
Proof. exact keys_perm. Qed.
(* reordering the operands of and / or (which is also what reordering propertyConstraints and the constraints of
   one property amounts to: they are the operands of the implicit and) at any depth: same verdict at every node *)
Theorem C15_operand_order : forall f f', rewrite f f' -> forall g pol n, lsat g pol f n = lsat g pol f' n.
Proof. exact rewrite_same_verdict. Qed.
Theorem C15_operand_order_results : forall f f', rewrite f f' -> wf_form f = true -> forall g cls n,
  In n (validation_results g cls f) <-> In n (validation_results g cls f').
Proof. exact rewrite_same_results. Qed.
(* the profile parser (ProfileParser.parse_expr: expressionparser.go / constraintsparser.go) reads an expression
   mapping only through Get: reordering its keys changes nothing; reordering the constraints of one property
   changes nothing; reordering the entries of propertyConstraints permutes the operands of the implicit and *)
Theorem C15_parser_key_order : forall ctx fuel l l', NoDup (map fst l) -> Permutation l l' ->
  parse_expr ctx fuel (YMap l) = parse_expr ctx fuel (YMap l').
Proof. exact parse_expr_key_order. Qed.
Theorem C15_parser_constraint_order : forall ctx fuel before path cm cm' after rest,
  NoDup (map fst cm) -> Permutation cm cm' ->
  parse_expr ctx (S fuel) (YMap (("propertyConstraints", YMap (before ++ (path, YMap cm) :: after)) :: rest))
  = parse_expr ctx (S fuel) (YMap (("propertyConstraints", YMap (before ++ (path, YMap cm') :: after)) :: rest)).
Proof. exact constraint_key_order. Qed.
Theorem C15_parser_property_order : forall ctx fuel rest entries entries' f,
  Permutation entries entries' ->
  parse_expr ctx (S fuel) (YMap (("propertyConstraints", YMap entries) :: rest)) = POk f ->
  exists f', parse_expr ctx (S fuel) (YMap (("propertyConstraints", YMap entries') :: rest)) = POk f' /\ rewrite f f'.
Proof. exact property_constraints_order. Qed.
(* reordering the names of a level list and the entries of `validations`: the same results per level *)
(* The whole rewriting at once, on the YAML tree: the entries of EVERY mapping at EVERY depth permuted (document,
   prefixes, validations, a validation, propertyConstraints, the constraints of one property, atLeast / atMost /
   nested bodies) together with the items of the free lists (and / or operands, the three level lists): the parser
   returns formulas related by operand reordering (or fails on both trees) ... *)
Theorem C15_parser_congruence : forall ctx ctx', (forall iri, expand_compact ctx iri = expand_compact ctx' iri) ->
  forall fuel y y', yrw y y' -> rel_res (parse_expr ctx fuel y) (parse_expr ctx' fuel y').
Proof. exact parse_expr_congruence. Qed.
(* ... and the verdict computed from the rewritten tree has exactly the members of the verdict computed from the
   original, on every graph (or neither tree is a profile the model accepts) *)
Theorem C15_rewriting_at_any_depth : forall defaults doc doc' g, yrw doc doc' ->
  match verdict defaults doc g, verdict defaults doc' g with
  | POk v, POk v' => forall x, In x v <-> In x v'
  | POk _, _ | _, POk _ => False
  | _, _ => True
  end.
Proof. exact verdict_congruence. Qed.
(* the relation holds between really different trees, and the verdicts there are not empty *)
Example C15_rewriting_example : yrw ex_doc ex_doc' /\ ex_doc <> ex_doc'
  /\ verdict [] ex_doc ex_graph = POk [(Violation, "a", "n1", "m"); (Violation, "b", "n1", "Validation error")]%string.
Proof. split; [exact ex_docs_related|]. split; [discriminate|]. exact (proj1 ex_verdicts). Qed.
(* every tree whose mappings have distinct keys is related to itself *)
Theorem C15_rewriting_reflexive : forall y, wf_keys y = true -> yrw y y.
Proof. exact yrw_refl. Qed.

(* Prefixes, on the whole tree: two profiles of the same shape whose compact IRIs are spelled differently - a prefix renamed
   consistently, an alias bound to the same namespace used here and there, a differently written prefix table - but expand
   alike (the executable test YamlRespell.respell_doc_b, which the harness applies to the profiles it respells) get the
   same verdict on every graph *)
Theorem C15_prefix_respelling : forall defaults doc doc' g, respell_doc_b defaults doc doc' = true ->
  verdict_keys defaults doc g = verdict_keys defaults doc' g.
Proof. exact respell_same_verdict. Qed.
Theorem C15_respelled_bodies_parse_alike : forall ctx ctx' fp fr y y', respell_b ctx ctx' fr PExpr y y' = true ->
  parse_expr ctx fp y = parse_expr ctx' fp y'.
Proof. exact respell_parse_expr. Qed.

(* C15 as one statement: any finite sequence of rewriting steps - each a reordering (keys of any mapping, free lists, at
   any depth) or a respelling of compact IRIs - leaves the set of reported (level, validation, focus) triples unchanged
   on every graph (or neither text is a profile the model accepts) *)
Theorem C15 : forall defaults g doc doc', clos_refl_trans ynode (step defaults) doc doc' -> same_verdict defaults g doc doc'.
Proof. exact rewritings_same_verdict. Qed.

(* the transcription reads a mapping only under the keys the Go parser looks up (the lists regenerated from the source) *)
Theorem C15_parser_reads_only_these_keys : forall ctx rec,
  (forall y y', (forall k, In k ref_parser_expression_key_order -> yget k y = yget k y') -> expr_body ctx rec y = expr_body ctx rec y')
  /\ (forall path c c', (forall k, In k ref_parser_constraint_key_order -> yget k (YMap c) = yget k (YMap c')) ->
        parse_pc ctx rec (path, YMap c) = parse_pc ctx rec (path, YMap c')).
Proof. intros ctx rec. split; [apply expr_body_reads_only|apply parse_pc_reads_only]. Qed.

Theorem C15_level_lists : forall g p p' l r,
  p_name p = p_name p' -> NoDup (map v_name (p_defs p)) -> Permutation (p_defs p) (p_defs p') -> Permutation (p_listed p) (p_listed p') ->
  (In r (level_results g p l) <-> In r (level_results g p' l)).
Proof. exact level_lists_in_any_order. Qed.
(* consistently renaming a prefix; using another prefix bound to the same namespace *)
Theorem C15_prefix_rename : forall defaults profile old new iri,
  no_dot new = true -> ~ In new (map fst (profile ++ defaults)) -> In old (map fst profile) ->
  (forall p l, split_dot iri = Some (p, l) -> p <> new) ->
  expand_compact (context defaults (rename_in_table old new profile)) (rename_in_iri old new iri)
  = expand_compact (context defaults profile) iri.
Proof. exact expand_rename. Qed.
Theorem C15_prefix_alias : forall ctx p q ns l, no_dot p = true -> no_dot q = true ->
  assoc p ctx = Some ns -> assoc q ctx = Some ns ->
  expand_compact ctx (p ++ "." ++ l)%string = expand_compact ctx (q ++ "." ++ l)%string.
Proof. exact expand_alias. Qed.
(* before Get looked at key positions only, a VALUE equal to a key name was found first (repaired defect D17) *)
Example C15_example :
  yget "targetClass" (YMap [("message", YScalar "!!str" "targetClass"); ("targetClass", YScalar "!!str" "ex.T")]) = Some (YScalar "!!str" "ex.T")
  /\ expand_compact (context [("core", "http://a.ml/vocabularies/core#")] [("ex", "http://example.org/ns#")]) "ex.a" = Some "http://example.org/ns#a"%string
  /\ expand_compact (context [("core", "http://a.ml/vocabularies/core#")] [("core", "http://other/")]) "core.name" = Some "http://other/name"%string.
Proof. vm_compute. repeat split. Qed.

Print Assumptions C15_tie_yaml.
Print Assumptions C15_tie_prefixes.
Print Assumptions C15_tie_parser_order.
Print Assumptions C15_parser_reads_only_these_keys.
Print Assumptions C15_get_perm.
Print Assumptions C15_keys_perm.
Print Assumptions C15_operand_order.
Print Assumptions C15_operand_order_results.
Print Assumptions C15_level_lists.
Print Assumptions C15_parser_key_order.
Print Assumptions C15_parser_constraint_order.
Print Assumptions C15_parser_property_order.
Print Assumptions C15_parser_congruence.
Print Assumptions C15_rewriting_at_any_depth.
Print Assumptions C15_rewriting_reflexive.
Print Assumptions C15_prefix_respelling.
Print Assumptions C15_respelled_bodies_parse_alike.
Print Assumptions C15.
Print Assumptions C15_prefix_rename.
Print Assumptions C15_prefix_alias.
