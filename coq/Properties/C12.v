(* C12 - reports are well-formed: unique node ids, grounded focus nodes, complete results.
   Statements only; proofs in Proofs/ReportProofs.v and Proofs/EngineProofs.v.
   [ids id t] are the @ids defineIdRecursively gives to the typed nodes of a result whose tree of typed
   sub-nodes is t (trace entries, trace values, sub-results, locations ... to any depth). *)
From ACV Require Import Base.Strs Model.Graph Model.Rules Model.Report Model.ReportRef Model.Engine.
From ACV Require Import Proofs.ReportProofs Proofs.EngineProofs Proofs.ShapeProofs Model.Dnf Extracted.ReportFacts.
From ACV Require Import Model.Yaml Model.ProfileParser Proofs.ParserMessages Proofs.ParserCongruence Proofs.TextSemantics.

Theorem C12_tie_id_scheme : define_id_formats = ref_define_id_formats /\ build_results_loops = ref_build_results_loops.
Proof. vm_compute. split; reflexivity. Qed.
Theorem C12_tie_document : dialect_instance_strings = ref_dialect_instance_strings /\ report_node_strings = ref_report_node_strings.
Proof. vm_compute. split; reflexivity. Qed.

(* one result: all its nodes get pairwise different ids, whatever the depth and width of the tree *)
Theorem C12_ids_unique_in_result : forall t id, wf_et t = true -> NoDup (ids id t).
Proof. exact ids_unique. Qed.
(* the whole document: the three fixed nodes and every node of every result of every level *)
Theorem C12_ids_unique : forall m c,
  forallb (fun r => wf_et (r_tree r)) (all_results m) = true -> NoDup (report_ids (build_report m c)).
Proof. exact report_ids_unique. Qed.
(* the join of key / index tokens is injective: two different positions never get the same id *)
Theorem C12_positional_ids_injective : forall p q,
  forallb tok_ok p = true -> forallb tok_ok q = true -> J p = J q -> p = q.
Proof. exact J_inj. Qed.
(* the shape condition cannot be dropped: two array-valued fields with typed elements share index tokens *)
Theorem C12_ids_refuted_two_arrays :
  let t := ET [(TIdx 0, ET []); (TIdx 0, ET [])] in wf_et t = false /\ ~ NoDup (ids "violation_0" t).
Proof.
  split; [vm_compute; reflexivity|]. intros H. vm_compute in H.
  inversion H as [|? ? _ H1]; subst. inversion H1 as [|? ? Hn _]; subst. apply Hn. left. reflexivity.
Qed.
(* every result names a validation defined in the profile and one focus node that is a node of the graph *)
Theorem C12_focus_grounded : forall g p c o, In o (results_of (validate g p c)) ->
  exists l d n, In (l, r_name (o_res o)) (p_listed p) /\ o_severity o = severity_iri l
                /\ find_def p (r_name (o_res o)) = Some d
                /\ In n g /\ r_focus (o_res o) = nid n /\ has_type n (v_class d) = true
                /\ (wf_form (v_form d) = true -> lsat g true (v_form d) (nid n) = false).
Proof. exact results_traced. Qed.
Theorem C12_validate_ids_unique : forall g p c, NoDup (report_ids (validate g p c)).
Proof. exact validate_ids_unique. Qed.

(* the shapes error() / trace() build - any number of trace entries per result, any number of sub-results per
   trace value, any depth, with or without location nodes - always meet the shape condition: for them id
   uniqueness holds without hypothesis *)
Theorem C12_result_shapes_wf : forall s, wf_et (tree_of_result s) = true.
Proof. exact result_tree_wf. Qed.
Theorem C12_result_ids_unique : forall s id, NoDup (ids id (tree_of_result s)).
Proof. exact result_ids_unique. Qed.
(* every branch the generator emits for a well-formed rule holds at least one constraint: every result has a
   non-empty trace (one entry per constraint of its branch) *)
Theorem C12_trace_nonempty : forall (A P : Type) fuel (r : rule A P) gs, okg r -> disp fuel r = Some gs ->
  forall g, In g gs -> as_branch g <> [].
Proof. exact branches_nonempty. Qed.

Example C12_example :
  let t := ET [(TKey "location", ET [(TKey "range", ET [(TKey "start", ET []); (TKey "end", ET [])])]);
               (TIdx 0, ET [(TKey "traceValue", ET [(TIdx 0, ET [(TIdx 0, ET [])]); (TIdx 1, ET [])])]);
               (TIdx 1, ET [])] in
  wf_et t = true /\ List.length (ids "warning_10" t) = 11
  /\ In "warning_10_0_traceValue_0_0" (ids "warning_10" t).
Proof. vm_compute. repeat split. auto 20. Qed.

(* every result names a non-empty message: the parsed message of a validation is empty only when the profile itself
   says `message: ""`; omitted, null, numeric, boolean, sequence or mapping values give "Validation error" *)
Theorem C12_message_nonempty : forall defaults doc p, parse_profile defaults doc = POk p ->
  forall d, In d (p_defs p) -> v_msg d = ""%string ->
  exists vals v, yget "validations" doc = Some (YMap vals) /\ In (v_name d, v) vals /\ yget "message" v = Some (YScalar "!!str" "").
Proof. exact parsed_message_empty_only_if_written. Qed.

(* every entry of the verdict computed from the profile text names a validation the document defines under `validations` and
   lists under the entry's level, a focus that is the @id of a node of the graph, and the message the parser assigns to that
   validation (non-empty unless written empty: C12_message_nonempty) *)
Theorem C12_results_grounded_in_text : forall defaults doc g v, verdict defaults doc g = POk v ->
  exists vals, yget "validations"%string doc = Some (YMap vals) /\
  forall l nm fo msg, In (l, nm, fo, msg) v ->
    In (l, nm) (listed_of doc) /\ (exists n, In n g /\ nid n = fo) /\ exists body, In (nm, body) vals /\ msg = message_of body.
Proof. exact verdict_names_from_text. Qed.

Print Assumptions C12_tie_id_scheme.
Print Assumptions C12_tie_document.
Print Assumptions C12_ids_unique_in_result.
Print Assumptions C12_ids_unique.
Print Assumptions C12_positional_ids_injective.
Print Assumptions C12_ids_refuted_two_arrays.
Print Assumptions C12_focus_grounded.
Print Assumptions C12_validate_ids_unique.
Print Assumptions C12_result_shapes_wf.
Print Assumptions C12_result_ids_unique.
Print Assumptions C12_trace_nonempty.
Print Assumptions C12_message_nonempty.
Print Assumptions C12_results_grounded_in_text.
