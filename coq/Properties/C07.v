(* C07 - every well-formed declarative profile compiles (the part the translator owns: the names it invents).
   Statements only; proofs in Proofs/NamesProofs.v, Proofs/DnfFuel.v, Proofs/EscapeProofs.v.
   [extracted_keywords] = the reserved words of the linked engine plus the future keywords the preamble
   imports; [extracted_letters] / [extracted_var_formats] = vargenerator.go. *)
From ACV Require Import Base.Strs Model.Report Model.Names Model.Dnf Model.Escape Model.TemplatesRef.
From ACV Require Import Proofs.ReportProofs Proofs.NamesProofs Proofs.DnfFuel Proofs.EscapeProofs Extracted.NameFacts Extracted.Templates.
From ACV Require Import Model.PathGrammar Model.PathSem Model.PathGen Proofs.PathGenProofs Model.RuleGen Proofs.RuleGenProofs.
From ACV Require Import Model.Dnf Model.Yaml Model.ProfileParser Model.Compile Model.Elab Proofs.CompileProofs Proofs.ScopeProofs.
Local Open Scope string_scope.

(* ties: the variable alphabet and the name formats are the modelled ones; the snippets that use the names *)
Theorem C07_tie_letters : extracted_letters = letters /\ extracted_var_formats = ["gen_%s_%d"; "X%d"].
Proof. vm_compute. split; reflexivity. Qed.
Theorem C07_tie_templates : tpl_nested = ref_nested /\ tpl_expression = ref_expression /\ tpl_path_property = ref_path_property
  /\ tpl_path_aggregate = ref_path_aggregate.
Proof. vm_compute. repeat split. Qed.

(* finite facts about the regenerated keyword list *)
Theorem C07_keywords_plain : forallb plain_lower extracted_keywords = true.
Proof. vm_compute. reflexivity. Qed.
Theorem C07_letters_ok : forallb (fun l => negb (is_keyword extracted_keywords l) && negb (is_keyword extracted_keywords (plural l))) letters = true.
Proof. vm_compute. reflexivity. Qed.

(* whatever the number of quantified / nested constraints and the nesting depth (the index n is unbounded): *)
Theorem C07_vars_not_keywords : forall n,
  is_keyword extracted_keywords (var_name n) = false /\ is_keyword extracted_keywords (plural (var_name n)) = false.
Proof. exact (vars_not_keywords extracted_keywords C07_keywords_plain C07_letters_ok). Qed.
Theorem C07_derived_not_keywords : forall v h i,
  is_keyword extracted_keywords (error_acc v i) = false /\ is_keyword extracted_keywords (branch_var v i) = false
  /\ is_keyword extracted_keywords (genvar h i) = false
  /\ is_keyword extracted_keywords (result_var i) = false /\ is_keyword extracted_keywords (msg_var i) = false.
Proof. exact (derived_not_keywords extracted_keywords C07_keywords_plain). Qed.
Theorem C07_vars_distinct : forall n m, var_name n = var_name m -> n = m.
Proof. exact var_name_inj. Qed.
Theorem C07_collections_distinct : forall n m, (plural (var_name n) = plural (var_name m) -> n = m) /\ plural (var_name n) <> var_name m.
Proof. intros. split; [apply plural_inj|apply plural_not_var]. Qed.
Theorem C07_names_nonempty : forall n, var_name n <> "" /\ plural (var_name n) <> "".
Proof. exact names_nonempty. Qed.
(* numbered names (path rules, value variables ...): one number, one name - so no two rules of a module share a
   name and no variable is bound by two different snippets *)
Theorem C07_numbered_names_distinct : forall h h' k k', genvar h k = genvar h' k' -> k = k'.
Proof. exact genvar_inj. Qed.
(* the := declarations of one rule body / one comprehension body are pairwise different, for any number of
   constraints in the branch and of placeholders in the message *)
Theorem C07_declarations_distinct : forall k m,
  NoDup (declared k m "matches") /\ forall n i, NoDup (declared k m (inner_error n i)).
Proof. intros. split; [apply declared_distinct, matches_fresh|intros; apply declared_distinct, inner_error_fresh]. Qed.
(* the translator's own recursion terminates on every rule (no profile makes the generator loop) *)
Theorem C07_generator_terminates : forall (A P : Type) fuel (r : rule A P), mu r < fuel -> disp fuel r <> None.
Proof. exact fuel_enough. Qed.
(* the package name is an identifier whatever the profile is called *)
Theorem C07_package_name : forall s, all_ident (package_name s) = true.
Proof. exact package_name_is_identifier. Qed.
(* the statements the translator appends to every rule body (trace bindings, placeholder lookups, message, result) read only
   variables bound by an earlier one of them, for any number of constraints and placeholders: none is unsafe *)
Theorem C07_rule_tail_is_safe : forall k m head, safe_from [] (tail_stmts k m head) = true.
Proof. exact tail_stmts_safe. Qed.
Theorem C07_rule_tail_declares : forall k m head, map fst (tail_stmts k m head) = declared k m head.
Proof. exact tail_stmts_declare. Qed.
(* the two literals whose first versions did not compile (repaired defects): every regular expression - with backticks,
   quotes, backslashes, newlines - is written as a string literal the engine reads back as exactly that text; every value
   list, the empty one included, is written as a SET literal (`{ }` would be the empty object) *)
Theorem C07_pattern_literal : forall p rest,
  scan_string_term (S (String.length p)) (pattern_literal p ++ rest) = Some (p, rest).
Proof. exact pattern_literal_verbatim. Qed.
Theorem C07_value_list_is_a_set : forall l, classify_collection (string_set_literal l) = KSet.
Proof. exact string_set_is_a_set. Qed.
Theorem C07_refuted_before_fixes :
  scan_raw ("x`y" ++ String "`" ",v)") = Some ("x", "y`,v)") /\ classify_collection "{ }" = KObject.
Proof. split; [exact pattern_refuted_before_fix|exact (proj1 empty_braces_are_an_object)]. Qed.
(* the helper variables of the snippets are never captured by a quantified variable or a collection *)
Theorem C07_helpers_not_captured : forall i, ~ In (var_name i) helper_vars /\ ~ In (plural (var_name i)) helper_vars.
Proof. exact helpers_not_quantified. Qed.
(* with `n` in the alphabet (the code before fix b549e1d) the 24th quantified variable captured the helper `n` *)
Theorem C07_refuted_with_n : In "n" helper_vars.
Proof. simpl. auto. Qed.
(* with `a` in the alphabet (the code before the repair) the 12th collection was the keyword `as` *)
Theorem C07_refuted_with_a : is_keyword extracted_keywords (plural "a") = true.
Proof. vm_compute. reflexivity. Qed.

Example C07_example : var_name 0 = "x" /\ var_name 23 = "o" /\ var_name 24 = "X24" /\ plural (var_name 6) = "ss"
  /\ declared 2 1 "matches" = ["_result_0"; "_result_1"; "msg_var_0"; "message_vars"; "message"; "matches"].
Proof. vm_compute. repeat split. Qed.

(* the code written for a property path (Model/PathGen.v: one clause per alternative, the statements of
   traverseRegularProperty per step; its text is compared line by line with the real path rules in the C02 run): for EVERY
   path, start variable and mode, every clause is safe in the engine's sense - each statement needs only variables bound by
   earlier statements of the clause - and ends by binding `nodes`, the variable of the rule head *)
Theorem C07_path_rules_are_safe : forall p fetch v cl, In cl (path_clauses p fetch v) -> safe_from [] (map du cl) = true.
Proof. exact path_clauses_safe. Qed.
Theorem C07_path_rules_bind_nodes : forall p fetch v cl, In cl (path_clauses p fetch v) -> exists pre x, cl = (pre ++ [PNodes x])%list.
Proof. exact clause_ends_with_nodes. Qed.
(* and the variable of every step of a clause is bound by that step only (the variables are <v>_0, <v>_2, <v>_3, ...: a later
   step never re-binds - that is, silently unifies with - the variable of an earlier one) *)
Theorem C07_path_step_variables_bound_once : forall p fetch v cl, In cl (path_clauses p fetch v) -> NoDup (step_vars cl).
Proof. exact clause_step_variables_bound_once. Qed.
Theorem C07_path_rule_example :
  path_rule_lines (Or [And [Pred "A" false false; Or [Pred "B" false false; Pred "C" true false]]; Pred "D" false false]) false "x"
  = [["init_x_0 = data.sourceNode"; "tmp_x_0 = nested_nodes with data.nodes as init_x_0[""A""]"; "x_0 = tmp_x_0[_][_]";
      "nodes_tmp = object.get(x_0,""B"",[])"; "nodes_tmp2 = nodes_array with data.nodes as nodes_tmp"; "x_2 = nodes_tmp2[_]"; "nodes = x_2"];
     ["init_x_0 = data.sourceNode"; "tmp_x_0 = nested_nodes with data.nodes as init_x_0[""A""]"; "x_0 = tmp_x_0[_][_]";
      "search_subjects[x_2] with data.predicate as ""C"" with data.object as x_0"; "nodes = x_2"];
     ["init_x_0 = data.sourceNode"; "nodes_tmp = object.get(init_x_0,""D"",[])"; "nodes_tmp2 = nodes_array with data.nodes as nodes_tmp";
      "x_0 = nodes_tmp2[_]"; "nodes = x_0"]]%string.
Proof. exact path_clauses_example. Qed.

(* whole rules (Model/RuleGen.v: the text of a top-level rule - target class, the lines of every constraint of the branch each
   followed by its trace binding, the message bindings, the matches binding - compared line by line with the real module in the
   run): the body is safe for EVERY branch of well-scoped constraint snippets, any number of message placeholders, any names;
   the count / length, pattern, datatype, numeric-bound, `in`, containsAll / containsSome and property-pair snippets are well-scoped, whatever their parameters *)
Theorem C07_rule_bodies_are_safe : forall x branch m, Forall (ok x) branch -> safe_from [] (rule_du x branch m) = true.
Proof. exact rule_safe. Qed.
Theorem C07_snippets_are_well_scoped : forall x src rule n,
  (forall pv neg cond k cid tp, ok x (count_snippet x src rule n pv neg cond k cid tp))
  /\ (forall neg lit shown tp, ok x (pattern_snippet x src rule n neg lit shown tp))
  /\ (forall neg dt tp, ok x (datatype_snippet x src rule n neg dt tp))
  /\ (forall neg cid op kt tp, ok x (numeric_snippet x src rule n neg cid op kt tp))
  /\ (forall n2 neg vals tp, ok x (in_snippet x src rule n n2 neg vals tp))
  /\ (forall all n2 neg vals tp, ok x (contains_snippet all x src rule n n2 neg vals tp))
  /\ (forall srcB ruleB neg cid op tp, ok x (cmp_snippet x src rule srcB ruleB neg cid op tp)).
Proof.
  intros x src rule n. repeat split; intros.
  - apply count_snippet_ok.
  - apply pattern_snippet_ok.
  - apply datatype_snippet_ok.
  - apply numeric_snippet_ok.
  - apply in_snippet_ok.
  - apply contains_snippet_ok.
  - apply cmp_snippet_ok.
Qed.
Theorem C07_rule_text_example :
  rule_lines "violation" "x" "http://example.org/ns#T" "v"
    [count_snippet "x" "ex.a / ex.b" "gen_path_set_rule_2" 1 true false "<=" 3 "maxLength" "http://example.org/ns#a / http://example.org/ns#b"]
    ["http://example.org/ns#a"] "m %v"
  = ["violation[matches] {";
     "  target_class[x] with data.class as ""http://example.org/ns#T""";
     "  #  querying path: ex.a / ex.b";
     "  gen_propValues_1 = gen_path_set_rule_2 with data.sourceNode as x";
     "  gen_propValues_1_elem = gen_propValues_1[_]";
     "  not count(gen_propValues_1_elem) <= 3";
     "  _result_0 := trace(""maxLength"",""http://example.org/ns#a / http://example.org/ns#b"",x,{""@type"": [""reportSchema:TraceValueNode"", ""validation:TraceValue""], ""negated"":false,""condition"":""<="",""actual"": count(gen_propValues_1_elem),""expected"": 3})";
     "  msg_var_0 := object.get(x, ""http://example.org/ns#a"", ""null"")";
     "  message_vars := [msg_var_0]";
     "  message := sprintf(""m %v"", message_vars)";
     "  matches := error(""v"",x, message ,[_result_0])";
     "}"]%string.
Proof. exact rule_lines_example. Qed.

(* The whole generator as one function (Model/Elab.v: the parser that keeps what the generator reads; Model/Compile.v: Dispatch with
   the name counter threaded, the snippets, wrapBranch, Generate), compared byte for byte with generator.Generate in the run.
   It is total: a profile the parser accepts always gets its module (the recursion through Negate() runs on fuel, and the fuel
   given is enough), whatever the value of the name counter. *)
Theorem C07_text_generator_terminates : forall r c, gen (S (mu r)) r c <> None.
Proof. exact gen_total. Qed.
Theorem C07_accepted_profile_gets_its_module : forall defaults preamble doc c p,
  elab_profile defaults doc = POk p -> exists text c', compile defaults preamble doc c = POk (text, c').
Proof. exact compile_total. Qed.
(* non-vacuity: an `or` of a nested constraint over an inverse path and a negated pattern, with a message placeholder *)
Definition c07_ex_doc : ynode :=
  YMap [("profile", YScalar "!!str" "Ex");
        ("violation", YSeq [YScalar "!!str" "v1"]);
        ("validations", YMap [("v1", YMap [("targetClass", YScalar "!!str" "ex.T"); ("message", YScalar "!!str" "m {{ex.a}}");
           ("or", YSeq [YMap [("propertyConstraints", YMap [("ex.b", YMap [("nested", YMap [("propertyConstraints", YMap [("ex.c ^", YMap [("minCount", YScalar "!!int" "1")])])])])])];
                        YMap [("not", YMap [("propertyConstraints", YMap [("ex.a", YMap [("pattern", YScalar "!!str" "^a")])])])]])])])].
Theorem C07_module_text_example :
  compile [("ex", "http://e/#")] "PRE" c07_ex_doc 0 = POk ("package profile_ex

report[""profile""] = ""Ex""
PRE

default warning = []

default info = []
# Path rules

gen_path_set_rule_1[nodes] {
  init_x_0 = data.sourceNode
  nodes_tmp = object.get(init_x_0,""http://e/#a"",[])
  nodes_tmp2 = nodes_array with data.nodes as nodes_tmp
  x_0 = nodes_tmp2[_]
  nodes = x_0
}

gen_path_set_rule_3[nodes] {
  init_x_0 = data.sourceNode
  tmp_x_0 = nested_nodes with data.nodes as init_x_0[""http://e/#b""]
  x_0 = tmp_x_0[_][_]
  nodes = x_0
}

gen_path_set_rule_5[nodes] {
  init_y_0 = data.sourceNode
  search_subjects[y_0] with data.predicate as ""http://e/#c"" with data.object as init_y_0
  nodes = y_0
}

# Constraint rules

violation[matches] {
  target_class[x] with data.class as ""http://e/#T""
  #  querying path: ex.a
  gen_gen_path_set_rule_1_node_2_array = gen_path_set_rule_1 with data.sourceNode as x
  gen_gen_path_set_rule_1_node_2 = gen_gen_path_set_rule_1_node_2_array[_]
  regex.match(`^a`,gen_gen_path_set_rule_1_node_2)
  _result_0 := trace(""pattern"",""http://e/#a"",x,{""@type"": [""reportSchema:TraceValueNode"", ""validation:TraceValue""], ""negated"":true,""expected"": ""^a"",""actual"": gen_gen_path_set_rule_1_node_2})
  #  querying path: ex.b
  ys = gen_path_set_rule_3 with data.sourceNode as x
  y_errorAcc0 = []
  ys_br_0 = [ ys_br_0_error|
    y = ys[_]
    #  querying path: ex.c ^
    gen_propValues_4 = gen_path_set_rule_5 with data.sourceNode as y
    not count(gen_propValues_4) >= 1
    _result_0 := trace(""minCount"",""http://e/#c^"",y,{""@type"": [""reportSchema:TraceValueNode"", ""validation:TraceValue""], ""negated"":false,""condition"":"">="",""actual"": count(gen_propValues_4),""expected"": 1})
    message := ""error in nested nodes under http://e/#b""
    ys_br_0_inner_error := error(""nested"",y, message ,[_result_0])
    ys_br_0_error = [y[""@id""],ys_br_0_inner_error]
  ]
  ys_br_0_errors = { nodeId | n = ys_br_0[_]; nodeId = n[0] }
  ys_br_0_errors_errors = [ node | n = ys_br_0[_]; node = n[1] ]
  y_errorAcc1 = array.concat(y_errorAcc0,ys_br_0_errors_errors)
  y_errorAcc = y_errorAcc1
  # let's accumulate results
  ys_error_node_variables_agg = ys_br_0_errors
  count(ys_error_node_variables_agg) > 0
  _result_1 := trace(""nested"",""http://e/#b"",x,{""@type"": [""reportSchema:TraceValueNode"", ""validation:TraceValue""], ""negated"":false, ""failedNodes"":count(ys_error_node_variables_agg), ""successfulNodes"":(count(ys)-count(ys_error_node_variables_agg)),""subResult"": y_errorAcc})
  msg_var_0 := object.get(x, ""http://e/#a"", ""null"")
  message_vars := [msg_var_0]
  message := sprintf(""m %v"", message_vars)
  matches := error(""v1"",x, message ,[_result_0,_result_1])
}", 5).
Proof. vm_compute. reflexivity. Qed.

(* Safety of EVERY rule body of a declarative profile, nested constraints included.  Next to its text every result of the
   generator carries the reading of its lines as statements (variable bound, variables needed; a comprehension is a local
   scope: Compile.stmt / safe_list).  For a rule whose constraints all speak about the variable in scope and that holds no
   hand-written Rego - [scoped], what the parser builds for a declarative profile; the run evaluates the test scoped_b on the rule
   built for every compared profile - every body the generator writes is safe from the empty environment, whatever the depth,
   width, number of placeholders and value of the name counter. *)
Theorem C07_nested_constraints_are_well_scoped : forall neg qn p rule results,
  Forall (fun t => Forall (okc (cn_child p)) (t_branch t)) results -> okc (cn_parent p) (nested_simple neg qn p rule results).
Proof. exact nested_okc. Qed.
Theorem C07_every_result_is_well_scoped : forall fuel r c ts c' v, scoped v r -> gen fuel r c = Some (ts, c') -> all_okc v ts.
Proof. exact gen_okc. Qed.
Theorem C07_every_rule_body_is_safe : forall fuel r c ts c' x m,
  scoped x r -> gen fuel r c = Some (ts, c') ->
  forall t, In t ts -> safe_list [] (rule_body_du x m (t_branch t)) = true.
Proof. exact rule_bodies_safe. Qed.
Theorem C07_declarative_profile_bodies_are_safe : forall p v fuel c ts c' m,
  profile_scoped p = true -> In v (cp_vals p) -> gen fuel (cv_rule v) c = Some (ts, c') ->
  forall t, In t ts -> safe_list [] (rule_body_du (cv_var v) m (t_branch t)) = true.
Proof. exact declarative_profile_bodies_safe. Qed.
Theorem C07_scoped_test_is_sound : forall r v, scoped_b v r = true -> scoped v r.
Proof. exact scoped_b_sound. Qed.
Theorem C07_example_is_declarative : declarative [("ex", "http://e/#")] c07_ex_doc = POk true.
Proof. vm_compute. reflexivity. Qed.

Print Assumptions C07_tie_letters.
Print Assumptions C07_tie_templates.
Print Assumptions C07_keywords_plain.
Print Assumptions C07_letters_ok.
Print Assumptions C07_vars_not_keywords.
Print Assumptions C07_derived_not_keywords.
Print Assumptions C07_vars_distinct.
Print Assumptions C07_collections_distinct.
Print Assumptions C07_names_nonempty.
Print Assumptions C07_numbered_names_distinct.
Print Assumptions C07_declarations_distinct.
Print Assumptions C07_generator_terminates.
Print Assumptions C07_package_name.
Print Assumptions C07_rule_tail_is_safe.
Print Assumptions C07_rule_tail_declares.
Print Assumptions C07_pattern_literal.
Print Assumptions C07_value_list_is_a_set.
Print Assumptions C07_refuted_before_fixes.
Print Assumptions C07_refuted_with_a.
Print Assumptions C07_helpers_not_captured.
Print Assumptions C07_refuted_with_n.
Print Assumptions C07_path_rules_are_safe.
Print Assumptions C07_path_rules_bind_nodes.
Print Assumptions C07_path_rule_example.
Print Assumptions C07_path_step_variables_bound_once.
Print Assumptions C07_rule_bodies_are_safe.
Print Assumptions C07_snippets_are_well_scoped.
Print Assumptions C07_rule_text_example.
Print Assumptions C07_text_generator_terminates.
Print Assumptions C07_accepted_profile_gets_its_module.
Print Assumptions C07_module_text_example.
Print Assumptions C07_nested_constraints_are_well_scoped.
Print Assumptions C07_every_result_is_well_scoped.
Print Assumptions C07_every_rule_body_is_safe.
Print Assumptions C07_declarative_profile_bodies_are_safe.
Print Assumptions C07_scoped_test_is_sound.
Print Assumptions C07_example_is_declarative.
