(* C06 - same inputs, byte-identical report and byte-identical generated code.
   Statements only; proofs in Proofs/SchedProofs.v and Proofs/ReportProofs.v. *)
From Coq Require Import Permutation.
From ACV Require Import Base.Strs Model.Sched Model.SharedRef Model.Report Proofs.SchedProofs Proofs.ReportProofs.
From ACV Require Import Extracted.SharedFacts Extracted.RangeFacts.
From ACV Require Model.Interleave Proofs.InterleaveProofs.
Local Open Scope list_scope.

(* ties: every loop over a Go map in the non-test code is one of the classified, order-insensitive ones; the
   keys of a YAML mapping are taken in document order, not from a Go map; the counter that numbers generated
   names is never reset by the API *)
Theorem C06_tie_map_ranges : map_range_sites = map fst classified_ranges.
Proof. vm_compute. reflexivity. Qed.
Theorem C06_tie_document_order : sk_get_map_keys = ref_sk_get_map_keys.
Proof. vm_compute. reflexivity. Qed.
Theorem C06_tie_counter : sk_genvar = ref_sk_genvar /\ genreset_call_sites = ref_genreset_call_sites.
Proof. vm_compute. split; reflexivity. Qed.

(* loops that only build a map: any iteration order gives the same map *)
Theorem C06_merge_order_irrelevant : forall V (this : amap V) entries entries', NoDup (map fst entries) ->
  Permutation entries entries' -> forall k, lookup k (merge_in_order this entries) = lookup k (merge_in_order this entries').
Proof. exact merge_order_irrelevant. Qed.
(* defineIdRecursively: the id of the node at a path is a function of the path, not of the iteration order *)
Theorem C06_ids_from_paths : forall t id, ids id t = map (fun p => (id ++ J p)%string) (paths t).
Proof. exact ids_paths. Qed.
(* the numbers a solo compilation receives are the same in every fresh process: counter+1, counter+2, ... *)
Theorem C06_fresh_process_numbers : forall s, only_gen s = true ->
  numbers (run {| counter := 0; handed := [] |} s) = map S (seq 0 (List.length s)).
Proof.
  intros s Hg. destruct (run_only_gen s {| counter := 0; handed := [] |} Hg) as [_ Hn]. rewrite Hn. reflexivity.
Qed.

(* the shape of the whole argument (Model/Interleave.v): a call is a program over its own state plus numbers taken from the
   shared counter; an observation that is blind to WHICH numbers were handed (a report - generated names are internal to the
   module - or the generated code up to its numbering) is the same under every schedule, in every process, whatever else runs:
   same program (same inputs), same initial state, same observation *)
Module I := Interleave.
Module IP := InterleaveProofs.
Theorem C06_same_inputs_same_observation : forall (P O : Type) (obs : P -> O) (prog : list (I.op P)) (p : P),
  IP.number_blind P O obs p prog ->
  forall (s s' : I.schedule P) (w w' : I.world P) t t',
  I.program_of t s = prog -> I.program_of t' s' = prog -> I.priv w t = p -> I.priv w' t' = p ->
  obs (I.priv (I.run w s) t) = obs (I.priv (I.run w' s') t').
Proof. exact IP.same_inputs_same_observation. Qed.
(* and a call by itself in a fresh process gets the numbers 1, 2, 3, ... : its generated code is the same text every time *)
Theorem C06_fresh_process_same_state : forall (P : Type) (prog : list (I.op P)) (w w' : I.world P) t,
  I.ctr w = I.ctr w' -> I.priv w t = I.priv w' t ->
  I.priv (I.run w (map (fun o => (t, o)) prog)) t = I.priv (I.run w' (map (fun o => (t, o)) prog)) t.
Proof. intros P prog w w' t Hc Hp. rewrite !IP.noninterference, Hc, Hp. reflexivity. Qed.

Print Assumptions C06_tie_map_ranges.
Print Assumptions C06_tie_document_order.
Print Assumptions C06_tie_counter.
Print Assumptions C06_merge_order_irrelevant.
Print Assumptions C06_ids_from_paths.
Print Assumptions C06_fresh_process_numbers.
Print Assumptions C06_same_inputs_same_observation.
Print Assumptions C06_fresh_process_same_state.
