(* C05 - verdicts are invariant under JSON-LD re-serialisation of the same graph (on the stated fragment).
   Statements only; proofs in Proofs/GraphEquivProofs.v and Proofs/JsonLdProofs.v.
   [denote d] = the triples document d states; [flatten d] = the indexed graph the policy evaluates;
   [same_triples] = same node ids and, per node and property, the same values as sets. *)
From ACV Require Import Base.Strs Model.Graph Model.PathGrammar Model.PathSem Model.Dnf Model.Rules Model.JsonLd Model.PipelineRef.
From ACV Require Import Proofs.GraphEquivProofs Proofs.JsonLdProofs Extracted.PipelineFacts Extracted.SharedFacts Model.SharedRef.
Local Open Scope list_scope.

(* ties: ProcessInput decodes, flattens with an empty context and indexes, as modelled *)
Theorem C05_tie_normalisation : sk_process_input = ref_sk_process_input /\ sk_normalize = ref_sk_normalize /\ sk_index = ref_sk_index
  /\ normalize_options = ref_normalize_options.
Proof. vm_compute. repeat split. Qed.

(* evaluation depends on the graph only through its set of triples: node order, property order, value order
   and repetition are irrelevant - for every path, every formula of any depth, both polarities, every node *)
Theorem C05_paths_respect_equivalence : forall g g', same_triples g g' -> forall p n a, In a (den g p n) <-> In a (den g' p n).
Proof. exact den_equiv. Qed.
Theorem C05_eval_respects_equivalence : forall g g', same_triples g g' -> forall f pol n, lsat g pol f n = lsat g' pol f n.
Proof. exact lsat_equiv. Qed.
Theorem C05_classical_respects_equivalence : forall g g', same_triples g g' -> forall f n, csat g f n = csat g' f n.
Proof. exact csat_equiv. Qed.
Theorem C05_results_respect_equivalence : forall g g', same_triples g g' -> forall cls f id, wf_form f = true ->
  (exists n, In n (validation_results g cls f) /\ nid n = id) <-> (exists n', In n' (validation_results g' cls f) /\ nid n' = id).
Proof. exact results_equiv. Qed.

(* the indexed graph depends on the document only through the set of triples it states *)
Theorem C05_index : forall ts ts', (forall t, In t ts <-> In t ts') -> same_triples (to_graph ts) (to_graph ts').
Proof. exact to_graph_same_triples. Qed.
Theorem C05_index_holds_the_triples : forall ts s p v, In v (props (node_of ts s) p) <-> In (s, p, v) ts.
Proof. exact props_node_of. Qed.

(* the property: two documents that state the same triples get the same reported nodes for every validation *)
Theorem C05 : forall d d', (forall t, In t (denote d) <-> In t (denote d')) ->
  forall cls f id, wf_form f = true ->
    ((exists n, In n (validation_results (flatten d) cls f) /\ nid n = id) <->
     (exists n', In n' (validation_results (flatten d') cls f) /\ nid n' = id)).
Proof. exact same_denotation_same_results. Qed.

(* the surface variations the property lists state the same triples *)
Theorem C05_surface : forall ctx base,
  (forall ns ns', (forall n, In n ns <-> In n ns') ->
     same_members (denote {| d_ctx := ctx; d_base := base; d_nodes := ns |}) (denote {| d_ctx := ctx; d_base := base; d_nodes := ns' |}))
  /\ (forall p l ns, assoc p ctx = Some ns -> expand ctx base (ICompact p l) = expand ctx base (IAbs (ns ++ l)%string))
  /\ (forall s, expand ctx base (IRel s) = expand ctx base (IAbs (base ++ s)%string))
  /\ (forall l v, assoc l ctx = None -> assoc "@vocab"%string ctx = Some v -> expand ctx base (IVocab l) = expand ctx base (IAbs (v ++ l)%string))
  /\ (forall i ts p m, same_members (denote_node ctx base (SNode i ts [(p, [SEmbed m])]))
                                    (denote_node ctx base (SNode i ts [(p, [SRef (node_id m)])]) ++ denote_node ctx base m))
  /\ (forall i ts p v, same_members (denote_node ctx base (SNode i ts [(p, [v; v])])) (denote_node ctx base (SNode i ts [(p, [v])])))
  /\ (forall i ts ts2 ps1 ps2, (forall t, In t ts2 -> In t ts) ->
        same_members (denote_node ctx base (SNode i ts (ps1 ++ ps2)))
                     (denote_node ctx base (SNode i ts ps1) ++ denote_node ctx base (SNode i ts2 ps2))).
Proof.
  intros ctx base. split; [|split; [|split; [|split; [|split; [|split]]]]].
  - intros ns ns' H. now apply surface_node_order.
  - intros p l ns H. now apply surface_compact.
  - intros s. apply surface_relative.
  - intros l v H1 H2. now apply surface_vocab.
  - intros i ts p m. apply surface_embedded.
  - intros i ts p v. apply surface_repeated_value.
  - intros i ts ts2 ps1 ps2 H. now apply surface_split_description.
Qed.

Example C05_example :
  let ctx := [("ex", "http://example.org/ns#")] in
  let d1 := {| d_ctx := ctx; d_base := "http://example.org/d"; d_nodes :=
      [SNode (IRel "#a") [ICompact "ex" "T"] [(ICompact "ex" "kid", [SEmbed (SNode (IRel "#b") [] [(ICompact "ex" "name", [SStr "n"; SStr "n"])])])]] |} in
  let d2 := {| d_ctx := []; d_base := ""; d_nodes :=
      [SNode (IAbs "http://example.org/d#b") [] [(IAbs "http://example.org/ns#name", [SStr "n"])];
       SNode (IAbs "http://example.org/d#a") [IAbs "http://example.org/ns#T"] [(IAbs "http://example.org/ns#kid", [SRef (IAbs "http://example.org/d#b")])]] |} in
  map nid (flatten d1) = ["http://example.org/d#a"; "http://example.org/d#b"]
  /\ forallb (fun t => existsb (fun t' => String.eqb (subj t) (subj t') && String.eqb (pred t) (pred t') && value_eqb (obj t) (obj t')) (denote d2)) (denote d1) = true.
Proof. vm_compute. split; reflexivity. Qed.

Print Assumptions C05_tie_normalisation.
Print Assumptions C05_paths_respect_equivalence.
Print Assumptions C05_eval_respects_equivalence.
Print Assumptions C05_classical_respects_equivalence.
Print Assumptions C05_results_respect_equivalence.
Print Assumptions C05_index.
Print Assumptions C05_index_holds_the_triples.
Print Assumptions C05.
Print Assumptions C05_surface.
