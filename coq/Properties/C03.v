(* C03 - conforms, severities and report header agree with the result list.
   Statements only; proofs in Proofs/ReportProofs.v and Proofs/EngineProofs.v.
   [build_report m c] is BuildReport on the three result lists [m] the evaluated policy returns, under report
   configuration / clock [c]; [validate g p c] feeds it with the results of profile p on graph g. *)
From ACV Require Import Base.Strs Model.Graph Model.Rules Model.Report Model.ReportRef Model.Engine.
From ACV Require Import Proofs.ReportProofs Proofs.EngineProofs Extracted.ReportFacts.
From ACV Require Import Model.Yaml Model.ProfileParser Proofs.TextSemantics.
From ACV Require Import Model.ReportJson Proofs.ReportJsonProofs.

(* ties: conforms is computed from the violation list only; the three lists are walked in the order and with
   the level / id prefix the model uses; dateCreated and result are guarded as modelled *)
Theorem C03_tie_conforms : conforms_expr = ref_conforms_expr.
Proof. vm_compute. reflexivity. Qed.
Theorem C03_tie_levels : build_results_loops = ref_build_results_loops /\ build_validation_strings = ref_build_validation_strings.
Proof. vm_compute. split; reflexivity. Qed.
Theorem C03_tie_report_node : report_node_conditions = ref_report_node_conditions /\ context_condition = ref_context_condition
                              /\ report_node_strings = ref_report_node_strings /\ date_created_expr = ref_date_created_expr.
Proof. vm_compute. repeat split. Qed.

Theorem C03_conforms_iff : forall m c,
  rp_conforms (build_report m c) = true <->
  (forall o, In o (results_of (build_report m c)) -> o_severity o <> severity_iri Violation).
Proof. exact conforms_iff. Qed.
Theorem C03_severities : forall m c,
  map (fun o => (o_severity o, o_res o)) (results_of (build_report m c))
  = (map (fun r => (severity_iri Violation, r)) (e_violation m)
     ++ map (fun r => (severity_iri Warning, r)) (e_warning m)
     ++ map (fun r => (severity_iri Info, r)) (e_info m))%list.
Proof. exact severities. Qed.
Theorem C03_warnings_infos_never_change_conforms : forall m w w' i i' c c',
  rp_conforms (build_report {| e_profile := e_profile m; e_violation := e_violation m; e_warning := w; e_info := i |} c)
  = rp_conforms (build_report {| e_profile := e_profile m; e_violation := e_violation m; e_warning := w'; e_info := i' |} c').
Proof. exact conforms_ignores_warnings. Qed.
Theorem C03_result_key_iff : forall m c,
  (rp_result (build_report m c) = None <-> all_results m = [])
  /\ (forall rs, rp_result (build_report m c) = Some rs -> rs <> [])
  /\ (rp_conforms_context (build_report m c) = true <-> rp_result (build_report m c) = None).
Proof. exact result_key_iff. Qed.
Theorem C03_header : forall m c,
  rp_profile_name (build_report m c) = e_profile m
  /\ (rp_date_created (build_report m c) <> None <-> include_time c = true)
  /\ (forall t, rp_date_created (build_report m c) = Some t -> t = time_text c).
Proof. exact header. Qed.
Theorem C03_config_changes_nothing_else : forall m c c',
  erase_config (build_report m c) = erase_config (build_report m c').
Proof. exact config_changes_nothing_else. Qed.
(* each result carries the severity of a level under which its validation is listed in the profile *)
Theorem C03_severity_of_level : forall g p c o, In o (results_of (validate g p c)) ->
  exists l d n, In (l, r_name (o_res o)) (p_listed p) /\ o_severity o = severity_iri l
                /\ find_def p (r_name (o_res o)) = Some d
                /\ In n g /\ r_focus (o_res o) = nid n /\ has_type n (v_class d) = true
                /\ (wf_form (v_form d) = true -> lsat g true (v_form d) (nid n) = false).
Proof. exact results_traced. Qed.
(* from the profile TEXT: the report built for a YAML tree conforms exactly when the verdict computed from that tree holds no
   violation-level entry (warnings and infos never matter) *)
Theorem C03_conforms_from_text : forall defaults doc g c rp v,
  report_from_text defaults doc g c = POk rp -> verdict defaults doc g = POk v ->
  (rp_conforms rp = true <-> forall nm fo msg, ~ In (Violation, nm, fo, msg) v).
Proof. exact conforms_from_text. Qed.
Theorem C03_model_meets_spec : forall m c,
  forallb (fun r => wf_et (r_tree r)) (all_results m) = true -> spec_report m c (build_report m c) = true.
Proof. exact model_meets_spec. Qed.

(* non-vacuity *)
Example C03_example :
  let r := {| r_name := "v"; r_focus := "n"; r_msg := "m"; r_tree := unit_tree |} in
  let m := {| e_profile := "P"; e_violation := []; e_warning := [r; r]; e_info := [r] |} in
  let c := {| include_time := true; time_text := "2000-11-28T00:00:00Z"; report_iri := "a"; lexical_iri := "b" |} in
  rp_conforms (build_report m c) = true /\ List.length (results_of (build_report m c)) = 3
  /\ spec_report m c (build_report m c) = true.
Proof. vm_compute. repeat split. Qed.

(* On the BYTES of the report (Model/ReportJson.v: BuildReport over the value the policy returns, down to encoding/json; compared
   byte for byte with the library's report in the C03, C12, C13 and C14 runs): what the report node says, for every value the
   policy can return and every configuration. *)
Theorem C03_bytes_header : forall top name vs ws is c j,
  jget "profile" top = Some (JStr name) -> jget "violation" top = Some (JArr vs) ->
  jget "warning" top = Some (JArr ws) -> jget "info" top = Some (JArr is) ->
  build_report_json (JObj top) c = Some j ->
  exists report a b d,
    report_node j = Some report
    /\ build_level_json Violation 0 vs = Some a /\ build_level_json Warning 0 ws = Some b /\ build_level_json Info 0 is = Some d
    /\ jget "profileName" report = Some (JStr name)
    /\ jget "conforms" report = Some (JBool (match vs with [] => true | _ => false end))
    /\ jget "dateCreated" report = (if include_time c then Some (JStr (time_text c)) else None)
    /\ jget "result" report = (match (a ++ b ++ d)%list with [] => None | rs => Some (JArr rs) end)
    /\ context_of j = Some (JObj (match (a ++ b ++ d)%list with [] => conforms_context c | _ => validation_context c end)).
Proof. exact report_header. Qed.
Theorem C03_bytes_severity : forall l i raw r, build_validation l i raw = Some r ->
  match r with JObj fields => jget "resultSeverity" fields = Some (JStr (severity_iri l)) | _ => False end.
Proof. exact result_severity. Qed.
Theorem C03_bytes_conforms_iff_no_violation : forall top name vs ws is c j report a b d,
  jget "profile" top = Some (JStr name) -> jget "violation" top = Some (JArr vs) ->
  jget "warning" top = Some (JArr ws) -> jget "info" top = Some (JArr is) ->
  build_report_json (JObj top) c = Some j ->
  report_node j = Some report ->
  build_level_json Violation 0 vs = Some a -> build_level_json Warning 0 ws = Some b -> build_level_json Info 0 is = Some d ->
  (jget "conforms" report = Some (JBool true) <->
   Forall (fun r => match r with JObj fields => jget "resultSeverity" fields <> Some (JStr (severity_iri Violation)) | _ => True end) (a ++ b ++ d)%list).
Proof. exact conforms_iff_no_violation. Qed.
Theorem C03_bytes_config_changes_only_the_date : forall m c c' j j' r r',
  build_report_json m c = Some j -> build_report_json m c' = Some j' ->
  report_node j = Some r -> report_node j' = Some r' ->
  forall k, k <> "dateCreated"%string -> jget k r = jget k r'.
Proof. exact config_changes_only_the_date. Qed.
(* non-vacuity: one warning, time included *)
Example C03_bytes_example :
  build_report_text (JObj [("profile", JStr "P"); ("violation", JArr []); ("info", JArr []);
                           ("warning", JArr [JObj [("@type", JArr [JStr "T"]); ("focusNode", JStr "n"); ("trace", JArr [JObj [("@type", JArr [JStr "U"])]])]])])
                    {| include_time := true; time_text := "2031-03-04T05:06:07Z"; report_iri := "r"; lexical_iri := "l" |}
  <> None.
Proof. vm_compute. discriminate. Qed.

Print Assumptions C03_tie_conforms.
Print Assumptions C03_tie_levels.
Print Assumptions C03_tie_report_node.
Print Assumptions C03_conforms_iff.
Print Assumptions C03_severities.
Print Assumptions C03_warnings_infos_never_change_conforms.
Print Assumptions C03_result_key_iff.
Print Assumptions C03_header.
Print Assumptions C03_config_changes_nothing_else.
Print Assumptions C03_severity_of_level.
Print Assumptions C03_conforms_from_text.
Print Assumptions C03_model_meets_spec.
Print Assumptions C03_bytes_header.
Print Assumptions C03_bytes_severity.
Print Assumptions C03_bytes_conforms_iff_no_violation.
Print Assumptions C03_bytes_config_changes_only_the_date.
