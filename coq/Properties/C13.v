(* C13 - profile text is data: names and messages reach the report intact.
   Statements only; proofs in Proofs/EscapeProofs.v.
   [escape] is generator/quote.go regoStringContent (used for the profile name, the validation name, the
   message and list values); [scan_literal] is the engine's string-literal scanner; [rendered] is what the
   engine computes from the lines wrapBranch generates for a message; [display] is what C13 says the
   report must show. *)
From ACV Require Import Base.Strs Model.Escape Model.TemplatesRef Proofs.EscapeProofs Extracted.Templates.
Local Open Scope string_scope.

(* ties: the escaper's case analysis and escape sequences, the placeholder expression and the percent
   doubling, the paste sites *)
Theorem C13_tie_escaper : tpl_quote = ref_quote /\ tpl_quote_all_literals = ref_quote_all_literals.
Proof. vm_compute. split; reflexivity. Qed.
Theorem C13_tie_message : tpl_message = ref_message.
Proof. vm_compute. reflexivity. Qed.
Theorem C13_tie_paste_sites : tpl_names = ref_names /\ tpl_expression = ref_expression.
Proof. vm_compute. split; reflexivity. Qed.

(* for EVERY byte string s: the pasted text is one string literal that denotes exactly s, and the text after
   the closing quote is untouched - no character of s can close the literal, continue it or add code *)
Theorem C13_no_injection : forall s rest fuel, String.length s < fuel ->
  scan_literal fuel (escape s ++ String """" rest) = Some (s, rest).
Proof. exact scan_escape. Qed.
(* profile name and validation name are shown verbatim *)
Theorem C13_names_verbatim : forall s rest, scan_literal (S (String.length s)) (paste_name s ++ String """" rest) = Some (s, rest).
Proof. exact name_verbatim. Qed.
(* the message is shown as written, each placeholder replaced by the focus node's value, double quotes as
   single quotes: for every message text and every value assignment *)
Theorem C13_message : forall m value_of, rendered m value_of = Some (display m value_of).
Proof. exact message_rendered. Qed.
(* the values of in / containsAll / containsSome lists: every list of texts, whatever they contain, is read back by the
   engine element by element as exactly those texts, and the code after the last element is untouched *)
Theorem C13_list_values_verbatim : forall l fuel rest, l <> [] -> max_length l < fuel ->
  scan_elements fuel (List.length l) (join_quoted l ++ rest) = Some (l, rest).
Proof. exact list_values_verbatim. Qed.
(* the package name derived from the profile name is always an identifier *)
Theorem C13_package_name : forall s, all_ident (package_name s) = true.
Proof. exact package_name_is_identifier. Qed.
(* before the repair a backslash in a message made the literal illegal (defect D14, fixed) *)
(* the engine's scanner (scan_literal) refuses a raw byte-order mark inside a literal: a bytewise escaper loses such texts, the
   escaper as repaired (96fbecf) writes the escape and the text is read back *)
Theorem C13_refuted_before_fix_bom :
  scan_literal 10 (bytewise_escape (String (chr 239) (String (chr 187) (String (chr 191) "x"))) ++ """") = None
  /\ scan_literal 10 (escape (String (chr 239) (String (chr 187) (String (chr 191) "x"))) ++ """")
     = Some (String (chr 239) (String (chr 187) (String (chr 191) "x")), "").
Proof. exact refuted_before_fix_bom. Qed.
Theorem C13_refuted_before_fix : scan_literal 10 (old_sanitized "a\d" ++ """") = None.
Proof. exact refuted_before_fix_backslash. Qed.

Example C13_example :
  display "100% of ""{{ ex.a }}"" \ {{ex.b}} {{ not one }} {{ex.a}}%" (fun v => if String.eqb v "ex.a" then "x%vy" else "null")
  = "100% of 'x%vy' \ null {{ not one }} x%vy%"
  /\ message_variables "{{ex.a}} {{ex.b}} {{ex.a}}" = ["ex.a"; "ex.b"; "ex.a"]
  /\ paste_message "say ""hi"" 50% {{ex.a}}" = "say 'hi' 50%% %v"
  /\ paste_name "a""b\c" = "a\""b\\c"
  /\ package_name "My Profile (v2) é" = "profile_my_profile_v2_".
Proof. vm_compute. repeat split. Qed.

Print Assumptions C13_tie_escaper.
Print Assumptions C13_tie_message.
Print Assumptions C13_tie_paste_sites.
Print Assumptions C13_no_injection.
Print Assumptions C13_names_verbatim.
Print Assumptions C13_message.
Print Assumptions C13_list_values_verbatim.
Print Assumptions C13_package_name.
Print Assumptions C13_refuted_before_fix.
Print Assumptions C13_refuted_before_fix_bom.
