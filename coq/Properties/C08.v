(* C08 - profiles cannot reach the network or the host.  Statements only; proofs in Proofs/SecurityProofs.v. *)
From ACV Require Import Base.Strs Model.BuiltinClass Model.Pipeline Model.PipelineRef Model.Security Model.SecurityRef Model.TemplatesRef.
From ACV Require Import Proofs.PipelineProofs Proofs.SecurityProofs Extracted.SecurityFacts Extracted.PipelineFacts Extracted.Templates.
Local Open Scope list_scope.

(* ties: ONE engine construction, fed with the whole generated code and the deny-list; the stage functions
   around it; how custom Rego text is pasted into the module *)
Theorem C08_tie_compile_call :
  rego_new_args = ref_rego_new_args /\ module_expr = ref_module_expr /\ unsafe_expr = ref_unsafe_expr /\ query_expr = ref_query_expr
  /\ sk_compile_rego = ref_sk_compile_rego /\ sk_process_profile = ref_sk_process_profile /\ sk_execute_validation = ref_sk_execute_validation.
Proof. vm_compute. repeat split. Qed.
Theorem C08_tie_paste : tpl_expression = ref_expression /\ tpl_names = ref_names.
Proof. vm_compute. split; reflexivity. Qed.

(* the deny-list read from the source contains every dangerous built-in the property names *)
Theorem C08_dangerous_subset_deny : incl_b dangerous_names extracted_deny = true.
Proof. vm_compute. reflexivity. Qed.
(* every built-in of the linked engine has been classified, and the dangerous ones are exactly the denied ones *)
Theorem C08_builtins_classified : forallb classified extracted_builtins = true.
Proof. vm_compute. reflexivity. Qed.
Theorem C08_dangerous_are_denied : forallb (fun b => Bool.eqb (is_dangerous b) (in_list b extracted_deny)) extracted_builtins = true.
Proof. vm_compute. reflexivity. Qed.

(* wherever the profile puts it, embedded Rego is part of the one module ... *)
Theorem C08_all_positions_in_module : forall subst preamble es e, In e es ->
  In (subst (e_text e)) (module_fragments subst preamble es).
Proof. exact all_positions_in_module. Qed.
(* ... so with the engine's capability check (oracle [calls]: which fragment calls which built-in) a call to a
   dangerous built-in anywhere makes the compilation fail ... *)
Theorem C08_rejected : forall subst calls preamble es e b,
  In e es -> In b dangerous_names -> calls (subst (e_text e)) b = true ->
  engine_rejects calls extracted_deny (module_fragments subst preamble es) = true.
Proof. intros subst calls preamble es e b He Hb Hc. exact (dangerous_call_rejected subst calls extracted_deny preamble es e b C08_dangerous_subset_deny He Hb Hc). Qed.
(* ... and after a failed compilation nothing is evaluated: the call returns the error *)
Theorem C08_nothing_evaluated : forall e f, f_parse f = OOk -> f_generate f = OOk -> f_compile f = OErr -> e <> EValidateCompiled ->
  snd (run_entry as_coded e f) = KError /\ evaluates (fst (run_entry as_coded e f)) = false.
Proof. exact rejected_nothing_evaluated. Qed.

Print Assumptions C08_tie_compile_call.
Print Assumptions C08_tie_paste.
Print Assumptions C08_dangerous_subset_deny.
Print Assumptions C08_builtins_classified.
Print Assumptions C08_dangerous_are_denied.
Print Assumptions C08_all_positions_in_module.
Print Assumptions C08_rejected.
Print Assumptions C08_nothing_evaluated.
