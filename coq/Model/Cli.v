(* Model of cmd/: main.go dispatch, commands/{validate,generate,normalize,compile}.go and
   helpers/{handle_args,file_helper,read_or_panic,check_error}.go.

   The library calls (validator.Validate, GenerateRego, ProcessInput+Encode, ProcessProfile) are not
   modelled here: their outcome is an input of [run] (type [lib_out]), which is what lets the theorems
   quantify over every library result.  File contents and texts are byte strings. *)
From ACV Require Import Base.Strs.

Inductive fcell :=
| Absent                                   (* no directory entry at the output path *)
| Dir                                      (* the path names a directory *)
| File (writable : bool) (content : string).

Inductive lib_out := LibOk (text : string) | LibErr.

(* os.Exit(0) / os.Exit(1) from the argument checks / a Go panic (exit status 2, trace on stderr) *)
Inductive exitc := Exit0 | Exit1 | Exit2.

Record outcome := { o_stdout : string; o_exit : exitc; o_cell : fcell }.

Inductive command := CValidate | CGenerate | CNormalize | CCompile | CHelp | COther.

(* len(os.Args) accepted by each command: helpers.ValidateNArgs / ValidateNsArgs *)
Definition nargs_ok (c : command) (nargs : nat) : bool :=
  match c with
  | CValidate => Nat.eqb nargs 4 || Nat.eqb nargs 5
  | CGenerate | CNormalize | CCompile => Nat.eqb nargs 3
  | CHelp | COther => true
  end.

(* WriteString on a file opened at offset 0: the first |new| bytes are replaced, the rest stays *)
Definition write_at0 (old new : string) : string := new ++ sdrop (String.length new) old.

(* helpers.OpenOrCreateFile followed by helpers.WriteString.
   [trunc] = the flags of os.OpenFile in helpers.OpenFile contain O_TRUNC (regenerated fact). *)
Definition open_write (trunc : bool) (c : fcell) (text : string) : option fcell :=
  match c with
  | Absent => Some (File true text)                                   (* os.Create *)
  | Dir => None                                                       (* open(O_RDWR) of a directory fails *)
  | File false _ => None                                              (* EACCES *)
  | File true old => Some (File true (write_at0 (if trunc then "" else old) text))
  end.

Definition newline : string := String (ascii_of_nat 10) "".
Definition println (s : string) : string := s ++ newline.
Definition help_text_nonempty := true.

(* [inputs_readable]: ReadOrPanic succeeded on every input path.
   [lib]: what the library returned for the texts read. *)
Definition run (trunc : bool) (c : command) (nargs : nat) (inputs_readable : bool)
               (lib : lib_out) (cell : fcell) : outcome :=
  let fail x := {| o_stdout := ""; o_exit := x; o_cell := cell |} in
  match c with
  | COther => fail Exit1
  | CHelp => {| o_stdout := "<help>"; o_exit := Exit0; o_cell := cell |}
  | _ =>
    if negb (nargs_ok c nargs) then fail Exit1
    else if negb inputs_readable then fail Exit2
    else match lib with
         | LibErr => fail Exit2
         | LibOk text =>
           match c with
           | CValidate =>
             if Nat.eqb nargs 4 then {| o_stdout := println text; o_exit := Exit0; o_cell := cell |}
             else match open_write trunc cell text with
                  | Some cell' => {| o_stdout := ""; o_exit := Exit0; o_cell := cell' |}
                  | None => fail Exit2
                  end
           | CCompile => {| o_stdout := println "Compile Success!"; o_exit := Exit0; o_cell := cell |}
           | _ => {| o_stdout := println text; o_exit := Exit0; o_cell := cell |}
           end
         end
  end.

(* a history of `acv validate P D OUT` runs against the same output path *)
Definition run_file (trunc : bool) (cell : fcell) (lib : lib_out) : fcell :=
  o_cell (run trunc CValidate 5 true lib cell).
Definition run_history (trunc : bool) (cell : fcell) (libs : list lib_out) : fcell :=
  fold_left (run_file trunc) libs cell.

(* Spec side: what the file must hold after a history: the last report successfully produced *)
Fixpoint last_ok (libs : list lib_out) (dflt : option string) : option string :=
  match libs with
  | [] => dflt
  | LibOk t :: r => last_ok r (Some t)
  | LibErr :: r => last_ok r dflt
  end.

Definition usable (c : fcell) : bool :=
  match c with Absent => true | File true _ => true | _ => false end.
Definition content_of (c : fcell) : option string :=
  match c with File _ s => Some s | _ => None end.

(* ------------------------------------------------------------------ executable specification (C18)
   [spec_run] says what the property demands of an observed outcome, independently of how [run]
   computes it; the harness evaluates it on the real binary's outcome, the theorems on the model's. *)
Definition exit_eqb (a b : exitc) : bool :=
  match a, b with Exit0, Exit0 | Exit1, Exit1 | Exit2, Exit2 => true | _, _ => false end.
Definition cell_eqb (a b : fcell) : bool :=
  match a, b with
  | Absent, Absent | Dir, Dir => true
  | File w1 c1, File w2 c2 => Bool.eqb w1 w2 && String.eqb c1 c2
  | _, _ => false
  end.
Definition silent_failure (cell : fcell) (o : outcome) : bool :=
  negb (exit_eqb (o_exit o) Exit0) && String.eqb (o_stdout o) "" && cell_eqb (o_cell o) cell.
Definition prints_exactly (text : string) (cell : fcell) (o : outcome) : bool :=
  exit_eqb (o_exit o) Exit0 && String.eqb (o_stdout o) (println text) && cell_eqb (o_cell o) cell.

Definition spec_run (c : command) (nargs : nat) (inputs_readable : bool) (lib : lib_out)
                    (cell : fcell) (o : outcome) : bool :=
  match c with
  | CHelp => true
  | COther => silent_failure cell o
  | _ =>
    if nargs_ok c nargs && inputs_readable then
      match lib with
      | LibErr => silent_failure cell o
      | LibOk text =>
        match c with
        | CValidate =>
          if Nat.eqb nargs 4 then prints_exactly text cell o
          else if usable cell
               then exit_eqb (o_exit o) Exit0 && String.eqb (o_stdout o) "" && cell_eqb (o_cell o) (File true text)
               else silent_failure cell o
        | CCompile => exit_eqb (o_exit o) Exit0 && cell_eqb (o_cell o) cell
        | _ => prints_exactly text cell o
        end
      end
    else silent_failure cell o
  end.

Definition opt_str_eqb (a b : option string) : bool :=
  match a, b with
  | None, None => true
  | Some x, Some y => String.eqb x y
  | _, _ => false
  end.
Definition spec_history (cell : fcell) (libs : list lib_out) (final : fcell) : bool :=
  if usable cell then opt_str_eqb (content_of final) (last_ok libs (content_of cell)) else true.
