(* BuildReport (internal/validator/report.go, report_nodes.go, contexts.go) over the result lists the
   evaluated policy returns, and the positional @id scheme of defineIdRecursively.

   A result (what error()/trace() of the preamble build) is seen here as its header fields plus the tree
   of its TYPED sub-nodes [et]: defineIdRecursively gives a typed object child under key k the id
   <id>_<k> and a typed element at index i of an array-valued field the id <id>_<i>.  An edge of [et] is
   that last token. *)
From Coq Require Import DecimalString DecimalNat.
From ACV Require Import Base.Strs.

Inductive tok := TKey (k : string) | TIdx (i : nat).
Inductive et := ET (kids : list (tok * et)).

Definition dec (i : nat) : string := NilEmpty.string_of_uint (Nat.to_uint i).
Definition render (t : tok) : string := match t with TKey k => k | TIdx i => dec i end.

(* defineIdRecursively: the id of the node, then the ids of its typed children *)
Fixpoint ids (id : string) (t : et) {struct t} : list string :=
  match t with
  | ET kids =>
    id :: (fix go (l : list (tok * et)) : list string :=
             match l with
             | [] => []
             | (tk, c) :: r => (ids (id ++ "_" ++ render tk) c ++ go r)%list
             end) kids
  end.

Inductive level := Violation | Warning | Info.
Definition level_name (l : level) : string :=
  match l with Violation => "violation" | Warning => "warning" | Info => "info" end.
(* "http://www.w3.org/ns/shacl#" + strings.Title(level) *)
Definition severity_iri (l : level) : string :=
  "http://www.w3.org/ns/shacl#" ++ match l with Violation => "Violation" | Warning => "Warning" | Info => "Info" end.

Record result := { r_name : string; r_focus : string; r_msg : string; r_tree : et }.

(* what the evaluated policy returns: report["profile"], report["violation"], ["warning"], ["info"] *)
Record engine_out := { e_profile : string; e_violation : list result; e_warning : list result; e_info : list result }.

Record cfg := { include_time : bool; time_text : string; report_iri : string; lexical_iri : string }.

Record out_result := { o_severity : string; o_id : string; o_res : result; o_ids : list string }.

Record report := {
  rp_conforms_context : bool;                 (* buildContext: ConformsContext vs DefaultValidationContext *)
  rp_report_schema : string;                  (* "@context".reportSchema *)
  rp_lexical_schema : option string;          (* "@context".lexicalSchema (only in the default context) *)
  rp_profile_name : string;
  rp_conforms : bool;
  rp_date_created : option string;
  rp_result : option (list out_result)        (* the "result" key: absent when there is none *)
}.

Definition declarations_from (iri : string) : string := iri ++ "#/declarations/".

Fixpoint build_level (l : level) (i : nat) (rs : list result) : list out_result :=
  match rs with
  | [] => []
  | r :: rest =>
      let id := level_name l ++ "_" ++ dec i in
      {| o_severity := severity_iri l; o_id := id; o_res := r; o_ids := ids id (r_tree r) |} :: build_level l (S i) rest
  end.

Definition build_results (m : engine_out) : list out_result :=
  (build_level Violation 0 (e_violation m) ++ build_level Warning 0 (e_warning m) ++ build_level Info 0 (e_info m))%list.

Definition is_nil {X} (l : list X) : bool := match l with [] => true | _ => false end.

Definition build_report (m : engine_out) (c : cfg) : report :=
  let results := build_results m in
  let empty := is_nil results in
  {| rp_conforms_context := empty;
     rp_report_schema := declarations_from (report_iri c);
     rp_lexical_schema := if empty then None else Some (declarations_from (lexical_iri c));
     rp_profile_name := e_profile m;
     rp_conforms := is_nil (e_violation m);
     rp_date_created := if include_time c then Some (time_text c) else None;
     rp_result := if empty then None else Some results |}.

(* every @id of the document: the three fixed nodes and the ids below each result *)
Definition header_ids : list string := ["dialect-instance"; "validation-report"; "processing-data"].
Definition report_ids (r : report) : list string :=
  (header_ids ++ match rp_result r with Some rs => flat_map o_ids rs | None => [] end)%list.

(* what the report configuration is documented to control: dateCreated and the two schema IRIs *)
Definition erase_config (r : report) : report :=
  {| rp_conforms_context := rp_conforms_context r; rp_report_schema := ""; rp_lexical_schema := option_map (fun _ => "") (rp_lexical_schema r);
     rp_profile_name := rp_profile_name r; rp_conforms := rp_conforms r; rp_date_created := None; rp_result := rp_result r |}.

(* ------------------------------------------------------------------ shape conditions for uniqueness *)
Definition is_underscore (c : ascii) : bool := Ascii.eqb c "_".
Definition is_digit (c : ascii) : bool := (Nat.leb 48 (nat_of_ascii c)) && (Nat.leb (nat_of_ascii c) 57).
Fixpoint sall (f : ascii -> bool) (s : string) : bool :=
  match s with EmptyString => true | String c s' => f c && sall f s' end.
Definition key_ok (k : string) : bool := sall (fun c => negb (is_underscore c)) k && negb (sall is_digit k).
Definition tok_ok (t : tok) : bool := match t with TKey k => key_ok k | TIdx _ => true end.
Definition tok_eqb (a b : tok) : bool :=
  match a, b with TKey x, TKey y => String.eqb x y | TIdx i, TIdx j => Nat.eqb i j | _, _ => false end.
Fixpoint distinct_toks (l : list tok) : bool :=
  match l with [] => true | t :: r => negb (existsb (tok_eqb t) r) && distinct_toks r end.

(* a node's typed children sit under keys without "_" that are not numerals, pairwise different, and at most
   one array-valued field has typed elements (so that no two children share an index token) *)
Fixpoint wf_et (t : et) {struct t} : bool :=
  match t with
  | ET kids =>
    distinct_toks (map fst kids) && forallb tok_ok (map fst kids)
    && (fix go (l : list (tok * et)) : bool := match l with [] => true | (_, c) :: r => wf_et c && go r end) kids
  end.

(* executable specification used by the correspondence harness on the implementation's own report *)
Fixpoint nodup_strs (l : list string) : bool :=
  match l with [] => true | x :: r => negb (in_strs x r) && nodup_strs r end.
Definition spec_report (m : engine_out) (c : cfg) (r : report) : bool :=
  Bool.eqb (rp_conforms r) (negb (existsb (fun o => String.eqb (o_severity o) (severity_iri Violation))
                                          (match rp_result r with Some rs => rs | None => [] end)))
  && Bool.eqb (is_nil (match rp_result r with Some rs => rs | None => [] end)) (match rp_result r with Some _ => false | None => true end)
  && String.eqb (rp_profile_name r) (e_profile m)
  && match rp_date_created r with
     | Some t => include_time c && String.eqb t (time_text c)
     | None => negb (include_time c)
     end
  && nodup_strs (report_ids r).
