(* An executable test for the rewriting relation of C15 on YAML trees (Proofs/ParserCongruence.yrw): the entries of
   every mapping in any order, the items of the free lists (and / or operands, level lists) in any order, everything
   else equal.  [yrw_b] answers true only for related trees (Proofs/RewriteDecide.yrw_b_sound); the harness applies it
   to the trees of the profiles it rewrites, so that the rewritings it performs are instances of the theorem. *)
From ACV Require Import Base.Strs Model.Graph Model.Yaml.
Local Open Scope string_scope.

Definition free_list_key (k : string) : bool := existsb (String.eqb k) ["and"; "or"; "violation"; "warning"; "info"].
Fixpoint nodup_b (l : list string) : bool := match l with [] => true | x :: r => negb (existsb (String.eqb x) r) && nodup_b r end.

(* remove the first element of l that h accepts *)
Fixpoint remove_first {X} (h : X -> bool) (l : list X) : option (list X) :=
  match l with
  | [] => None
  | x :: r => if h x then Some r else match remove_first h r with Some r' => Some (x :: r') | None => None end
  end.

Fixpoint yrw_b (fuel : nat) (y y' : ynode) {struct fuel} : bool :=
  match fuel with
  | O => false
  | S n =>
    let items_b := fix go (a b : list ynode) : bool :=
      match a, b with [], [] => true | x :: r, x' :: r' => yrw_b n x x' && go r r' | _, _ => false end in
    let match_perm := fix go (a b : list ynode) : bool :=
      match a with
      | [] => match b with [] => true | _ => false end
      | x :: r => match remove_first (yrw_b n x) b with Some b' => go r b' | None => false end
      end in
    match y, y' with
    | YScalar t v, YScalar t' v' => String.eqb t t' && String.eqb v v'
    | YMap l, YMap l' =>
        nodup_b (map fst l) && nodup_b (map fst l') && Nat.eqb (List.length l) (List.length l') &&
        forallb (fun kv : string * ynode =>
                   match assoc (fst kv) l' with
                   | Some v' => yrw_b n (snd kv) v'
                                || (free_list_key (fst kv) && match snd kv, v' with YSeq a, YSeq b => match_perm a b | _, _ => false end)
                   | None => false
                   end) l
    | YSeq l, YSeq l' => items_b l l'
    | _, _ => false
    end
  end.

Fixpoint ydepth (y : ynode) : nat :=
  match y with
  | YScalar _ _ => 1
  | YMap l => S ((fix go (l : list (string * ynode)) := match l with [] => 0 | (_, v) :: r => Nat.max (ydepth v) (go r) end) l)
  | YSeq l => S ((fix go (l : list ynode) := match l with [] => 0 | v :: r => Nat.max (ydepth v) (go r) end) l)
  end.
Definition related (y y' : ynode) : bool := yrw_b (S (ydepth y)) y y'.
