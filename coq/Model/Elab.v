(* The profile parser once more (internal/parser/profile: parser.go, expressionparser.go, constraintsparser.go), this time
   keeping everything the code generator reads: the quantified variable of every constraint (VarGenerator: one generator per
   listed validation, the top-level expression draws the first name, every nested / atLeast / atMost constraint the next one
   BEFORE its body is parsed), the path as written (ParsePath: on one line), the expanded path, the arguments as the generator
   prints them.  Result: the profile Model/Compile.v turns into the text of the module.
   Outside the model (answer [PUnsupported]): float arguments, integers not written canonically, booleans not written
   true / false, `exactly`, a `rego` entry that is neither text nor a mapping, patterns with bytes outside printable ASCII,
   a nested constraint under the empty path. *)
From Coq Require Import DecimalString DecimalN.
From ACV Require Import Base.Strs Model.Graph Model.Peg Model.PathGrammar Model.PathSem Model.Dnf Model.Report Model.Names Model.Escape Model.Yaml Model.ProfileParser Model.RuleGen Model.Compile.
Local Open Scope list_scope.
Local Open Scope string_scope.

(* strings.NewReplacer("\n", " ", "\r", " ", "\t", " ") *)
Fixpoint one_line (s : string) : string :=
  match s with
  | EmptyString => EmptyString
  | String c r => String (if existsb (Ascii.eqb c) ["010"; "013"; "009"]%char then " "%char else c) (one_line r)
  end.

Definition printable (c : ascii) : bool := Nat.leb 32 (nat_of_ascii c) && Nat.leb (nat_of_ascii c) 126.

(* an integer as Yaml.Int() reads it and %d prints it *)
Inductive ival := IAbsent | IOther | INat (n : nat) (text : string) | INeg (text : string).
Definition digits_canonical (v : string) : bool :=
  match NilEmpty.uint_of_string v with
  | Some d => String.eqb (NilEmpty.string_of_uint (N.to_uint (N.of_uint d))) v
  | None => false
  end.
Definition y_int (y : option ynode) : ival :=
  match y with
  | Some (YScalar "!!int" v) =>
      if digits_canonical v then
        match y_nat (YScalar "!!int" v) with Some n => INat n v | None => IOther end
      else match v with
           | String "-" r => if digits_canonical r && negb (String.eqb r "0") then INeg v else IOther
           | _ => IOther
           end
  | _ => IAbsent                 (* not found, or not tagged as an integer: `err != nil` *)
  end.
Definition is_float (y : ynode) : bool := match y with YScalar "!!float" _ => true | _ => false end.

(* stringifyNode *)
Definition stringify_c (y : ynode) : presult string :=
  match y with
  | YScalar "!!str" v => POk v
  | YScalar "!!int" v => if digits_canonical v then POk v else PUnsupported
  | YScalar "!!bool" v => if String.eqb v "true" || String.eqb v "false" then POk v else PUnsupported
  | YScalar "!!float" _ => PUnsupported
  | _ => PError
  end.

Section WithContext.
Variable ctx : list (string * string).

Fixpoint xpath (p : path) : option path :=
  match p with
  | Pred iri inv tr => match expand_iri ctx iri with Some e => Some (Pred e inv tr) | None => None end
  | And l => option_map And ((fix go (l : list path) : option (list path) :=
                match l with [] => Some [] | x :: r => match xpath x, go r with Some a, Some b => Some (a :: b) | _, _ => None end end) l)
  | Or l => option_map Or ((fix go (l : list path) : option (list path) :=
                match l with [] => Some [] | x :: r => match xpath x, go r with Some a, Some b => Some (a :: b) | _, _ => None end end) l)
  end.
(* ParsePath, then the expansion the generator performs (it panics where this answers PError) *)
Definition parse_src (s : string) : presult (string * option path) :=
  if String.eqb s "" then POk ("", None) else
  match parse_path s with
  | Accept p => match xpath p with Some e => POk (one_line s, Some e) | None => PError end
  | _ => PError
  end.

Definition mk (v src : string) (p : option path) (k : ckind) : crule :=
  RAtom false {| ca_var := v; ca_src := src; ca_path := p; ca_kind := k |}.

Section Body.
(* the parser applied to a sub-expression: variable in scope, node, number of variables drawn so far *)
Variable rec : string -> ynode -> nat -> presult (crule * nat).

Definition count_c (v src : string) (p : option path) (c : ynode) (k cond : string) (per_value : bool) : presult (list crule) :=
  match y_int (yget k c) with
  | IAbsent => POk []
  | INat n _ => POk [mk v src p (KCount k cond per_value n)]
  | _ => PUnsupported
  end.
Definition pattern_c (v src : string) (p : option path) (c : ynode) : presult (list crule) :=
  match yget "pattern" c with
  | Some (YScalar "!!str" s) => if all_chars printable s then POk [mk v src p (KPattern s)] else PUnsupported
  | _ => POk []
  end.
Definition set_c (v src : string) (p : option path) (c : ynode) (k : string) (kind : list string -> ckind) : presult (list crule) :=
  match yget k c with
  | Some (YSeq items) => pbind (map_p stringify_c items) (fun l => POk [mk v src p (kind l)])
  | _ => POk []
  end.
Definition unique_c (v src : string) (p : option path) (c : ynode) : presult (list crule) :=
  match yget "uniqueValues" c with
  | Some (YScalar "!!bool" b) =>
      if String.eqb b "true" then POk [mk v src p (KUnique true)]
      else if String.eqb b "false" then POk [mk v src p (KUnique false)] else PUnsupported
  | _ => POk []
  end.
Definition cmp_c (v src : string) (p : option path) (c : ynode) (k name op : string) : presult (list crule) :=
  match yget k c with
  | Some (YScalar "!!str" s) =>
      pbind (parse_src s) (fun sp => match snd sp with
                                     | Some p2 => POk [mk v src p (KCmp name op (fst sp) p2)]
                                     | None => PUnsupported
                                     end)
  | _ => POk []
  end.
Definition num_c (v src : string) (p : option path) (c : ynode) (k cid op : string) : presult (list crule) :=
  match yget k c with
  | None => POk []
  | Some y =>
      match y_int (Some y) with
      | INat _ t | INeg t => POk [mk v src p (KNum k cid op t)]
      | IOther => PUnsupported
      | IAbsent => if is_float y then PUnsupported else PError
      end
  end.
Definition datatype_c (v src : string) (p : option path) (c : ynode) : presult (list crule) :=
  match yget "datatype" c with
  | None => POk []
  | Some (YScalar "!!str" s) => match expand_iri ctx s with Some e => POk [mk v src p (KDatatype s e)] | None => PError end
  | Some _ => PError
  end.
Definition rego_c (v src : string) (p : option path) (code : ynode) : presult crule :=
  match code with
  | YScalar "!!str" s => POk (mk v src p (KRego s "Violation in native Rego constraint"))
  | YMap _ =>
      match yget "code" code with
      | Some (YScalar "!!str" s) =>
          POk (mk v src p (KRego s match yget "message" code with Some (YScalar "!!str" m) => m | _ => "Violation in native Rego constraint" end))
      | _ => PError
      end
  | _ => PUnsupported
  end.
Definition rego_key_c (v src : string) (p : option path) (c : ynode) (k : string) : presult (list crule) :=
  match yget k c with Some code => pbind (rego_c v src p code) (fun r => POk [r]) | None => POk [] end.

(* newNestedExpression: the child variable is drawn before the body is parsed *)
Definition nested_c (v src : string) (p : option path) (qn : quant) (body : ynode) (vc : nat) : presult (crule * nat) :=
  match p with
  | Some pp =>
      let child := var_name vc in
      pbind (rec child body (S vc)) (fun r =>
        POk (RNested false qn {| cn_parent := v; cn_child := child; cn_src := src; cn_path := pp |} (fst r), snd r))
  | None => PUnsupported
  end.
Definition qualified_c (v src : string) (p : option path) (c : ynode) (k : string) (mkq : nat -> quant) (vc : nat) : presult (list crule * nat) :=
  match yget k c with
  | None => POk ([], vc)
  | Some qn =>
      match y_int (yget "count" qn) with
      | INat n _ =>
          match yget "validation" qn with
          | Some (YMap _ as body) => pbind (nested_c v src p (mkq n) body vc) (fun r => POk ([fst r], snd r))
          | _ => PError
          end
      | IAbsent => PError
      | _ => PUnsupported
      end
  end.

(* ParseConstraint, in the order of the code *)
Definition constraint_c (v src : string) (p : option path) (c : ynode) (vc : nat) : presult (list crule * nat) :=
  pbind (count_c v src p c "minCount" ">=" false) (fun a1 => pbind (count_c v src p c "maxCount" "<=" false) (fun a2 =>
  pbind (count_c v src p c "exactCount" "==" false) (fun a3 => pbind (count_c v src p c "minLength" ">=" true) (fun a4 =>
  pbind (count_c v src p c "maxLength" "<=" true) (fun a5 => pbind (count_c v src p c "exactLength" "==" true) (fun a6 =>
  pbind (pattern_c v src p c) (fun a7 => pbind (set_c v src p c "in" KIn) (fun a8 => pbind (unique_c v src p c) (fun a9 =>
  pbind (set_c v src p c "containsAll" (KContains true)) (fun a10 => pbind (set_c v src p c "containsSome" (KContains false)) (fun a11 =>
  pbind (cmp_c v src p c "lessThanProperty" "lessThan" "<") (fun b1 =>
  pbind (cmp_c v src p c "lessThanOrEqualsToProperty" "lessThanOrEqualsTo" "<=") (fun b2 =>
  pbind (cmp_c v src p c "equalsToProperty" "equalsTo" "=") (fun b3 =>
  pbind (cmp_c v src p c "disjointWithProperty" "disjointWith" "!=") (fun b4 =>
  pbind (cmp_c v src p c "moreThanProperty" "moreThan" ">") (fun b5 =>
  pbind (cmp_c v src p c "moreThanOrEqualsToProperty" "moreThanOrEqualsTo" ">=") (fun b6 =>
  pbind (qualified_c v src p c "atLeast" QAtLeast vc) (fun q1 =>
  pbind (qualified_c v src p c "atMost" QAtMost (snd q1)) (fun q2 =>
  if present "exactly" c then PUnsupported else
  pbind (num_c v src p c "minInclusive" "minimumInclusive" ">=") (fun n1 =>
  pbind (num_c v src p c "minExclusive" "minimumExclusive" ">") (fun n2 =>
  pbind (num_c v src p c "maxInclusive" "maximumInclusive" "<=") (fun n3 =>
  pbind (num_c v src p c "maxExclusive" "maximumExclusive" "<") (fun n4 =>
  pbind (datatype_c v src p c) (fun dt =>
  pbind (match yget "nested" c with
         | Some (YMap _ as body) => pbind (nested_c v src p QAll body (snd q2)) (fun r => POk ([fst r], snd r))
         | _ => POk ([], snd q2)
         end) (fun ne =>
  pbind (rego_key_c v src p c "rego") (fun r1 => pbind (rego_key_c v src p c "regoModule") (fun r2 =>
  POk (a1 ++ a2 ++ a3 ++ a4 ++ a5 ++ a6 ++ a7 ++ a8 ++ a9 ++ a10 ++ a11 ++ b1 ++ b2 ++ b3 ++ b4 ++ b5 ++ b6 ++ fst q1 ++ fst q2
       ++ n1 ++ n2 ++ n3 ++ n4 ++ dt ++ fst ne ++ r1 ++ r2, snd ne))))))))))))))))))))))))))))%list.

(* parseImplicitAnd over the entries of a propertyConstraints mapping *)
Fixpoint entries_c (v : string) (entries : list (string * ynode)) (vc : nat) : presult (list crule * nat) :=
  match entries with
  | [] => POk ([], vc)
  | (key, c) :: r =>
      pbind (parse_src key) (fun sp =>
      match c with
      | YMap _ => pbind (constraint_c v (fst sp) (snd sp) c vc) (fun a =>
                  pbind (entries_c v r (snd a)) (fun b => POk ((fst a ++ fst b)%list, snd b)))
      | _ => PError
      end)
  end.
Fixpoint operands_c (v : string) (items : list ynode) (vc : nat) : presult (list crule * nat) :=
  match items with
  | [] => POk ([], vc)
  | (YMap _ as i) :: r => pbind (rec v i vc) (fun a => pbind (operands_c v r (snd a)) (fun b => POk (fst a :: fst b, snd b)))
  | _ :: _ => PError
  end.

(* parseExpressionValue *)
Definition value_c (v : string) (y : ynode) (vc : nat) : presult (crule * nat) :=
  match yget "propertyConstraints" y with
  | Some (YMap entries) => pbind (entries_c v entries vc) (fun a => POk (RAnd false (fst a), snd a))
  | Some _ => POk (RAnd false [], vc)
  | None =>
    match yget "rego" y with
    | Some code => pbind (rego_c v "" None code) (fun r => POk (r, vc))
    | None =>
      match yget "regoModule" y with
      | Some code => pbind (rego_c v "" None code) (fun r => POk (r, vc))
      | None =>
        match yget "and" y with
        | Some (YSeq items) => pbind (operands_c v items vc) (fun a => POk (RAnd false (fst a), snd a))
        | Some _ => PError
        | None =>
          match yget "or" y with
          | Some (YSeq items) => pbind (operands_c v items vc) (fun a => POk (ROr false (fst a), snd a))
          | Some _ => PError
          | None =>
            match yget "not" y with
            | Some (YMap _ as n) => pbind (rec v n vc) (fun a => POk (negate (fst a), snd a))
            | Some _ => PError
            | None =>
              match yget "if" y with
              | Some i =>
                  match yget "then" y with
                  | Some t =>
                      pbind (rec v i vc) (fun a => pbind (rec v t (snd a)) (fun b =>
                      match yget "else" y with
                      | Some e => pbind (rec v e (snd b)) (fun d => POk (RCond false (fst a) (fst b) (Some (fst d)), snd d))
                      | None => POk (RCond false (fst a) (fst b) None, snd b)
                      end))
                  | None => PError
                  end
              | None => PError
              end
            end
          end
        end
      end
    end
  end.
End Body.

Fixpoint elab_value (fuel : nat) (v : string) (y : ynode) (vc : nat) {struct fuel} : presult (crule * nat) :=
  match fuel with
  | O => PUnsupported
  | S fuel => value_c (elab_value fuel) v y vc
  end.

(* ParseExpression *)
Definition elab_validation (level name : string) (y : ynode) : presult cvalidation :=
  match yget "targetClass" y with
  | Some (YScalar "!!str" cls) =>
      let msg := match yget "message" y with Some (YScalar "!!str" m) => m | _ => "Validation error" end in
      pbind (elab_value (ysize y) (var_name 0) y 1) (fun r =>
      match expand_iri ctx cls with
      | Some ecls =>
          POk {| cv_level := level; cv_name := name; cv_class := ecls; cv_var := var_name 0;
                 cv_iris := map (expand_or_self ctx) (message_variables msg); cv_expr := paste_message msg; cv_rule := fst r |}
      | None => PError
      end)
  | _ => PError
  end.
End WithContext.

(* parseValidationLevel *)
Definition elab_level (ctx : list (string * string)) (doc validations : ynode) (level : string) : presult (list cvalidation) :=
  match yget level doc with
  | Some (YSeq items) =>
      pbind (map_p (fun i => match i with
                             | YScalar "!!str" name =>
                                 match yget name validations with
                                 | Some v => pbind (elab_validation ctx level name v) (fun x => POk [x])
                                 | None => POk []
                                 end
                             | _ => POk []
                             end) items) (fun ls => POk (List.concat ls))
  | _ => POk []
  end.

(* Parse; [defaults] is the built-in prefix table (contexts.DefaultAMFContext) *)
Definition elab_profile (defaults : list (string * string)) (doc : ynode) : presult cprofile :=
  match doc with
  | YMap _ =>
      match yget "profile" doc with
      | Some (YScalar "!!str" name) =>
          let custom := match yget "rego_extensions" doc with Some (YScalar "!!str" s) => Some s | _ => None end in
          pbind (match yget "prefixes" doc with
                 | Some (YMap l) => map_p (fun kv : string * ynode => match snd kv with YScalar "!!str" ns => POk (fst kv, ns) | _ => PError end) l
                 | Some _ => PError
                 | None => POk []
                 end) (fun pfx =>
          let ctx := context defaults pfx in
          match yget "validations" doc with
          | Some (YMap _ as vals) =>
              pbind (elab_level ctx doc vals "violation") (fun a => pbind (elab_level ctx doc vals "warning") (fun b =>
              pbind (elab_level ctx doc vals "info") (fun c =>
              POk {| cp_name := name; cp_custom := custom; cp_vals := (a ++ b ++ c)%list |})))
          | _ => PError
          end)
      | _ => PError
      end
  | _ => PError
  end.

(* GenerateRego: the text of the module for a profile document, with [c] names handed out before; fuel covers every
   rule a document of that size can hold (Negate() of a conditional with else doubles a rule at most once per level) *)
Definition compile (defaults : list (string * string)) (preamble : string) (doc : ynode) (c : nat) : presult (string * nat) :=
  pbind (elab_profile defaults doc) (fun p =>
    let fuel := S (list_max (map (fun v => 2 * weight (cv_rule v) + 2) (cp_vals p))) in
    match module_text fuel preamble p c with
    | Some r => POk r
    | None => PUnsupported
    end).

(* is the profile declarative (no hand-written Rego) with every constraint about the variable in scope? *)
Definition declarative (defaults : list (string * string)) (doc : ynode) : presult bool :=
  pbind (elab_profile defaults doc) (fun p => POk (profile_scoped p && match cp_custom p with None => true | Some _ => false end)).
