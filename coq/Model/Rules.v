(* The declarative profile language over concrete atoms: surface formulas [form] (what the YAML says),
   the profile parser's translation [parse] to rules with negation flags (not = Negate()), the
   value-level meaning of every documented atomic constraint's positive and negated Rego snippet
   ([Fpos]/[Fneg]), and three semantics of a formula at a node of a graph:
     [reported]  what the generated policy reports (Dnf.disp + Dnf.fires over the parsed rule),
     [lsat]      the two-polarity literal-level reading the generator implements,
     [csat]      the classical reading C01 states.                                              *)
From ACV Require Import Base.Strs Model.Graph Model.PathGrammar Model.PathSem Model.Dnf.
Local Open Scope Z_scope.

Inductive cq := CMin | CMax | CExact.
Inductive nop := OGe | OGt | OLt | OLe.
Inductive cop := PLt | PLe | PEq | PNe.
Inductive pat := PatExact (s : string) | PatPrefix (s : string) | PatSuffix (s : string) | PatContains (s : string).

Inductive atom :=
| ACount (q : cq) (p : path) (k : nat)                 (* minCount / maxCount / exactCount *)
| ALength (q : cq) (p : path) (k : nat)                (* minLength / maxLength / exactLength *)
| AIn (p : path) (l : list string)
| AContainsAll (p : path) (l : list string)
| AContainsSome (p : path) (l : list string)
| ANum (o : nop) (p : path) (k : Z)                    (* min/max Inclusive/Exclusive, integer argument *)
| APattern (p : path) (r : pat)
| ACmp (o : cop) (p q : path)                          (* lessThan / lessThanOrEqualsTo / equalsTo / disjointWith Property *)
| ADatatype (p : path) (dt : string).

Inductive form :=
| FAtom (a : atom)
| FAnd (l : list form)
| FOr (l : list form)
| FNot (f : form)
| FIf (i t : form) (e : option form)
| FNested (q : quant) (p : path) (f : form).

(* ------------------------------------------------------------------ parser: form -> rule *)
Fixpoint parse (f : form) : rule atom path :=
  match f with
  | FAtom a => RAtom false a
  | FAnd l => RAnd false (map parse l)
  | FOr l => ROr false (map parse l)
  | FNot f => negate (parse f)
  | FIf i t e => RCond false (parse i) (parse t) (option_map parse e)
  | FNested q p f => RNested false q p (parse f)
  end.

(* ------------------------------------------------------------------ atoms on a graph *)
Definition cq_test (q : cq) (count k : nat) : bool :=
  match q with CMin => Nat.leb k count | CMax => Nat.leb count k | CExact => Nat.eqb count k end.

(* OPA's total order across types: boolean < number < string < object (null, arrays, sets not modelled) *)
Definition rank (r : rv) : Z :=
  match r with
  | RRaw (VBool _) => 1 | RRaw (VInt _) => 2 | RRaw (VStr _) => 3 | RRaw (VRef _) => 4 | RNode _ => 4
  end.
Definition num_test (o : nop) (r : rv) (k : Z) : bool :=
  match r with
  | RRaw (VInt z) => match o with OGe => k <=? z | OGt => k <? z | OLt => z <? k | OLe => z <=? k end
  | _ => match o with OGe | OGt => 2 <? rank r | OLt | OLe => rank r <? 2 end
  end.

Fixpoint sprefix (p s : string) : bool :=
  match p, s with
  | EmptyString, _ => true
  | String a p', String b s' => Ascii.eqb a b && sprefix p' s'
  | _, _ => false
  end.
Fixpoint scontains (p s : string) : bool :=
  sprefix p s || match s with EmptyString => false | String _ s' => scontains p s' end.
Definition pat_test (r : pat) (s : string) : bool :=
  match r with
  | PatExact l => String.eqb l s
  | PatPrefix l => sprefix l s
  | PatSuffix l => sprefix (srev l) (srev s)
  | PatContains l => scontains l s
  end.

Definition xsd (l : string) : string := "http://www.w3.org/2001/XMLSchema#" ++ l.
Definition dt_test (dt : string) (r : rv) : bool :=
  match r with
  | RRaw (VStr _) => String.eqb dt (xsd "string")
  | RRaw (VInt _) => String.eqb dt (xsd "integer") || String.eqb dt (xsd "float")
  | RRaw (VBool _) => String.eqb dt (xsd "boolean")
  | _ => false
  end.

(* a per-value test: Some b = the Rego test evaluates to b; None = it is undefined (type error in a
   built-in), in which case `not test` holds and `test` does not *)
Definition len_test (q : cq) (k : nat) (r : rv) : option bool :=
  match r with
  | RRaw (VStr s) => Some (cq_test q (String.length s) k)
  | RRaw (VRef _) => Some (cq_test q 1 k)             (* count of the one-key link object *)
  | _ => None
  end.
Definition pattern_test (p : pat) (r : rv) : option bool :=
  match r with RRaw (VStr s) => Some (pat_test p s) | _ => None end.

(* OPA's total order: within a type, numbers by value, strings lexicographically (bytes), false < true,
   link objects by their single "@id" value; across types by rank *)
Definition same_rank_lt (a b : rv) : bool :=
  match a, b with
  | RRaw (VInt x), RRaw (VInt y) => x <? y
  | RRaw (VStr x), RRaw (VStr y) => String.ltb x y
  | RRaw (VBool x), RRaw (VBool y) => negb x && y
  | RRaw (VRef x), RRaw (VRef y) => String.ltb x y
  | _, _ => false
  end.
Definition cmp_test (o : cop) (a b : rv) : bool :=
  match o with
  | PEq => rv_eqb a b
  | PNe => negb (rv_eqb a b)
  | PLt => if rank a =? rank b then same_rank_lt a b else rank a <? rank b
  | PLe => if rank a =? rank b then same_rank_lt a b || rv_eqb a b else rank a <? rank b
  end.

Definition strs_of (vals : list rv) : list string := map rv_as_string vals.
Definition nonempty {X} (l : list X) : bool := match l with [] => false | _ => true end.

Section OnGraph.
Variable g : graph.

Definition vals (p : path) (n : string) : list rv := model_values g p false n.

(* the positive snippet fires / the negated snippet fires, per constraint generator *)
Definition quantified (test : rv -> option bool) (pol : bool) (vs : list rv) : bool :=
  existsb (fun v => match test v with
                    | Some b => if pol then negb b else b
                    | None => pol            (* undefined: `not t` holds, `t` does not *)
                    end) vs.

(* same, for a test whose built-in call is nested inside a comparison (`not count(v) >= k`): the engine
   hoists the call out of the negation, so an undefined call makes BOTH snippets undefined *)
Definition quantified_hoisted (test : rv -> option bool) (pol : bool) (vs : list rv) : bool :=
  existsb (fun v => match test v with
                    | Some b => if pol then negb b else b
                    | None => false
                    end) vs.

Definition Fpos (a : atom) (n : string) : bool :=
  match a with
  | ACount q p k => negb (cq_test q (List.length (vals p n)) k)
  | ALength q p k => quantified_hoisted (len_test q k) true (vals p n)
  | AIn p l => quantified (fun v => Some (str_mem (rv_as_string v) l)) true (vals p n)
  | AContainsAll p l => nonempty (vals p n) && negb (forallb (fun a => str_mem a (strs_of (vals p n))) l)
  | AContainsSome p l => nonempty (vals p n) && negb (existsb (fun a => str_mem a (strs_of (vals p n))) l)
  | ANum o p k => quantified (fun v => Some (num_test o v k)) true (vals p n)
  | APattern p r => quantified (pattern_test r) true (vals p n)
  | ACmp o p q => existsb (fun x => existsb (fun y => negb (cmp_test o x y)) (vals q n)) (vals p n)
  | ADatatype p dt => quantified (fun v => Some (dt_test dt v)) true (vals p n)
  end.

Definition Fneg (a : atom) (n : string) : bool :=
  match a with
  | ACount q p k => cq_test q (List.length (vals p n)) k
  | ALength q p k => quantified_hoisted (len_test q k) false (vals p n)
  | AIn p l => quantified (fun v => Some (str_mem (rv_as_string v) l)) false (vals p n)
  | AContainsAll p l => nonempty (vals p n) && forallb (fun a => str_mem a (strs_of (vals p n))) l
  | AContainsSome p l => nonempty (vals p n) && existsb (fun a => str_mem a (strs_of (vals p n))) l
  | ANum o p k => quantified (fun v => Some (num_test o v k)) false (vals p n)
  | APattern p r => quantified (pattern_test r) false (vals p n)
  | ACmp o p q => existsb (fun x => existsb (fun y => cmp_test o x y) (vals q n)) (vals p n)
  | ADatatype p dt => quantified (fun v => Some (dt_test dt v)) false (vals p n)
  end.

Definition children (p : path) (n : string) : list string := model_nodes g p n.

(* what the generated policy reports: Dispatch on the parsed rule, then evaluate the branches *)
Definition model_reported (fuel : nat) (f : form) (n : string) : option bool :=
  match disp fuel (parse f) with
  | Some gs => Some (reported Fpos Fneg children gs n)
  | None => None
  end.

(* the literal-level two-polarity reading: [lsat true] = "f holds", [lsat false] = "not f holds",
   where a negated atom means "its negated snippet does not fire" *)
Fixpoint lsat (pol : bool) (f : form) (n : string) {struct f} : bool :=
  match f with
  | FAtom a => if pol then negb (Fpos a n) else negb (Fneg a n)
  | FAnd l => if pol then forallb (fun x => lsat true x n) l else existsb (fun x => lsat false x n) l
  | FOr l => if pol then existsb (fun x => lsat true x n) l else forallb (fun x => lsat false x n) l
  | FNot f => lsat (negb pol) f n
  | FIf i t e =>
      match e with
      | None => if pol then lsat false i n || lsat true t n else lsat true i n && lsat false t n
      | Some e' => if pol then (lsat false i n || lsat true t n) && (lsat true i n || lsat true e' n)
                   else (lsat true i n && lsat false t n) || (lsat false i n && lsat false e' n)
      end
  | FNested q p f =>
      let cs := children p n in
      let failing := filter (fun c => negb (lsat true f c)) cs in
      xorb (negb pol) (qtest q (List.length cs) (List.length failing))
  end.

(* the classical reading of C01: atoms hold iff their positive snippet does not fire; and / or / not /
   if-then-else classical; nested = every reached node satisfies; atLeast / atMost count the reached
   nodes that satisfy *)
Fixpoint csat (f : form) (n : string) {struct f} : bool :=
  match f with
  | FAtom a => negb (Fpos a n)
  | FAnd l => forallb (fun x => csat x n) l
  | FOr l => existsb (fun x => csat x n) l
  | FNot f => negb (csat f n)
  | FIf i t e =>
      match e with
      | None => implb (csat i n) (csat t n)
      | Some e' => if csat i n then csat t n else csat e' n
      end
  | FNested q p f =>
      let cs := children p n in
      qtest q (List.length cs) (List.length (filter (fun c => negb (csat f c)) cs))
  end.

(* where the two readings may differ: an atom evaluated under negative polarity whose negated
   snippet is not the complement of its positive one at that node (defect class D2) *)
Definition atom_compl (a : atom) (n : string) : bool := Bool.eqb (Fneg a n) (negb (Fpos a n)).
Fixpoint compl_ok (pol : bool) (f : form) (n : string) {struct f} : bool :=
  match f with
  | FAtom a => if pol then true else atom_compl a n
  | FAnd l | FOr l => forallb (fun x => compl_ok pol x n) l
  | FNot f => compl_ok (negb pol) f n
  | FIf i t e =>
      compl_ok true i n && compl_ok false i n && compl_ok pol t n
      && match e with Some e' => compl_ok pol e' n | None => true end
  | FNested q p f => forallb (fun c => compl_ok true f c) (children p n)
  end.

(* a validation = target class + formula; target_class: the nodes listed under input["@types"][class] *)
Definition validation_reports (cls : string) (f : form) (n : node) : bool :=
  has_type n cls && match model_reported (S (mu (parse f))) f (nid n) with Some b => b | None => false end.
Definition validation_results (cls : string) (f : form) : list node :=
  filter (fun n => match model_reported (S (mu (parse f))) f (nid n) with Some b => b | None => false end) (targets g cls).

End OnGraph.

(* well-formedness of the surface formula: every and / or has at least one operand
   (an operand that generates no branch is dropped by filterBranchesResult) *)
Fixpoint wf_form (f : form) : bool :=
  match f with
  | FAtom _ => true
  | FAnd l | FOr l => negb (Nat.eqb (List.length l) 0) && forallb wf_form l
  | FNot f => wf_form f
  | FIf i t e => wf_form i && wf_form t && match e with Some e' => wf_form e' | None => true end
  | FNested _ _ f => wf_form f
  end.

(* fuel for Dnf.disp: Proofs/DnfFuel.fuel_enough shows it always suffices *)
Definition disp_fuel (f : form) : nat := S (mu (parse f)).
