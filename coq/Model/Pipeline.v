(* The validation pipeline of internal/validator (validate.go, process_profile.go, process_input.go,
   process_result.go, recover.go, events.go) and pkg/ (validate.go, profile.go): which events are sent on
   the caller's channel, when it is closed, and what the caller gets back - for every way the seven
   stages can end (value, error value, panic).  Stage behaviour is an oracle; the control flow is the
   model.  Milestones: pkg/milestones. *)
From Coq Require Import ZArith.
From ACV Require Import Base.Strs.
Local Open Scope list_scope.

Inductive stage := ProfileParsing | RegoGeneration | RegoCompilation | InputDataParsing | InputDataNormalization | OpaValidation | BuildReport.
Inductive ev := Start (s : stage) | Done (s : stage).
Inductive act := Send (e : ev) | Close.

Definition stage_order : list stage :=
  [ProfileParsing; RegoGeneration; RegoCompilation; InputDataParsing; InputDataNormalization; OpaValidation; BuildReport].
Definition events_of (l : list stage) : list ev := flat_map (fun s => [Start s; Done s]) l.
Definition full_order : list ev := events_of stage_order.
Definition data_order : list ev := events_of [InputDataParsing; InputDataNormalization; OpaValidation; BuildReport].
Definition profile_order : list ev := events_of [ProfileParsing; RegoGeneration; RegoCompilation].

(* how a stage ends *)
Inductive oc := OOk | OErr | OPanic.
Record faults := { f_parse : oc; f_generate : oc; f_compile : oc; f_decode : oc; f_normalize : oc; f_eval : oc; f_build : oc }.

(* what the caller observes *)
Inductive kind := KValue | KError | KEscaped.      (* a value (report / compiled profile), an error value, a panic that escaped *)

(* [recovers] = the stage function has `defer recoverAsError(&err)` (regenerated fact per function) *)
Record recovers := { r_generate_rego : bool; r_compile_rego : bool; r_process_input : bool; r_execute : bool; r_process_result : bool }.
Definition as_coded : recovers :=
  {| r_generate_rego := true; r_compile_rego := false; r_process_input := true; r_execute := false; r_process_result := true |}.

Definition after_panic (rec : bool) : oc := if rec then OErr else OPanic.

(* GenerateRego: Start/Done around parser.Parse, then around generator.Generate; a panic skips the Done *)
Definition generate_rego (rc : recovers) (f : faults) : list act * oc :=
  match f_parse f with
  | OOk =>
      match f_generate f with
      | OOk => ([Send (Start ProfileParsing); Send (Done ProfileParsing); Send (Start RegoGeneration); Send (Done RegoGeneration)], OOk)
      | OErr | OPanic => ([Send (Start ProfileParsing); Send (Done ProfileParsing); Send (Start RegoGeneration)], after_panic (r_generate_rego rc))
      end
  | OErr => ([Send (Start ProfileParsing); Send (Done ProfileParsing)], OErr)
  | OPanic => ([Send (Start ProfileParsing)], after_panic (r_generate_rego rc))
  end.

(* CompileRego: Start, PrepareForEval, Done, return (query, err) *)
Definition compile_rego (rc : recovers) (f : faults) : list act * oc :=
  match f_compile f with
  | OOk => ([Send (Start RegoCompilation); Send (Done RegoCompilation)], OOk)
  | OErr => ([Send (Start RegoCompilation); Send (Done RegoCompilation)], OErr)
  | OPanic => ([Send (Start RegoCompilation)], after_panic (r_compile_rego rc))
  end.

Definition process_profile (rc : recovers) (f : faults) : list act * oc :=
  match generate_rego rc f with
  | (t, OOk) => let (t', o) := compile_rego rc f in (t ++ t', o)
  | (t, o) => (t, o)
  end.

(* ProcessInput: a decode error returns before InputDataParsingDone; Index(Normalize(..)) may panic *)
Definition process_input (rc : recovers) (f : faults) : list act * oc :=
  match f_decode f with
  | OOk =>
      match f_normalize f with
      | OOk => ([Send (Start InputDataParsing); Send (Done InputDataParsing); Send (Start InputDataNormalization); Send (Done InputDataNormalization)], OOk)
      | OErr | OPanic => ([Send (Start InputDataParsing); Send (Done InputDataParsing); Send (Start InputDataNormalization)], after_panic (r_process_input rc))
      end
  | OErr => ([Send (Start InputDataParsing)], OErr)
  | OPanic => ([Send (Start InputDataParsing)], after_panic (r_process_input rc))
  end.

Definition execute_validation (rc : recovers) (f : faults) : list act * oc :=
  match f_eval f with
  | OOk => ([Send (Start OpaValidation); Send (Done OpaValidation)], OOk)
  | OErr => ([Send (Start OpaValidation); Send (Done OpaValidation)], OErr)
  | OPanic => ([Send (Start OpaValidation)], after_panic (r_execute rc))
  end.

Definition process_result (rc : recovers) (f : faults) : list act * oc :=
  match f_build f with
  | OOk => ([Send (Start BuildReport); Send (Done BuildReport)], OOk)
  | OErr => ([Send (Start BuildReport); Send (Done BuildReport)], OErr)
  | OPanic => ([Send (Start BuildReport)], after_panic (r_process_result rc))
  end.

(* one step of an exported function: run the stage; on an error value close and return it; a panic unwinds *)
Definition step (st : list act * oc) (k : list act -> list act * kind) : list act * kind :=
  match st with
  | (t, OOk) => k t
  | (t, OErr) => (t ++ [Close], KError)
  | (t, OPanic) => (t, KEscaped)
  end.

Definition validate_compiled (rc : recovers) (f : faults) : list act * kind :=
  step (process_input rc f) (fun t1 =>
  step (let (t, o) := execute_validation rc f in (t1 ++ t, o)) (fun t2 =>
  step (let (t, o) := process_result rc f in (t2 ++ t, o)) (fun t3 =>
  (t3 ++ [Close], KValue)))).

Definition validate (rc : recovers) (f : faults) : list act * kind :=
  step (process_profile rc f) (fun t0 =>
  let (t, k) := validate_compiled rc f in (t0 ++ t, k)).

(* pkg.CompileProfile: closes the channel only when it fails *)
Definition compile_profile (rc : recovers) (f : faults) : list act * kind :=
  step (process_profile rc f) (fun t0 => (t0, KValue)).

Inductive entry := EValidate | EValidateCompiled | ECompileProfile | ECompileThenValidate.
Definition run_entry (rc : recovers) (e : entry) (f : faults) : list act * kind :=
  match e with
  | EValidate => validate rc f
  | EValidateCompiled => validate_compiled rc f
  | ECompileProfile => compile_profile rc f
  | ECompileThenValidate =>
      match compile_profile rc f with
      | (t0, KValue) => let (t, k) := validate_compiled rc f in (t0 ++ t, k)
      | r => r
      end
  end.
Definition order_of (e : entry) : list ev :=
  match e with
  | EValidate | ECompileThenValidate => full_order
  | EValidateCompiled => data_order
  | ECompileProfile => profile_order
  end.

Definition sends (t : list act) : list ev := flat_map (fun a => match a with Send e => [e] | Close => [] end) t.
Definition closes (t : list act) : nat := List.length (filter (fun a => match a with Close => true | _ => false end) t).

(* ------------------------------------------------------------------ executable specification (C11) *)
Definition stage_eqb (a b : stage) : bool :=
  match a, b with
  | ProfileParsing, ProfileParsing | RegoGeneration, RegoGeneration | RegoCompilation, RegoCompilation
  | InputDataParsing, InputDataParsing | InputDataNormalization, InputDataNormalization
  | OpaValidation, OpaValidation | BuildReport, BuildReport => true
  | _, _ => false
  end.
Definition ev_eqb (a b : ev) : bool :=
  match a, b with Start x, Start y | Done x, Done y => stage_eqb x y | _, _ => false end.
Fixpoint is_prefix (p l : list ev) : bool :=
  match p, l with
  | [], _ => true
  | a :: p', b :: l' => ev_eqb a b && is_prefix p' l'
  | _, [] => false
  end.
(* every Done is preceded by its Start and no two stages are open at once *)
Fixpoint bracketed (open : option stage) (l : list ev) : bool :=
  match l with
  | [] => true
  | Start s :: r => match open with None => bracketed (Some s) r | Some _ => false end
  | Done s :: r => match open with Some s' => stage_eqb s s' && bracketed None r | None => false end
  end.
Fixpoint last_is_close (t : list act) : bool :=
  match t with [] => false | [Close] => true | _ :: r => last_is_close r end.

(* what the caller-supplied channel must look like for entry point e returning kind k *)
Definition spec_trace (e : entry) (t : list act) (k : kind) : bool :=
  is_prefix (sends t) (order_of e) && bracketed None (sends t)
  && match k with
     | KEscaped => false                                            (* C17: never *)
     | KError => Nat.eqb (closes t) 1 && last_is_close t            (* every failure closes, once, at the end *)
     | KValue => match e with
                 | ECompileProfile => Nat.eqb (closes t) 0           (* left open for the validation that follows *)
                 | _ => Nat.eqb (closes t) 1 && last_is_close t
                 end
     end.

(* ------------------------------------------------------------------ milestones *)
Definition tev := (ev * Z)%type.
Definition mstone := (stage * Z * Z)%type.      (* operation, start, duration *)
Fixpoint lookup (s : stage) (m : list (stage * Z)) : Z :=
  match m with [] => 0%Z | (s', z) :: r => if stage_eqb s s' then z else lookup s r end.
Fixpoint milestones (starts : list (stage * Z)) (l : list tev) : list mstone :=
  match l with
  | [] => []
  | (Start s, z) :: r => milestones ((s, z) :: starts) r
  | (Done s, z) :: r => (s, lookup s starts, (z - lookup s starts)%Z) :: milestones starts r
  end.

(* ------------------------------------------------------------------ stage functions as oracles *)
Inductive outcome (X : Type) := Ok (x : X) | Err | Panic.
Arguments Ok {X}. Arguments Err {X}. Arguments Panic {X}.
Definition oc_of {X} (o : outcome X) : oc := match o with Ok _ => OOk | Err => OErr | Panic => OPanic end.

Inductive result := Report (text : string) | Error | Escaped.

Set Implicit Arguments.
Section Oracles.
Variables (Text Data P M Q J I R Cfg : Type).
Variable parse : Text -> outcome P.
Variable generate : P -> outcome M.
Variable compile : M -> outcome Q.
Variable decode : Data -> outcome J.
Variable normalize : J -> outcome I.
Variable eval : Q -> I -> outcome R.
Variable build : R -> Cfg -> outcome string.

Definition bind_oc {X} (o : outcome X) (k : X -> oc) : oc := match o with Ok x => k x | _ => OOk end.
Definition bind_o {X Y} (o : outcome X) (k : X -> outcome Y) : outcome Y := match o with Ok x => k x | Err => Err | Panic => Panic end.

Definition compiled_of (t : Text) : outcome Q := bind_o (parse t) (fun p => bind_o (generate p) compile).
Definition input_of (d : Data) : outcome I := bind_o (decode d) normalize.
Definition report_of (q : Q) (d : Data) (c : Cfg) : outcome string :=
  bind_o (input_of d) (fun i => bind_o (eval q i) (fun r => build r c)).

Definition data_faults (q : Q) (d : Data) (c : Cfg) : faults :=
  {| f_parse := OOk; f_generate := OOk; f_compile := OOk;
     f_decode := oc_of (decode d);
     f_normalize := bind_oc (decode d) (fun j => oc_of (normalize j));
     f_eval := bind_oc (input_of d) (fun i => oc_of (eval q i));
     f_build := bind_oc (input_of d) (fun i => bind_oc (eval q i) (fun r => oc_of (build r c))) |}.
Definition profile_faults (t : Text) (rest : faults) : faults :=
  {| f_parse := oc_of (parse t);
     f_generate := bind_oc (parse t) (fun p => oc_of (generate p));
     f_compile := bind_oc (parse t) (fun p => bind_oc (generate p) (fun m => oc_of (compile m)));
     f_decode := f_decode rest; f_normalize := f_normalize rest; f_eval := f_eval rest; f_build := f_build rest |}.

Definition ok_faults : faults :=
  {| f_parse := OOk; f_generate := OOk; f_compile := OOk; f_decode := OOk; f_normalize := OOk; f_eval := OOk; f_build := OOk |}.

Definition lift (k : kind) (rep : outcome string) : result :=
  match k with
  | KValue => match rep with Ok s => Report s | _ => Error end
  | KError => Error
  | KEscaped => Escaped
  end.

(* pkg.ValidateCompiledWithConfiguration *)
Definition validate_compiled_fn (rc : recovers) (q : Q) (d : Data) (c : Cfg) : list act * result :=
  let (t, k) := validate_compiled rc (data_faults q d c) in (t, lift k (report_of q d c)).

(* pkg.ValidateWithConfiguration *)
Definition validate_fn (rc : recovers) (t : Text) (d : Data) (c : Cfg) : list act * result :=
  match compiled_of t with
  | Ok q => let (tr, k) := validate rc (profile_faults t (data_faults q d c)) in (tr, lift k (report_of q d c))
  | _ => let (tr, k) := validate rc (profile_faults t ok_faults) in (tr, lift k Err)
  end.

(* a compiled profile used for a sequence of documents *)
Definition run_history (rc : recovers) (q : Q) (c : Cfg) (h : list Data) : list result :=
  map (fun d => snd (validate_compiled_fn rc q d c)) h.

End Oracles.
