(* BuildReport as a function from the value the evaluated policy returns to the BYTES of the report
   (internal/validator/report.go: BuildReport, buildResults, buildValidation, defineIdRecursively, buildContext, encode;
   report_nodes.go: ValidationReportNode, DialectInstance, processingDataNode; contexts.go: ConformsContext,
   DefaultValidationContext, DeclarationsFrom; encoding/json's Encoder with SetIndent("", "  ") and SetEscapeHTML(false)).
   JSON objects are association lists with pairwise different keys (Go maps); the encoder writes the keys of a map in byte order.
   The correspondence run (C03 / C12) evaluates the compiled policy itself, hands the value to [build_report_text] and compares
   the answer byte for byte with what the library returns. *)
From Coq Require Import DecimalString.
From ACV Require Import Base.Strs Model.Report.
Local Open Scope list_scope.
Local Open Scope string_scope.

Inductive json :=
| JNull
| JBool (b : bool)
| JNum (text : string)                       (* json.Number: written as it is *)
| JStr (s : string)
| JArr (l : list json)
| JObj (l : list (string * json)).

(* ---- encoding/json: strings *)
Definition hex (n : nat) : ascii :=
  ascii_of_nat (if Nat.ltb n 10 then 48 + n else 87 + n).
Fixpoint starts_with (p s : string) : bool :=
  match p, s with
  | EmptyString, _ => true
  | String a p', String b s' => Ascii.eqb a b && starts_with p' s'
  | _, _ => false
  end.
Definition line_sep : string := String "226" (String "128" (String "168" EmptyString)).   (* U+2028 *)
Definition para_sep : string := String "226" (String "128" (String "169" EmptyString)).   (* U+2029 *)
(* valid UTF-8 is copied; quote, backslash and control characters are escaped; U+2028 / U+2029 are always written as escapes *)
Fixpoint esc_from (skip : nat) (s : string) : string :=
  match s with
  | EmptyString => EmptyString
  | String c r =>
      match skip with
      | S k => esc_from k r
      | O =>
        if starts_with line_sep s then "\u2028" ++ esc_from 2 r
        else if starts_with para_sep s then "\u2029" ++ esc_from 2 r
        else
          let n := nat_of_ascii c in
          (if Nat.eqb n 34 then "\""" else if Nat.eqb n 92 then "\\"
           else if Nat.eqb n 8 then "\b" else if Nat.eqb n 12 then "\f" else if Nat.eqb n 10 then "\n"
           else if Nat.eqb n 13 then "\r" else if Nat.eqb n 9 then "\t"
           else if Nat.ltb n 32 then "\u00" ++ String (hex (n / 16)) (String (hex (n mod 16)) EmptyString)
           else String c EmptyString) ++ esc_from 0 r
      end
  end.
Definition json_string (s : string) : string := """" ++ esc_from 0 s ++ """".

(* ---- encoding/json: values, indented by two spaces per level, map keys in byte order *)
Fixpoint insert_kv (k : string) (v : json) (l : list (string * json)) : list (string * json) :=
  match l with
  | [] => [(k, v)]
  | (k', v') :: r => if String.ltb k k' then (k, v) :: (k', v') :: r else (k', v') :: insert_kv k v r
  end.
Fixpoint sort_keys (j : json) : json :=
  match j with
  | JArr l => JArr (map sort_keys l)
  | JObj l => JObj (fold_left (fun acc kv => insert_kv (fst kv) (snd kv) acc) (map (fun kv => (fst kv, sort_keys (snd kv))) l) [])
  | _ => j
  end.
Fixpoint spaces (n : nat) : string := match n with O => "" | S k => "  " ++ spaces k end.
Definition nl : string := String "010" EmptyString.
Fixpoint enc (ind : nat) (j : json) {struct j} : string :=
  match j with
  | JNull => "null"
  | JBool b => if b then "true" else "false"
  | JNum t => t
  | JStr s => json_string s
  | JArr [] => "[]"
  | JArr (x :: r) =>
      "[" ++ nl ++ spaces (S ind) ++ enc (S ind) x
      ++ (fix go (l : list json) : string := match l with [] => "" | y :: r' => "," ++ nl ++ spaces (S ind) ++ enc (S ind) y ++ go r' end) r
      ++ nl ++ spaces ind ++ "]"
  | JObj [] => "{}"
  | JObj ((k, x) :: r) =>
      "{" ++ nl ++ spaces (S ind) ++ json_string k ++ ": " ++ enc (S ind) x
      ++ (fix go (l : list (string * json)) : string :=
            match l with [] => "" | (k', y) :: r' => "," ++ nl ++ spaces (S ind) ++ json_string k' ++ ": " ++ enc (S ind) y ++ go r' end) r
      ++ nl ++ spaces ind ++ "}"
  end.
(* Encoder.Encode: the value, then a line feed *)
Definition encode (j : json) : string := enc 0 (sort_keys j) ++ nl.

(* ---- maps *)
Fixpoint jget (k : string) (l : list (string * json)) : option json :=
  match l with [] => None | (k', v) :: r => if String.eqb k' k then Some v else jget k r end.
Fixpoint jset (k : string) (v : json) (l : list (string * json)) : list (string * json) :=
  match l with
  | [] => [(k, v)]
  | (k', v') :: r => if String.eqb k' k then (k, v) :: r else (k', v') :: jset k v r
  end.
Definition has_key (k : string) (l : list (string * json)) : bool := match jget k l with Some _ => true | None => false end.

(* defineIdRecursively: a map with a "@type" key gets "@id"; its map-valued fields are visited with <id>_<key>, the map elements
   of its array-valued fields with <id>_<index>; a map without "@type" is left alone (and not entered) *)
Fixpoint define_ids (j : json) (id : string) {struct j} : json :=
  match j with
  | JObj l =>
      if has_key "@type" l then
        JObj (jset "@id" (JStr id)
               ((fix fields (l : list (string * json)) : list (string * json) :=
                   match l with
                   | [] => []
                   | (k, v) :: r =>
                       (k, match v with
                           | JObj _ => define_ids v (id ++ "_" ++ k)
                           | JArr items =>
                               JArr ((fix elems (i : nat) (items : list json) : list json :=
                                        match items with
                                        | [] => []
                                        | e :: r' => (match e with JObj _ => define_ids e (id ++ "_" ++ dec i) | _ => e end) :: elems (S i) r'
                                        end) 0 items)
                           | _ => v
                           end) :: fields r
                   end) l))
      else j
  | _ => j
  end.

(* buildValidation; a result that is not a map makes the type assertion panic: None *)
Definition build_validation (l : level) (i : nat) (raw : json) : option json :=
  match raw with
  | JObj fields => Some (define_ids (JObj (jset "resultSeverity" (JStr (severity_iri l)) fields)) (level_name l ++ "_" ++ dec i))
  | _ => None
  end.
Fixpoint build_level_json (l : level) (i : nat) (rs : list json) : option (list json) :=
  match rs with
  | [] => Some []
  | r :: rest => match build_validation l i r, build_level_json l (S i) rest with Some a, Some b => Some (a :: b) | _, _ => None end
  end.

Definition conforms_context (c : cfg) : list (string * json) :=
  [("conforms", JObj [("@id", JStr "http://www.w3.org/ns/shacl#conforms")]);
   ("dateCreated", JObj [("@id", JStr "http://a.ml/vocabularies/core#dateCreated")]);
   ("profileName", JObj [("@id", JStr "http://a.ml/vocabularies/validation#profileName")]);
   ("shacl", JStr "http://www.w3.org/ns/shacl#");
   ("doc", JStr "http://a.ml/vocabularies/document#");
   ("meta", JStr "http://a.ml/vocabularies/meta#");
   ("reportSchema", JStr (declarations_from (report_iri c)))].
Definition validation_context (c : cfg) : list (string * json) :=
  [("actual", JObj [("@id", JStr "http://a.ml/vocabularies/validation#actual")]);
   ("condition", JObj [("@id", JStr "http://a.ml/vocabularies/validation#condition")]);
   ("expected", JObj [("@id", JStr "http://a.ml/vocabularies/validation#expected")]);
   ("negated", JObj [("@id", JStr "http://a.ml/vocabularies/validation#negated")]);
   ("argument", JObj [("@id", JStr "http://a.ml/vocabularies/validation#argument")]);
   ("focusNode", JObj [("@id", JStr "http://www.w3.org/ns/shacl#focusNode")]);
   ("trace", JObj [("@id", JStr "http://a.ml/vocabularies/validation#trace")]);
   ("component", JObj [("@id", JStr "http://a.ml/vocabularies/validation#component")]);
   ("resultPath", JObj [("@id", JStr "http://www.w3.org/ns/shacl#resultPath")]);
   ("traceValue", JObj [("@id", JStr "http://www.w3.org/ns/shacl#traceValue")]);
   ("location", JObj [("@id", JStr "http://a.ml/vocabularies/validation#location")]);
   ("uri", JObj [("@id", JStr "http://a.ml/vocabularies/lexical#uri")]);
   ("start", JObj [("@id", JStr "http://a.ml/vocabularies/lexical#start")]);
   ("end", JObj [("@id", JStr "http://a.ml/vocabularies/lexical#end")]);
   ("range", JObj [("@id", JStr "http://a.ml/vocabularies/lexical#range")]);
   ("line", JObj [("@id", JStr "http://a.ml/vocabularies/lexical#line")]);
   ("column", JObj [("@id", JStr "http://a.ml/vocabularies/lexical#column")]);
   ("sourceShapeName", JObj [("@id", JStr "http://a.ml/vocabularies/validation#sourceShapeName")]);
   ("conforms", JObj [("@id", JStr "http://www.w3.org/ns/shacl#conforms")]);
   ("dateCreated", JObj [("@id", JStr "http://a.ml/vocabularies/core#dateCreated")]);
   ("profileName", JObj [("@id", JStr "http://a.ml/vocabularies/validation#profileName")]);
   ("result", JObj [("@id", JStr "http://www.w3.org/ns/shacl#result")]);
   ("subResult", JObj [("@id", JStr "http://a.ml/vocabularies/validation#subResult")]);
   ("resultSeverity", JObj [("@id", JStr "http://www.w3.org/ns/shacl#resultSeverity")]);
   ("resultMessage", JObj [("@id", JStr "http://www.w3.org/ns/shacl#resultMessage")]);
   ("shacl", JStr "http://www.w3.org/ns/shacl#");
   ("doc", JStr "http://a.ml/vocabularies/document#");
   ("meta", JStr "http://a.ml/vocabularies/meta#");
   ("validation", JStr "http://a.ml/vocabularies/validation#");
   ("lexical", JStr "http://a.ml/vocabularies/lexical#");
   ("reportSchema", JStr (declarations_from (report_iri c)));
   ("lexicalSchema", JStr (declarations_from (lexical_iri c)))].


Definition strs (l : list string) : json := JArr (map JStr l).
Definition processing_data : json :=
  JObj [("@id", JStr "processing-data"); ("@type", strs ["doc:DialectInstanceProcessingData"]); ("doc:sourceSpec", JStr "Validation Report 1.0")].

(* BuildReport over report = {"profile": .., "violation": [..], "warning": [..], "info": [..]}; None where the Go code panics
   (a missing key or a value of another type: recovered into an error by processResult) *)
Definition build_report_json (m : json) (c : cfg) : option json :=
  match m with
  | JObj top =>
      match jget "profile" top, jget "violation" top, jget "warning" top, jget "info" top with
      | Some (JStr name), Some (JArr vs), Some (JArr ws), Some (JArr is) =>
          match build_level_json Violation 0 vs, build_level_json Warning 0 ws, build_level_json Info 0 is with
          | Some a, Some b, Some d =>
              let results := List.app a (List.app b d) in
              let empty := match results with [] => true | _ => false end in
              let report := List.app [("@id", JStr "validation-report"); ("@type", strs ["reportSchema:ReportNode"; "shacl:ValidationReport"]);
                                      ("profileName", JStr name); ("conforms", JBool (match vs with [] => true | _ => false end))]
                            (List.app (if include_time c then [("dateCreated", JStr (time_text c))] else [])
                                      (if empty then [] else [("result", JArr results)])) in
              Some (JArr [JObj [("@context", JObj (if empty then conforms_context c else validation_context c));
                                ("@id", JStr "dialect-instance");
                                ("@type", strs ["meta:DialectInstance"; "doc:Document"; "doc:Fragment"; "doc:Module"; "doc:Unit"]);
                                ("doc:encodes", JArr [JObj report]);
                                ("doc:processingData", JArr [processing_data])]])
          | _, _, _ => None
          end
      | _, _, _, _ => None
      end
  | _ => None
  end.
Definition build_report_text (m : json) (c : cfg) : option string := option_map encode (build_report_json m c).
