(* What Model/Report.v was transcribed from (report.go, report_nodes.go); compared with
   Extracted/ReportFacts.v, which is regenerated from /repo on every run. *)
From Coq Require Import List String.
Import ListNotations.
Open Scope string_scope.
Definition ref_conforms_expr : string := "len(violations) == 0".
Definition ref_build_results_loops : list string := ["violations"; "violation"; "violation_"; "warnings"; "warning"; "warning_"; "infos"; "info"; "info_"].
Definition ref_build_validation_strings : list string := ["resultSeverity"; "http://www.w3.org/ns/shacl#"].
Definition ref_define_id_formats : list string := ["@type"; "@id"; "%s_%s"; "%s_%d"].
Definition ref_report_node_conditions : list string := ["reportConfig.IncludeReportCreationTime"; "dateCreated"; "len(results) != 0"; "result"].
Definition ref_context_condition : string := "emptyReport".
Definition ref_report_node_strings : list string := ["reportSchema:ReportNode"; "shacl:ValidationReport"; "@id"; "validation-report"; "@type"; "profileName"; "conforms"; "dateCreated"; "result"].
Definition ref_dialect_instance_strings : list string := ["@context"; "@id"; "dialect-instance"; "@type"; "meta:DialectInstance"; "doc:Document"; "doc:Fragment"; "doc:Module"; "doc:Unit"; "doc:encodes"; "doc:processingData"].
Definition ref_date_created_expr : string := "validationConfig.ReportCreationTime().Format(time.RFC3339)".
