(* Classification of every built-in function of the policy engine version /repo links (OPA v0.47.0, 187
   built-ins), written when the model was made: Dangerous = can perform network I/O, inspect the host process or
   re-enter the compiler (the five names of C08; walk is listed by the property because it lets a policy scan
   the whole input/data document); LocalNondeterministic = reads the clock / a random source / signs with the
   supplied key, no I/O; Pure = a function of its arguments.  Extracted/SecurityFacts.extracted_builtins is
   regenerated from the linked engine on every run: a dependency bump that adds a built-in leaves it
   unclassified and C08_builtins_classified fails until someone reads what it does. *)
From Coq Require Import List String Bool.
Import ListNotations.
Open Scope string_scope.

Inductive bclass := Dangerous | LocalNondeterministic | Pure.
Definition builtin_classes : list (string * bclass) :=
  [
    ("abs", Pure);
    ("all", Pure);
    ("and", Pure);
    ("any", Pure);
    ("array.concat", Pure);
    ("array.reverse", Pure);
    ("array.slice", Pure);
    ("assign", Pure);
    ("base64.decode", Pure);
    ("base64.encode", Pure);
    ("base64.is_valid", Pure);
    ("base64url.decode", Pure);
    ("base64url.encode", Pure);
    ("base64url.encode_no_pad", Pure);
    ("bits.and", Pure);
    ("bits.lsh", Pure);
    ("bits.negate", Pure);
    ("bits.or", Pure);
    ("bits.rsh", Pure);
    ("bits.xor", Pure);
    ("cast_array", Pure);
    ("cast_boolean", Pure);
    ("cast_null", Pure);
    ("cast_object", Pure);
    ("cast_set", Pure);
    ("cast_string", Pure);
    ("ceil", Pure);
    ("concat", Pure);
    ("contains", Pure);
    ("count", Pure);
    ("crypto.hmac.md5", Pure);
    ("crypto.hmac.sha1", Pure);
    ("crypto.hmac.sha256", Pure);
    ("crypto.hmac.sha512", Pure);
    ("crypto.md5", Pure);
    ("crypto.sha1", Pure);
    ("crypto.sha256", Pure);
    ("crypto.x509.parse_and_verify_certificates", Pure);
    ("crypto.x509.parse_certificate_request", Pure);
    ("crypto.x509.parse_certificates", Pure);
    ("crypto.x509.parse_rsa_private_key", Pure);
    ("div", Pure);
    ("endswith", Pure);
    ("eq", Pure);
    ("equal", Pure);
    ("floor", Pure);
    ("format_int", Pure);
    ("glob.match", Pure);
    ("glob.quote_meta", Pure);
    ("graph.reachable", Pure);
    ("graph.reachable_paths", Pure);
    ("graphql.is_valid", Pure);
    ("graphql.parse", Pure);
    ("graphql.parse_and_verify", Pure);
    ("graphql.parse_query", Pure);
    ("graphql.parse_schema", Pure);
    ("graphql.schema_is_valid", Pure);
    ("gt", Pure);
    ("gte", Pure);
    ("hex.decode", Pure);
    ("hex.encode", Pure);
    ("http.send", Dangerous);
    ("indexof", Pure);
    ("indexof_n", Pure);
    ("internal.member_2", Pure);
    ("internal.member_3", Pure);
    ("internal.print", Pure);
    ("intersection", Pure);
    ("io.jwt.decode", Pure);
    ("io.jwt.decode_verify", LocalNondeterministic);
    ("io.jwt.encode_sign", LocalNondeterministic);
    ("io.jwt.encode_sign_raw", LocalNondeterministic);
    ("io.jwt.verify_es256", Pure);
    ("io.jwt.verify_es384", Pure);
    ("io.jwt.verify_es512", Pure);
    ("io.jwt.verify_hs256", Pure);
    ("io.jwt.verify_hs384", Pure);
    ("io.jwt.verify_hs512", Pure);
    ("io.jwt.verify_ps256", Pure);
    ("io.jwt.verify_ps384", Pure);
    ("io.jwt.verify_ps512", Pure);
    ("io.jwt.verify_rs256", Pure);
    ("io.jwt.verify_rs384", Pure);
    ("io.jwt.verify_rs512", Pure);
    ("is_array", Pure);
    ("is_boolean", Pure);
    ("is_null", Pure);
    ("is_number", Pure);
    ("is_object", Pure);
    ("is_set", Pure);
    ("is_string", Pure);
    ("json.filter", Pure);
    ("json.is_valid", Pure);
    ("json.marshal", Pure);
    ("json.patch", Pure);
    ("json.remove", Pure);
    ("json.unmarshal", Pure);
    ("lower", Pure);
    ("lt", Pure);
    ("lte", Pure);
    ("max", Pure);
    ("min", Pure);
    ("minus", Pure);
    ("mul", Pure);
    ("neq", Pure);
    ("net.cidr_contains", Pure);
    ("net.cidr_contains_matches", Pure);
    ("net.cidr_expand", Pure);
    ("net.cidr_intersects", Pure);
    ("net.cidr_is_valid", Pure);
    ("net.cidr_merge", Pure);
    ("net.cidr_overlap", Pure);
    ("net.lookup_ip_addr", Dangerous);
    ("numbers.range", Pure);
    ("object.filter", Pure);
    ("object.get", Pure);
    ("object.keys", Pure);
    ("object.remove", Pure);
    ("object.subset", Pure);
    ("object.union", Pure);
    ("object.union_n", Pure);
    ("opa.runtime", Dangerous);
    ("or", Pure);
    ("plus", Pure);
    ("print", Pure);
    ("product", Pure);
    ("providers.aws.sign_req", Pure);
    ("rand.intn", LocalNondeterministic);
    ("re_match", Pure);
    ("regex.find_all_string_submatch_n", Pure);
    ("regex.find_n", Pure);
    ("regex.globs_match", Pure);
    ("regex.is_valid", Pure);
    ("regex.match", Pure);
    ("regex.replace", Pure);
    ("regex.split", Pure);
    ("regex.template_match", Pure);
    ("rego.metadata.chain", Pure);
    ("rego.metadata.rule", Pure);
    ("rego.parse_module", Dangerous);
    ("rem", Pure);
    ("replace", Pure);
    ("round", Pure);
    ("semver.compare", Pure);
    ("semver.is_valid", Pure);
    ("set_diff", Pure);
    ("sort", Pure);
    ("split", Pure);
    ("sprintf", Pure);
    ("startswith", Pure);
    ("strings.any_prefix_match", Pure);
    ("strings.any_suffix_match", Pure);
    ("strings.replace_n", Pure);
    ("strings.reverse", Pure);
    ("substring", Pure);
    ("sum", Pure);
    ("time.add_date", Pure);
    ("time.clock", Pure);
    ("time.date", Pure);
    ("time.diff", Pure);
    ("time.now_ns", LocalNondeterministic);
    ("time.parse_duration_ns", Pure);
    ("time.parse_ns", Pure);
    ("time.parse_rfc3339_ns", Pure);
    ("time.weekday", Pure);
    ("to_number", Pure);
    ("trace", Pure);
    ("trim", Pure);
    ("trim_left", Pure);
    ("trim_prefix", Pure);
    ("trim_right", Pure);
    ("trim_space", Pure);
    ("trim_suffix", Pure);
    ("type_name", Pure);
    ("union", Pure);
    ("units.parse", Pure);
    ("units.parse_bytes", Pure);
    ("upper", Pure);
    ("urlquery.decode", Pure);
    ("urlquery.decode_object", Pure);
    ("urlquery.encode", Pure);
    ("urlquery.encode_object", Pure);
    ("uuid.rfc4122", LocalNondeterministic);
    ("walk", Dangerous);
    ("yaml.is_valid", Pure);
    ("yaml.marshal", Pure);
    ("yaml.unmarshal", Pure) ].

Fixpoint class_of (b : string) (l : list (string * bclass)) : option bclass :=
  match l with [] => None | (n, c) :: r => if String.eqb n b then Some c else class_of b r end.
Definition classified (b : string) : bool := match class_of b builtin_classes with Some _ => true | None => false end.
Definition is_dangerous (b : string) : bool := match class_of b builtin_classes with Some Dangerous => true | _ => false end.
Definition dangerous_names : list string := ["http.send"; "net.lookup_ip_addr"; "opa.runtime"; "rego.parse_module"; "walk"].
