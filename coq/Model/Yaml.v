(* YAML trees as internal/parser/yaml exposes them, rewritings of a profile that keep its meaning, and the IRI
   expander (internal/misc/iri_expander.go) with the prefix table of a profile layered over the built-in one
   (generator.IriExpanderFrom). *)
From Coq Require Import Permutation.
From ACV Require Import Base.Strs Model.Graph.
Local Open Scope string_scope.

Inductive ynode :=
| YScalar (tag value : string)
| YMap (entries : list (string * ynode))         (* scalar keys, in document order *)
| YSeq (items : list ynode).

(* Yaml.Get: the value of the first entry whose key is k *)
Definition yget (k : string) (y : ynode) : option ynode :=
  match y with YMap l => assoc k l | _ => None end.
(* Yaml.GetMapKeys: the keys in document order *)
Definition ykeys (y : ynode) : list string := match y with YMap l => map fst l | _ => [] end.

(* ------------------------------------------------------------------ the IRI expander *)
(* split at the first "." *)
Fixpoint split_dot (s : string) : option (string * string) :=
  match s with
  | EmptyString => None
  | String c r => if Ascii.eqb c "." then Some ("", r)
                  else match split_dot r with Some (a, b) => Some (String c a, b) | None => None end
  end.
(* context = built-in prefixes overlaid with the profile's (a profile entry shadows a built-in one) *)
Definition context (defaults profile : list (string * string)) : list (string * string) := (profile ++ defaults)%list.
Definition expand_compact (ctx : list (string * string)) (iri : string) : option string :=
  match split_dot iri with
  | Some (p, l) => match assoc p ctx with Some ns => Some (ns ++ l) | None => None end
  | None => None
  end.

(* renaming a prefix in a compact IRI *)
Definition rename_in_iri (old new : string) (iri : string) : string :=
  match split_dot iri with
  | Some (p, l) => if String.eqb p old then new ++ "." ++ l else iri
  | None => iri
  end.
Definition rename_in_table (old new : string) (t : list (string * string)) : list (string * string) :=
  map (fun kv => (if String.eqb (fst kv) old then new else fst kv, snd kv)) t.
Fixpoint no_dot (s : string) : bool := match s with EmptyString => true | String c r => negb (Ascii.eqb c ".") && no_dot r end.
