(* C07 / C02: the code the translator writes for a property path (internal/generator/path.go, regular and custom properties): one clause
   per alternative (PathSem.trav: traverse / traverseOr / traverseAnd), and for every step of a clause the statements of
   traverseRegularProperty / traverseCustomProperty, the variable of a step being <v>_<number of path variables so far>.
   [render] is the text of a statement, byte for byte (the correspondence run compares it with the lines of the path rules in
   the real generated module for every path of the C02 run); [du] is its reading: the variable it binds and the variables it
   needs bound (data.* and the helper rules nested_nodes / nodes_array / search_subjects are global). *)
From ACV Require Import Base.Strs Model.Graph Model.PathGrammar Model.PathSem Model.Report Model.Names.
Local Open Scope string_scope.

Inductive pstmt :=
| PInit (b : string)                          (* init_<b> = data.sourceNode *)
| PInv (b iri src : string)                   (* search_subjects[<b>] with data.predicate as "<iri>" with data.object as <src> *)
| PFetchT (b src iri : string)                (* tmp_<b> = nested_nodes with data.nodes as <src>["<iri>"] *)
| PFetchB (b : string)                        (* <b> = tmp_<b>[_][_] *)
| PGet (src iri : string)                     (* nodes_tmp = object.get(<src>,"<iri>",[]) *)
| PArr                                        (* nodes_tmp2 = nodes_array with data.nodes as nodes_tmp *)
| PLast (b : string)                          (* <b> = nodes_tmp2[_] *)
| PNodes (v : string)                         (* nodes = <v> *)
(* custom (annotation) properties: the IRI lies in the api-extension namespace; <name> is its local name *)
| PCInv (b name src : string)                 (* search_custom_property_subjects[<b>] with data.property_extension as "<name>" with data.object as <src> *)
| PCExt (b src name : string)                 (* tmp_<b> = gen_path_extension with data.custom_property_data as [<src>, "<name>"] *)
| PCTmp2 (b : string)                         (* tmp2_<b> = tmp_<b>[_][_] *)
| PCId (b : string).                          (* <b> = object.get(tmp2_<b>,"@id","") *)

Definition q (s : string) : string := """" ++ s ++ """".
Definition render (s : pstmt) : string :=
  match s with
  | PInit b => "init_" ++ b ++ " = data.sourceNode"
  | PInv b iri src => "search_subjects[" ++ b ++ "] with data.predicate as " ++ q iri ++ " with data.object as " ++ src
  | PFetchT b src iri => "tmp_" ++ b ++ " = nested_nodes with data.nodes as " ++ src ++ "[" ++ q iri ++ "]"
  | PFetchB b => b ++ " = tmp_" ++ b ++ "[_][_]"
  | PGet src iri => "nodes_tmp = object.get(" ++ src ++ "," ++ q iri ++ ",[])"
  | PArr => "nodes_tmp2 = nodes_array with data.nodes as nodes_tmp"
  | PLast b => b ++ " = nodes_tmp2[_]"
  | PNodes v => "nodes = " ++ v
  | PCInv b name src => "search_custom_property_subjects[" ++ b ++ "] with data.property_extension as " ++ q name ++ " with data.object as " ++ src
  | PCExt b src name => "tmp_" ++ b ++ " = gen_path_extension with data.custom_property_data as [" ++ src ++ ", " ++ q name ++ "]"
  | PCTmp2 b => "tmp2_" ++ b ++ " = tmp_" ++ b ++ "[_][_]"
  | PCId b => b ++ " = object.get(tmp2_" ++ b ++ ",""@id"","""")"
  end.
(* (variable bound, variables that must be bound before) *)
Definition du (s : pstmt) : string * list string :=
  match s with
  | PInit b => ("init_" ++ b, [])
  | PInv b _ src => (b, [src])
  | PFetchT b src _ => ("tmp_" ++ b, [src])
  | PFetchB b => (b, ["tmp_" ++ b])
  | PGet src _ => ("nodes_tmp", [src])
  | PArr => ("nodes_tmp2", ["nodes_tmp"])
  | PLast b => (b, ["nodes_tmp2"])
  | PNodes v => ("nodes", [v])
  | PCInv b _ src => (b, [src])
  | PCExt b src _ => ("tmp_" ++ b, [src])
  | PCTmp2 b => ("tmp2_" ++ b, ["tmp_" ++ b])
  | PCId b => (b, ["tmp2_" ++ b])
  end.

Definition binding (v : string) (k : nat) : string := v ++ "_" ++ dec k.
(* Property.IsCustom / CustomName: the expanded IRI starts with the api-extension namespace; the name is what stands between
   the first `#` and the next one (strings.Split(expanded, "#")[1]) *)
Definition api_extension_ns : string := "http://a.ml/vocabularies/api-extension#".
Fixpoint strip_prefix (p s : string) : option string :=
  match p, s with
  | EmptyString, _ => Some s
  | String a p', String b s' => if Ascii.eqb a b then strip_prefix p' s' else None
  | _, _ => None
  end.
Fixpoint until_hash (s : string) : string :=
  match s with
  | EmptyString => EmptyString
  | String c r => if Ascii.eqb c "#"%char then EmptyString else String c (until_hash r)
  end.
Definition custom_name (iri : string) : option string :=
  match strip_prefix api_extension_ns iri with Some rest => Some (until_hash rest) | None => None end.

Definition step_stmts (s : step) (b src : string) : list pstmt :=
  match custom_name (s_iri s) with
  | Some name =>
      if s_inv s then [PCInv b name src]
      else if s_fetch s then [PCExt b src name; PFetchB b]
      else [PCExt b src name; PCTmp2 b; PCId b]
  | None =>
      if s_inv s then [PInv b (s_iri s) src]
      else if s_fetch s then [PFetchT b src (s_iri s); PFetchB b]
      else [PGet src (s_iri s); PArr; PLast b]
  end.

(* the statements of one clause: [pvlen] = number of path variables so far, [src] = the last one (unused when pvlen = 0) *)
Fixpoint emit (v : string) (steps : list step) (pvlen : nat) (src : string) : list pstmt :=
  match steps with
  | [] => [PNodes src]
  | s :: r =>
      let b := binding v pvlen in
      match pvlen with
      | O => PInit b :: step_stmts s b ("init_" ++ b) ++ emit v r 2 b
      | S _ => step_stmts s b src ++ emit v r (S pvlen) b
      end
  end.

(* the clauses of the rule for path p from variable v *)
Definition path_clauses (p : path) (fetch : bool) (v : string) : list (list pstmt) :=
  map (fun c => emit v c 0 "") (trav p fetch []).
Definition path_rule_lines (p : path) (fetch : bool) (v : string) : list (list string) :=
  map (map render) (path_clauses p fetch v).
