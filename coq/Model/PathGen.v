(* C07 / C02: the code the translator writes for a property path (internal/generator/path.go, regular properties): one clause
   per alternative (PathSem.trav: traverse / traverseOr / traverseAnd), and for every step of a clause the statements of
   traverseRegularProperty, the variable of a step being <v>_<number of path variables so far>.
   [render] is the text of a statement, byte for byte (the correspondence run compares it with the lines of the path rules in
   the real generated module for every path of the C02 run); [du] is its reading: the variable it binds and the variables it
   needs bound (data.* and the helper rules nested_nodes / nodes_array / search_subjects are global). *)
From ACV Require Import Base.Strs Model.Graph Model.PathGrammar Model.PathSem Model.Report Model.Names.
Local Open Scope string_scope.

Inductive pstmt :=
| PInit (b : string)                          (* init_<b> = data.sourceNode *)
| PInv (b iri src : string)                   (* search_subjects[<b>] with data.predicate as "<iri>" with data.object as <src> *)
| PFetchT (b src iri : string)                (* tmp_<b> = nested_nodes with data.nodes as <src>["<iri>"] *)
| PFetchB (b : string)                        (* <b> = tmp_<b>[_][_] *)
| PGet (src iri : string)                     (* nodes_tmp = object.get(<src>,"<iri>",[]) *)
| PArr                                        (* nodes_tmp2 = nodes_array with data.nodes as nodes_tmp *)
| PLast (b : string)                          (* <b> = nodes_tmp2[_] *)
| PNodes (v : string).                        (* nodes = <v> *)

Definition q (s : string) : string := """" ++ s ++ """".
Definition render (s : pstmt) : string :=
  match s with
  | PInit b => "init_" ++ b ++ " = data.sourceNode"
  | PInv b iri src => "search_subjects[" ++ b ++ "] with data.predicate as " ++ q iri ++ " with data.object as " ++ src
  | PFetchT b src iri => "tmp_" ++ b ++ " = nested_nodes with data.nodes as " ++ src ++ "[" ++ q iri ++ "]"
  | PFetchB b => b ++ " = tmp_" ++ b ++ "[_][_]"
  | PGet src iri => "nodes_tmp = object.get(" ++ src ++ "," ++ q iri ++ ",[])"
  | PArr => "nodes_tmp2 = nodes_array with data.nodes as nodes_tmp"
  | PLast b => b ++ " = nodes_tmp2[_]"
  | PNodes v => "nodes = " ++ v
  end.
(* (variable bound, variables that must be bound before) *)
Definition du (s : pstmt) : string * list string :=
  match s with
  | PInit b => ("init_" ++ b, [])
  | PInv b _ src => (b, [src])
  | PFetchT b src _ => ("tmp_" ++ b, [src])
  | PFetchB b => (b, ["tmp_" ++ b])
  | PGet src _ => ("nodes_tmp", [src])
  | PArr => ("nodes_tmp2", ["nodes_tmp"])
  | PLast b => (b, ["nodes_tmp2"])
  | PNodes v => ("nodes", [v])
  end.

Definition binding (v : string) (k : nat) : string := v ++ "_" ++ dec k.
Definition step_stmts (s : step) (b src : string) : list pstmt :=
  if s_inv s then [PInv b (s_iri s) src]
  else if s_fetch s then [PFetchT b src (s_iri s); PFetchB b]
  else [PGet src (s_iri s); PArr; PLast b].

(* the statements of one clause: [pvlen] = number of path variables so far, [src] = the last one (unused when pvlen = 0) *)
Fixpoint emit (v : string) (steps : list step) (pvlen : nat) (src : string) : list pstmt :=
  match steps with
  | [] => [PNodes src]
  | s :: r =>
      let b := binding v pvlen in
      match pvlen with
      | O => PInit b :: step_stmts s b ("init_" ++ b) ++ emit v r 2 b
      | S _ => step_stmts s b src ++ emit v r (S pvlen) b
      end
  end.

(* the clauses of the rule for path p from variable v *)
Definition path_clauses (p : path) (fetch : bool) (v : string) : list (list pstmt) :=
  map (fun c => emit v c 0 "") (trav p fetch []).
Definition path_rule_lines (p : path) (fetch : bool) (v : string) : list (list string) :=
  map (map render) (path_clauses p fetch v).
