(* The Rego text fragments (fmt.Sprintf templates, in source order per function) that the models of the
   generator were transcribed from.  Extracted/Templates.v is regenerated from /repo on every run; the
   property files prove extracted = reference, so an edit to a template whose meaning a model
   transcribes breaks a tie lemma and sends the check into its search for a failing input. *)
From Coq Require Import List String.
Import ListNotations.
Open Scope string_scope.

(* internal/generator/path.go traverseRegularProperty: forward step with/without fetching, inverse step *)
Definition ref_path_property : list string :=
  ["%d"; "%s_%d"; "%s_%s"; "init_%s = data.sourceNode"; "init_%s";
   "search_subjects[%s] with data.predicate as ""%s"" with data.object as %s";
   "tmp_%s = nested_nodes with data.nodes as %s[""%s""]"; "%s = tmp_%s[_][_]";
   "nodes_tmp = object.get(%s,""%s"",[])"; "nodes_tmp2 = nodes_array with data.nodes as nodes_tmp"; "%s = nodes_tmp2[_]"].
(* traversePath / aggregateResultsIntoSet / aggregateResultsIntoArray: one clause per alternative, union *)
Definition ref_path_aggregate : list string :=
  ["nodes = %s"; "path_set_rule"; "%s[nodes] {"; "} {"; "  "; "}"; "path_array_rule"; "%s = [ nodes | "; "} {"; "  "; "]"].
(* the preamble (nodes_array, nested_nodes, find, search_subjects, target_class, error, trace, location ...) *)
Definition ref_preamble_sha256 : string := "9cc3607a66284b61b0aec492dfedbd7b302ea5e6abae9eece6426f4e31ed04ad".
