(* C07: the TEXT of one top-level rule (expression.go wrapTopLevelRegoResult / wrapBranch around the snippets of a branch):
      <level>[matches] {
        target_class[x] with data.class as "<class>"
        <the lines of every constraint of the branch, each followed by its   _result_<i> := trace(...)   line>
        msg_var_<j> := object.get(x, "<iri>", "null") ...  message_vars := [...]  message := sprintf("<expr>", message_vars)   (or  message := "<expr>")
        matches := error("<name>",x, message ,[_result_0,...])
      }
   and of the constraint snippets whose shape is "bind the values of the path, draw one, test it": count / length
   (count.go), pattern (pattern.go), datatype (datatype.go), numeric bounds (numericcomparison.go), `in` (scalar_superset.go), containsAll / containsSome (scalar_subset.go, scalar_intersect_set.go), property pairs (propertycomparison.go).  The numbers in the generated names are parameters: the
   correspondence run reads them off the real module and compares every line.  [*_du] is the reading of the lines as
   (variable bound, variables needed); Proofs/RuleGenProofs.v: every such rule body is safe. *)
From ACV Require Import Base.Strs Model.Report Model.Names Model.Escape.
Local Open Scope string_scope.

Record snippet := {
  sn_lines : list string;                      (* the lines of the constraint, in order *)
  sn_du : list (string * list string);         (* their reading; a test binds nothing: its variable is "" *)
  sn_id : string;                              (* constraint id shown in the trace *)
  sn_path : string;                            (* the path as the trace shows it *)
  sn_value : string;                           (* the inside of the trace value object *)
  sn_value_uses : list string                  (* the variables the trace value reads *)
}.

Definition q (s : string) : string := """" ++ s ++ """".
Definition bool_text (b : bool) : string := if b then "true" else "false".
Definition trace_value_node (inner : string) : string :=
  "{""@type"": [""reportSchema:TraceValueNode"", ""validation:TraceValue""], " ++ inner ++ "}".

(* ---- count.go: minCount / maxCount / exactCount (items) and minLength / maxLength / exactLength (per value) *)
Definition count_snippet (x src rule : string) (n : nat) (per_value negated : bool) (cond : string) (k : nat) (cid tpath : string) : snippet :=
  let arr := genvar "propValues" n in
  let elem := arr ++ "_elem" in
  let target := if per_value then elem else arr in
  {| sn_lines := ["#  querying path: " ++ src; arr ++ " = " ++ rule ++ " with data.sourceNode as " ++ x]
                 ++ (if per_value then [elem ++ " = " ++ arr ++ "[_]"] else [])
                 ++ [(if negated then "" else "not ") ++ "count(" ++ target ++ ") " ++ cond ++ " " ++ dec k];
     sn_du := [(arr, [x])] ++ (if per_value then [(elem, [arr])] else []) ++ [("", [target])];
     sn_id := cid; sn_path := tpath;
     sn_value := """negated"":" ++ bool_text negated ++ ",""condition"":" ++ q cond ++ ",""actual"": count(" ++ target ++ "),""expected"": " ++ dec k;
     sn_value_uses := [target] |}.

(* ---- pattern.go; [lit] is the pattern literal (Escape.pattern_literal), [shown] the JSON string of the pattern *)
Definition pattern_snippet (x src rule : string) (n : nat) (negated : bool) (lit shown tpath : string) : snippet :=
  let chk := genvar (rule ++ "_node") n in
  {| sn_lines := ["#  querying path: " ++ src; chk ++ "_array = " ++ rule ++ " with data.sourceNode as " ++ x; chk ++ " = " ++ chk ++ "_array[_]";
                  (if negated then "" else "not ") ++ "regex.match(" ++ lit ++ "," ++ chk ++ ")"];
     sn_du := [(chk ++ "_array", [x]); (chk, [chk ++ "_array"]); ("", [chk])];
     sn_id := "pattern"; sn_path := tpath;
     sn_value := """negated"":" ++ bool_text negated ++ ",""expected"": " ++ shown ++ ",""actual"": " ++ chk;
     sn_value_uses := [chk] |}.

(* ---- datatype.go *)
Definition datatype_snippet (x src rule : string) (n : nat) (negated : bool) (dt tpath : string) : snippet :=
  let v := genvar "datatype_check" n in
  {| sn_lines := ["#  querying path: " ++ src; v ++ "_elem = " ++ rule ++ " with data.sourceNode as " ++ x; v ++ " = " ++ v ++ "_elem[_]";
                  (if negated then "" else "not ") ++ "check_datatype(" ++ v ++ "," ++ q dt ++ ")"];
     sn_du := [(v ++ "_elem", [x]); (v, [v ++ "_elem"]); ("", [v])];
     sn_id := "datatype"; sn_path := tpath;
     sn_value := """negated"":" ++ bool_text negated ++ ",""actual"": " ++ v ++ ",""expected"": " ++ q dt;
     sn_value_uses := [v] |}.

(* ---- numericcomparison.go, integer argument; [ktext] is the number as the profile writes it *)
Definition numeric_snippet (x src rule : string) (n : nat) (negated : bool) (cid op ktext tpath : string) : snippet :=
  let v := genvar "numeric_comparison" n in
  {| sn_lines := ["#  querying path: " ++ src; v ++ "_elem = " ++ rule ++ " with data.sourceNode as " ++ x; v ++ " = " ++ v ++ "_elem[_]";
                  (if negated then "" else "not ") ++ v ++ " " ++ op ++ " " ++ ktext];
     sn_du := [(v ++ "_elem", [x]); (v, [v ++ "_elem"]); ("", [v])];
     sn_id := cid; sn_path := tpath;
     sn_value := """negated"":" ++ bool_text negated ++ ",""condition"":" ++ q op ++ ",""expected"":" ++ ktext ++ ",""actual"":" ++ v;
     sn_value_uses := [v] |}.

(* ---- scalar_superset.go (`in`): n1 numbers the value set, n2 the checked value *)
Definition in_snippet (x src rule : string) (n1 n2 : nat) (negated : bool) (vals : list string) (tpath : string) : snippet :=
  let set := genvar "inValues" n1 in
  let chk := genvar (x ++ "_check") n2 in
  {| sn_lines := ["#  querying path: " ++ src; chk ++ "_array = " ++ rule ++ " with data.sourceNode as " ++ x; chk ++ "_scalar = " ++ chk ++ "_array[_]";
                  chk ++ " = as_string(" ++ chk ++ "_scalar)"; set ++ " = { " ++ join_quoted vals ++ "}";
                  (if negated then "" else "not ") ++ set ++ "[" ++ chk ++ "]"];
     sn_du := [(chk ++ "_array", [x]); (chk ++ "_scalar", [chk ++ "_array"]); (chk, [chk ++ "_scalar"]); (set, []); ("", [set; chk])];
     sn_id := "in"; sn_path := tpath;
     sn_value := """negated"":" ++ bool_text negated ++ ",""actual"": " ++ chk ++ ",""expected"": " ++ q (escape ("[" ++ join_quoted vals ++ "]"));
     sn_value_uses := [chk] |}.

(* ---- scalar_subset.go (containsAll) / scalar_intersect_set.go (containsSome): n1 numbers the checked values, n2 the value
   set; the third line is ONE element of the line list although it spans four lines of text (it ends with "}" and a newline) *)
Definition nl : string := String (Ascii.ascii_of_nat 10) EmptyString.
Definition contains_snippet (all : bool) (x src rule : string) (n1 n2 : nat) (negated : bool) (vals : list string) (tpath : string) : snippet :=
  let chk := genvar (x ++ "_check") n1 in
  let cid := if all then "containsAll" else "containsSome" in
  let set := genvar cid n2 in
  let diff := "count(" ++ set ++ " - " ++ chk ++ "_string_set)" in
  {| sn_lines := ["#  querying path: " ++ src; chk ++ "_array = " ++ rule ++ " with data.sourceNode as " ++ x;
                  "count(" ++ chk ++ "_array) != 0 # validation applies if property was defined";
                  chk ++ "_string_set = { mapped |" ++ nl ++ "    original := " ++ chk ++ "_array[_]" ++ nl ++ "    mapped := as_string(original)" ++ nl ++ "}" ++ nl;
                  set ++ " = " ++ string_set_literal vals;
                  (if all then diff ++ (if negated then " == 0" else " != 0")
                   else diff ++ (if negated then " != " else " == ") ++ "count(" ++ set ++ ")");
                  chk ++ "_quoted = [concat("""", [""\"""", res, ""\""""]) |  res := " ++ chk ++ "_string_set[_]]";
                  chk ++ "_string = concat("""", [""["", concat("", ""," ++ chk ++ "_quoted), ""]""])"];
     sn_du := [(chk ++ "_array", [x]); ("", [chk ++ "_array"]); (chk ++ "_string_set", [chk ++ "_array"]); (set, []);
               ("", [set; chk ++ "_string_set"]); (chk ++ "_quoted", [chk ++ "_string_set"]); (chk ++ "_string", [chk ++ "_quoted"])];
     sn_id := cid; sn_path := tpath;
     sn_value := """negated"":" ++ bool_text negated ++ ",""actual"": " ++ chk ++ "_string,""expected"": " ++ q (escape ("[" ++ join_quoted vals ++ "]"));
     sn_value_uses := [chk ++ "_string"] |}.

(* ---- propertycomparison.go: two paths from the same node, every pair of values; no generated number: the variables are
   named after the two path rules *)
Definition cmp_snippet (x srcA ruleA srcB ruleB : string) (negated : bool) (cid op tpath : string) : snippet :=
  let a := ruleA ++ "A" in
  let b := ruleB ++ "B" in
  {| sn_lines := ["#  querying path: " ++ srcA; a ++ "s = " ++ ruleA ++ " with data.sourceNode as " ++ x;
                  "#  querying path: " ++ srcB; b ++ "s = " ++ ruleB ++ " with data.sourceNode as " ++ x;
                  a ++ " = " ++ a ++ "s[_]"; b ++ " = " ++ b ++ "s[_]";
                  (if negated then "" else "not ") ++ a ++ " " ++ op ++ " " ++ b];
     sn_du := [(a ++ "s", [x]); (b ++ "s", [x]); (a, [a ++ "s"]); (b, [b ++ "s"]); ("", [a; b])];
     sn_id := cid; sn_path := tpath;
     sn_value := """negated"":" ++ bool_text negated ++ ", ""condition"":" ++ q op ++ ",""expected"":" ++ b ++ ", ""actual"":" ++ a ++ ", ""altPath"": " ++ q srcB;
     sn_value_uses := [b; a] |}.

(* ---- wrapBranch + the rule around it *)
Definition trace_line (i : nat) (x : string) (s : snippet) : string :=
  "  " ++ result_var i ++ " := trace(" ++ q (sn_id s) ++ "," ++ q (sn_path s) ++ "," ++ x ++ "," ++ trace_value_node (sn_value s) ++ ")".
Fixpoint branch_lines (i : nat) (x : string) (branch : list snippet) : list string :=
  match branch with
  | [] => []
  | s :: r => map (fun l => "  " ++ l) (sn_lines s) ++ [trace_line i x s] ++ branch_lines (S i) x r
  end.
Fixpoint join (sep : string) (l : list string) : string :=
  match l with [] => "" | [a] => a | a :: r => a ++ sep ++ join sep r end.
Definition message_lines (x : string) (iris : list string) (expr : string) : list string :=
  match iris with
  | [] => ["  message := " ++ q expr]
  | _ => map (fun ji => "  " ++ msg_var (fst ji) ++ " := object.get(" ++ x ++ ", " ++ q (snd ji) ++ ", ""null"")") (combine (seq 0 (List.length iris)) iris)
         ++ ["  message_vars := [" ++ join "," (map msg_var (seq 0 (List.length iris))) ++ "]";
             "  message := sprintf(" ++ q expr ++ ", message_vars)"]
  end.
Definition rule_lines (level x class_iri name : string) (branch : list snippet) (iris : list string) (expr : string) : list string :=
  [level ++ "[matches] {"; "  target_class[" ++ x ++ "] with data.class as " ++ q class_iri]
  ++ branch_lines 0 x branch
  ++ message_lines x iris expr
  ++ ["  matches := error(" ++ q name ++ "," ++ x ++ ", message ,[" ++ join "," (map result_var (seq 0 (List.length branch))) ++ "])"; "}"].

(* the reading of the rule body *)
Fixpoint branch_du (i : nat) (x : string) (branch : list snippet) : list (string * list string) :=
  match branch with
  | [] => []
  | s :: r => sn_du s ++ [(result_var i, x :: sn_value_uses s)] ++ branch_du (S i) x r
  end.
Definition message_du (x : string) (m : nat) : list (string * list string) :=
  map (fun j => (msg_var j, [x])) (seq 0 m)
  ++ (if Nat.eqb m 0 then [] else [("message_vars", map msg_var (seq 0 m))])
  ++ [("message", if Nat.eqb m 0 then [] else ["message_vars"])].
Definition rule_du (x : string) (branch : list snippet) (m : nat) : list (string * list string) :=
  [(x, [])] ++ branch_du 0 x branch ++ message_du x m ++ [("matches", "message" :: x :: map result_var (seq 0 (List.length branch)))].
