(* C15, prefixes: an executable test for "the same profile with its compact IRIs spelled differently" - a prefix renamed
   consistently, another prefix bound to the same namespace used here and there, the prefix table written in any way.
   Two trees pass when they have the same shape and the same scalars everywhere except
     - the `prefixes` tables (any two tables),
     - class names and datatypes: the two spellings must expand to the same IRI under the respective tables,
     - property paths (keys of propertyConstraints, arguments of the *Property constraints): the two texts must parse
       and expand to the same path,
     - messages (placeholders are spelled with prefixes too; the message is not part of the verdict compared here).
   Proofs/RespellProofs.v: trees that pass get the same verdict on every graph. *)
From ACV Require Import Base.Strs Model.Graph Model.PathGrammar Model.PathSem Model.Dnf Model.Rules Model.Report Model.Engine Model.Yaml Model.ProfileParser.
Local Open Scope string_scope.

Fixpoint ynode_eqb (a b : ynode) {struct a} : bool :=
  match a, b with
  | YScalar t v, YScalar t' v' => String.eqb t t' && String.eqb v v'
  | YMap l, YMap l' =>
      (fix go (l l' : list (string * ynode)) : bool :=
         match l, l' with
         | [], [] => true
         | (k, v) :: r, (k', v') :: r' => String.eqb k k' && ynode_eqb v v' && go r r'
         | _, _ => false
         end) l l'
  | YSeq l, YSeq l' =>
      (fix go (l l' : list ynode) : bool :=
         match l, l' with
         | [], [] => true
         | v :: r, v' :: r' => ynode_eqb v v' && go r r'
         | _, _ => false
         end) l l'
  | _, _ => false
  end.

Fixpoint path_eqb (p q : path) {struct p} : bool :=
  match p, q with
  | Pred i a b, Pred i' a' b' => String.eqb i i' && Bool.eqb a a' && Bool.eqb b b'
  | And l, And l' =>
      (fix go (l l' : list path) : bool :=
         match l, l' with [], [] => true | x :: r, y :: r' => path_eqb x y && go r r' | _, _ => false end) l l'
  | Or l, Or l' =>
      (fix go (l l' : list path) : bool :=
         match l, l' with [], [] => true | x :: r, y :: r' => path_eqb x y && go r r' | _, _ => false end) l l'
  | _, _ => false
  end.
Definition ppp_eqb (a b : presult path) : bool :=
  match a, b with
  | POk p, POk q => path_eqb p q
  | PError, PError => true
  | PUnsupported, PUnsupported => true
  | _, _ => false
  end.

Inductive pos := PExpr | PConstraints | PQualified.

Fixpoint forall2b {X} (h : X -> X -> bool) (a b : list X) : bool :=
  match a, b with [], [] => true | x :: r, x' :: r' => h x x' && forall2b h r r' | _, _ => false end.
(* two mappings with the same keys in the same order whose values are related, the relation depending on the key *)
Fixpoint entries_b (value : string -> ynode -> ynode -> bool) (l l' : list (string * ynode)) : bool :=
  match l, l' with
  | [], [] => true
  | (k, v) :: r, (k', v') :: r' => String.eqb k k' && value k v v' && entries_b value r r'
  | _, _ => false
  end.

Definition cmp_key (k : string) : bool :=
  existsb (String.eqb k) ["lessThanProperty"; "lessThanOrEqualsToProperty"; "equalsToProperty"; "disjointWithProperty"].
Definition sub_expr_key (k : string) : bool := existsb (String.eqb k) ["not"; "if"; "then"; "else"].

Section Respell.
Variables ctx ctx' : list (string * string).

Definition same_path_text (s s' : string) : bool := ppp_eqb (parse_property_path ctx s) (parse_property_path ctx' s').
Definition same_iri_text (s s' : string) : bool :=
  match expand_compact ctx s, expand_compact ctx' s' with
  | Some a, Some b => String.eqb a b
  | None, None => true
  | _, _ => false
  end.
(* a scalar holding a path / an IRI: both strings spelled alike-expanding, or the same node *)
Definition path_value (v v' : ynode) : bool :=
  match y_string v, y_string v' with
  | Some s, Some s' => same_path_text s s'
  | None, None => ynode_eqb v v'
  | _, _ => false
  end.
Definition iri_value (v v' : ynode) : bool :=
  match y_string v, y_string v' with
  | Some s, Some s' => same_iri_text s s'
  | None, None => ynode_eqb v v'
  | _, _ => false
  end.

Fixpoint respell_b (fuel : nat) (p : pos) (y y' : ynode) {struct fuel} : bool :=
  match fuel with
  | O => false
  | S n =>
    let value (k : string) (v v' : ynode) : bool :=
      match p with
      | PExpr =>
          if String.eqb k "propertyConstraints" then
            match v, v' with
            | YMap es, YMap es' =>
                forall2b (fun e e' : string * ynode => same_path_text (fst e) (fst e') && respell_b n PConstraints (snd e) (snd e')) es es'
            | _, _ => ynode_eqb v v'
            end
          else if String.eqb k "and" || String.eqb k "or" then
            match v, v' with YSeq a, YSeq b => forall2b (respell_b n PExpr) a b | _, _ => ynode_eqb v v' end
          else if sub_expr_key k then respell_b n PExpr v v'
          else if String.eqb k "targetClass" then iri_value v v'
          else if String.eqb k "message" then true
          else ynode_eqb v v'
      | PConstraints =>
          if cmp_key k then path_value v v'
          else if String.eqb k "datatype" then iri_value v v'
          else if String.eqb k "nested" then respell_b n PExpr v v'
          else if String.eqb k "atLeast" || String.eqb k "atMost" then respell_b n PQualified v v'
          else ynode_eqb v v'
      | PQualified =>
          if String.eqb k "validation" then respell_b n PExpr v v' else ynode_eqb v v'
      end in
    match y, y' with
    | YMap l, YMap l' => entries_b value l l'
    | _, _ => ynode_eqb y y'
    end
  end.
End Respell.

(* the whole document: any two prefix tables; everything else equal up to the respelling of IRIs inside validations *)
Definition respell_doc_b (defaults : list (string * string)) (doc doc' : ynode) : bool :=
  match doc, doc' with
  | YMap l, YMap l' =>
      match prefixes_of doc, prefixes_of doc' with
      | POk pfx, POk pfx' =>
          let ctx := context defaults pfx in
          let ctx' := context defaults pfx' in
          entries_b (fun k v v' =>
            if String.eqb k "prefixes" then true
            else if String.eqb k "validations" then
              match v, v' with
              | YMap vs, YMap vs' =>
                  forall2b (fun e e' : string * ynode =>
                              String.eqb (fst e) (fst e') && Nat.eqb (ysize (snd e)) (ysize (snd e'))
                              && respell_b ctx ctx' (S (ysize (snd e))) PExpr (snd e) (snd e')) vs vs'
              | _, _ => ynode_eqb v v'
              end
            else ynode_eqb v v') l l'
      | _, _ => false
      end
  | _, _ => false
  end.

(* the verdict without the message texts *)
Definition verdict_keys (defaults : list (string * string)) (doc : ynode) (g : graph) : presult (list (level * string * string)) :=
  match verdict defaults doc g with
  | POk l => POk (map (fun x : level * string * string * string => fst x) l)
  | PError => PError
  | PUnsupported => PUnsupported
  end.
