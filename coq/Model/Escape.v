(* How text taken from a profile is pasted into the generated Rego and what the engine reads back:
   generator/quote.go regoStringContent, expression.go sanitizedMessage, generator.go profileName /
   packageName, parser/profile/message.go ParseMessageExpression; the Rego (= JSON) string-literal
   scanner and sprintf with %v as the engine implements them for the texts we produce.
   Strings are byte sequences; every byte >= 0x80 is copied by all functions here, so UTF-8 text
   travels unchanged. *)
From ACV Require Import Base.Strs.
Local Open Scope string_scope.

Definition byte (c : ascii) : nat := nat_of_ascii c.
Definition chr (n : nat) : ascii := ascii_of_nat n.
Definition is_control (c : ascii) : bool := Nat.ltb (byte c) 32 || Nat.eqb (byte c) 127.

Definition hex_digit (n : nat) : ascii :=
  if Nat.ltb n 10 then chr (48 + n) else chr (87 + n).       (* 0-9, a-f *)
Definition hex_value (c : ascii) : option nat :=
  let b := byte c in
  if Nat.leb 48 b && Nat.leb b 57 then Some (b - 48)
  else if Nat.leb 97 b && Nat.leb b 102 then Some (b - 87)
  else if Nat.leb 65 b && Nat.leb b 70 then Some (b - 55)
  else None.

(* regoStringContent: one character *)
Definition escape_char (c : ascii) : string :=
  if Ascii.eqb c "\" then "\\"
  else if Ascii.eqb c """" then "\"""
  else if Ascii.eqb c "010" then "\n"
  else if Ascii.eqb c "013" then "\r"
  else if Ascii.eqb c "009" then "\t"
  else if is_control c then
    String "\" (String "u" (String "0" (String "0" (String (hex_digit (byte c / 16)) (String (hex_digit (byte c mod 16)) "")))))
  else String c "".

(* U+FEFF (bytes EF BB BF): the engine's scanner refuses a raw byte-order mark anywhere but at the very beginning of the module
   ("illegal byte-order mark"), inside string literals too; regoStringContent writes it as the escape \ufeff *)
Definition is_bom (a b c : ascii) : bool := Nat.eqb (byte a) 239 && Nat.eqb (byte b) 187 && Nat.eqb (byte c) 191.
Definition bom_escape : string := "\ufeff".
Fixpoint escape (s : string) : string :=
  match s with
  | EmptyString => EmptyString
  | String c1 r1 =>
      match r1 with
      | String c2 (String c3 r3) => if is_bom c1 c2 c3 then bom_escape ++ escape r3 else escape_char c1 ++ escape r1
      | _ => escape_char c1 ++ escape r1
      end
  end.
Definition starts_with_bom (s : string) : bool :=
  match s with
  | String a r =>
      if Nat.eqb (byte a) 239 then
        match r with
        | String b r' => if Nat.eqb (byte b) 187 then match r' with String c _ => Nat.eqb (byte c) 191 | EmptyString => false end else false
        | EmptyString => false
        end
      else false
  | EmptyString => false
  end.
Fixpoint has_bom (s : string) : bool :=
  match s with EmptyString => false | String _ r => starts_with_bom s || has_bom r end.

(* the engine's scanner: from just after an opening double quote to the closing one; result: the
   denoted text and the rest of the input after the closing quote.  Raw control characters, a raw end of
   input and unknown escapes are errors (what OPA's / JSON's string syntax says). *)
Fixpoint scan_literal (fuel : nat) (s : string) : option (string * string) :=
  match fuel with
  | O => None
  | S fuel =>
    match s with
    | EmptyString => None
    | String c r =>
      if starts_with_bom s then None            (* illegal byte-order mark *)
      else if Ascii.eqb c """" then Some ("", r)
      else if Ascii.eqb c "\" then
        match r with
        | String e r' =>
          let continue (d : ascii) (rest : string) :=
            match scan_literal fuel rest with Some (t, z) => Some (String d t, z) | None => None end in
          if Ascii.eqb e "\" then continue "\"%char r'
          else if Ascii.eqb e """" then continue """"%char r'
          else if Ascii.eqb e "/" then continue "/"%char r'
          else if Ascii.eqb e "n" then continue "010"%char r'
          else if Ascii.eqb e "r" then continue "013"%char r'
          else if Ascii.eqb e "t" then continue "009"%char r'
          else if Ascii.eqb e "b" then continue "008"%char r'
          else if Ascii.eqb e "f" then continue "012"%char r'
          else if Ascii.eqb e "u" then
            match r' with
            | String h1 (String h2 (String h3 (String h4 r''))) =>
              match hex_value h1, hex_value h2, hex_value h3, hex_value h4 with
              | Some 0, Some 0, Some a, Some b => if Nat.ltb (a * 16 + b) 128 then continue (chr (a * 16 + b)) r'' else None
              | Some 15, Some 14, Some 15, Some 15 =>       (* U+FEFF as UTF-8 *)
                  match scan_literal fuel r'' with
                  | Some (t, z) => Some (String (chr 239) (String (chr 187) (String (chr 191) t)), z)
                  | None => None
                  end
              | _, _, _, _ => None      (* code points >= 0x80 are never produced by [escape]; not modelled *)
              end
            | _ => None
            end
          else None
        | EmptyString => None
        end
      else if Nat.ltb (byte c) 32 then None
      else match scan_literal fuel r with Some (t, z) => Some (String c t, z) | None => None end
    end
  end.

(* ------------------------------------------------------------------ messages *)
Definition is_space (c : ascii) : bool :=
  existsb (Ascii.eqb c) [" "%char; "009"%char; "010"%char; "012"%char; "013"%char].
Definition is_word (c : ascii) : bool :=
  let b := byte c in
  (Nat.leb 48 b && Nat.leb b 57) || (Nat.leb 65 b && Nat.leb b 90) || (Nat.leb 97 b && Nat.leb b 122)
  || Ascii.eqb c "_" || Ascii.eqb c "-".

Fixpoint span (p : ascii -> bool) (s : string) : string * string :=
  match s with
  | String c r => if p c then let (a, b) := span p r in (String c a, b) else ("", s)
  | EmptyString => ("", "")
  end.

(* one attempt of the regular expression \{\{\s*([\w-]+\.[\w-]+)\s*}} at the head of s: the variable and the rest *)
Definition match_placeholder (s : string) : option (string * string) :=
  match s with
  | String c1 (String c2 r) =>
    if Ascii.eqb c1 "{" && Ascii.eqb c2 "{" then
      let (_, r1) := span is_space r in
      let (a, r2) := span is_word r1 in
      match a, r2 with
      | String _ _, String d r3 =>
        if Ascii.eqb d "." then
          let (b, r4) := span is_word r3 in
          match b with
          | String _ _ =>
            let (_, r5) := span is_space r4 in
            match r5 with
            | String e1 (String e2 r6) => if Ascii.eqb e1 "}" && Ascii.eqb e2 "}" then Some (a ++ "." ++ b, r6) else None
            | _ => None
            end
          | EmptyString => None
          end
        else None
      | _, _ => None
      end
    else None
  | _ => None
  end.

Inductive seg := Lit (c : ascii) | Var (name : string).

(* FindAllStringSubmatchIndex: leftmost, non-overlapping; text between matches stays *)
Fixpoint segments (fuel : nat) (s : string) : list seg :=
  match fuel with
  | O => []
  | S fuel =>
    match s with
    | EmptyString => []
    | String c r =>
      match match_placeholder s with
      | Some (v, rest) => Var v :: segments fuel rest
      | None => Lit c :: segments fuel r
      end
    end
  end.
Definition has_var (l : list seg) : bool := existsb (fun x => match x with Var _ => true | _ => false end) l.
Definition vars_of (l : list seg) : list string := flat_map (fun x => match x with Var v => [v] | _ => [] end) l.

(* ParseMessageExpression: the sprintf format (only when there is a placeholder) and the variable list *)
Definition format_of (l : list seg) : string :=
  fold_right (fun x acc => match x with
                           | Lit c => if Ascii.eqb c "%" then String "%" (String "%" acc) else String c acc
                           | Var _ => String "%" (String "v" acc)
                           end) "" l.
Definition literal_of (l : list seg) : string :=
  fold_right (fun x acc => match x with Lit c => String c acc | Var _ => acc end) "" l.

Definition quote_to_apostrophe (s : string) : string :=
  (fix go s := match s with EmptyString => EmptyString | String c r => String (if Ascii.eqb c """" then "'"%char else c) (go r) end) s.

(* what wrapBranch pastes between the quotes of `message := "..."` / `sprintf("...", message_vars)` *)
Definition message_expression (m : string) : string :=
  let l := segments (S (String.length m)) m in
  if has_var l then format_of l else m.
Definition message_variables (m : string) : list string := vars_of (segments (S (String.length m)) m).
Definition paste_message (m : string) : string := escape (quote_to_apostrophe (message_expression m)).

(* the engine's sprintf for the verbs we emit: %% is a percent sign, %v the next argument *)
Fixpoint sprintf_v (fuel : nat) (f : string) (args : list string) : string :=
  match fuel with
  | O => ""
  | S fuel =>
    match f with
    | EmptyString => ""
    | String "%" (String "%" r) => String "%" (sprintf_v fuel r args)
    | String "%" (String "v" r) =>
        match args with
        | a :: rest => a ++ sprintf_v fuel r rest
        | [] => "%!v(MISSING)" ++ sprintf_v fuel r []
        end
    | String c r => String c (sprintf_v fuel r args)
    end
  end.

(* what the report must show: the message as written, each placeholder replaced by the value (the caller
   supplies "null" for an absent property), double quotes shown as single quotes *)
Definition display (m : string) (value_of : string -> string) : string :=
  fold_right (fun x acc => match x with
                           | Lit c => String (if Ascii.eqb c """" then "'"%char else c) acc
                           | Var v => value_of v ++ acc
                           end) "" (segments (S (String.length m)) m).

(* what the engine computes from the generated lines *)
Definition rendered (m : string) (value_of : string -> string) : option string :=
  match scan_literal (S (S (String.length (paste_message m)))) (paste_message m ++ """") with
  | Some (text, _) =>
      if has_var (segments (S (String.length m)) m)
      then Some (sprintf_v (S (String.length text)) text (map value_of (message_variables m)))
      else Some text
  | None => None
  end.

(* profile name and validation name *)
Definition paste_name (s : string) : string := escape s.

(* packageName: "profile_" ++ lower-cased name with every maximal run of bytes outside [a-zA-Z0-9] replaced by "_" *)
Definition is_alnum (c : ascii) : bool :=
  let b := byte c in (Nat.leb 48 b && Nat.leb b 57) || (Nat.leb 65 b && Nat.leb b 90) || (Nat.leb 97 b && Nat.leb b 122).
Definition lower (c : ascii) : ascii := let b := byte c in if Nat.leb 65 b && Nat.leb b 90 then chr (b + 32) else c.
Fixpoint sanitize (in_run : bool) (s : string) : string :=
  match s with
  | EmptyString => EmptyString
  | String c r => if is_alnum c then String (lower c) (sanitize false r)
                  else if in_run then sanitize true r else String "_" (sanitize true r)
  end.
Definition package_name (name : string) : string := "profile_" ++ sanitize false name.
Definition ident_char (c : ascii) : bool :=
  let b := byte c in (Nat.leb 48 b && Nat.leb b 57) || (Nat.leb 97 b && Nat.leb b 122) || Ascii.eqb c "_".

(* ------------------------------------------------------------------ patterns and value lists *)
(* generator/pattern.go regoPatternLiteral: a regular expression is written as a raw string between backticks; one that
   contains a backtick cannot be, and is written as an escaped double-quoted string *)
Fixpoint has_backtick (s : string) : bool :=
  match s with EmptyString => false | String c r => Ascii.eqb c "`" || has_backtick r end.
Definition pattern_literal (p : string) : string :=
  if has_backtick p || has_bom p then String """" (escape p ++ """") else String "`" (p ++ "`").

(* the engine's two string syntaxes: a raw string runs to the next backtick, verbatim; a quoted one is scanned as above *)
Fixpoint scan_raw (s : string) : option (string * string) :=
  match s with
  | EmptyString => None
  | String c r => if starts_with_bom s then None
                  else if Ascii.eqb c "`" then Some ("", r)
                  else match scan_raw r with Some (t, z) => Some (String c t, z) | None => None end
  end.
Definition scan_string_term (fuel : nat) (s : string) : option (string * string) :=
  match s with
  | String c r => if Ascii.eqb c "`" then scan_raw r else if Ascii.eqb c """" then scan_literal fuel r else None
  | EmptyString => None
  end.

(* generator/quote.go regoStringSet: the values of containsAll / containsSome as a Rego SET literal; `{ }` would be the
   empty OBJECT, so the empty list is written set() *)
Definition join_quoted (l : list string) : string :=
  (fix go (l : list string) : string :=
     match l with
     | [] => ""
     | [x] => String """" (escape x ++ """")
     | x :: r => String """" (escape x ++ """") ++ "," ++ go r
     end) l.
Definition string_set_literal (l : list string) : string :=
  match l with [] => "set()" | _ => "{ " ++ join_quoted l ++ "}" end.
(* how the engine classifies a braces / set() term: by what follows the opening brace *)
Inductive term_kind := KSet | KObject | KOther.
Definition classify_collection (s : string) : term_kind :=
  match s with
  | String "s" (String "e" (String "t" (String "(" (String ")" _)))) => KSet
  | String "{" r =>
      (fix skip (fuel : nat) (r : string) : term_kind :=
         match fuel with
         | O => KOther
         | S fuel => match r with
                     | String " " r' => skip fuel r'
                     | String "}" _ => KObject            (* `{}` and `{ }` are the empty object *)
                     | String """" _ => KSet               (* an element follows (none of ours is a key: value pair) *)
                     | _ => KOther
                     end
         end) (S (String.length r)) r
  | _ => KOther
  end.

(* the engine reading n comma-separated string literals (the elements of a set / array literal) *)
Fixpoint scan_elements (fuel : nat) (n : nat) (s : string) : option (list string * string) :=
  match n with
  | O => Some ([], s)
  | S n' =>
    match s with
    | String """" r =>
        match scan_literal fuel r with
        | Some (x, rest) =>
            match n' with
            | O => Some ([x], rest)
            | S _ => match rest with
                     | String "," rest' => match scan_elements fuel n' rest' with Some (l, z) => Some (x :: l, z) | None => None end
                     | _ => None
                     end
            end
        | None => None
        end
    | _ => None
    end
  end.
Fixpoint max_length (l : list string) : nat := match l with [] => 0 | x :: r => Nat.max (String.length x) (max_length r) end.
