(* C10, beyond the counter: calls (compilations, validations) as threads over PRIVATE state plus the one shared cell the
   code has, the atomic name counter.  A thread's program is a list of operations:
     OLocal f : a step that reads and writes only the call's own state (its arguments, its parse tree, its buffers),
     OGen g   : a step that takes a fresh number from the shared counter (profile.Genvar) and continues with it.
   A schedule is any sequence of (thread, operation) pairs; [run] executes it on a world = counter + one private state per
   thread.  [alone] is one call by itself, fed a given list of numbers.
   The second half models what the classification of package-level variables rules out: a cell shared by the calls that one
   step writes and a later step of the same call reads (a package-level buffer, a cache keyed by too little). *)
From ACV Require Import Base.Strs.
Local Open Scope list_scope.

Section Threads.
Variable P : Type.

Inductive op := OLocal (f : P -> P) | OGen (g : nat -> P -> P).
Record world := { ctr : nat; priv : nat -> P }.
Definition upd (m : nat -> P) (t : nat) (v : P) : nat -> P := fun u => if Nat.eqb u t then v else m u.
Definition step (w : world) (t : nat) (o : op) : world :=
  match o with
  | OLocal f => {| ctr := ctr w; priv := upd (priv w) t (f (priv w t)) |}
  | OGen g => {| ctr := S (ctr w); priv := upd (priv w) t (g (S (ctr w)) (priv w t)) |}
  end.
Definition schedule := list (nat * op).
Definition run (w : world) (s : schedule) : world := fold_left (fun w to => step w (fst to) (snd to)) s w.
Definition program_of (t : nat) (s : schedule) : list op :=
  flat_map (fun to => if Nat.eqb (fst to) t then [snd to] else []) s.
(* the numbers thread t is handed by the schedule, in order, when the counter starts at c *)
Fixpoint handed (c : nat) (t : nat) (s : schedule) : list nat :=
  match s with
  | [] => []
  | (u, OLocal _) :: r => handed c t r
  | (u, OGen _) :: r => (if Nat.eqb u t then [S c] else []) ++ handed (S c) t r
  end.
(* one call by itself, fed the numbers [nums] *)
Fixpoint alone (p : P) (prog : list op) (nums : list nat) : P :=
  match prog with
  | [] => p
  | OLocal f :: r => alone (f p) r nums
  | OGen g :: r => match nums with n :: ns => alone (g n p) r ns | [] => p end
  end.
End Threads.
Arguments OLocal {P}. Arguments OGen {P}.
Arguments ctr {P}. Arguments priv {P}. Arguments run {P}. Arguments program_of {P}. Arguments handed {P}. Arguments alone {P}.
Arguments Build_world {P}.

(* ------------------------------------------------------------------ a shared cell written and read by the calls *)
(* each call: put its own text into the cell, later read the cell (what a package-level buffer does to two calls) *)
Inductive sop := SWrite (v : nat) | SRead.
Record sworld := { cell : nat; got : nat -> option nat }.
Definition sstep (w : sworld) (t : nat) (o : sop) : sworld :=
  match o with
  | SWrite v => {| cell := v; got := got w |}
  | SRead => {| cell := cell w; got := fun u => if Nat.eqb u t then Some (cell w) else got w u |}
  end.
Definition srun (w : sworld) (s : list (nat * sop)) : sworld := fold_left (fun w to => sstep w (fst to) (snd to)) s w.
Definition sprogram_of (t : nat) (s : list (nat * sop)) : list sop :=
  flat_map (fun to => if Nat.eqb (fst to) t then [snd to] else []) s.
