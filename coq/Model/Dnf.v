(* The rule AST of internal/parser/profile (negation flags pushed to the leaves by Negate()), and the
   generator's "failure DNF": Dispatch / GenerateAnd / GenerateOr (collectAllResults, filterSimpleResults,
   filterBranchesResult, expandBranches) / GenerateConditional / generateNested, over abstract atoms A,
   nodes N and paths P.  [Fpos a n] = the positive failure snippet of atom a fires at n, [Fneg a n] = its
   negated twin fires; [children p n] = the nodes a nested constraint ranges over.
   Proofs: Proofs/DnfProofs.v.  Instantiation with the documented constraints: Model/Rules.v. *)
From Coq Require Import List Bool Arith Lia.
Import ListNotations.
Set Implicit Arguments.

Section Dnf.
Variables (A N P : Type).
Variables (Fpos Fneg : A -> N -> bool).
Variable children : P -> N -> list N.

Inductive quant := QAll | QAtLeast (k:nat) | QAtMost (k:nat).

Inductive rule :=
| RAtom (neg:bool) (a:A)
| RAnd (neg:bool) (l:list rule)
| ROr (neg:bool) (l:list rule)
| RCond (neg:bool) (i t:rule) (e:option rule)
| RNested (neg:bool) (q:quant) (p:P) (r:rule).

Definition optQ (Q : rule -> Prop) (e : option rule) : Prop :=
  match e with Some e' => Q e' | None => True end.
Section rule_ind2.
  Variable Q : rule -> Prop.
  Hypothesis HAtom : forall n a, Q (RAtom n a).
  Hypothesis HAnd : forall n l, Forall Q l -> Q (RAnd n l).
  Hypothesis HOr : forall n l, Forall Q l -> Q (ROr n l).
  Hypothesis HCond : forall n i t e, Q i -> Q t -> optQ Q e -> Q (RCond n i t e).
  Hypothesis HNested : forall n q p r, Q r -> Q (RNested n q p r).
  Fixpoint rule_ind2 (r:rule) : Q r :=
    match r with
    | RAtom n a => HAtom n a
    | RAnd n l => @HAnd n l ((fix go l := match l return Forall Q l with [] => Forall_nil _ | x::xs => Forall_cons _ (rule_ind2 x) (go xs) end) l)
    | ROr n l => @HOr n l ((fix go l := match l return Forall Q l with [] => Forall_nil _ | x::xs => Forall_cons _ (rule_ind2 x) (go xs) end) l)
    | RCond n i t e => @HCond n i t e (rule_ind2 i) (rule_ind2 t)
         (match e as e1 return optQ Q e1 with
          | Some e0 => rule_ind2 e0
          | None => I
          end)
    | RNested n q p r => @HNested n q p r (rule_ind2 r)
    end.
End rule_ind2.

Fixpoint negate (r:rule) : rule :=
  match r with
  | RAtom n a => RAtom (negb n) a
  | RAnd _ l => ROr false (map negate l)
  | ROr _ l => RAnd false (map negate l)
  | RCond n i t e =>
      match e, n with
      | Some e', false => ROr false [RAnd false [i; negate t]; RAnd false [negate i; negate e']]
      | _, _ => RCond (negb n) i t None
      end
  | RNested n q p r => RNested (negb n) q p r
  end.

(* fuel measure for [disp] below (Proofs/DnfFuel.v: negation does not increase it, every recursive
   call of disp strictly decreases it) *)
Definition sum_with (f : rule -> nat) (l : list rule) : nat := fold_right (fun x acc => f x + acc) 0 l.
Fixpoint weight (r : rule) : nat :=
  match r with
  | RAtom _ _ => 1
  | RAnd _ l => 1 + sum_with weight l
  | ROr _ l => 1 + sum_with weight l
  | RCond _ i t None => 2 + weight i + weight t
  | RCond _ i t (Some e) => 4 + 2 * weight i + weight t + weight e
  | RNested _ _ _ r => 1 + weight r
  end.
Definition flag (r : rule) : nat :=
  match r with RAnd true _ | ROr true _ => 1 | _ => 0 end.
Definition mu (r : rule) : nat := 2 * weight r + flag r.

(* rules as the profile parser produces them *)
Fixpoint wf (r:rule) : bool :=
  match r with
  | RAtom _ _ => true
  | RAnd n l => negb n && negb (Nat.eqb (length l) 0) && forallb wf l
  | ROr n l => negb n && negb (Nat.eqb (length l) 0) && forallb wf l
  | RCond n i t e => wf i && wf t && match e with Some e' => negb n && wf e' | None => true end
  | RNested _ _ _ r => wf r
  end.

Definition qtest (q:quant) (total failing:nat) : bool :=
  match q with
  | QAll => Nat.eqb failing 0
  | QAtLeast k => Nat.leb k (total - failing)
  | QAtMost k => Nat.leb (total - failing) k
  end.

(* two-polarity literal-level semantics: rs true r = "r holds", rs false r = "not r holds" *)
Fixpoint rs (pol:bool) (r:rule) (n:N) {struct r} : bool :=
  match r with
  | RAtom neg a => if xorb (negb pol) neg then negb (Fneg a n) else negb (Fpos a n)
  | RAnd neg l => if xorb (negb pol) neg then existsb (fun r => rs false r n) l else forallb (fun r => rs true r n) l
  | ROr neg l => if xorb (negb pol) neg then forallb (fun r => rs false r n) l else existsb (fun r => rs true r n) l
  | RCond neg i t e =>
      match e with
      | None => if xorb (negb pol) neg then rs true i n && rs false t n else rs false i n || rs true t n
      | Some e' => if xorb (negb pol) neg then (rs true i n && rs false t n) || (rs false i n && rs false e' n)
                   else (rs false i n || rs true t n) && (rs true i n || rs true e' n)
      end
  | RNested neg q p r =>
      let cs := children p n in
      let failing := filter (fun c => negb (rs true r c)) cs in
      xorb (xorb (negb pol) neg) (qtest q (length cs) (length failing))
  end.

(* ---------------- generator model (Dispatch / GenerateAnd / GenerateOr / expandBranches / ...) *)
Inductive simple :=
| SAtom (neg:bool) (a:A)
| SNested (neg:bool) (q:quant) (p:P) (bs:list (list simple)).
Inductive gres := GSimple (s:simple) | GBranch (b:list simple).
Definition as_branch g := match g with GSimple s => [s] | GBranch b => b end.
Definition is_branch g := match g with GBranch _ => true | _ => false end.

Definition simples_of (r:list gres) : list simple :=
  flat_map (fun g => match g with GSimple s => [s] | _ => [] end) r.
Definition branches_of (r:list gres) : list (list simple) :=
  flat_map (fun g => match g with GBranch b => [b] | _ => [] end) r.
Definition simples (rs:list (list gres)) := flat_map simples_of rs.
Definition branchsets (rs:list (list gres)) : list (list (list simple)) :=
  flat_map (fun r => match branches_of r with [] => [] | bs => [bs] end) rs.
Definition expand_step (acc:list (list simple)) (branches:list (list simple)) :=
  flat_map (fun branch => map (fun src => src ++ branch) acc) branches.
Definition expand (S0:list simple) (bss:list (list (list simple))) : list (list simple) :=
  fold_left expand_step bss [S0].

Fixpoint all_with (d:rule -> option (list gres)) (l:list rule) : option (list (list gres)) :=
  match l with
  | [] => Some []
  | r::rs => match d r, all_with d rs with Some x, Some y => Some (x::y) | _, _ => None end
  end.

Fixpoint disp (fuel:nat) (r:rule) {struct fuel} : option (list gres) :=
  match fuel with
  | O => None
  | S fuel =>
    match r with
    | RAtom n a => Some [GSimple (SAtom n a)]
    | RAnd false l => option_map (fun rs => map (fun g => GBranch (as_branch g)) (concat rs)) (all_with (disp fuel) l)
    | RAnd true l => disp fuel (ROr false (map negate l))
    | ROr false l => option_map (fun rs => map GBranch (expand (simples rs) (branchsets rs))) (all_with (disp fuel) l)
    | ROr true l => disp fuel (RAnd false (map negate l))
    | RCond n i t e =>
        match disp fuel (ROr n [negate i; t]) with
        | None => None
        | Some a =>
            match e with
            | None => Some a
            | Some e' => match disp fuel (ROr n [i; e']) with None => None | Some b => Some (a ++ b) end
            end
        end
    | RNested n q p r => option_map (fun rs => [GBranch [SNested n q p (map as_branch rs)]]) (disp fuel r)
    end
  end.

Fixpoint fires (s:simple) (n:N) {struct s} : bool :=
  match s with
  | SAtom false a => Fpos a n
  | SAtom true a => Fneg a n
  | SNested neg q p bs =>
      let cs := children p n in
      let failing := filter (fun c => existsb (fun b => forallb (fun s' => fires s' c) b) bs) cs in
      let ok := qtest q (length cs) (length failing) in
      if neg then ok else negb ok
  end.
Definition fb (n:N) (b:list simple) := forallb (fun s => fires s n) b.
Definition reported (gs:list gres) (n:N) := existsb (fun g => fb n (as_branch g)) gs.

Definition shape (gs:list gres) : Prop :=
  (exists s, gs = [GSimple s]) \/ (gs <> [] /\ forallb is_branch gs = true).
Definition okl (l:list rule) : Prop := l <> [] /\ forallb wf l = true.
Definition okg (r:rule) : Prop :=
  wf r = true \/ (exists b l, (r = RAnd b l \/ r = ROr b l) /\ okl l).
Definition good (r:rule) (gs:list gres) : Prop :=
  shape gs /\ forall n, reported gs n = negb (rs true r n).

(* results of and/or are always branch results *)
End Dnf.

Arguments RAtom {A P}. Arguments RAnd {A P}. Arguments ROr {A P}. Arguments RCond {A P}. Arguments RNested {A P}.
Arguments SAtom {A P}. Arguments SNested {A P}. Arguments GSimple {A P}. Arguments GBranch {A P}.
