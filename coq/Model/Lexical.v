(* Lexical index and result locations: internal/validator/normalizer.go (Index: lexical index, createLocationIndex,
   addElementsOfLoc, LocationIndex.Location) and the preamble's location(): the first four maximal digit runs
   of the recorded range text, read as numbers. *)
From Coq Require Import NArith DecimalString DecimalN DecimalPos.
From ACV Require Import Base.Strs.
Local Open Scope string_scope.

Record lex_entry := { le_element : string; le_value : string }.          (* one sourcemaps:lexical entry *)
Record loc_node := { ln_location : string; ln_elements : list string }.  (* one doc:additionalLocations node *)
Record lex_input := {
  li_ids : list string;                       (* ids of the nodes of the graph (keys of @ids) *)
  li_source_maps : list (list lex_entry);     (* SourceMap nodes in graph order, each with its entries in order *)
  li_root : option string;                    (* rootLocation of the first BaseUnitSourceInformation, if any *)
  li_additional : list loc_node }.

(* maps are written in order, a later write for the same key wins: look up = last match *)
Definition last_match {X} (p : X -> bool) (l : list X) : option X := List.find p (rev l).

Definition location_pairs (inp : lex_input) : list (string * string) :=
  flat_map (fun ln => map (fun e => (e, ln_location ln)) (ln_elements ln)) (li_additional inp).
(* LocationIndex.Location *)
Definition location_of (inp : lex_input) (id : string) : string :=
  match last_match (fun p => String.eqb (fst p) id) (location_pairs inp) with
  | Some p => snd p
  | None => match li_root inp with Some r => r | None => "" end
  end.
(* input["@lexical"][id] = {range, uri}: only elements that are node ids are indexed *)
Definition lexical_lookup (inp : lex_input) (id : string) : option (string * string) :=
  if in_strs id (li_ids inp) then
    match last_match (fun e => String.eqb (le_element e) id) (List.concat (li_source_maps inp)) with
    | Some e => Some (le_value e, location_of inp id)
    | None => None
    end
  else None.

(* regex.find_n("\\d+", s, 4): maximal runs of decimal digits, left to right *)
Definition is_dig (c : ascii) : bool := Nat.leb 48 (nat_of_ascii c) && Nat.leb (nat_of_ascii c) 57.
Fixpoint runs_acc (cur : option string) (s : string) : list string :=
  match s with
  | EmptyString => match cur with Some r => [r] | None => [] end
  | String c t =>
      if is_dig c then runs_acc (Some (match cur with Some r => r ++ String c "" | None => String c "" end)) t
      else match cur with Some r => r :: runs_acc None t | None => runs_acc None t end
  end.
Definition digit_runs (s : string) : list string := runs_acc None s.
(* to_number on a digit string *)
Definition num (s : string) : N := match NilEmpty.uint_of_string s with Some d => N.of_uint d | None => 0%N end.
Definition extract4 (s : string) : option (N * N * N * N) :=
  match digit_runs s with
  | a :: b :: c :: d :: _ => Some (num a, num b, num c, num d)
  | _ => None
  end.

(* the location a result / trace about node id carries: uri and (start line, start column, end line, end column);
   None = the location-free variant of error() / trace() *)
Definition result_location (inp : lex_input) (id : string) : option (string * (N * N * N * N)) :=
  match lexical_lookup inp id with
  | Some (range, uri) => match extract4 range with Some r => Some (uri, r) | None => None end
  | None => None
  end.

(* how AMF writes a range *)
Definition dec_n (n : N) : string := NilEmpty.string_of_uint (N.to_uint n).
Definition render_range (l1 c1 l2 c2 : N) : string :=
  "[(" ++ dec_n l1 ++ "," ++ dec_n c1 ++ ")-(" ++ dec_n l2 ++ "," ++ dec_n c2 ++ ")]".
