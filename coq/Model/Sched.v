(* Shared state and iteration orders.
   (a) The only package-level variable written after initialisation is the Genvar counter
       (internal/parser/profile/vargenerator.go): threads = compilations, each a sequence of Genvar calls;
       a schedule interleaves them.  [atomic] = the counter is bumped with one fetch-and-add (as coded);
       the non-atomic variant (increment, then re-read) is what the code did before the repair.
   (b) Go map iteration order is unspecified: a `range` over a map is modelled as a loop over ANY
       permutation of its entries. *)
From Coq Require Import Permutation.
From ACV Require Import Base.Strs.
Local Open Scope list_scope.

(* ------------------------------------------------------------------ (a) the Genvar counter *)
Inductive action :=
| AGen                    (* atomic.AddInt64(&globalCounter, 1): bump and use the new value *)
| AInc | ARead            (* the two halves of the unsynchronised version: counter++ ; use counter *)
| AReset.                 (* GenReset: store 0 (never called by non-test code) *)

Record world := { counter : nat; handed : list (nat * nat) }.   (* (thread, number) in hand-out order *)

Definition step (w : world) (tid : nat) (a : action) : world :=
  match a with
  | AGen => {| counter := S (counter w); handed := handed w ++ [(tid, S (counter w))] |}
  | AInc => {| counter := S (counter w); handed := handed w |}
  | ARead => {| counter := counter w; handed := handed w ++ [(tid, counter w)] |}
  | AReset => {| counter := 0; handed := handed w |}
  end.

(* a schedule is the sequence of (thread, action) pairs in the order the processor executes them; it is an
   interleaving of the threads' programs when its projection on each thread is that thread's program *)
Definition schedule := list (nat * action).
Definition run (w : world) (s : schedule) : world := fold_left (fun w ta => step w (fst ta) (snd ta)) s w.
Definition program_of (tid : nat) (s : schedule) : list action :=
  flat_map (fun ta => if Nat.eqb (fst ta) tid then [snd ta] else []) s.
Definition only_gen (s : schedule) : bool := forallb (fun ta => match snd ta with AGen => true | _ => false end) s.
Definition numbers (w : world) : list nat := map snd (handed w).
Definition numbers_of (tid : nat) (w : world) : list nat :=
  flat_map (fun tn => if Nat.eqb (fst tn) tid then [snd tn] else []) (handed w).

(* ------------------------------------------------------------------ (b) loops over maps *)
(* a map under construction: association list, a later write for the same key wins *)
Definition amap (V : Type) := list (string * V).
Fixpoint lookup {V} (k : string) (m : amap V) : option V :=
  match m with [] => None | (k', v) :: r => if String.eqb k' k then Some v else lookup k r end.
Definition insert {V} (m : amap V) (kv : string * V) : amap V := kv :: m.
(* MergeObjectMap / the prefix merge of IriExpanderFrom: for k, v := range other { this[k] = v } *)
Definition merge_in_order {V} (this : amap V) (entries : list (string * V)) : amap V := fold_left insert entries this.
