(* The property-path grammar of internal/parser/path/peg.go (as pigeon generated it from
   third_party/propertyparser.peg), the actions of the .peg file and parser.go's build/ParsePath.
   Tie: Tie/PegTie.v proves [extracted_grammar = path_grammar] for the grammar literal the translator
   reads out of peg.go on every run. *)
From ACV Require Import Base.Strs Model.Peg.

Definition az := ("a"%char, "z"%char).
Definition AZ := ("A"%char, "Z"%char).
Definition d09 := ("0"%char, "9"%char).
Definition ws_chars : list ascii := [" "%char; "010"%char; "009"%char; "013"%char].

Definition path_grammar : grammar :=
  [ ("Expression", PAct "Expression1" (PSeq [PRef "Term"; PStar (PSeq [PRef "_"; PLit "/"; PRef "_"; PRef "Term"])]));
    ("Term", PAct "Term1" (PSeq [PRef "Factor"; PStar (PSeq [PRef "_"; PLit "|"; PRef "_"; PRef "Factor"])]));
    ("Factor", PChoice [PAct "Factor2" (PSeq [PLit "("; PRef "_"; PRef "Expression"; PRef "_"; PLit ")"]);
                        PRef "Iri";
                        PAct "Factor11" (PLit "@type")]);
    ("Iri", PAct "Iri1" (PSeq [PPlus (PClass ["_"%char; "-"%char] [az; AZ; d09]);
                              PLit ".";
                              PPlus (PClass ["."%char; "\"%char; "/"%char; "_"%char; "-"%char] [az; AZ; d09]);
                              PRef "_";
                              POpt (PClass [""""%char; "^"%char; """"%char; ","%char; """"%char; "*"%char; """"%char] [])]));
    ("_", PStar (PClass ws_chars [])) ].

(* the AST parser.go's build produces: Property / AndPath / OrPath (NullPath for the empty string) *)
Inductive path :=
| Pred (iri : string) (inverse transitive : bool)
| And (l : list path)
| Or (l : list path).

(* the 4th element of each `_ op _ X` tail tuple: e[3] in the actions *)
Definition tail_item (e : tree) : tree := match e with TList [_; _; _; x] => x | _ => TNil end.

(* actions onExpression1 / onTerm1 / onFactor2 / onFactor11 / onIri1 followed by build();
   structural recursion on the tree is hidden in [all], so fuel = tree depth bound *)
Fixpoint build (fuel : nat) (t : tree) : option path :=
  match fuel with
  | O => None
  | S fuel =>
    let all := fix all (l : list tree) : option (list path) :=
      match l with
      | [] => Some []
      | t :: l' => match build fuel t, all l' with Some p, Some ps => Some (p :: ps) | _, _ => None end
      end in
    match t with
    | TAct "Expression1" (TList [hd; TList tails]) =>
        match all (hd :: map tail_item tails) with
        | Some [p] => Some p
        | Some ps => Some (And ps)
        | None => None
        end
    | TAct "Term1" (TList [hd; TList tails]) =>
        match all (hd :: map tail_item tails) with
        | Some [p] => Some p
        | Some ps => Some (Or ps)
        | None => None
        end
    | TAct "Factor2" (TList [_; _; e; _; _]) => build fuel e
    | TAct "Factor11" _ => Some (Pred "@type" false false)
    | TAct "Iri1" (TList [ns; _; prop; _; md]) =>
        (* the classes of ns/prop contain neither ^ nor *, so Inverse/Transitive come from mod only *)
        Some (Pred (text ns ++ "." ++ text prop) (String.eqb (text md) "^") (String.eqb (text md) "*"))
    | _ => None
    end
  end.

Fixpoint tree_depth (t : tree) : nat :=
  match t with
  | TStr _ | TNil => 1
  | TList l => S (fold_right (fun t acc => Nat.max (tree_depth t) acc) 0 l)
  | TAct _ t => S (tree_depth t)
  end.

(* strings.Trim(path, " \n\t\r") *)
Definition is_ws (c : ascii) : bool := existsb (Ascii.eqb c) ws_chars.
Fixpoint ltrim (s : string) : string :=
  match s with
  | String c s' => if is_ws c then ltrim s' else s
  | EmptyString => EmptyString
  end.
Fixpoint srev_acc (s acc : string) : string :=
  match s with EmptyString => acc | String c s' => srev_acc s' (String c acc) end.
Definition srev (s : string) : string := srev_acc s "".
Definition trim (s : string) : string := srev (ltrim (srev (ltrim s))).

Inductive parsed := Null | Accept (p : path) | Reject | Exhausted.

(* ParsePath after the end-of-input repair: empty string -> NullPath; otherwise the trimmed text must
   be consumed entirely by the start rule.  [anchored] = parser.go checks the final offset
   (regenerated fact); without it the unconsumed rest is ignored, as before the repair. *)
Definition parse_path_with (anchored : bool) (fuel : nat) (s : string) : parsed :=
  match s with
  | EmptyString => Null
  | _ =>
    let d := trim s in
    match interp path_grammar fuel (PRef "Expression") d with
    | Ok t rest =>
        if anchored && negb (String.eqb rest "") then Reject
        else match build (S (tree_depth t)) t with Some p => Accept p | None => Reject end
    | Fail => Reject
    | OutOfFuel => Exhausted
    end
  end.

Definition default_fuel (s : string) : nat := 40 * (String.length s + 2).
Definition parse_path (s : string) : parsed := parse_path_with true (default_fuel s) s.

(* ------------------------------------------------------------------ specification side (C16)
   A string is a sentence with structure p when its trimmed text derives, in the relational PEG
   semantics, from the start rule with NOTHING left over, and the actions build p from the tree. *)
Definition Sentence (s : string) (p : path) : Prop :=
  s <> "" /\ exists t, ev path_grammar (PRef "Expression") (trim s) (OOk t "")
                       /\ build (S (tree_depth t)) t = Some p.
