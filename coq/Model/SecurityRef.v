(* the one compile call of process_profile.go as it was when Model/Security.v was written *)
From Coq Require Import List String.
Import ListNotations.
Open Scope string_scope.
Definition ref_rego_new_args : list string := ["query"; "module"; "unsafeBuiltins"].
Definition ref_module_expr : string := "rego.Module(regoUnit.Name+"".rego"", regoUnit.Code)".
Definition ref_unsafe_expr : string := "rego.UnsafeBuiltins(unsafeBuiltinsMap)".
Definition ref_query_expr : string := "rego.Query(""data."" + regoUnit.Name + ""."" + regoUnit.Entrypoint)".
